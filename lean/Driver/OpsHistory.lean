import RModel.Base.Bytes
import RModel.Model.History
import RModel.Model.HistoryTree
import RModel.Model.HistoryTreeDir
/-
  driver operation for the history model (C10)

    histrun T <n> (<name-hex> <content-hex>){n} <cmd>*
      cmd = tick | ren:<search-hex>:<replace-hex> | undo:latest | undo:<k> | redo:latest | redo:<k>
      <k> = canonical index (first appearance in history.json) of the id addressed; an index that does not
            exist yet addresses an id that is not in the history
    result: one piece per non-tick command, separated by blanks:
      <ok|err>;<entries>;<tree>
      entries = comma-separated  a<k> (plan id) | v<k>:<j> (revert of j) | d<k>:<j> (redo of j), `-` when empty
      tree    = comma-separated  <name-hex>=<content-hex> in name order, `-` when empty
-/
open B History

namespace OpsHistory

abbrev HId := History.EId HistoryTree.H
abbrev FTree := List (Bytes × Bytes)

section
variable {Plan Backup : Type}
abbrev HW (Plan Backup : Type) := History.World FTree Plan Backup HistoryTree.H

def idsOf (w : HW Plan Backup) : List HId := w.entries.map (·.id)

def idxOf (ids : List HId) (i : HId) : String :=
  match ids.findIdx? (· == i) with
  | some k => toString k
  | none => "?"

def showEntry (ids : List HId) (e : Entry HistoryTree.H) : String :=
  let k := idxOf ids e.id
  match e.revertOf, e.id with
  | some o, _ => s!"v{k}:{idxOf ids o}"
  | none, .redo o _ => s!"d{k}:{idxOf ids o}"
  | none, _ => s!"a{k}"

def showEntries (w : HW Plan Backup) : String :=
  if w.entries.isEmpty then "-" else ",".intercalate (w.entries.map (showEntry (idsOf w)))

def showTree (t : FTree) : String :=
  if t.isEmpty then "-" else ",".intercalate (t.map (fun e => s!"{hexOrDash e.1}={hexOrDash e.2}"))

def showOutcome : Outcome → String
  | .ok => "ok"
  | .noop => "ok"
  | .rejected => "err"
  | .failed => "err"

/-- an id that is never in the history -/
def noId : HId := .plan ([], 0)

def target? (w : HW Plan Backup) (s : String) : Option (Target HistoryTree.H) :=
  if s == "latest" then some .latest
  else match s.toNat? with
    | some k => some (.id ((idsOf w)[k]?.getD noId))
    | none => none

def cmd? (w : HW Plan Backup) (s : String) : Option (Cmd HistoryTree.H) :=
  match s.splitOn ":" with
  | ["tick"] => some .tick
  | ["ren", a, b] =>
    match ofHex a, ofHex b with
    | some a, some b => some (.rename a b)
    | _, _ => none
  | ["undo", t] => (target? w t).map .undo
  | ["redo", t] => (target? w t).map .redo
  | _ => none

def runCmds (ops : Ops FTree Plan Backup HistoryTree.H) : HW Plan Backup → List String → List String → Option (List String)
  | _, [], acc => some acc.reverse
  | w, c :: cs, acc =>
    match cmd? w c with
    | none => none
    | some .tick => runCmds ops (step .current ops w .tick).1 cs acc
    | some cmd =>
      let r := step .current ops w cmd
      runCmds ops r.1 cs (s!"{showOutcome r.2};{showEntries r.1};{showTree r.1.tree}" :: acc)
end

def file? : List String → Option ((Bytes × Bytes) × List String)
  | n :: c :: rest =>
    match ofHex n, ofHex c with
    | some n, some c => some ((n, c), rest)
    | _, _ => none
  | _ => none

def many {α} (f : List String → Option (α × List String)) : Nat → List String → Option (List α × List String)
  | 0, fs => some ([], fs)
  | n + 1, fs =>
    match f fs with
    | none => none
    | some (a, rest) =>
      match many f n rest with
      | none => none
      | some (as, rest') => some (a :: as, rest')

/-- a workspace with a `/` in some file name runs on the directory instance, a flat one on the flat instance -/
def histrun : List String → String
  | "T" :: n :: rest =>
    match n.toNat? with
    | none => "bad-req"
    | some k =>
      match many file? k rest with
      | none => "bad-req"
      | some (files, cmds) =>
        let out :=
          if files.any (fun f => f.1.contains 47) then
            runCmds HistoryTreeDir.ops (HistoryTreeDir.start files 1000) cmds []
          else runCmds HistoryTree.ops (HistoryTree.start files 1000) cmds []
        match out with
        | none => "bad-req"
        | some [] => "-"
        | some out => " ".intercalate out
  | _ => "bad-req"

def dispatch : List String → Option String
  | "histrun" :: rest => some (histrun rest)
  | _ => none

end OpsHistory
