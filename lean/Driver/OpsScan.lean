import RModel.Model.Scan
/- driver operations for the planning / previewing model (C14)

   c14prog <plan|search|rename|replace> <dry 0|1> <renamifyExists 0|1> <autoInit 0|1> <probe 0|1>
   ->  the effect list of `Scan.program`, one `op:path[:path2]` per effect, in the vocabulary of shim.abstract
       (`-` for the empty program)
-/
open Scan

namespace OpsScan

def pathName : P → String
  | .renamifyDir => ".renamify"
  | .lock => ".renamify/renamify.lock"
  | .lockTmp => ".renamify/renamify.lock.PID.tmp"
  | .planFile => ".renamify/plan.json"
  | .probeDir => ".tmpRAND"
  | .probeFile => ".tmpRAND/test_case_a"
  | .ignoreTmp => ".gitignore.tmp"
  | .ignoreFile => ".gitignore"
  | .user n => s!"user{n}"

def opName : FsOp → String
  | .mkdir p => s!"mkdir:{pathName p}"
  | .openw p => s!"openw:{pathName p}"
  | .write p => s!"write:{pathName p}"
  | .unlink p => s!"unlink:{pathName p}"
  | .rmdir p => s!"rmdir:{pathName p}"
  | .rename a b => s!"rename:{pathName a}:{pathName b}"
  | .link a b => s!"link:{pathName a}:{pathName b}"

def cmdOf : String → Option Cmd
  | "plan" => some .plan
  | "search" => some .search
  | "rename" => some .rename
  | "replace" => some .replace
  | _ => none

def bit : String → Option Bool
  | "0" => some false
  | "1" => some true
  | _ => none

def dispatch : List String → Option String
  | ["c14prog", cmd, dry, ex, ai, pr] =>
    match cmdOf cmd, bit dry, bit ex, bit ai, bit pr with
    | some c, some d, some e, some a, some p =>
      let prog := program ⟨c, d, e, a, p⟩
      some (if prog.isEmpty then "-" else " ".intercalate (prog.map opName))
    | _, _, _, _, _ => some "bad-req"
  | "c14prog" :: _ => some "bad-req"
  | _ => none

end OpsScan
