import RModel.Base.Bytes
import RModel.Model.Cli
import RModel.Gen.CliGrammar
import RModel.Gen.Wrappers
import RModel.Model.WrappersKnown
/- driver operation `clap <hex-arg>*` (C20): the Lean model of clap on the generated grammar;
   prints the same canonical line as harness/src/ops_clap.rs -/
open B

namespace OpsClap

def strOf (b : Cli.Str) : String := String.ofList (b.map Char.ofNat)

def hexStr (b : Cli.Str) : String := hexOrDash (b.map UInt8.ofNat)

def showVal : Cli.Val → String
  | .flag b => if b then "true" else "false"
  | .count n => toString n
  | .vals [] => "none"
  | .vals vs => ",".intercalate (vs.map hexStr)

def showParsed (p : Cli.Parsed) : String :=
  let items := p.top.map (fun e => s!"g.{strOf e.1}={showVal e.2}") ++
               p.args.map (fun e => s!"{strOf e.1}={showVal e.2}")
  let sorted := items.mergeSort (fun a b => decide (a ≤ b))
  (s!"ok {strOf p.sub} " ++ " ".intercalate sorted).trimAsciiEnd.toString

def parseArgs : List String → Option (List Cli.Str)
  | [] => some []
  | f :: rest =>
    match ofHex f, parseArgs rest with
    | some b, some r => some (b.map (·.toNat) :: r)
    | _, _ => none

def clap (fields : List String) : String :=
  match parseArgs fields with
  | none => "bad-req"
  | some argv =>
    match Cli.accepts Gen.CliGrammar.grammar argv with
    | .ok p => showParsed p
    | .error e => s!"err {e.name}"

def showValue : Wrap.Value → String
  | .undef => "u"
  | .bool b => if b then "T" else "F"
  | .str s => s!"s:{hexStr s}"
  | .num n => s!"n:{n}"
  | .list l => "l:" ++ ",".intercalate (l.map hexStr)

def builderAt (i : Nat) : Option Wrap.Builder := Gen.Wrappers.builders[i]?

/-- `c20n` -> sizes of the enumerated space per builder: `<wrapper>.<name>:<fields ;-separated>:<n>:<core n>` -/
def liveNow : List Cli.Str := Wrap.liveSlugsOf Gen.CliGrammar.grammar Gen.Wrappers.builders

/-- `c20live` -> slugs of the `knownBad` entries that reproduce on the current sources (`-` = none) -/
def c20live : String :=
  match liveNow with
  | [] => "-"
  | l => " ".intercalate (l.map strOf)

def c20n : String :=
  let live := liveNow
  " ".intercalate (Gen.Wrappers.builders.map (fun b =>
    s!"{strOf b.wrapper}.{strOf b.name}:{";".intercalate (b.fields.map (fun f => strOf f.name))}:{(Wrap.enumerate b).length}:{(Wrap.core live b).length}"))

def showCase (live : List Cli.Str) (b : Wrap.Builder) (v : Wrap.Valuation) : String :=
  let argv := Wrap.build b v
  let slug := match Wrap.badFor live b v with
    | some e => strOf e.slug
    | none => "-"
  let res := match Cli.accepts Gen.CliGrammar.grammar argv with
    | .ok p => if Wrap.means Gen.CliGrammar.grammar p (Wrap.intent b v) then "ok" else "misread"
    | .error e => e.name
  s!"{strOf b.wrapper}.{strOf b.name} {slug} {res} {";".intercalate (v.map showValue)} " ++ " ".intercalate (argv.map hexStr)

/-- `c20case <builder index> <case index>` (index into `enumerate`), `c20core <builder index> <case index>` -/
def c20case (core : Bool) : List String → String
  | [bi, ci] =>
    match bi.toNat?, ci.toNat? with
    | some bi, some ci =>
      match builderAt bi with
      | none => "bad-req"
      | some b =>
        let live := liveNow
        match (if core then Wrap.core live b else Wrap.enumerate b)[ci]? with
        | none => "bad-req"
        | some v => showCase live b v
    | _, _ => "bad-req"
  | _ => "bad-req"

/-- `c20all <builder index>`: every case of `enumerate` on one line, separated by ` | ` -/
def c20all (core : Bool) : List String → String
  | [bi] =>
    match bi.toNat? with
    | some bi =>
      match builderAt bi with
      | none => "bad-req"
      | some b =>
        let live := liveNow
        " | ".intercalate ((if core then Wrap.core live b else Wrap.enumerate b).map (showCase live b))
    | none => "bad-req"
  | _ => "bad-req"

def dispatch : List String → Option String
  | "c20all" :: rest => some (c20all false rest)
  | "c20allcore" :: rest => some (c20all true rest)
  | "clap" :: rest => some (clap rest)
  | "c20n" :: _ => some c20n
  | "c20live" :: _ => some c20live
  | "c20case" :: rest => some (c20case false rest)
  | "c20core" :: rest => some (c20case true rest)
  | _ => none

end OpsClap
