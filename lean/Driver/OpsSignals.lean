import RModel.Model.Signals
/- driver operations for the signal model (C13)

   c13run <prog> <res> <k|-> <INT|TERM> <rep>
     prog : one letter per mutating call of the traced command, in order:
              L lock created   U lock removed   u user-tree call   h history.json written   o anything else
            and `P` for the confirmation prompt (guard on … guard off)
     k    : the signal events are inserted immediately before letter k (for `P`: while the prompt is active;
            k = length: after the last letter); prog `-` = the empty program
   ->  status=<n> calls=<n> lock=<0|1> history=<n> user=<n> exited=<0|1>
-/
open Signals

namespace OpsSignals

def itemsOf (c : Char) (n : Nat) : Option (List (Item Eff)) :=
  match c with
  | 'L' => some [.eff .lockCreate]
  | 'U' => some [.eff .lockRemove]
  | 'u' => some [.eff (.user n)]
  | 'h' => some [.eff .history]
  | 'o' => some [.eff .other]
  | 'P' => some [.promptOn, .promptOff]
  | _ => none

def build (prog : List Char) (k : Option Nat) (sigs : List (Item Eff)) : Option (List (Item Eff)) :=
  let rec go (cs : List Char) (j : Nat) : Option (List (Item Eff)) :=
    match cs with
    | [] => some (if k == some j then sigs else [])
    | c :: r =>
      match itemsOf c j, go r (j + 1) with
      | some its, some rest =>
        if k == some j then
          (if c == 'P' then some (.promptOn :: sigs ++ .promptOff :: rest) else some (sigs ++ its ++ rest))
        else some (its ++ rest)
      | _, _ => none
  go prog 0

def sigOf : String → Option Sig
  | "INT" => some .int
  | "TERM" => some .term
  | _ => none

def b01 (b : Bool) : String := if b then "1" else "0"

def dispatch : List String → Option String
  | ["c13run", prog, res, k, sg, rep] =>
    match res.toNat?, sigOf sg, rep.toNat? with
    | some res, some s, some rep =>
      let kk := k.toNat?
      if k != "-" && kk.isNone then some "bad-req" else
      match build (if prog == "-" then [] else prog.toList) kk (List.replicate rep (.sig s)) with
      | some items =>
        let r := run genHandlers apEff relWorld {} items
        some s!"status={genStatus res r} calls={r.world.calls} lock={b01 r.world.lock} history={r.world.history} user={r.world.user.length} exited={b01 r.exited.isSome}"
      | none => some "bad-req"
    | _, _, _ => some "bad-req"
  | "c13run" :: _ => some "bad-req"
  | _ => none

end OpsSignals
