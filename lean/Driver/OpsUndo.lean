import RModel.Base.Bytes
import RModel.Model.Fs
import RModel.Model.Apply
import RModel.Model.Patch
import RModel.Model.Undo
import Driver.Wire
/- driver operations for the undo / patch models (C01) -/
open B Fs

namespace OpsUndo

def showUndo : Undo.Outcome → String
  | .ok => "ok"
  | .renameFailed _ => "renamefailed"
  | .patchFailed n => s!"patchfailed{n}"

def endsWithRej (p : Path) : Bool :=
  match p.getLast? with
  | some n => [46, 114, 101, 106].isSuffixOf n
  | none => false

/-- `.rej` files that were not in the input tree hold the patch text, which depends on Myers' diff:
    both sides print them with empty content -/
def canonRej (t0 t : Tree) : Tree :=
  t.map (fun e =>
    if endsWithRej e.1 && (lookup t0 e.1).isNone then
      (match e.2 with | .file _ m => (e.1, Node.file [] m) | n => (e.1, n))
    else e)

/-- `applyundo T n … H n … R n …` → `<apply outcome> <undo outcome | -> <user tree>` -/
def applyundo (fs : List String) : String :=
  match Wire.tree? fs with
  | none => "bad-req"
  | some (t, r1) =>
    match Wire.hunks? r1 with
    | none => "bad-req"
    | some (hs, r2) =>
      match Wire.rens? r2 with
      | some (rs, []) =>
        let plan : Apply.Plan := { hunks := hs, rens := rs }
        let a := Undo.applyFull Undo.driverCfg t plan
        (match a.result.outcome with
        | .ok =>
          let u := Undo.undoRenaming Undo.driverCfg a.result.tree rs a.patches
          s!"ok {showUndo u.outcome} {Wire.showTree (canonRej t u.tree)}"
        | o => s!"{Wire.showOutcome o} - {Wire.showTree a.result.tree}")
      | _ => "bad-req"

/-- `patchrt <patch>` → `ok <fmt (parse patch)>` | `err <message>` -/
def patchrt : List String → String
  | [p] =>
    match ofHex p with
    | none => "bad-req"
    | some text =>
      match Patch.parse text with
      | .ok pt => s!"ok {hexOrDash (Patch.fmt pt)}"
      | .error e => s!"err {hexOrDash (ofString e.msg)}"
  | _ => "bad-req"

/-- `papply <patch> <base>` → `ok <result>` | `applyfail` | `err <message>` -/
def papply : List String → String
  | [p, b] =>
    match ofHex p, ofHex b with
    | some text, some base =>
      match Patch.parse text with
      | .error e => s!"err {hexOrDash (ofString e.msg)}"
      | .ok pt =>
        match Patch.patchApply pt base with
        | some r => s!"ok {hexOrDash r}"
        | none => "applyfail"
    | _, _ => "bad-req"
  | _ => "bad-req"

/-- `rewrite <patch> <from> <to>` → `replace_patch_headers` -/
def rewrite : List String → String
  | [p, a, b] =>
    match ofHex p, ofHex a, ofHex b with
    | some text, some a, some b => hexOrDash (Patch.rewriteHeaders text a b)
    | _, _, _ => "bad-req"
  | _ => "bad-req"

/-- `pnames <patch>` → `ok <old name | none> <new name | none>` | `err <message>` -/
def pnames : List String → String
  | [p] =>
    match ofHex p with
    | none => "bad-req"
    | some text =>
      match Patch.parse text with
      | .ok pt =>
        let sh : Option Bytes → String := fun o => match o with | some n => "s" ++ hexOrDash n | none => "none"
        s!"ok {sh pt.old} {sh pt.new}"
      | .error e => s!"err {hexOrDash (ofString e.msg)}"
  | _ => "bad-req"

def dispatch : List String → Option String
  | "applyundo" :: rest => some (applyundo rest)
  | "patchrt" :: rest => some (patchrt rest)
  | "papply" :: rest => some (papply rest)
  | "rewrite" :: rest => some (rewrite rest)
  | "pnames" :: rest => some (pnames rest)
  | _ => none

end OpsUndo
