import RModel.Base.Bytes
import RModel.Model.CaseModel
import RModel.Model.LinePipeline
import RModel.Model.LineEnv
import RModel.Model.Resolver
import RModel.Gen.Styles
import Driver.OpsCase
import Driver.OpsLine
/-
  driver operations for the resolver's context heuristics (C06, clause 3); mirror of harness/src/ops_resolver.rs

    resolvewhy <hex path> <hex file content|none> <hex line> <pos> <hex matched> <hex replacement> <reps>
        `Resolver.resolveWhy` on the context `generate_hunks` builds (`project_root: None`)
        -> `w <notambiguous|language|file|cross|fallback> <style>[|<style>…]`; when the file-context level answers, ALL
           answers it can give over the iteration orders of its `HashMap` (`Resolver.fileChoices`), sorted by name
    langsuggest <hex path> <hex preceding text> <names>   `Resolver.langSuggest`   -> `g <style|none>`
    filesuggest <hex file content> <names> <reps>          `Resolver.fileChoices`   -> `q <style|none>[|…]`
    hunkctx <hex path> <hex file content> <hex line> <col> <hex variant> <hex replacement>
        model only: the replacement text of the hunk for an AMBIGUOUS exact match at byte column <col> of <line> (with its
        terminator) — `LinePipeline.hunkReplacement` with `heur := Resolver.heurReal …` and the real coercion decision
        -> `h <hex text>` (`h notambiguous` when the variant is not ambiguous: that branch needs the variant map)
-/
open B CaseModel LinePipeline

namespace OpsResolver

def insertName (s : String) : List String → List String
  | [] => [s]
  | x :: xs => if s < x then s :: x :: xs else if s == x then x :: xs else x :: insertName s xs

def showSet (l : List Style) : String :=
  "|".intercalate ((l.map OpsCase.styleName).foldr insertName [])

def methodName : Resolver.Method → String
  | .notAmbiguous => "notambiguous" | .language => "language" | .file => "file" | .cross => "cross" | .fallback => "fallback"

def noCross : Bytes → Bytes → Bytes → List Style → Option Style := fun _ _ _ _ => none

def optContent (s : String) : Option (Option Bytes) :=
  if s == "none" then some none else (ofHex s).map some

def dispatch : List String → Option String
  | ["resolvewhy", hp, hc, hl, pos, hm, hr, _reps] =>
    match ofHex hp, optContent hc, ofHex hl, pos.toNat?, ofHex hm, ofHex hr with
    | some path, some content, some line, some pos, some m, some r =>
      let A := OpsCase.A
      let ctx : Resolver.Ctx := { path := some path, content := content, line := some line, pos := some pos, root := none }
      let why := Resolver.resolveWhy A [] noCross ctx m r (filterCompatible A r Gen.allStyles)
      let styles :=
        match why.1, content with
        | .file, some c =>
          -- the set of answers over the orders the code can walk the counts in: one order when it is the canonical one
          if Gen.fileContextCanonicalOrder then (Resolver.fileSuggest A [] c (filterCompatible A m Gen.allStyles)).toList
          else Resolver.fileChoices A c (filterCompatible A m Gen.allStyles)
        | _, _ => [why.2]
      some s!"w {methodName why.1} {showSet styles}"
    | _, _, _, _, _, _ => some "bad-req"
  | ["langsuggest", hp, hpre, names] =>
    match ofHex hp, ofHex hpre, OpsLine.names names with
    | some path, some pre, some poss =>
      some (match Resolver.langSuggest path pre poss with
        | some s => s!"g {OpsCase.styleName s}"
        | none => "g none")
    | _, _, _ => some "bad-req"
  | ["filesuggest", hc, names, _reps] =>
    match ofHex hc, OpsLine.names names with
    | some content, some poss =>
      let l := if Gen.fileContextCanonicalOrder then (Resolver.fileSuggest OpsCase.A [] content poss).toList
               else Resolver.fileChoices OpsCase.A content poss
      some (if l.isEmpty then "q none" else s!"q {showSet l}")
    | _, _ => some "bad-req"
  | ["hunkctx", hp, hc, hl, col, hv, hr] =>
    match ofHex hp, ofHex hc, ofHex hl, col.toNat?, ofHex hv, ofHex hr with
    | some path, some content, some line, some col, some v, some r =>
      let A := OpsCase.A
      if !isAmbiguous A v Gen.allStyles then some "h notambiguous"
      else
        let env : Env :=
          { heur := Resolver.heurReal A [] path content line col
            coerce := coerceReal coerceTables
            compound := fun _ => [] }
        some (match hunkReplacement A env [] line col v r with
          | some t => s!"h {hexOrDash t}"
          | none => "h none")
    | _, _, _, _, _, _ => some "bad-req"
  | _ => none

end OpsResolver
