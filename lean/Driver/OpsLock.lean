import RModel.Model.Lock
import RModel.Base.Utf8
import RModel.Gen.LockUsers
/-
  driver operations for the lock model (C12)

  lockseq <debug|release> absent                 one process runs `acquire` alone to completion, then drops
  lockseq <debug|release> file <tok>*            … with a lock file whose text is the concatenation of the
                                                 tokens:  x<hex> literal bytes | SELF own pid | OTHER pid of a live unrelated program | NOW | NOW-k | NOW+k
     → `<outcome> <file after acquire> <file after drop>`
        outcome  acquired | already-running:<SELF|pid> | eexist | io-error:<read|read-content|remove-stale|remove-orphaned> | panic
        file     absent | SELF:NOW | unchanged        after drop: gone | present | -  (no drop: acquire failed)

  lockrun <initial-cell> <now> <spec> <nprocs> <schedule…>
     initial-cell  absent | empty | garbage | invalid | pidts:<pid>:<ts> | held:<ts>
                   pid = number | ORPHAN | P<i>     ts = number | now | now-k | now+k
     spec          comma list of: debug | release | exits | linger | abandon-none | abandon-empty | abandon-unparsable |
                   bylink | bycreate | <extra alive pid>
                   (`-` = debug,exits; which unparsable lock files acquire removes and how it publishes its own
                   default to what the source does, Gen.LockUsers)
     schedule      <i> = next call of process i | t<k> = k seconds pass | i<k> = Ctrl-C at process k's confirmation
                   prompt | * = run everybody to completion
     → `P0=<pc> … cell=<…> stolen=<0|1> maxholders=<k>`
  lockpending <same prefix + schedule>  → `P0=<next call|-> …`
  lockenum <initial-cell> <now> <spec> <nprocs> <glue|split|full>   all interleavings of the acquire phases
                                                 (glue: read+decision, and last call+exit, as one unit — what a
                                                 real process can do; full: glue + work and drop)
     → `<count> <schedule>|<schedule>|…`  (a schedule = process ids joined by ',')
-/
open Lock

namespace OpsLock

/-- which acquire the source has (regenerated from /repo): does it remove an empty lock file? -/
def srcAbandon : Abandon := Gen.LockUsers.abandonPolicy
def srcAtomic : Bool := Gen.LockUsers.publishByLink
/-- a state of the acquire that the source has -/
def src (s : State) : State :=
  { s with abandon := srcAbandon, atomicPublish := srcAtomic, saturating := Gen.LockUsers.ageSaturates,
           dropChecks := Gen.LockUsers.dropChecksContent, staleNeedsDead := Gen.LockUsers.liveNeverStale,
           lossyRead := Gen.LockUsers.readsLossily, guarded := Gen.LockUsers.guardedSequences }

/-- one call of `p` in whichever shape the state has -/
def stepAny (s : State) (p : Nat) : Option State := if s.guarded then gstep s p else step s p

def selfPid : Nat := pidOf 0
def seqNow : Nat := 1700000000

def natOfChars (cs : List Char) : Option Nat := (String.ofList cs).toNat?

def hexVal (c : Char) : Option Nat :=
  let n := c.toNat
  if 48 ≤ n && n ≤ 57 then some (n - 48)
  else if 97 ≤ n && n ≤ 102 then some (n - 87)
  else none

def hexBytes : List Char → Option (List UInt8)
  | [] => some []
  | [_] => none
  | a :: b :: rest =>
    match hexVal a, hexVal b, hexBytes rest with
    | some x, some y, some r => some (UInt8.ofNat (x * 16 + y) :: r)
    | _, _, _ => none

def decimal (n : Nat) : List UInt8 := (Nat.toDigits 10 n).map (fun c => UInt8.ofNat c.toNat)

/-- `now`, `now-k`, `now+k` (any capitalisation of the word is the caller's business) or a number -/
def relTime (word : List Char) (now : Nat) (cs : List Char) : Option Nat :=
  if cs == word then some now
  else if cs.take (word.length + 1) == word ++ ['-'] then (natOfChars (cs.drop (word.length + 1))).map (now - ·)
  else if cs.take (word.length + 1) == word ++ ['+'] then (natOfChars (cs.drop (word.length + 1))).map (now + ·)
  else natOfChars cs

/-- a live process that is not renamify (the harness spawns a `sleep`): by design its pid blocks like any live pid -/
def otherPid : Nat := 77777

def seqToken (t : String) : Option (List UInt8) :=
  match t.toList with
  | 'x' :: hex => hexBytes hex
  | cs =>
    if cs == "SELF".toList then some (decimal selfPid)
    else if cs == "OTHER".toList then some (decimal otherPid)
    else if cs.take 3 == "NOW".toList then (relTime "NOW".toList seqNow cs).map decimal
    else none

def seqTokens : List String → Option (List UInt8)
  | [] => some []
  | t :: ts =>
    match seqToken t, seqTokens ts with
    | some a, some b => some (a ++ b)
    | _, _ => none

def showPidSeq (pid : Nat) : String :=
  if pid == selfPid then "SELF" else if pid == otherPid then "OTHER" else toString pid

def showErrSeq : Err → String
  | .readFailed => "io-error:read"
  | .readInvalid => "io-error:read-content"
  | .removeFailed .stale => "io-error:remove-stale"
  | .removeFailed .orphaned => "io-error:remove-orphaned"
  | .removeFailed .empty => "io-error:remove-empty"
  | .removeFailed .unparsable => "io-error:remove-unparsable"
  | .alreadyRunning pid => s!"already-running:{showPidSeq pid}"
  | .createExists => "eexist"

def showFileSeq (s : State) : String :=
  match s.cell with
  | none => "absent"
  | some 0 => "unchanged"
  | some i =>
    if i == inoOf 0 && s.files i == .pidts selfPid s.now then "SELF:NOW" else "other"

/-- liveness as the harness process sees it: itself, and pid 0 (`kill(0, 0)` = own process group) unless the
    source excludes pid 0 (`pid != 0 && is_process_running(pid)`) -/
def seqAlive (pid : Nat) : Bool :=
  pid == selfPid || pid == otherPid || (pid == 0 && !Gen.LockUsers.liveNeverStale)

def lockseq (debug : Bool) (cell : Option (List UInt8)) : String :=
  let s0 : State :=
    match cell with
    | none => { src (initAbsent 1 seqNow debug false) with alive := seqAlive }
    | some bytes => { src (initFile 1 seqNow debug false (if Utf8.valid bytes then parseContent bytes else .invalid)) with
                        alive := seqAlive }
  -- acquire: at most 8 calls
  let s1 := (List.replicate 12 0).foldl (fun st p => if st.pc p == .holding then st else (stepAny st p).getD st) s0
  match s1.pc 0 with
  | .holding =>
    let s2 := runP s1 [0, 0, 0, 0, 0]
    s!"acquired {showFileSeq s1} {if s2.cell.isNone then "gone" else "present"}"
  | .failed e => s!"{showErrSeq e} {showFileSeq s1} -"
  | .panicked => s!"panic {showFileSeq s1} -"
  | _ => "model-stuck"

/-! ### lockrun -/

structure Spec where
  debug : Bool := true
  exits : Bool := true
  abandon : Abandon := srcAbandon
  atomic : Bool := srcAtomic
  saturating : Bool := Gen.LockUsers.ageSaturates
  dropChecks : Bool := Gen.LockUsers.dropChecksContent
  needsDead : Bool := Gen.LockUsers.liveNeverStale
  lossy : Bool := Gen.LockUsers.readsLossily
  guarded : Bool := Gen.LockUsers.guardedSequences
  extra : List Nat := []

def parseSpec (s : String) : Option Spec :=
  if s == "-" then some {} else
  (s.splitOn ",").foldl (fun acc item =>
    match acc with
    | none => none
    | some sp =>
      if item == "debug" then some { sp with debug := true }
      else if item == "release" then some { sp with debug := false }
      else if item == "exits" then some { sp with exits := true }
      else if item == "linger" then some { sp with exits := false }
      else if item == "abandon-none" then some { sp with abandon := .none }
      else if item == "abandon-empty" then some { sp with abandon := .empty }
      else if item == "abandon-unparsable" then some { sp with abandon := .unparsable }
      else if item == "bylink" then some { sp with atomic := true }
      else if item == "bycreate" then some { sp with atomic := false }
      else if item == "saturating" then some { sp with saturating := true }
      else if item == "dropchecks" then some { sp with dropChecks := true }
      else if item == "livefirst" then some { sp with needsDead := true }
      else if item == "stalefirst" then some { sp with needsDead := false }
      else if item == "lossy" then some { sp with lossy := true }
      else if item == "guarded" then some { sp with guarded := true }
      else if item == "unguarded" then some { sp with guarded := false }
      else match item.toNat? with
        | some n => some { sp with extra := n :: sp.extra }
        | none => none) (some {})

def parsePid (cs : List Char) : Option Nat :=
  if cs == "ORPHAN".toList then some orphanPid
  else match cs with
    | 'P' :: rest => (natOfChars rest).map pidOf
    | _ => natOfChars cs

def splitColonChars (cs : List Char) : List (List Char) :=
  (String.ofList cs).splitOn ":" |>.map (·.toList)

def parseInit (cell : String) (n now : Nat) (sp : Spec) : Option State :=
  let withAlive (s : State) : State :=
    { s with alive := fun pid => s.alive pid || sp.extra.contains pid, abandon := sp.abandon, atomicPublish := sp.atomic,
             saturating := sp.saturating, dropChecks := sp.dropChecks, staleNeedsDead := sp.needsDead,
             lossyRead := sp.lossy, guarded := sp.guarded }
  match splitColonChars cell.toList with
  | [w] =>
    if w == "absent".toList then some (withAlive (initAbsent n now sp.debug sp.exits))
    else if w == "empty".toList then some (withAlive (initFile n now sp.debug sp.exits .empty))
    else if w == "garbage".toList then some (withAlive (initFile n now sp.debug sp.exits .garbage))
    else if w == "invalid".toList then some (withAlive (initFile n now sp.debug sp.exits .invalid))
    else none
  | [k, a] =>
    if k == "held".toList then (relTime "now".toList now a).map (fun ts => withAlive (initHeld n now sp.debug sp.exits ts))
    else none
  | [k, a, b] =>
    if k == "pidts".toList then
      match parsePid a, relTime "now".toList now b with
      | some pid, some ts => some (withAlive (initFile n now sp.debug sp.exits (.pidts pid ts)))
      | _, _ => none
    else none
  | _ => none

inductive Tok | proc (p : Nat) | tick (d : Nat) | prompt (p : Nat) | settle

def parseTok (s : String) : Option Tok :=
  match s.toList with
  | ['*'] => some .settle
  | 't' :: rest => (natOfChars rest).map .tick
  | 'i' :: rest => (natOfChars rest).map .prompt
  | cs => (natOfChars cs).map .proc

def parseToks : List String → Option (List Tok)
  | [] => some []
  | t :: ts =>
    match parseTok t, parseToks ts with
    | some a, some b => some (a :: b)
    | _, _ => none

/-- processes whose acquire has returned and whose Drop has not yet removed (or given up) the lock -/
def countHolding (s : State) : Nat :=
  ((List.range s.n).filter (fun p => match s.pc p with
    | .holding | .dropCheck | .dropUnlink => true
    | _ => false)).length

/-- run with a ghost maximum of simultaneous holders -/
def runToks : State → Nat → List Tok → State × Nat
  | s, m, [] => (s, m)
  | s, m, .proc p :: ts =>
    let s' := (stepAny s p).getD s
    runToks s' (max m (countHolding s')) ts
  | s, m, .tick d :: ts => runToks { s with now := s.now + d } m ts
  | s, m, .prompt p :: ts => runToks (promptExit s p) m ts
  | s, m, .settle :: ts =>
    -- every process can make at most 12 calls
    let rec go : Nat → State → Nat → State × Nat
      | 0, s, m => (s, m)
      | fuel + 1, s, m =>
        let (s', m') := (List.range s.n).foldl (fun (acc : State × Nat) p =>
          let st := (stepAny acc.1 p).getD acc.1
          (st, max acc.2 (countHolding st))) (s, m)
        go fuel s' m'
    let (s', m') := go 14 s m
    runToks s' m' ts

def showErr : Err → String
  | .readFailed => "read-enoent"
  | .readInvalid => "read-invalid"
  | .removeFailed .stale => "remove-stale-enoent"
  | .removeFailed .orphaned => "remove-orphaned-enoent"
  | .removeFailed .empty => "remove-empty-enoent"
  | .removeFailed .unparsable => "remove-unparsable-enoent"
  | .alreadyRunning pid => "already-running:" ++ (if pid ≥ 2 then s!"P{pid - 2}" else if pid == orphanPid then "ORPHAN" else toString pid)
  | .createExists => "eexist"

def showPc : Pc → String
  | .start => "start"
  | .locked => "locked"
  | .sawPresent => "saw"
  | .opened i => s!"opened:{if i == 0 then "init" else s!"P{i - 1}"}"
  | .readDone _ => "read"
  | .unlinkPending .stale => "unlink-stale"
  | .unlinkPending .orphaned => "unlink-orphaned"
  | .unlinkPending .empty => "unlink-empty"
  | .unlinkPending .unparsable => "unlink-unparsable"
  | .mkdir _ => "mkdir"
  | .create _ => "create"
  | .created _ => "created"
  | .holding => "holding"
  | .dropCheck => "dropcheck"
  | .dropUnlink => "dropunlink"
  | .done => "done"
  | .failed e => "failed:" ++ showErr e
  | .panicked => "panicked"

def showPid (pid : Nat) : String :=
  if pid ≥ 2 then s!"P{pid - 2}" else if pid == orphanPid then "ORPHAN" else toString pid

def showTs (now0 ts : Nat) : String :=
  if ts ≥ now0 then s!"t+{ts - now0}" else s!"t-{now0 - ts}"

def showContent (now0 : Nat) : Content → String
  | .empty => "empty"
  | .garbage => "garbage"
  | .invalid => "invalid"
  | .pidts pid ts => s!"{showPid pid}:{showTs now0 ts}"

def showCell (now0 : Nat) (s : State) : String :=
  match s.cell with
  | none => "absent"
  | some i => (if i == 0 then "init" else s!"P{i - 1}") ++ "/" ++ showContent now0 (s.files i)

def showState (now0 : Nat) (s : State) (m : Nat) : String :=
  let pcs := (List.range s.n).map (fun p =>
    s!"P{p}={showPc (s.pc p)}{if s.alive (pidOf p) then "" else "+exited"}")
  " ".intercalate pcs ++ s!" cell={showCell now0 s} stolen={if s.stolen then 1 else 0} maxholders={m}"

def nextCall (s : State) (p : Nat) : String :=
  match s.pc p with
  | .start => if s.guarded then "flock" else "exists"
  | .locked => "exists"
  | .sawPresent => "open"
  | .opened _ => "read"
  | .readDone _ => "decide"
  | .unlinkPending _ => "unlink"
  | .mkdir _ => "mkdir"
  | .create _ => "create"
  | .created _ => "write"
  | .holding => "work"
  | .dropCheck => if s.guarded && s.guard != some p then "dropflock" else "dropexists"
  | .dropUnlink => "dropunlink"
  | .done | .failed _ | .panicked => if s.exits && s.alive (pidOf p) then "exit" else "-"

def setup : List String → Option (State × Nat × List String)
  | cell :: now :: spec :: n :: rest =>
    match now.toNat?, parseSpec spec, n.toNat? with
    | some now, some sp, some n => (parseInit cell n now sp).map (fun s => (s, now, rest))
    | _, _, _ => none
  | _ => none

def lockrun (fields : List String) : String :=
  match setup fields with
  | none => "bad-req"
  | some (s0, now0, rest) =>
    match parseToks rest with
    | none => "bad-req"
    | some toks =>
      let (s, m) := runToks s0 (countHolding s0) toks
      showState now0 s m


/-- like `lockrun`, and also says which call each schedule element performed -/
def traceToks : State → Nat → List Tok → List String → State × Nat × List String
  | s, m, [], acc => (s, m, acc.reverse)
  | s, m, .proc p :: ts, acc =>
    let kind := if p < s.n then nextCall s p else "-"
    let s' := (stepAny s p).getD s
    traceToks s' (max m (countHolding s')) ts (s!"{p}:{kind}" :: acc)
  | s, m, .tick d :: ts, acc => traceToks { s with now := s.now + d } m ts (s!"t{d}" :: acc)
  | s, m, .prompt p :: ts, acc => traceToks (promptExit s p) m ts (s!"{p}:promptint" :: acc)
  | s, m, .settle :: ts, acc => traceToks s m ts acc

def locktrace (fields : List String) : String :=
  match setup fields with
  | none => "bad-req"
  | some (s0, now0, rest) =>
    match parseToks rest with
    | none => "bad-req"
    | some toks =>
      let (s, m, kinds) := traceToks s0 (countHolding s0) toks []
      s!"calls={if kinds.isEmpty then "-" else ",".intercalate kinds} {showState now0 s m}"

def lockpending (fields : List String) : String :=
  match setup fields with
  | none => "bad-req"
  | some (s0, _, rest) =>
    match parseToks rest with
    | none => "bad-req"
    | some toks =>
      let (s, _) := runToks s0 0 toks
      " ".intercalate ((List.range s.n).map (fun p => s!"P{p}={nextCall s p}"))

/-- a process is still in its acquire phase -/
def acquiring (s : State) (p : Nat) : Bool :=
  match s.pc p with
  | .holding | .dropCheck | .dropUnlink | .done | .failed _ | .panicked => false
  | _ => true

/-- … or anywhere before it has finished (acquire, work, drop) -/
def running (s : State) (p : Nat) : Bool :=
  match s.pc p with
  | .done | .failed _ | .panicked => false
  | _ => true

/-- one scheduling unit of `p`: a call; with `glue`, a `read` drags the decision along -/
def unit (glue : Bool) (s : State) (p : Nat) : State × List Nat :=
  let s1 := (stepAny s p).getD s
  if !glue then (s1, [p])
  else match s.pc p, s1.pc p with
    | .opened _, .readDone _ =>
      let s2 := (stepAny s1 p).getD s1
      -- a real process that fails or finishes is gone at once: its exit is part of its last call
      if (s2.pc p).terminal && s2.exits then ((stepAny s2 p).getD s2, [p, p, p]) else (s2, [p, p])
    | _, pc1 =>
      if pc1.terminal && s1.exits then ((stepAny s1 p).getD s1, [p, p]) else (s1, [p])

/-- all maximal interleavings of the acquire phases (depth-first, process order), as reversed schedules -/
def enumerate (glue full : Bool) : Nat → State → List Nat → List (List Nat)
  | 0, _, acc => [acc]
  | fuel + 1, s, acc =>
    let ready := (List.range s.n).filter (fun p => (if full then running s p else acquiring s p) && (stepAny s p).isSome)
    if ready.isEmpty then [acc]
    else ready.flatMap (fun p =>
      let (s', did) := unit glue s p
      enumerate glue full fuel s' (did ++ acc))

def lockenum (fields : List String) : String :=
  match setup fields with
  | some (s0, _, [mode]) =>
    let glue := mode != "split"
    let all := (enumerate glue (mode == "full") (12 * s0.n) s0 []).map List.reverse
    let txt := all.map (fun sch => ",".intercalate (sch.map toString))
    s!"{all.length} {"|".intercalate txt}"
  | _ => "bad-req"


/-! ### lockwit: the witnesses that the harness can replay inside one process -/

def showOutcomeWit (s : State) (p : Nat) : String :=
  match s.pc p with
  | .holding => "acquired"
  | .failed e => "refused:" ++ showErrSeq (match e with
      | .alreadyRunning _ => .alreadyRunning selfPid   -- every "process" of the harness has the harness pid
      | e => e)
  | .panicked => "panic"
  | _ => "model-stuck"

def acquireAlone (s : State) (p : Nat) : State :=
  (List.replicate 12 p).foldl (fun st p => if st.pc p == .holding then st else (stepAny st p).getD st) s

def goneOrPresent (s : State) : String := if s.cell.isNone then "gone" else "present"

def lockwit (debug : Bool) : String → String
  | "double_acquire" =>
    let s1 := acquireAlone (src (initHeld 2 seqNow debug false seqNow)) 1
    let s2 := runP s1 [0, 0, 0, 0, 0]
    s!"second={showOutcomeWit s1 1} file-after-drop={goneOrPresent s2}"
  | "stale_live_evicted" =>
    let s1 := acquireAlone (src (initHeld 2 seqNow debug false (seqNow - 301))) 1
    match s1.pc 1 with
    | .holding =>
      let file := if s1.cell == some (inoOf 1) && s1.files (inoOf 1) == .pidts (pidOf 1) s1.now then "SELF:NOW" else "other"
      s!"second=acquired holders={countHolding s1} file={file}"
    | _ => s!"second={showOutcomeWit s1 1} holders={countHolding s1}"
  | "drop_removes_foreign" =>
    let s1 := acquireAlone (src (initHeld 3 seqNow debug false (seqNow - 301))) 1
    match s1.pc 1 with
    | .holding =>
      let s2 := runP s1 [0, 0, 0, 0, 0]
      let s3 := acquireAlone s2 2
      s!"second=acquired file-after-first-drop={goneOrPresent s2} third={showOutcomeWit s3 2}"
    | _ => s!"second={showOutcomeWit s1 1} holders={countHolding s1}"
  | _ => "bad-req"

def dispatch : List String → Option String
  | ["lockbuild"] => some "debug"
  | ["lockother", _] => some "stopped"
  | ["lockwit", name] => some (lockwit true name)
  | "lockseq" :: build :: "absent" :: [] =>
    some (lockseq (build == "debug") none)
  | "lockseq" :: build :: "file" :: toks =>
    some (match seqTokens toks with
      | some bytes => lockseq (build == "debug") (some bytes)
      | none => "bad-req")
  | "lockrun" :: rest => some (lockrun rest)
  | "lockpending" :: rest => some (lockpending rest)
  | "locktrace" :: rest => some (locktrace rest)
  | "lockenum" :: rest => some (lockenum rest)
  | _ => none

end OpsLock
