import RModel.Base.Bytes
import RModel.Model.Fs
import RModel.Model.Apply
import RModel.Model.CaseModel
import RModel.Model.RenamePlan
import RModel.Gen.Acronyms
import RModel.Gen.RenameTables
import Driver.Wire
/- driver operations for the rename planner (C08); request format in harness/src/ops_renameplan.rs -/
open B Fs Apply RenamePlan

namespace OpsRenamePlan

def tables : Tables :=
  { exts := Gen.coercionExtensions, extMax := Gen.coercionExtMaxLen, reserved := Gen.windowsReserved,
    isAcr := (CaseModel.acrOf Gen.defaultAcronyms).isAcr, allVariants := Gen.renameAllVariantsInName,
    crossRootCheck := Gen.crossRootConflictCheck }

def ventry? : List String → Option (VEntry × List String)
  | k :: v :: a :: rest =>
    match ofHex k, ofHex v with
    | some k, some v =>
      if a == "!" then some ({ key := k, val := v, amb := none }, rest)
      else (ofHex a).map (fun a => ({ key := k, val := v, amb := some a }, rest))
    | _, _ => none
  | _ => none

def root? : List String → Option (Path × List String)
  | r :: rest => (Wire.path? r).map (fun p => (p, rest))
  | _ => none

def showRen (r : Ren) : String :=
  let k := match r.kind with | .dir => "d" | .file => "f"
  s!"{k}:{hexOrDash (joinPath r.path)}>{hexOrDash (joinPath r.newPath)}"

def sortStrs (xs : List String) : List String := xs.mergeSort (fun a b => decide (a ≤ b))

def showRens (rs : List Ren) : String := " ".intercalate (sortStrs (rs.map showRen))

def showConflict (c : Conflict) : String :=
  let k := match c.kind with | .multipleToOne => "m" | .windowsReserved => "w"
  let srcs := sortStrs (c.sources.map (fun p => hexOrDash (joinPath p)))
  s!"{k}:{hexOrDash (joinPath c.target)}<{",".intercalate srcs}"

def finish (s : String) : String := s.trimAsciiEnd.toString

def run (mode flags : String) (cwd : Path) (roots : List Path) (vmap : List VEntry) (t : Tree) : String :=
  let has (c : Char) : Bool := flags.toList.contains c
  let o : Opts := { renameFiles := has 'f', renameDirs := has 'd', coerce := has 'c', cwd := cwd }
  let r0 := roots.headD []
  match mode with
  | "search" =>
    (match planWithSearch tables o vmap (entriesOf t r0) with
     | .ok rs => finish s!"ok {showRens rs}"
     | .error n => s!"refused {n}")
  | "conf" =>
    let p := planRoot tables { o with withSearch := false } vmap (entriesOf t r0)
    let cs := sortStrs (p.conflicts.map showConflict)
    let tail := if cs.isEmpty then "" else " | " ++ " ".intercalate cs
    finish (finish s!"ok {showRens p.renames}" ++ tail)
  | "scan" =>
    (match planMulti tables o vmap (roots.map (entriesOf t)) with
     | .ok rs => finish s!"ok {showRens rs}"
     | .error n => s!"refused {n}")
  | "explain" =>
    -- model only: everything that is collected (before the conflict filter), over all roots
    let all := roots.flatMap (fun r =>
      let c0 := collect tables o vmap (entriesOf t r)
      c0.filter (fun x => !(x.path == o.cwd)))
    finish s!"ok {showRens all}"
  | "coerced" =>
    -- model only: the entries whose name coercion takes over (`apply_coercion` returns a name), over all roots
    let hit (e : Entry) : Bool :=
      match e.1.getLast? with
      | some name =>
        (match firstKey vmap name with
         | some v => o.coerce && (applyCoercion tables name v.key v.val).isSome
         | none => false)
      | none => false
    let ps := (roots.flatMap (fun r => (entriesOf t r).filter hit)).map (fun e => hexOrDash (joinPath e.1))
    finish s!"ok {" ".intercalate (sortStrs ps)}"
  | "rename" | "renameroot" =>
    (match planRenames tables o vmap t roots (mode == "renameroot") with
     | .ok rs => finish s!"ok {showRens rs}"
     | .error n => s!"refused {n}")
  | "apply" | "applyroot" =>
    (match planRenames tables o vmap t roots (mode == "applyroot") with
     | .ok rs =>
       let r := Apply.applyPlan t { hunks := [], rens := rs }
       finish s!"{Wire.showOutcome r.outcome} {Wire.showTree r.tree}"
     | .error n => s!"refused {n}")
  | _ => "bad-req"

def dispatch : List String → Option String
  | "planrenames" :: mode :: flags :: cwd :: _search :: _replace :: _styles :: _plural :: rest =>
    match Wire.path? cwd, Wire.counted "ROOTS" root? rest with
    | some cwd, some (roots, r1) =>
      (match Wire.counted "V" ventry? r1 with
       | some (vmap, r2) =>
         (match Wire.tree? r2 with
          | some (t, []) => some (run mode flags cwd roots vmap t)
          | _ => some "bad-req")
       | none => some "bad-req")
    | _, _ => some "bad-req"
  | _ => none

end OpsRenamePlan
