import RModel.Base.Bytes
import RModel.Model.Fs
import RModel.Model.Apply
import RModel.Model.CaseModel
import RModel.Model.RenamePlan
import RModel.Gen.Acronyms
import RModel.Gen.RenameTables
import RModel.Model.Scope
import RModel.Gen.Walker
import Driver.Wire
/- driver operations for the rename planner (C08); request format in harness/src/ops_renameplan.rs -/
open B Fs Apply RenamePlan

namespace OpsRenamePlan

def tables : Tables :=
  { exts := Gen.coercionExtensions, extMax := Gen.coercionExtMaxLen, reserved := Gen.windowsReserved,
    isAcr := (CaseModel.acrOf Gen.defaultAcronyms).isAcr, allVariants := Gen.renameAllVariantsInName,
    crossRootCheck := Gen.crossRootConflictCheck }

def ventry? : List String → Option (VEntry × List String)
  | k :: v :: a :: rest =>
    match ofHex k, ofHex v with
    | some k, some v =>
      if a == "!" then some ({ key := k, val := v, amb := none }, rest)
      else (ofHex a).map (fun a => ({ key := k, val := v, amb := some a }, rest))
    | _, _ => none
  | _ => none

def root? : List String → Option (Path × List String)
  | r :: rest => (Wire.path? r).map (fun p => (p, rest))
  | _ => none

def showRen (r : Ren) : String :=
  let k := match r.kind with | .dir => "d" | .file => "f"
  s!"{k}:{hexOrDash (joinPath r.path)}>{hexOrDash (joinPath r.newPath)}"

def sortStrs (xs : List String) : List String := xs.mergeSort (fun a b => decide (a ≤ b))

def showRens (rs : List Ren) : String := " ".intercalate (sortStrs (rs.map showRen))

def showConflict (c : Conflict) : String :=
  let k := match c.kind with | .multipleToOne => "m" | .windowsReserved => "w"
  let srcs := sortStrs (c.sources.map (fun p => hexOrDash (joinPath p)))
  s!"{k}:{hexOrDash (joinPath c.target)}<{",".intercalate srcs}"

def finish (s : String) : String := s.trimAsciiEnd.toString

/-- optional scope section of a request: unrestricted level, include / exclude patterns, and the ignore facts
    `(kind, directory of the ignore file, path its pattern matches)` — gitignore matching is a parameter of the C09
    scope model, supplied by the runner for the pattern class it generates -/
structure ScopeInfo where
  level : Nat
  inc : List Bytes
  exc : List Bytes
  facts : List (Nat × Path × Path)

def kindIdx : Scope.IgnKind → Nat
  | .gitignore => 0 | .ignore => 1 | .rgignore => 2 | .rnignore => 3 | .gitExclude => 4

def strictPre (a b : Path) : Bool := a.isPrefixOf b && decide (a.length < b.length)

/-- what the walk of `root` yields (C09: `Scope.renameCandidate` with the generated walker table): the root itself and
    every node below it that the walker reaches and the glob sets (matched relative to THIS root) let through -/
def entriesScoped (si : ScopeInfo) (t : Tree) (root : Path) : List Entry :=
  let site : Scope.Site :=
    { gitAt := fun d => (lookup t (root ++ d ++ [Scope.gitName])).isSome,
      ancGit := (t.any (fun e => e.1.getLast? == some Scope.gitName && strictPre e.1.dropLast root)),
      ign := fun k p => si.facts.any (fun f => f.1 == kindIdx k && f.2.2 == root ++ p && root.isPrefixOf f.2.1),
      ignAbove := fun k p => si.facts.any (fun f => f.1 == kindIdx k && f.2.2 == root ++ p && strictPre f.2.1 root),
      ty := fun p => match lookup t (root ++ p) with
        | some (.dir _) => .dir
        | some (.link _) => .symlink
        | _ => .file }
  let req : Scope.Request :=
    { level := si.level, site := site, gm := Glob.matchesD, globs := { includes := si.inc, excludes := si.exc } }
  (t.filter (fun e => root.isPrefixOf e.1)).filterMap (fun e =>
    let rel := e.1.drop root.length
    let ft : Scope.FType := match e.2 with | .dir _ => .dir | .link _ => .symlink | .file _ _ => .file
    if Scope.renameCandidate Gen.pipeline req { path := rel, ftype := ft } then some (e.1, ekindOf e.2) else none)

def strs? (tag : String) : List String → Option (List Bytes × List String)
  | t :: n :: rest =>
    if t == tag then (Wire.nat? n).bind (fun k => Wire.many (fun fs => match fs with
      | h :: r => (ofHex h).map (fun b => (b, r))
      | [] => none) k rest)
    else none
  | _ => none

def fact? : List String → Option ((Nat × Path × Path) × List String)
  | k :: d :: p :: rest =>
    match Wire.nat? k, Wire.path? d, Wire.path? p with
    | some k, some d, some p => some ((k, d, p), rest)
    | _, _, _ => none
  | _ => none

def scope? : List String → Option (Option ScopeInfo)
  | [] => some none
  | "S" :: l :: rest => do
    let level ← Wire.nat? l
    let (inc, r1) ← strs? "I" rest
    let (exc, r2) ← strs? "X" r1
    let (facts, r3) ← Wire.counted "G" fact? r2
    if r3.isEmpty then some (some { level := level, inc := inc, exc := exc, facts := facts }) else none
  | _ => none

def run (mode flags : String) (cwd : Path) (roots : List Path) (vmap : List VEntry) (t : Tree)
    (si : Option ScopeInfo) : String :=
  let walk : Path → List Entry := match si with | some si => entriesScoped si t | none => entriesOf t
  let has (c : Char) : Bool := flags.toList.contains c
  let o : Opts := { renameFiles := has 'f', renameDirs := has 'd', coerce := has 'c', cwd := cwd }
  let r0 := roots.headD []
  match mode with
  | "search" =>
    (match planWithSearch tables o vmap (walk r0) with
     | .ok rs => finish s!"ok {showRens rs}"
     | .error n => s!"refused {n}")
  | "conf" =>
    let p := planRoot tables { o with withSearch := false } vmap (walk r0)
    let cs := sortStrs (p.conflicts.map showConflict)
    let tail := if cs.isEmpty then "" else " | " ++ " ".intercalate cs
    finish (finish s!"ok {showRens p.renames}" ++ tail)
  | "scan" =>
    (match planMulti tables o vmap (roots.map walk) with
     | .ok rs => finish s!"ok {showRens rs}"
     | .error n => s!"refused {n}")
  | "explain" =>
    -- model only: everything that is collected (before the conflict filter), over all roots
    let all := roots.flatMap (fun r =>
      let c0 := collect tables o vmap (walk r)
      c0.filter (fun x => !(x.path == o.cwd)))
    finish s!"ok {showRens all}"
  | "coerced" =>
    -- model only: the entries whose name coercion takes over (`apply_coercion` returns a name), over all roots
    let hit (e : Entry) : Bool :=
      match e.1.getLast? with
      | some name =>
        (match firstKey vmap name with
         | some v => o.coerce && (applyCoercion tables name v.key v.val).isSome
         | none => false)
      | none => false
    let ps := (roots.flatMap (fun r => (walk r).filter hit)).map (fun e => hexOrDash (joinPath e.1))
    finish s!"ok {" ".intercalate (sortStrs ps)}"
  | "rename" | "renameroot" =>
    (match planRenamesWith tables o vmap walk roots (mode == "renameroot") with
     | .ok rs => finish s!"ok {showRens rs}"
     | .error n => s!"refused {n}")
  | "apply" | "applyroot" =>
    (match planRenamesWith tables o vmap walk roots (mode == "applyroot") with
     | .ok rs =>
       let r := Apply.applyPlan t { hunks := [], rens := rs }
       finish s!"{Wire.showOutcome r.outcome} {Wire.showTree r.tree}"
     | .error n => s!"refused {n}")
  | _ => "bad-req"

def dispatch : List String → Option String
  | "planrenames" :: mode :: flags :: cwd :: _search :: _replace :: _styles :: _plural :: rest =>
    match Wire.path? cwd, Wire.counted "ROOTS" root? rest with
    | some cwd, some (roots, r1) =>
      (match Wire.counted "V" ventry? r1 with
       | some (vmap, r2) =>
         (match Wire.tree? r2 with
          | some (t, r3) =>
            (match scope? r3 with
             | some si => some (run mode flags cwd roots vmap t si)
             | none => some "bad-req")
          | none => some "bad-req")
       | none => some "bad-req")
    | _, _ => some "bad-req"
  | _ => none

end OpsRenamePlan
