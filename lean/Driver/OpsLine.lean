import RModel.Base.Bytes
import RModel.Model.CaseModel
import RModel.Model.LinePipeline
import RModel.Model.LineEnv
import RModel.Gen.Acronyms
import RModel.Gen.Styles
import Driver.OpsCase
/-
  driver operations for the one-line pipeline (C06); mirror of harness/src/ops_line.rs

    rewriteline <hex line> <hex search> <hex replace> <opts> <p0|p1> [<singS> <plurS> <singR> <plurR>]
        the four optional fields are the real pluralizer's answers (`none` or hex) for the last token of the search and of
        the replacement term (obtained from the harness op `plforms`); they instantiate the `sing`/`plur` parameters.
        -> `r ok <hex new line> <n> (<col> <hex content> <hex replace>)*`, `r applyerr …` when the edits do not apply.
           Runs the COMPOSED model `LinePipeline.lineHunksReal` (`Model/LineEnv.lean`): real coercion decision, real compound
           pass with overlap resolution, the scanner's pre-filter.
    rewriteline0 …same fields…                 the pipeline with the stub environment `env` (coercion only through its first
           exit, no compound hunk): `r unmodelled` when a hunk needs the part of `apply_coercion` that is a parameter there
    filtercompat <hex text> <all|names>      -> `c <names|->`
    resolve <hex matched> <hex replacement>  -> `s <name>`      (no context heuristics)
    stylelist <opts>                         -> `y <names>`     (`Plan.styles`)
-/
open B CaseModel LinePipeline

namespace OpsLine

def names (s : String) : Option (List Style) :=
  if s == "-" || s == "" then some [] else (s.splitOn ",").mapM OpsCase.styleOf

def parseOpts (s : String) : Option StyleOpts :=
  if s == "default" then some {}
  else
    let r := (s.splitOn ";").foldl (fun acc part =>
      match acc with
      | none => none
      | some (o : StyleOpts) =>
        match part.splitOn "=" with
        | [k, v] =>
          match names v with
          | none => none
          | some l =>
            if k == "x" then some { o with excl := l }
            else if k == "i" then some { o with incl := l }
            else if k == "o" then some { o with only := l }
            else none
        | _ => none) (some {})
    match r with
    | some o => if !o.only.isEmpty && (!o.excl.isEmpty || !o.incl.isEmpty) then none else some o
    | none => none

def showStyles (l : List Style) : String :=
  if l.isEmpty then "-" else ",".intercalate (l.map OpsCase.styleName)

def optHex (s : String) : Option (Option Bytes) :=
  if s == "none" then some none else (ofHex s).map some

def marker : Bytes := [0]

def env : Env :=
  { heur := fun _ => none
    coerce := fun ctx old _ => if coerceGuard ctx old then none else some marker
    compound := fun _ => [] }

def table (k1 : Option Bytes) (v1 : Option Bytes) (k2 : Option Bytes) (v2 : Option Bytes) (t : Bytes) : Option Bytes :=
  if some t == k1 then v1 else if some t == k2 then v2 else none

def rewrite (real : Bool) (line search replace : Bytes) (o : StyleOpts) (plurals cli : Bool)
    (forms : Option Bytes × Option Bytes × Option Bytes × Option Bytes) : String :=
  let A := OpsCase.A
  let ls := (parse A search).getLast?
  let lr := (parse A replace).getLast?
  let cfg : Cfg :=
    { A := A, env := env, opts := o, plurals := plurals
      sing := table ls forms.1 lr forms.2.2.1
      plur := table ls forms.2.1 lr forms.2.2.2
      search := search, replace := replace, cliPath := cli }
  match (if real then lineHunksReal cfg line else lineHunks cfg line) with
  | none => "r nohunk"
  | some es =>
    if es.any (fun e => e.after == marker) then "r unmodelled"
    else
      let cells := es.flatMap (fun e => [toString e.start, hexOrDash e.before, hexOrDash e.after])
      match Edits.applyEdits line es with
      | .ok b => " ".intercalate (["r", "ok", hexOrDash b, toString es.length] ++ cells)
      | .error _ => " ".intercalate (["r", "applyerr", hexOrDash line, toString es.length] ++ cells)

def rewriteReq (real : Bool) (hl hs hr so p : String) (rest : List String) : Option String :=
    let forms : Option (Option Bytes × Option Bytes × Option Bytes × Option Bytes) :=
      match rest with
      | [] => some (none, none, none, none)
      | [a, b, c, d] =>
        match optHex a, optHex b, optHex c, optHex d with
        | some a, some b, some c, some d => some (a, b, c, d)
        | _, _, _, _ => none
      | _ => none
    match ofHex hl, ofHex hs, ofHex hr, parseOpts so, forms,
        (if p == "p0" then some (false, false) else if p == "p1" then some (true, false)
         else if p == "q0" then some (false, true) else if p == "q1" then some (true, true) else none) with
    | some l, some s, some r, some o, some f, some pl => some (rewrite real l s r o pl.1 pl.2 f)
    | _, _, _, _, _, _ => some "bad-req"

def dispatch : List String → Option String
  | "rewriteline" :: hl :: hs :: hr :: so :: p :: rest => rewriteReq true hl hs hr so p rest
  | "rewriteline0" :: hl :: hs :: hr :: so :: p :: rest => rewriteReq false hl hs hr so p rest
  | ["filtercompat", ht, st] =>
    match ofHex ht, (if st == "all" then some Gen.allStyles else names st) with
    | some t, some l => some s!"c {showStyles (filterCompatible OpsCase.A t l)}"
    | _, _ => some "bad-req"
  | ["resolve", hm, hr] =>
    match ofHex hm, ofHex hr with
    | some m, some r =>
      let st := resolve OpsCase.A (fun _ => none) m r (filterCompatible OpsCase.A r Gen.allStyles)
      some s!"s {OpsCase.styleName st}"
    | _, _ => some "bad-req"
  | ["stylelist", so] =>
    match parseOpts so with
    | some o => some s!"y {showStyles (planHeaderStyles o)}"
    | none => some "bad-req"
  | _ => none

end OpsLine
