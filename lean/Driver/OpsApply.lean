import RModel.Base.Bytes
import RModel.Base.Utf8
import RModel.Model.Edits
import RModel.Model.Apply
import Driver.Wire
/- driver operations for the apply model (C02, C04, C05) -/
open B

def natOf (s : String) : Option Nat := s.toNat?

namespace OpsApply

def parseEdits : List String → Option (List Edits.Edit)
  | [] => some []
  | b :: a :: s :: e :: rest =>
    match ofHex b, ofHex a, natOf s, natOf e, parseEdits rest with
    | some b, some a, some s, some e, some r => some ({ before := b, after := a, start := s, stop := e } :: r)
    | _, _, _, _, _ => none
  | _ => none

def edits : List String → String
  | orig :: rest =>
    match ofHex orig, parseEdits rest with
    | some o, some es =>
      if es.isEmpty then s!"ok {hexOrDash o}"
      else if !Utf8.valid o then "unreadable"
      else match Edits.applyEdits o es with
        | .ok r => s!"ok {hexOrDash r}"
        | .error .panic => "panic"
        | .error .mismatch => "mismatch"
    | _, _ => "bad-req"
  | _ => "bad-req"

/-- `applytree T n … H n … R n …` -/
def applytree (fs : List String) : String :=
  match Wire.tree? fs with
  | none => "bad-req"
  | some (t, r1) =>
    match Wire.hunks? r1 with
    | none => "bad-req"
    | some (hs, r2) =>
      match Wire.rens? r2 with
      | some (rs, []) =>
        let r := Apply.applyPlan t { hunks := hs, rens := rs }
        s!"{Wire.showOutcome r.outcome} {Wire.showTree r.tree}"
      | _ => "bad-req"

def dispatch : List String → Option String
  | "edits" :: rest => some (edits rest)
  | "applytree" :: rest => some (applytree rest)
  | _ => none

end OpsApply


