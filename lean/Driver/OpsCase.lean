import RModel.Base.Bytes
import RModel.Model.CaseModel
import RModel.Gen.Acronyms
import RModel.Gen.Styles
/- driver operations for the case model (C18, C06, C07, C08) -/
open B CaseModel

namespace OpsCase

def A : Acr := acrOf Gen.defaultAcronyms

def styleName : Style → String
  | .snake => "snake" | .kebab => "kebab" | .camel => "camel" | .pascal => "pascal"
  | .screamingSnake => "screaming_snake" | .title => "title" | .train => "train"
  | .screamingTrain => "screaming_train" | .dot => "dot" | .lowerFlat => "lower_flat"
  | .upperFlat => "upper_flat" | .sentence => "sentence" | .lowerSentence => "lower_sentence"
  | .upperSentence => "upper_sentence"

def allStyles : List Style :=
  [.snake, .kebab, .camel, .pascal, .screamingSnake, .title, .train, .screamingTrain, .dot,
   .lowerFlat, .upperFlat, .sentence, .lowerSentence, .upperSentence]

def styleOf (s : String) : Option Style := allStyles.find? (fun st => styleName st == s)

def hexList (fs : List String) : Option (List Bytes) := fs.mapM ofHex

def showToks (ts : List Bytes) : String := " ".intercalate ("t" :: ts.map hexOrDash)

def dispatch : List String → Option String
  | ["tokens", h] =>
    match ofHex h with
    | some s => some (showToks (parse A s))
    | none => some "bad-req"
  | "tostyle" :: st :: toks =>
    match styleOf st, hexList toks with
    | some st, some ts => some s!"s {hexOrDash (toStyle A ts st)}"
    | _, _ => some "bad-req"
  | ["detect", h] =>
    match ofHex h with
    | some s => some (match detectStyle A s with | some st => s!"d {styleName st}" | none => "d none")
    | none => some "bad-req"
  | _ => none

end OpsCase
