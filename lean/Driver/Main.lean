import Driver.OpsApply
import Driver.OpsCase
import Driver.OpsCompound
import Driver.OpsVariant
import Driver.OpsSerde
import Driver.OpsHistory
import Driver.OpsOutput
import Driver.OpsClap
import Driver.OpsScope
import Driver.OpsRenamePlan
import Driver.OpsUndo
import Driver.OpsPanic
import Driver.OpsExec
import Driver.OpsScan
import Driver.OpsSignals
import Driver.OpsLine
import Driver.OpsResolver
import Driver.OpsMatch
import Driver.OpsLock
/-
  rmodel: the executable side of the Lean model.  One request per line on stdin, one canonical
  result line on stdout; the same lines go to the Rust harness and the two streams are diffed.
  Each `Driver/Ops*.lean` owns some operations and exposes `dispatch : List String → Option String`.
-/

def handlers : List (List String → Option String) :=
  [ OpsApply.dispatch
  , OpsCase.dispatch
  , OpsCompound.dispatch
  , OpsVariant.dispatch
  , OpsSerde.dispatch
  , OpsHistory.dispatch
  , OpsOutput.dispatch
  , OpsClap.dispatch
  , OpsScope.dispatch
  , OpsRenamePlan.dispatch
  , OpsUndo.dispatch
  , OpsPanic.dispatch
  , OpsExec.dispatch
  , OpsScan.dispatch
  , OpsSignals.dispatch
  , OpsLine.dispatch
  , OpsResolver.dispatch
  , OpsMatch.dispatch
  , OpsLock.dispatch
  ]

def dispatch (fields : List String) : String :=
  match fields with
  | "ping" :: _ => "pong"
  | _ => (handlers.findSome? (fun h => h fields)).getD "bad-op"

partial def loop (h : IO.FS.Stream) (out : IO.FS.Stream) : IO Unit := do
  let line ← h.getLine
  if line.isEmpty then return ()
  let fields := (line.trimAscii.toString.splitOn " ").filter (· ≠ "")
  out.putStrLn (dispatch fields)
  loop h out

def main : IO Unit := do
  let out ← IO.getStdout
  loop (← IO.getStdin) out
  out.flush
