import RModel.Base.Bytes
import RModel.Base.Utf8
import RModel.Model.Edits
import RModel.Model.Apply
import Driver.Wire
/-
  rmodel: the executable side of the Lean model.  One request per line on stdin, one canonical
  result line on stdout; the same lines go to the Rust harness and the two streams are diffed.
-/
open B

def natOf (s : String) : Option Nat := s.toNat?

namespace Ops

def parseEdits : List String → Option (List Edits.Edit)
  | [] => some []
  | b :: a :: s :: e :: rest =>
    match ofHex b, ofHex a, natOf s, natOf e, parseEdits rest with
    | some b, some a, some s, some e, some r => some ({ before := b, after := a, start := s, stop := e } :: r)
    | _, _, _, _, _ => none
  | _ => none

def edits : List String → String
  | orig :: rest =>
    match ofHex orig, parseEdits rest with
    | some o, some es =>
      if es.isEmpty then s!"ok {hexOrDash o}"
      else if !Utf8.valid o then "unreadable"
      else match Edits.applyEdits o es with
        | .ok r => s!"ok {hexOrDash r}"
        | .error .panic => "panic"
        | .error .mismatch => "mismatch"
    | _, _ => "bad-req"
  | _ => "bad-req"

/-- `applytree T n … H n … R n …` -/
def applytree (fs : List String) : String :=
  match Wire.tree? fs with
  | none => "bad-req"
  | some (t, r1) =>
    match Wire.hunks? r1 with
    | none => "bad-req"
    | some (hs, r2) =>
      match Wire.rens? r2 with
      | some (rs, []) =>
        let r := Apply.applyPlan t { hunks := hs, rens := rs }
        s!"{Wire.showOutcome r.outcome} {Wire.showTree r.tree}"
      | _ => "bad-req"

end Ops

def dispatch (fields : List String) : String :=
  match fields with
  | "edits" :: rest => Ops.edits rest
  | "applytree" :: rest => Ops.applytree rest
  | "ping" :: _ => "pong"
  | _ => "bad-op"

partial def loop (h : IO.FS.Stream) (out : IO.FS.Stream) : IO Unit := do
  let line ← h.getLine
  if line.isEmpty then return ()
  let fields := (line.trimAscii.toString.splitOn " ").filter (· ≠ "")
  out.putStrLn (dispatch fields)
  loop h out

def main : IO Unit := do
  let out ← IO.getStdout
  loop (← IO.getStdin) out
  out.flush
