import RModel.Base.Bytes
import RModel.Model.Panics
/- driver operations for C16: the model's prediction `panic` | `nopanic` | `any` (no claim) per request -/
open B Panics

namespace OpsPanic

def verdict (panics : Bool) : String := if panics then "panic" else "nopanic"

def isAscii (s : Bytes) : Bool := s.all (fun c => c.toNat < 128)

def dispatch : List String → Option String
  | ["panic_boundary", h, s, e] =>
    match ofHex h, s.toNat?, e.toNat? with
    | some b, some s, some e => some (verdict (isBoundary b s e).isNone)
    | _, _, _ => some "bad-req"
  | ["panic_tokens", h] =>
    -- `tokenizer_total`: no index of the tokenizer can be out of range, for any string
    match ofHex h with
    | some _ => some "nopanic"
    | none => some "bad-req"
  | ["panic_lock", h, now] =>
    match ofHex h, now.toNat? with
    | some c, some now => some (verdict (lockPanics c now))
    | _, _ => some "bad-req"
  | ["panic_coerce", c, o, n] =>
    match ofHex c, ofHex o, ofHex n with
    | some c, some o, some _ =>
      if o.isEmpty then some "bad-req"
      -- `replaceCaseInsensitive_ascii_total`: ASCII container, non-empty pattern: safe; otherwise no claim
      else if isAscii c then some "nopanic" else some "any"
    | _, _, _ => some "bad-req"
  | _ => none

end OpsPanic
