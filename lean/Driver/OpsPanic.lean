import RModel.Base.Bytes
import RModel.Model.Panics
/- driver operations for C16: the model's prediction per request.
   `panic` / `nopanic` = the model of the code AS THE SOURCE HAS IT NOW (`…Cur`, selected by Gen.PanicGuards)
   says so for this input; `any` = no claim.  Reverting a fix flips the flag, hence these answers. -/
open B Panics

namespace OpsPanic

def verdict (panics : Bool) : String := if panics then "panic" else "nopanic"

def isAscii (s : Bytes) : Bool := s.all (fun c => c.toNat < 128)

/-- have all guards of a group of sites been found in the source? -/
def coercionRepaired : Bool :=
  Gen.PanicGuards.ciEmptyAndLengthGuard && Gen.PanicGuards.ciSlicesChecked && Gen.PanicGuards.coercionPartChecked

def editsOf : List String → Option (List Edits.Edit)
  | [] => some []
  | b :: a :: s :: e :: rest =>
    match ofHex b, ofHex a, s.toNat?, e.toNat?, editsOf rest with
    | some b, some a, some s, some e, some r => some ({ before := b, after := a, start := s, stop := e } :: r)
    | _, _, _, _, _ => none
  | _ => none

def dispatch : List String → Option String
  | ["panic_boundary", h, s, e] =>
    match ofHex h, s.toNat?, e.toNat? with
    | some b, some s, some e => some (verdict (isBoundary b s e).isNone)
    | _, _, _ => some "bad-req"
  | ["panic_tokens", h] =>
    -- `tokenizer_total`: no index of the tokenizer can be out of range, for any string
    match ofHex h with
    | some _ => some "nopanic"
    | none => some "bad-req"
  | "panic_tokens_acr" :: h :: acrs =>
    -- `findLongestMatch_total`: with the ASCII guard no custom acronym can split a character
    match ofHex h, acrs.mapM ofHex with
    | some _, some as =>
      if Gen.PanicGuards.acronymAsciiGuard || as.all isAscii then some "nopanic" else some "any"
    | _, _ => some "bad-req"
  | ["panic_lock", h, now] =>
    match ofHex h, now.toNat? with
    | some c, some now => some (verdict (lockPanics c now))
    | _, _ => some "bad-req"
  | ["panic_coerce", c, o, n] =>
    match ofHex c, ofHex o, ofHex n with
    | some c, some o, some _ =>
      if o.isEmpty then some "bad-req"
      -- `replaceCaseInsensitive_total` / `patternPart_total`: any text; before the fix only ASCII was safe
      else if coercionRepaired || isAscii c then some "nopanic" else some "any"
    | _, _, _ => some "bad-req"
  | "panic_edits" :: h :: rest =>
    match ofHex h, editsOf rest with
    | some orig, some es => some (verdict (applyEditsCur orig es == .error .panic))
    | _, _ => some "bad-req"
  | ["panic_vmap", s, r] =>
    -- `variantMap_has_no_empty_key`
    match ofHex s, ofHex r with
    | some _, some _ => some (if Gen.PanicGuards.emptyVariantSkipped then "no-empty-key" else "any")
    | _, _ => some "bad-req"
  | ["panic_upper", h] =>
    -- `upperRun_total`
    match ofHex h with
    | some t => some (if Gen.PanicGuards.upperRunCountsChars || isAscii t then "nopanic" else "any")
    | none => some "bad-req"
  | "panic_find" :: h :: vars =>
    -- `matcher_indices_in_range`: no empty variant, no panic
    match ofHex h, vars.mapM ofHex with
    | some _, some vs => some (if vs.all (fun v => !v.isEmpty) then "nopanic" else "any")
    | _, _ => some "bad-req"
  | ["panic_replace", c, pat, rep, _mode] =>
    -- regex semantics are not modelled: no claim; the check flags any panic of this op and replays it through the CLI
    match ofHex c, ofHex pat, ofHex rep with
    | some _, some _, some _ => some "any"
    | _, _, _ => some "bad-req"
  | ["panic_compound", i, o, n] =>
    -- no theorem about compound_matcher: no claim (the check itself flags a panic on an extractor-shaped identifier)
    match ofHex i, ofHex o, ofHex n with
    | some _, some _, some _ => some "any"
    | _, _, _ => some "bad-req"
  | _ => none

end OpsPanic
