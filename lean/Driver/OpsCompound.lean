import RModel.Base.Bytes
import RModel.Model.CaseModel
import RModel.Model.Compound
import RModel.Gen.Acronyms
import Driver.OpsCase
/- driver operations for the compound matcher (C07): same canonical lines as harness/src/ops_compound.rs -/
open B CaseModel Compound

namespace OpsCompound

def A : Acr := OpsCase.A

def stylesOf (s : String) : Option (List Style) :=
  if s == "-" then some [] else (s.splitOn ",").mapM OpsCase.styleOf

def ascii (s : Bytes) : Bool := s.all (fun c => decide (c.toNat < 128))

def showC (m : CMatch) : String :=
  s!"{hexOrDash m.full}:{hexOrDash m.replacement}:{OpsCase.styleName m.style}"

def dispatch : List String → Option String
  | ["compound", i, s, r, st] =>
    match ofHex i, ofHex s, ofHex r, stylesOf st with
    | some i, some s, some r, some st =>
      if !(ascii i && ascii s && ascii r) then some "unsupported" else
      some (match findCompound A i s r st with
        | some m => s!"c {showC m}"
        | none => "c none")
    | _, _, _, _ => some "bad-req"
  | ["identifiers", c, st] =>
    match ofHex c, stylesOf st with
    | some c, some st =>
      if !ascii c then some "unsupported" else
      some (" ".intercalate ("i" :: (findAll st c).map (fun (a, b, t) => s!"{a}:{b}:{hexOrDash t}")))
    | _, _ => some "bad-req"
  | ["boundary", c, a, b] =>
    match ofHex c, a.toNat?, b.toNat? with
    | some c, some a, some b =>
      if a > b || b > c.length || a ≥ c.length then some "b oob"
      else some s!"b {isBoundary (c.take a) ((c.drop a).take (b - a)) (c.drop b)}"
    | _, _, _ => some "bad-req"
  | ["enhanced", c, s, r, st] =>
    match ofHex c, ofHex s, ofHex r, stylesOf st with
    | some c, some s, some r, some st =>
      if !(ascii c && ascii s && ascii r) then some "unsupported" else
      let ms := findEnhanced A c s r (variantKeys A s st) st
      some (" ".intercalate ("e" :: ms.map (fun m => s!"{m.start}:{m.stop}:{hexOrDash m.variant}:{hexOrDash m.text}")))
    | _, _, _, _ => some "bad-req"
  | "compound" :: _ => some "bad-req"
  | "identifiers" :: _ => some "bad-req"
  | "boundary" :: _ => some "bad-req"
  | "enhanced" :: _ => some "bad-req"
  | _ => none

end OpsCompound
