import RModel.Base.Bytes
import RModel.Model.Fs
import RModel.Model.Apply
import RModel.Model.Exec
import Driver.Wire
/-
  driver operation for the operation-level model (C04, C11):

    exectrace <cmd> <setup> T n … H n … R n … ORD n <pathhex>… <inj> [k]

  cmd    rename | apply | redo | replace | undo | reapply (`apply <id>` of an operation that has been undone)
  setup  fresh (no `.renamify` beyond what the command sequence itself needs) | old (one earlier, unrelated
         rename is recorded: history entry `O`, its plan/patch/log files under the placeholder id `<OLD>`)
  T      the user tree BEFORE the plan is applied (for `undo` the driver applies the plan with
         `Apply.applyPlan` first; for `redo` the tree is the one `undo` restored, i.e. T again)
  ORD    for `undo`: the order in which the edited files are patched (a HashMap in the code)
  inj    none | fail k | cb k | ca k | cm k

  answer:  <outcome>|<op>;<op>;…|<user tree>|H=<absent|bad|[entries]>|L=<absent|empty|full>|P=<0|1>|X=<0|1>|B=<0|1>
           (X: a leftover `renamify.lock.<pid>.tmp` exists;  B: a leftover temp file would make a later edit of the same
           file fail — only possible with a fixed temp name opened with create_new)
-/
open B Fs Apply Exec

namespace OpsExec

def pathStr (p : Path) : String :=
  let b := joinPath p
  match String.fromUTF8? (ByteArray.mk b.toArray) with
  | some s => if s.any (fun c => c == ' ' || c == ';' || c == '|') then "hex:" ++ toHex b else s
  | none => "hex:" ++ toHex b

def errName : Errno → String
  | .ENOENT => "ENOENT" | .ENOTDIR => "ENOTDIR" | .EISDIR => "EISDIR" | .ENOTEMPTY => "ENOTEMPTY"
  | .EEXIST => "EEXIST" | .EINVAL => "EINVAL" | .EIO => "EIO"

def showOp (x : Op × Option Errno) : String :=
  let base := match x.1 with
    | .mkdir p => s!"mkdir {pathStr p}"
    | .openw p _ _ => s!"openw {pathStr p}"
    | .write p _ => s!"write {pathStr p}"
    | .chmod p m => s!"chmod {pathStr p} {Wire.toOctal (0o100000 + m)}"
    | .rename a b sa sb => s!"rename {pathStr a}{if sa then "/" else ""} {pathStr b}{if sb then "/" else ""}"
    | .link a b => s!"link {pathStr a} {pathStr b}"
    | .unlink p => s!"unlink {pathStr p}"
    | .rmdir p => s!"rmdir {pathStr p}"
    | .logLine => "log"
  match x.2 with
  | none => base
  | some e => s!"{base} !{errName e}"

def file (p : Path) (c : Bytes) : Path × Node := (p, .file c 0o644)
def dir (p : Path) : Path × Node := (p, .dir 0o755)

/-- what a completed `rename`/`apply` with id `id` leaves below `.renamify` (history aside) -/
def recorded (id : Bytes) : Tree :=
  [ dir [dotR, b!"backups", id], dir (pPatchDir id), file (pPatch id) blob,
    file (pStored id) blob, file (pLogFile id) blob ]

def metaBase : Tree := [dir pR, dir [dotR, b!"logs"], dir [dotR, b!"backups"], dir pPlans]

def hist (es : Bytes) : Tree := [file pHist (encodeHist es)]

/-- the `.renamify` part of the initial world -/
def metaFor (cmd : String) (old : Bool) : Tree :=
  let o : Bytes := if old then [entryOld] else []
  let base := if old then metaBase ++ recorded idOld else []
  match cmd with
  | "rename" | "replace" => base ++ (if old then hist o else [])
  | "apply" => (if old then base ++ hist o else [dir pR]) ++ [file pPlanJson blob]
  | "undo" => (if old then base else metaBase) ++ recorded idNew ++ hist (o ++ [entryApply])
  | "redo" | "reapply" => (if old then base else metaBase) ++ recorded idNew ++ hist (o ++ [entryApply, entryUndo])
  | _ => []

def paths? : List String → Option (List Path × List String)
  | "ORD" :: n :: rest =>
    (Wire.nat? n).bind (fun k => Wire.many (fun fs => match fs with
      | p :: r => (Wire.path? p).map (fun q => (q, r))
      | [] => none) k rest)
  | _ => none

def inj? : List String → Option Inj
  | ["none"] => some .none
  | ["fail", k] => (Wire.nat? k).map (fun n => Inj.fail n .EIO)
  | ["cb", k] => (Wire.nat? k).map Inj.crashBefore
  | ["ca", k] => (Wire.nat? k).map Inj.crashAfter
  | ["cm", k] => (Wire.nat? k).map Inj.crashMid
  | _ => none

def showOutcome : Exec.Outcome → String
  | .ok => "ok" | .fail => "fail" | .panic => "panic" | .crashed => "crashed"

def digest (cmd : String) (files : List Path) (t : Tree) : String :=
  let h := match lookup t pHist with
    | none => "absent"
    | some (.file c _) => (match parseHist c with
      | some es => "[" ++ String.ofList (es.map (fun (b : UInt8) => Char.ofNat b.toNat)) ++ "]"
      | none => "bad")
    | some _ => "bad"
  let l := match lookup t pLock with
    | none => "absent"
    | some (.file c _) => if c.isEmpty then "empty" else "full"
    | some _ => "other"
  let id := if cmd == "redo" then idRedo else idNew
  let p := match lookup t (pStored id) with
    | some (.file c _) => if c.isEmpty then "0" else "1"
    | _ => "0"
  let x := match lookup t pLockTmp with
    | some _ => "1"
    | none => "0"
  let b := if leftoverBlocks files t then "1" else "0"
  s!"{Wire.showTree (userTree t)}|H={h}|L={l}|P={p}|X={x}|B={b}"

def exectrace : List String → String
  | cmd :: setup :: rest =>
    match Wire.tree? rest with
    | none => "bad-req"
    | some (t, r1) =>
      match Wire.hunks? r1 with
      | none => "bad-req"
      | some (hs, r2) =>
        match Wire.rens? r2 with
        | none => "bad-req"
        | some (rs, r3) =>
          match paths? r3 with
          | none => "bad-req"
          | some (ord, r4) =>
            match inj? r4 with
            | none => "bad-req"
            | some inj =>
              let plan : Plan := { hunks := hs, rens := rs }
              let old := setup == "old"
              let user : Tree := if cmd == "undo" then (applyPlan t plan).tree else t
              let w0 := user ++ metaFor cmd old
              let prog : Option (M Unit) := match cmd with
                | "rename" => some (cmdRename plan)
                | "apply" => some (cmdApply plan)
                | "redo" => some (cmdRedo plan)
                | "reapply" => some (cmdReapply plan)
                | "replace" => some (cmdReplace plan)
                | "undo" => some (cmdUndo plan (originals t ord))
                | _ => none
              match prog with
              | none => "bad-req"
              | some pr =>
                let r := run pr w0 inj
                let ops := ";".intercalate (r.st.trace.reverse.map showOp)
                s!"{showOutcome (outcome r)}|{ops}|{digest cmd (sortedFiles plan.hunks) r.st.t}"
  | _ => "bad-req"

def dispatch : List String → Option String
  | "exectrace" :: rest => some (exectrace rest)
  | _ => none

end OpsExec
