import RModel.Base.Bytes
import RModel.Model.CaseModel
import RModel.Model.VariantMap
import RModel.Gen.Acronyms
import RModel.Gen.Styles
import Driver.OpsCase
/-
  driver operation for the variant table of `case_model.rs` (C18, C06):

    vmapm <hex search> <hex replace> <default|all|name,name,…> <0|1>

  = `generate_variant_map_with_atomic_and_plurals(search, replace, styles, None, false)` (plural variants disabled),
  the last field is the value of `ambiguity::is_ambiguous(search, all_styles)` (a parameter of the model; the harness
  prints the value it computed, so a wrong flag in the request shows up as a difference).
  Output: `v a=<0|1> <hex key>=<hex value> …` sorted by key bytes (the `BTreeMap<String,String>` iteration order).
-/
open B CaseModel

namespace OpsVariant

def bytesLt : Bytes → Bytes → Bool
  | [], [] => false
  | [], _ :: _ => true
  | _ :: _, [] => false
  | a :: as, b :: bs => if a < b then true else if b < a then false else bytesLt as bs

def insertSorted (e : Bytes × Bytes) : List (Bytes × Bytes) → List (Bytes × Bytes)
  | [] => [e]
  | x :: xs => if bytesLt e.1 x.1 then e :: x :: xs else x :: insertSorted e xs

def sortRows (m : List (Bytes × Bytes)) : List (Bytes × Bytes) := m.foldr insertSorted []

def stylesOf (s : String) : Option (Option (List Style)) :=
  if s == "default" then some none
  else if s == "all" then some (some Gen.allStyles)
  else (s.splitOn ",").mapM OpsCase.styleOf |>.map some

def dispatch : List String → Option String
  | ["vmapm", hs, hr, st, amb] =>
    match ofHex hs, ofHex hr, stylesOf st, (if amb == "0" then some false else if amb == "1" then some true else none) with
    | some s, some r, some styles, some a =>
      let m := variantMap OpsCase.A styles false (fun _ => none) (fun _ => none) a s r
      let cells := (sortRows m).map (fun e => s!"{hexOrDash e.1}={hexOrDash e.2}")
      some (" ".intercalate ("v" :: s!"a={amb}" :: cells))
    | _, _, _, _ => some "bad-req"
  | _ => none

end OpsVariant
