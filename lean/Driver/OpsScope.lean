import RModel.Base.Bytes
import RModel.Model.Fs
import RModel.Model.Scope
import RModel.Gen.Walker
import Driver.Wire
import RModel.Base.Lit
/- driver operations for the scope model (C09); request formats are documented in harness/src/ops_scope.rs -/
open B Scope

namespace OpsScope

def P : Pipeline := Gen.pipeline

def strings (tag : String) : List String → Option (List Bytes × List String)
  | t :: n :: rest =>
    if t == tag then
      match Wire.nat? n with
      | some k => Wire.many (fun fs => match fs with
          | h :: r => (ofHex h).map (fun b => (b, r))
          | [] => none) k rest
      | none => none
    else none
  | _ => none

def kindIdx : IgnKind → Nat
  | .gitignore => 0 | .ignore => 1 | .rgignore => 2 | .rnignore => 3 | .gitExclude => 4

def oracleEntry? : List String → Option ((RelPath × List Char × List Char) × List String)
  | p :: below :: above :: rest => (Wire.path? p).map (fun p => ((p, below.toList, above.toList), rest))
  | _ => none

def showPaths (ps : List RelPath) : String :=
  let items := (ps.map (fun p => hexOrDash (Fs.joinPath p))).mergeSort (fun a b => decide (a ≤ b))
  " ".intercalate items.eraseDups

/-- resolve a link target relative to the directory of the link, inside the tree (`none`: leaves the tree) -/
def resolve (dir : RelPath) (target : Bytes) : Option RelPath :=
  if target.head? == some 47 then none
  else
    (B.splitOn target 47).foldl (fun acc c =>
      match acc with
      | none => none
      | some cur =>
        if c.isEmpty || c == [46] then some cur
        else if c == [46, 46] then (if cur.isEmpty then none else some cur.dropLast)
        else some (cur ++ [c])) (some dir)

/-- follow links up to a fixed depth, returning the content of the regular file reached -/
def fileBehind (t : Fs.Tree) : Nat → RelPath → Option Bytes
  | 0, _ => none
  | fuel + 1, p =>
    match Fs.lookup t p with
    | some (.file c _) => some c
    | some (.link tg) => (resolve p.dropLast tg).bind (fileBehind t fuel)
    | _ => none

def containsSub (s p : Bytes) : Bool := (B.find s p).isSome

/-- strict prefixes of a path, shortest first (`[]` included unless the path is `[]`) -/
def strictPrefixes (p : RelPath) : List RelPath := (inits p).filter (fun q => decide (q.length < p.length))

def scope (fields : List String) : Option String := do
  let (level, rest) ← match fields with
    | l :: r => (Wire.nat? l).map (fun n => (n, r))
    | [] => none
  let (respect, rest) ← match rest with
    | r :: rest => some (r == "1", rest)
    | [] => none
  let (inc, rest) ← strings "I" rest
  let (exc, rest) ← strings "X" rest
  let (rootsB, rest) ← strings "P" rest
  let (tree, rest) ← Wire.tree? rest
  let (orc, rest) ← Wire.counted "O" oracleEntry? rest
  let search ← match rest with
    | ["M", s] => ofHex s
    | _ => none
  let roots : List RelPath := rootsB.map Fs.splitPath
  let hasGit : RelPath → Bool := fun d => (Fs.lookup tree (d ++ [gitName])).isSome
  let tyFull : RelPath → FType := fun p =>
    match Fs.lookup tree p with
    | some (.dir _) => .dir
    | some (.link _) => .symlink
    | _ => .file
  let bit : (RelPath × List Char × List Char → List Char) → IgnKind → RelPath → Bool := fun sel k p =>
    match orc.find? (fun e => e.1 == p) with
    | some e => (sel e).getD (kindIdx k) '0' == '1'
    | none => false
  let named := fun (p : RelPath) => match p.getLast? with | some n => containsSub n search | none => false
  -- per root: the entries strictly below it, judged with the root's own site
  let perRoot := (roots.zipIdx).map (fun (R, idx) =>
    let site : Site :=
      { gitAt := fun d => hasGit (R ++ d), ancGit := (strictPrefixes R).any hasGit,
        ign := fun k p => bit (fun e => e.2.1) k (R ++ p), ignAbove := fun k p => bit (fun e => e.2.2) k (R ++ p),
        ty := fun p => tyFull (R ++ p) }
    let req : Request :=
      { level := level, respectGitignore := respect, site := site, gm := Glob.matchesD,
        globs := { includes := inc, excludes := exc }, firstRoot := idx == 0, absPrefix := [[], b!"abs"] ++ R }
    let entries : List Entry := tree.filterMap (fun e =>
      if R.isPrefixOf e.1 && decide (R.length < e.1.length) then
        let rel := e.1.drop R.length
        match e.2 with
        | .file c _ => some { path := rel, ftype := .file, content := c }
        | .dir _ => some { path := rel, ftype := .dir }
        | .link _ =>
          match fileBehind tree 8 e.1 with
          | some c => some { path := rel, ftype := .symlink, content := c, linkToFile := true }
          | none => some { path := rel, ftype := .symlink }
      else none)
    let c := P.cfgFor req
    let walkedE := entries.filter (fun e => walked c req.site e.path)
    let full := fun (es : List Entry) => es.map (fun e => R ++ e.path)
    ( full walkedE,
      full (walkedE.filter (fun e => isFileFor P.scanFollows e && globsOk P.G req.gm req.globs e.path)),
      full (entries.filter (fun e => inScope P req e && containsSub e.content search)),
      -- the root entry itself (depth 0) is yielded by the walker and may be renamed
      (if !R.isEmpty && named R && renameCandidate P req { path := [], ftype := .dir } then [R] else []) ++
        full (entries.filter (fun e => renameCandidate P req e && named e.path)),
      full (walkedE.filter (fun e => isFileFor P.simpleFollows e && globsOk P.G req.gm req.globs (simpleGlobPath P req e))),
      full (entries.filter (fun e => inScopeSimple P req e && containsSub e.content search)),
      (if !R.isEmpty && named R && renameCandidateSimple P req { path := [], ftype := .dir } then [R] else []) ++
        full (entries.filter (fun e => renameCandidateSimple P req e && named e.path)) ))
  let cat := fun (sel : (List RelPath × List RelPath × List RelPath × List RelPath × List RelPath × List RelPath × List RelPath) → List RelPath) =>
    (perRoot.flatMap sel).eraseDups
  let w := cat (·.1)
  let sAll := cat (·.2.1)
  let sHit := cat (·.2.2.1)
  let rens := cat (·.2.2.2.1)
  let qAll := cat (·.2.2.2.2.1)
  let qHit := cat (·.2.2.2.2.2.1)
  let qRens := cat (·.2.2.2.2.2.2)
  some s!"W {showPaths w} | S {sAll.length} {showPaths sHit} | R {showPaths rens} | Q {qAll.length} {showPaths qHit} | QR {showPaths qRens}"

def isbinary : List String → Option String
  | [l, h] =>
    match Wire.nat? l, ofHex h with
    | some level, some c =>
      let sniffOk := P.binaryAsText level || !(isBinary P.S c)
      let b := if sniffOk then "scanned" else "skipped"
      let q := if sniffOk && (!P.simpleSkipsInvalidUtf8 || Utf8.valid c) then "planned" else "skipped"
      some s!"b {b} q {q}"
    | _, _ => none
  | _ => none

def globs (fields : List String) : Option String := do
  let (n, rest) ← match fields with
    | n :: r => (Wire.nat? n).map (fun k => (k, r))
    | [] => none
  let (pats, rest) ← Wire.many (fun fs => match fs with
      | h :: r => (ofHex h).map (fun b => (b, r))
      | [] => none) n rest
  let path ← match rest with
    | [p] => ofHex p
    | _ => none
  if pats.isEmpty then some "g none"
  else
    let ex := expandPatterns P.G.expands P.G.plain pats
    if ex.any (fun p => (Glob.parse p).isNone) then some "g unsupported"
    else some (if ex.any (fun p => Glob.matchesD p path) then "g 1" else "g 0")

/-- `keep E n value… N n (variant text lineExcluded)…` -> indices of the matches that become hunks -/
def keep (fields : List String) : Option String := do
  let (excl, rest) ← strings "E" rest0
  let (ms, rest) ← Wire.counted "N" (fun fs => match fs with
      | v :: t :: b :: r =>
        match ofHex v, ofHex t with
        | some v, some t => some (({ variant := v, text := t, line := if b == "1" then [1] else [0] } : Match), r)
        | _, _ => none
      | _ => none) rest
  if !rest.isEmpty then none
  let re : Option (Bytes → Bool) := some (fun l => l == [1])
  let idx := (List.range ms.length).filter (fun i =>
    match ms[i]? with
    | some m => !(keptMatches Gen.exclCfg excl re [m]).isEmpty
    | none => false)
  some ("k " ++ " ".intercalate (idx.map toString))
where rest0 := fields

def orBad (o : Option String) : Option String := some (o.getD "bad-req")

def dispatch : List String → Option String
  | "scope" :: rest => orBad (scope rest)
  | "isbinary" :: rest => orBad (isbinary rest)
  | "globs" :: rest => orBad (globs rest)
  | "keep" :: rest => orBad (keep rest)
  | _ => none

end OpsScope
