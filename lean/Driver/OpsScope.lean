import RModel.Base.Bytes
import RModel.Model.Fs
import RModel.Model.Scope
import RModel.Gen.Walker
import Driver.Wire
/- driver operations for the scope model (C09); request formats are documented in harness/src/ops_scope.rs -/
open B Scope

namespace OpsScope

def P : Pipeline := Gen.pipeline

def strings (tag : String) : List String → Option (List Bytes × List String)
  | t :: n :: rest =>
    if t == tag then
      match Wire.nat? n with
      | some k => Wire.many (fun fs => match fs with
          | h :: r => (ofHex h).map (fun b => (b, r))
          | [] => none) k rest
      | none => none
    else none
  | _ => none

def kindIdx : IgnKind → Nat
  | .gitignore => 0 | .ignore => 1 | .rgignore => 2 | .rnignore => 3 | .gitExclude => 4

def oracleEntry? : List String → Option ((RelPath × List Char) × List String)
  | p :: bits :: rest => (Wire.path? p).map (fun p => ((p, bits.toList), rest))
  | _ => none

def showPaths (ps : List RelPath) : String :=
  let items := (ps.map (fun p => hexOrDash (Fs.joinPath p))).mergeSort (fun a b => decide (a ≤ b))
  " ".intercalate items.eraseDups

/-- resolve a link target relative to the directory of the link, inside the tree (`none`: leaves the tree) -/
def resolve (dir : RelPath) (target : Bytes) : Option RelPath :=
  if target.head? == some 47 then none
  else
    (B.splitOn target 47).foldl (fun acc c =>
      match acc with
      | none => none
      | some cur =>
        if c.isEmpty || c == [46] then some cur
        else if c == [46, 46] then (if cur.isEmpty then none else some cur.dropLast)
        else some (cur ++ [c])) (some dir)

/-- follow links up to a fixed depth, returning the content of the regular file reached -/
def fileBehind (t : Fs.Tree) : Nat → RelPath → Option Bytes
  | 0, _ => none
  | fuel + 1, p =>
    match Fs.lookup t p with
    | some (.file c _) => some c
    | some (.link tg) => (resolve p.dropLast tg).bind (fileBehind t fuel)
    | _ => none

def containsSub (s p : Bytes) : Bool := (B.find s p).isSome

def scope (fields : List String) : Option String := do
  let (level, rest) ← match fields with
    | l :: r => (Wire.nat? l).map (fun n => (n, r))
    | [] => none
  let (respect, rest) ← match rest with
    | r :: rest => some (r == "1", rest)
    | [] => none
  let (inc, rest) ← strings "I" rest
  let (exc, rest) ← strings "X" rest
  let (tree, rest) ← Wire.tree? rest
  let (orc, rest) ← Wire.counted "O" oracleEntry? rest
  let search ← match rest with
    | ["M", s] => ofHex s
    | _ => none
  let ty : RelPath → FType := fun p =>
    match Fs.lookup tree p with
    | some (.dir _) => .dir
    | some (.link _) => .symlink
    | _ => .file
  let ign : IgnoreOracle := fun k p =>
    match orc.find? (fun e => e.1 == p) with
    | some e => e.2.getD (kindIdx k) '0' == '1'
    | none => false
  let req : Request :=
    { level := level, respectGitignore := respect, inGit := (Fs.lookup tree [gitName]).isSome, ign := ign, ty := ty,
      gm := Glob.matchesD, globs := { includes := inc, excludes := exc } }
  let entries : List Entry := tree.filterMap (fun e =>
    if e.1.isEmpty then none else
    match e.2 with
    | .file c _ => some { path := e.1, ftype := .file, content := c }
    | .dir _ => some { path := e.1, ftype := .dir }
    | .link _ =>
      match fileBehind tree 8 e.1 with
      | some c => some { path := e.1, ftype := .symlink, content := c, linkToFile := true }
      | none => some { path := e.1, ftype := .symlink })
  let c := P.cfgFor req
  let walkedE := entries.filter (fun e => walked c req.inGit req.ign req.ty e.path)
  let named := fun (e : Entry) => match e.path.getLast? with | some n => containsSub n search | none => false
  let sCount := (walkedE.filter (fun e => isFileFor P.scanFollows e && globsOk P.G req.gm req.globs e.path)).length
  let sFiles := entries.filter (fun e => inScope P req e && containsSub e.content search)
  let rens := entries.filter (fun e => renameCandidate P req e && named e)
  let qCount := (walkedE.filter (fun e => isFileFor P.simpleFollows e && globsOk P.G req.gm req.globs e.path)).length
  let qFiles := entries.filter (fun e => inScopeSimple P req e && containsSub e.content search)
  let ps := fun (es : List Entry) => showPaths (es.map (·.path))
  some s!"W {ps walkedE} | S {sCount} {ps sFiles} | R {ps rens} | Q {qCount} {ps qFiles} | QR {ps rens}"

def isbinary : List String → Option String
  | [l, h] =>
    match Wire.nat? l, ofHex h with
    | some level, some c => some (if P.binaryAsText level || !(isBinary P.S c) then "b scanned" else "b skipped")
    | _, _ => none
  | _ => none

def globs (fields : List String) : Option String := do
  let (n, rest) ← match fields with
    | n :: r => (Wire.nat? n).map (fun k => (k, r))
    | [] => none
  let (pats, rest) ← Wire.many (fun fs => match fs with
      | h :: r => (ofHex h).map (fun b => (b, r))
      | [] => none) n rest
  let path ← match rest with
    | [p] => ofHex p
    | _ => none
  if pats.isEmpty then some "g none"
  else
    let ex := expandPatterns P.G.expands P.G.plain pats
    if ex.any (fun p => (Glob.parse p).isNone) then some "g unsupported"
    else some (if ex.any (fun p => Glob.matchesD p path) then "g 1" else "g 0")

/-- `keep E n value… N n (variant text lineExcluded)…` -> indices of the matches that become hunks -/
def keep (fields : List String) : Option String := do
  let (excl, rest) ← strings "E" rest0
  let (ms, rest) ← Wire.counted "N" (fun fs => match fs with
      | v :: t :: b :: r =>
        match ofHex v, ofHex t with
        | some v, some t => some (({ variant := v, text := t, line := if b == "1" then [1] else [0] } : Match), r)
        | _, _ => none
      | _ => none) rest
  if !rest.isEmpty then none
  let re : Option (Bytes → Bool) := some (fun l => l == [1])
  let idx := (List.range ms.length).filter (fun i =>
    match ms[i]? with
    | some m => !(keptMatches Gen.exclCfg excl re [m]).isEmpty
    | none => false)
  some ("k " ++ " ".intercalate (idx.map toString))
where rest0 := fields

def orBad (o : Option String) : Option String := some (o.getD "bad-req")

def dispatch : List String → Option String
  | "scope" :: rest => orBad (scope rest)
  | "isbinary" :: rest => orBad (isbinary rest)
  | "globs" :: rest => orBad (globs rest)
  | "keep" :: rest => orBad (keep rest)
  | _ => none

end OpsScope
