import RModel.Base.Bytes
import RModel.Model.Fs
import RModel.Model.Apply
/- Wire format shared by several driver operations: trees and plans as flat field lists. -/
open B Fs

namespace Wire

def nat? (s : String) : Option Nat := s.toNat?

def octal? (s : String) : Option Nat :=
  s.toList.foldl (fun acc c => match acc with
    | none => none
    | some n => if '0' ≤ c ∧ c ≤ '7' then some (n * 8 + (c.toNat - 48)) else none) (some 0)

def toOctal (n : Nat) : String := String.ofList (Nat.toDigits 8 n)

def path? (s : String) : Option Path := (ofHex s).map splitPath

/-- parse `n` records with `f`, which consumes fields and returns the rest -/
def many {α} (f : List String → Option (α × List String)) : Nat → List String → Option (List α × List String)
  | 0, fs => some ([], fs)
  | n + 1, fs =>
    match f fs with
    | none => none
    | some (a, rest) =>
      match many f n rest with
      | none => none
      | some (as, rest') => some (a :: as, rest')

def counted {α} (tag : String) (f : List String → Option (α × List String)) :
    List String → Option (List α × List String)
  | t :: n :: rest => if t == tag then (nat? n).bind (fun k => many f k rest) else none
  | _ => none

def node? : List String → Option ((Path × Node) × List String)
  | "f" :: p :: c :: m :: rest =>
    match path? p, ofHex c, octal? m with
    | some p, some c, some m => some ((p, .file c m), rest)
    | _, _, _ => none
  | "d" :: p :: m :: rest =>
    match path? p, octal? m with
    | some p, some m => some ((p, .dir m), rest)
    | _, _ => none
  | "l" :: p :: tgt :: rest =>
    match path? p, ofHex tgt with
    | some p, some t => some ((p, .link t), rest)
    | _, _ => none
  | _ => none

def hunk? : List String → Option (Apply.Hunk × List String)
  | f :: b :: a :: s :: e :: rest =>
    match path? f, ofHex b, ofHex a, nat? s, nat? e with
    | some f, some b, some a, some s, some e => some ({ file := f, before := b, after := a, start := s, stop := e }, rest)
    | _, _, _, _, _ => none
  | _ => none

def ren? : List String → Option (Apply.Ren × List String)
  | k :: p :: q :: rest =>
    match path? p, path? q with
    | some p, some q =>
      if k == "d" then some ({ path := p, newPath := q, kind := .dir }, rest)
      else if k == "f" then some ({ path := p, newPath := q, kind := .file }, rest)
      else none
    | _, _ => none
  | _ => none

def tree? := counted "T" node?
def hunks? := counted "H" hunk?
def rens? := counted "R" ren?

def showNode (e : Path × Node) : String :=
  let p := hexOrDash (joinPath e.1)
  match e.2 with
  | .file c m => s!"f:{p}:{toOctal m}:{hexOrDash c}"
  | .dir m => s!"d:{p}:{toOctal m}"
  | .link t => s!"l:{p}:{hexOrDash t}"

def showTree (t : Tree) : String :=
  let items := (t.map showNode).mergeSort (fun a b => decide (a ≤ b))
  " ".intercalate items

def showOutcome : Apply.Outcome → String
  | .ok => "ok"
  | .mismatch => "mismatch"
  | .panic => "panic"
  | .unreadable => "unreadable"
  | .renameFailed _ => "renamefailed"
  | .rollbackFailed _ => "rollbackfailed"
  | .backupFailed => "backupfailed"
  | .destExists => "destexists"
  | .sharedDest => "shareddest"

end Wire
