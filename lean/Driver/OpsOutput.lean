import RModel.Base.Bytes
import RModel.Model.Output
/- driver operation for the output model (C19): the model's prediction for one row of the CLI grid -/
open B Output

namespace OpsOutput

def bit? : String → Option Bool
  | "0" => some false
  | "1" => some true
  | _ => none

def showBit (b : Bool) : String := if b then "1" else "0"

def cmd? : String → Option Cmd
  | "plan" => some .plan | "search" => some .search | "rename" => some .rename | "replace" => some .replace
  | "apply" => some .apply | "undo" => some .undo | "redo" => some .redo | "history" => some .history
  | "status" => some .status | "version" => some .version
  | _ => none

def names (ns : List Name) : String :=
  if ns.isEmpty then "-" else ",".intercalate (ns.map fun n => hexOrDash (nameBytes n))

/-- resolve a `.ref` at the top of a shape -/
def deref : Nat → JsonShape → JsonShape
  | 0, s => s
  | n + 1, .ref r => match lookup r Gen.rustShapes with
    | some s => deref n s
    | none => .ref r
  | _, s => s

def showPres : Pres3 → String
  | .present => "p"
  | .absent => "a"
  | .either => "e"

/-- presence of `field` in the serde shape of struct `st` in scenario `c` -/
def memberPres (c : DocCtx) (st field : Name) : String :=
  match lookup st Gen.rustShapes with
  | some (.obj fs) => match lookup field fs with
    | some ps => showPres (pres3 c field ps.1)
    | none => "a"
  | _ => "-"

/-- the first fallible site of the handler whose callee is `callee` and whose guard holds in the row -/
def siteOf (r : Row) (callee : Name) : Option Nat :=
  match eventsOf r.cmd with
  | none => none
  | some (d, evs) => evs.findSome? fun e => match e.ev with
    | .fail k c => if c = callee && holds (atomVal r d) e.guard then some k else none
    | _ => none

def render (r : Row) (noMatches noRenames : Bool) (serFails : Bool := false) : String :=
  match outcome r with
  | none => "c19 no-handler"
  | some o =>
    let c := { docCtxOf r.cmd noMatches noRenames with serFails := serFails }
    let docs := o.stdout.length
    let js := (o.stdout.filter Payload.isJson).length
    let (keys, optk) := match o.stdout with
      | [p] => match (docShape p).map (deref 4) with
        | some (.obj fs) =>
          (fs.filterMap fun f => if pres3 c f.1 f.2.1 == .present then some f.1 else none,
           fs.filterMap fun f => if pres3 c f.1 f.2.1 == .either then some f.1 else none)
        | _ => ([], [])
      | _ => ([], [])
    let conf := match o.stdout with
      | [p] => if (expectedTypes r.cmd).isEmpty || some p != emittedDoc r.cmd then "-"
               else showBit (conformsCmdIn r.cmd c)
      | _ => "-"
    s!"c19 docs={docs} json={js} failed={showBit o.failed} exit0={showBit o.exitZero} ok={showBit (succeeded r o)} conf={conf} keys={names keys} opt={names optk} hunk_replace={memberPres c n!"MatchHunk" n!"replace"} rename_new_path={memberPres c n!"Rename" n!"new_path"} performed={names o.performed}"

def asciiOf (b : Bytes) : String := String.ofList (b.map fun c => Char.ofNat c.toNat)

def row (fs : List String) (serFails : Bool) (commit : Bool := false) : Option String :=
  match fs with
  | [cmd, json, quiet, dry, yes, preview, noRegex, noMatches, noRenames, failCallee] =>
    match (ofHex cmd).bind (fun b => cmd? (asciiOf b)),
          bit? json, bit? quiet, bit? dry, bit? yes, bit? preview, bit? noRegex, bit? noMatches, bit? noRenames with
    | some cmd, some json, some quiet, some dryRun, some yes, some preview, some noRegex, some noMatches, some noRenames =>
      let r0 : Row := { cmd, json, quiet, dryRun, yes, preview, noRegex, commit, planEmpty := noMatches && noRenames, failAt := none }
      if failCallee == "-" then some (render r0 noMatches noRenames serFails)
      else match ofHex failCallee with
        | none => some "bad-req"
        | some callee => match siteOf r0 (nameOfBytes callee) with
          | none => some "c19 no-such-site"
          | some k => some (render { r0 with failAt := some k } noMatches noRenames serFails)
    | _, _, _, _, _, _, _, _, _ => some "bad-req"
  | _ => some "bad-req"

/-- `c19row <10 fields>` (every path valid UTF-8, no --commit), `c19rowx <10 fields> <serFails>`, `c19rowc <10 fields> <commit>` -/
def dispatch : List String → Option String
  | "c19row" :: fs => row fs false
  | "c19rowc" :: fs =>
    match fs.getLast?.bind bit? with
    | some c => row fs.dropLast false c
    | none => some "bad-req"
  | "c19rowx" :: fs =>
    match fs.getLast?.bind bit? with
    | some sf => row fs.dropLast sf
    | none => some "bad-req"
  | _ => none

end OpsOutput
