import RModel.Base.Bytes
import RModel.Model.Serde
import RModel.Gen.SerdeSchema
/- driver operations for the serde model (C17, C19):
     serde plan|history <tokens>      what `to_string_pretty` writes (canonical form) and what `from_str` says
     serdeschema plan|history         verdict and offending fields of the generated schema
     serdewitness plan|history <struct hex> <field hex>     tokens of the value in which that field is skipped
     serdesample plan|history         tokens of the fully populated value
   token grammar: see harness/src/ops_serde.rs -/
open B Serde

namespace OpsSerde

def many {α} (f : List String → Option (α × List String)) : Nat → List String → Option (List α × List String)
  | 0, fs => some ([], fs)
  | n + 1, fs =>
    match f fs with
    | none => none
    | some (a, rest) =>
      match many f n rest with
      | none => none
      | some (as, rest') => some (a :: as, rest')

def keyed (f : List String → Option (RVal × List String)) : List String → Option ((Bytes × RVal) × List String)
  | k :: rest =>
    match ofHex k, f rest with
    | some k, some (v, rest') => some ((k, v), rest')
    | _, _ => none
  | [] => none

mutual
def parse : Ty → List String → Option (RVal × List String)
  | .str, fs => match fs with | h :: rest => (ofHex h).map (fun s => (.str s, rest)) | [] => none
  | .path, fs => match fs with | h :: rest => (ofHex h).map (fun s => (.str s, rest)) | [] => none
  | .num, fs => match fs with | h :: rest => h.toNat?.map (fun n => (.num n, rest)) | [] => none
  | .bool, fs =>
    match fs with
    | "t" :: rest => some (.bool true, rest)
    | "f" :: rest => some (.bool false, rest)
    | _ => none
  | .enum _ names, fs =>
    match fs with
    | h :: rest => h.toNat?.bind (fun n => if n < names.length then some (.variant n, rest) else none)
    | [] => none
  | .opt t, fs =>
    match fs with
    | "N" :: rest => some (.none, rest)
    | "S" :: rest => (parse t rest).map (fun (v, r) => (.some v, r))
    | _ => none
  | .vec t, fs =>
    match fs with
    | "L" :: n :: rest => n.toNat?.bind (fun k => (many (parse t) k rest).map (fun (vs, r) => (.list vs, r)))
    | _ => none
  | .map t, fs =>
    match fs with
    | "M" :: n :: rest =>
      n.toNat?.bind (fun k => (many (keyed (parse t)) k rest).map
        (fun (kvs, r) => (.map (kvs.map Prod.fst) (kvs.map Prod.snd), r)))
    | _ => none
  | .pair a b, fs =>
    match parse a fs with
    | some (x, r1) => (parse b r1).map (fun (y, r2) => (.list [x, y], r2))
    | none => none
  | .struct _ _ flds, fs => (parseFields flds fs).map (fun (vs, r) => (.record vs, r))
def parseFields : List Field → List String → Option (List RVal × List String)
  | [], fs => some ([], fs)
  | .mk _ t _ _ :: rest, fs =>
    match parse t fs with
    | some (v, r1) => (parseFields rest r1).map (fun (vs, r2) => (v :: vs, r2))
    | none => none
end

mutual
def encode : Ty → RVal → List String
  | .str, v => match v with | .str s => [hexOrDash s] | _ => ["?"]
  | .path, v => match v with | .str s => [hexOrDash s] | _ => ["?"]
  | .num, v => match v with | .num n => [toString n] | _ => ["?"]
  | .bool, v => match v with | .bool b => [if b then "t" else "f"] | _ => ["?"]
  | .enum _ _, v => match v with | .variant i => [toString i] | _ => ["?"]
  | .opt t, v => match v with | .some x => "S" :: encode t x | _ => ["N"]
  | .vec t, v => match v with | .list vs => "L" :: toString vs.length :: (vs.map (encode t)).flatten | _ => ["?"]
  | .map t, v =>
    match v with
    | .map ks vs => "M" :: toString vs.length :: ((ks.zip vs).map (fun (k, x) => hexOrDash k :: encode t x)).flatten
    | _ => ["?"]
  | .pair a b, v => match v with | .list [x, y] => encode a x ++ encode b y | _ => ["?"]
  | .struct _ _ fs, v => match v with | .record vs => encodeFields fs vs | _ => ["?"]
def encodeFields : List Field → List RVal → List String
  | [], _ => []
  | .mk _ t _ _ :: fs, vs =>
    match vs with
    | [] => ["?"]
    | v :: vs => encode t v ++ encodeFields fs vs
end

def bytesLt : Bytes → Bytes → Bool
  | [], [] => false
  | [], _ :: _ => true
  | _ :: _, [] => false
  | a :: as, b :: bs => if a < b then true else if b < a then false else bytesLt as bs

/-- canonical rendering of a JSON document: no spaces, object keys sorted by bytes, strings hex -/
partial def canon : J → String
  | .null => "z"
  | .bool b => if b then "t" else "f"
  | .num n => toString n
  | .str s => "s" ++ hexOrDash s
  | .arr js => "[" ++ ",".intercalate (js.map canon) ++ "]"
  | .obj kvs =>
    let items := (kvs.map (fun (k, j) => (k, hexOrDash k ++ ":" ++ canon j))).mergeSort
      (fun a b => !bytesLt b.1 a.1)
    "{" ++ ",".intercalate (items.map Prod.snd) ++ "}"

def showErr : DeErr → String
  | .missingField n => s!"missing:{hexOrDash n}"
  | .unknownField n => s!"unknownfield:{hexOrDash n}"
  | .unknownVariant s => s!"unknownvariant:{hexOrDash s}"
  | .invalidType => "invalidtype"
  | .invalidLength => "invalidlength"
  | .rejected => "rejected"

/-- root type, and how the request value is wrapped (history.json is a Vec of entries) -/
def root : String → Option (Ty × Ty × (RVal → RVal))
  | "plan" => some (Gen.planTy, Gen.planTy, id)
  | "history" => some (Gen.historyEntryTy, Gen.historyTy, fun v => .list [v])
  | _ => none

def roundtrip (t : Ty) (v : RVal) : String :=
  if !pathsUtf8 t v then "sererr" else
  let j := ser t v
  let c := canon j
  match de t j with
  | .ok v' => s!"ok {c} de=ok same={if decide (v' = v) && canon (ser t v') == c then 1 else 0} load=ok"
  | .error e => s!"ok {c} de={showErr e}"

def name (b : Bytes) : String := String.ofList (b.map (fun c => Char.ofNat c.toNat))

def dispatch : List String → Option String
  | "serde" :: which :: toks =>
    match root which with
    | none => some "bad-req"
    | some (entryTy, fileTy, wrap) =>
      match parse entryTy toks with
      | some (v, []) => some (roundtrip fileTy (wrap v))
      | _ => some "bad-req"
  | ["serdeschema", which] =>
    match root which with
    | none => some "bad-req"
    | some (entryTy, _, _) =>
      let off := (offending entryTy).map (fun (a, b) => s!"{name a}.{name b}")
      some s!"schema ok={SchemaOk entryTy} wf={wf entryTy} offending={",".intercalate off}"
  | ["serdewitness", which, sn, fn] =>
    match root which, ofHex sn, ofHex fn with
    | some (entryTy, _, _), some sn, some fn =>
      match witnessFor sn fn entryTy with
      | some w => some (" ".intercalate ("w" :: encode entryTy w))
      | none => some "none"
    | _, _, _ => some "bad-req"
  | ["serdesample", which] =>
    match root which with
    | some (entryTy, _, _) => some (" ".intercalate ("w" :: encode entryTy (sample entryTy)))
    | none => some "bad-req"
  | _ => none

end OpsSerde
