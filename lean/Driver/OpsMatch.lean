import RModel.Base.Bytes
import RModel.Base.Utf8
import RModel.Model.Matcher
import RModel.Model.Hunks
import RModel.Gen.ReplaceOffsets
import RModel.Gen.LineAfterColumn
/- driver operations for the matcher and the hunk / diff geometry (C03, C15) -/
open B

namespace OpsMatch

def hexList (fs : List String) : Option (List Bytes) := fs.mapM ofHex

def showMatch (m : Matcher.Match) : String :=
  s!"{m.start}:{m.stop}:{m.line}:{m.column}:{hexOrDash m.variant}:{hexOrDash m.text}"

def showHow : Hunks.How → String
  | .splice => "splice" | .fallback => "fallback" | .unchanged => "unchanged"

def showHunk (h : Hunks.Hunk) : String :=
  s!"{h.line}:{h.byteOffset}:{h.charOffset}:{h.start}:{h.stop}:{hexOrDash h.content}:{hexOrDash h.replace}:{hexOrDash h.lineBefore}:{hexOrDash h.lineAfter}"

/-- `n` records `col content replace line_before line_after` -/
def dhunks? : List String → Option (List Hunks.Hunk)
  | [] => some []
  | c :: t :: r :: lb :: la :: rest =>
    match c.toNat?, ofHex t, ofHex r, ofHex lb, ofHex la, dhunks? rest with
    | some c, some t, some r, some lb, some la, some hs =>
      some ({ line := 0, byteOffset := c, charOffset := 0, start := 0, stop := 0, content := t, replace := r,
              lineBefore := lb, lineAfter := la } :: hs)
    | _, _, _, _, _, _ => none
  | _ => none

/-- records `start end text replace` -/
def spans? : List String → Option (List (Nat × Nat × Bytes × Bytes))
  | [] => some []
  | s :: e :: t :: r :: rest =>
    match s.toNat?, e.toNat?, ofHex t, ofHex r, spans? rest with
    | some s, some e, some t, some r, some xs => some ((s, e, t, r) :: xs)
    | _, _, _, _, _ => none
  | _ => none

def showGeom : Hunks.Geom → String
  | .skip => "skip"
  | .panic => "panic"
  | .ok h how => s!"{showHunk h} {showHow how}"

def dispatch : List String → Option String
  | "hunkgeoms" :: c :: rest =>
    -- all hunks of one file in one request: `G item ; item ; …`
    match ofHex c, spans? rest with
    | some c, some xs =>
      some ("G " ++ " ; ".intercalate (xs.map (fun x => showGeom (Hunks.hunkGeomAtG Gen.lineAfterColumnIsByte Gen.lineAfterDecodesParts c x.1 x.2.1 x.2.2.1 x.2.2.2))))
    | _, _ => some "bad-req"
  | "findmatches" :: c :: vs =>
    match ofHex c, hexList vs with
    | some c, some vs => some (" ".intercalate ("m" :: (Matcher.findMatches vs c).map showMatch))
    | _, _ => some "bad-req"
  | ["isboundary", c, s, e] =>
    match ofHex c, s.toNat?, e.toNat? with
    | some c, some s, some e =>
      some (match Matcher.isBoundary c s e with
        | none => "b panic" | some true => "b true" | some false => "b false")
    | _, _, _ => some "bad-req"
  | ["hunkgeom", c, s, e, t, r] =>
    match ofHex c, s.toNat?, e.toNat?, ofHex t, ofHex r with
    | some c, some s, some e, some t, some r =>
      some (match Hunks.hunkGeomAtG Gen.lineAfterColumnIsByte Gen.lineAfterDecodesParts c s e t r with
        | .skip => "g skip"
        | .panic => "g panic"
        | .ok h how => s!"g {showHunk h} {showHow how}")
    | _, _, _, _, _ => some "bad-req"
  | "diffline" :: rest =>
    match dhunks? rest with
    | some hs =>
      some (match Hunks.diffAfterText hs with
        | none => "d panic"
        | some a => s!"d {hexOrDash (Hunks.diffBeforeText hs)} {hexOrDash a}")
    | none => some "bad-req"
  | ["planlit", f, p, r] =>
    match ofHex f, ofHex p, ofHex r with
    | some f, some p, some r =>
      if p.isEmpty then some "bad-req"
      else some (" ".intercalate ("p" :: (Hunks.planLiteralS Gen.replaceOffsetsFileRelative Gen.replaceSkipsInvalidUtf8 f p r).map showHunk))
    | _, _, _ => some "bad-req"
  | ["strlines", f] =>
    match ofHex f with
    | some f => some (" ".intercalate ("l" :: (Hunks.strLines (Utf8.lossy f)).map (fun x => s!"{x.1}:{hexOrDash x.2}")))
    | none => some "bad-req"
  | _ => none

end OpsMatch
