import RModel.Base.Bytes
import RModel.Model.Edits
import RModel.Lemmas.Edits
