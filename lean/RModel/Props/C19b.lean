import RModel.Props.C19a
/- C19, part b (kernel evaluation of one slice of the table; statements restated in Props/C19.lean) -/
namespace C19.Part
open Output C19

theorem one_document_partial :
    (jsonRows.all fun r => check r fun o =>
      o.failed || replaceJsonQuiet r || (oneDocument o && o.stdout.head? == emittedDoc r.cmd)) = true := by decide +kernel

example : (jsonRows.filter fun r => check r fun o => !o.failed && !replaceJsonQuiet r).length > 100 := by decide +kernel

end C19.Part
