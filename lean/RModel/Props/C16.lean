import RModel.Base.Lit
import RModel.Model.Panics
import RModel.Lemmas.Edits
import RModel.Lemmas.Panics
/-
  C16 — No input makes renamify crash.   (property theorems only)

  Full statement (kept visible as `C16_full`, false today): none of the modelled data-dependent sites
  panics or loops for any byte string / offset / clock value.
  Proved here, each for ALL byte strings:
   * `is_boundary` panics exactly outside `boundarySafe`; every non-empty in-range match is safe, which is what
     `find_matches` passes when no variant is empty (the regex contract is the hypothesis);
   * the index arithmetic of the tokenizer stays in range (loop invariants of the scans);
   * `apply_content_edits_with_content`: exact panic condition of the unchecked slice, no panic on consistent lists;
   * `line_after`: no panic when the raw line is valid UTF-8 and the column / match end are boundaries;
   * `replace_case_insensitive`: no panic on ASCII, with an abstract lower-casing otherwise;
   * lock age, `extract_immediate_context`, exit-status mapping.
  Witnesses (kernel-evaluated) for each listed finding the model covers.
-/
namespace C16
open Panics Edits B

/-! ## pattern.rs::is_boundary -/

/-- exact characterisation: the function panics iff the precondition fails -/
theorem isBoundary_panic_iff (bytes : Bytes) (s e : Nat) :
    isBoundary bytes s e = none ↔ ¬ boundarySafe bytes s e :=
  Panics.isBoundary_none_iff bytes s e

/-- every non-empty match inside the buffer is safe (all byte strings, all positions) -/
theorem isBoundary_in_range (bytes : Bytes) (s e : Nat) (h1 : s < e) (h2 : e ≤ bytes.length) :
    (isBoundary bytes s e).isSome = true := by
  cases h : isBoundary bytes s e with
  | some _ => rfl
  | none =>
    have := (isBoundary_panic_iff bytes s e).mp h
    exact absurd ⟨Nat.le_of_lt h1, h2, by intro ⟨_, hl, _⟩; omega⟩ this

/-- `find_matches` / `find_enhanced_matches`: the regex yields matches with `start ≤ end ≤ len`; when no variant
    is empty every match is non-empty, hence no call of `is_boundary` can panic -/
theorem matcher_indices_in_range (bytes : Bytes) (ms : List (Nat × Nat))
    (hregex : ∀ m ∈ ms, m.1 < m.2 ∧ m.2 ≤ bytes.length) :
    ∀ m ∈ ms, (isBoundary bytes m.1 m.2).isSome = true :=
  fun m hm => isBoundary_in_range bytes m.1 m.2 (hregex m hm).1 (hregex m hm).2

example : (isBoundary b!"call(hello_world);" 5 16) = some true := by decide
example : boundarySafe b!"ab" 2 2 → False := by
  intro h; exact h.2.2 ⟨by decide, by decide, 98, by decide, by decide⟩

/-- finding `empty_variant`: the empty alternative matches at end of input after an alphanumeric byte -/
theorem C16_witness_empty_variant : isBoundary b!"a" 1 1 = none := by decide

/-! ## case_model.rs::parse_to_tokens_with_acronyms — index arithmetic -/

/-- Loop invariants that justify every slice/index of the tokenizer, for all byte strings and positions:
    the upper-case scan from `i` ends at some `j` with `i ≤ j ≤ len`; hence `bytes[i..k]` for `k ∈ (i+1..j)` and
    `bytes[i..j-1]` (taken only when `j > i + 1`) are in range and `j - 1` does not underflow; the digit scan
    returns `digit_start ≤ current.len()` and never reads `current[-1]`; single reads `bytes[next_pos]`, `bytes[j]`,
    `bytes[i + 1]`, `bytes[i - 1]` sit behind `< bytes.len()` / `i > 0` guards. -/
theorem tokenizer_total (bytes current : Bytes) (i : Nat) (hi : i < bytes.length) :
    let j := scanUpper bytes i
    (i ≤ j ∧ j ≤ bytes.length) ∧
    (∀ k, i + 1 ≤ k → k < j → sliceOk bytes i k) ∧
    (i + 1 < j → sliceOk bytes i (j - 1) ∧ 1 ≤ j) ∧
    (digitStart current current.length ≤ current.length ∧ sliceOk current (digitStart current current.length) current.length) ∧
    (0 < i → (idx bytes (i - 1)).isSome = true) ∧
    (∀ p, p < bytes.length → (idx bytes p).isSome = true) := by
  have hj := Panics.scanUpper_bounds bytes i (Nat.le_of_lt hi)
  have hd := Panics.digitStart_le current current.length
  refine ⟨hj, ?_, ?_, ⟨hd, hd, Nat.le_refl _⟩, ?_, ?_⟩
  · intro k h1 h2; exact ⟨by omega, by omega⟩
  · intro h; exact ⟨⟨by omega, by omega⟩, by omega⟩
  · intro h; simp [idx]; omega
  · intro p hp; simp [idx, hp]

/-- the digit scan never takes its would-be-panic branch -/
theorem digitStart_reads_in_range (current : Bytes) (d : Nat) (hd : d ≤ current.length) (h : 0 < d) :
    (current[d - 1]?).isSome = true := by
  simp; omega

example : scanUpper b!"URLParser" 0 = 4 := by decide
example : digitStart b!"arm64" 5 = 3 := by decide

/-! ## apply.rs::apply_content_edits_with_content -/

/-- `&s[a..b]` on a `str` panics exactly when: start > end, end past the string, or an end point inside a character -/
theorem sliceStr_none_iff (s : Bytes) (a b : Nat) :
    sliceStr s a b = none ↔ (b < a ∨ s.length < b ∨ isCharBoundary s a = false ∨ isCharBoundary s b = false) := by
  unfold sliceStr
  split
  · rename_i h; simp; omega
  · rename_i h
    simp only [true_iff]
    by_cases h1 : a ≤ b
    · by_cases h2 : b ≤ s.length
      · by_cases h3 : isCharBoundary s a = true
        · by_cases h4 : isCharBoundary s b = true
          · exact absurd ⟨h1, h2, h3, h4⟩ h
          · right; right; right; simpa using h4
        · right; right; left; simpa using h3
      · right; left; omega
    · left; omega

/-- one planned edit: the command panics iff the recorded offsets do not address a `str` slice of the file -/
theorem applyEdits_no_panic_iff (orig : Bytes) (e : Edit) :
    applyEdits orig [e] = .error .panic ↔ sliceStr orig e.start e.stop = none := by
  simp only [applyEdits, List.reverse_cons, List.reverse_nil, List.nil_append, run, step]
  cases h : sliceStr orig e.start e.stop with
  | none => simp
  | some actual =>
    have hr : replaceRange orig e.start e.stop e.after = some (orig.take e.start ++ e.after ++ orig.drop e.stop) := by
      unfold sliceStr at h; unfold replaceRange
      split at h
      · rename_i hc; simp [hc]
      · cases h
    by_cases hm : actual ≠ e.before
    · simp [hm]
    · simp [hm, hr]

/-- any number of edits: a consistent list (what the planner produces for an unchanged file) never panics -/
theorem applyEdits_consistent_no_panic (c : Bytes) (es : List Edit) (h : Consistent c 0 es) :
    applyEdits c es ≠ .error .panic := by
  rw [Edits.applyEdits_eq_spec c es h]; intro hh; cases hh

example : Consistent b!"x foo_bar y" 0 [{ before := b!"foo_bar", after := b!"baz_qux", start := 2, stop := 9 }] := by decide

/-- finding `stale_offsets`: offsets past the end of a truncated file -/
theorem C16_witness_stale_offsets_past_eof :
    applyEdits b!"x" [{ before := b!"foo_bar", after := b!"baz_qux", start := 2, stop := 9 }] = .error .panic := by decide

/-- … inside a multi-byte character -/
theorem C16_witness_stale_offsets_midchar :
    applyEdits b!"xé foo_bar y" [{ before := b!"foo_bar", after := b!"baz_qux", start := 2, stop := 9 }] = .error .panic := by decide

/-- … start > end -/
theorem C16_witness_stale_offsets_negative_length :
    applyEdits b!"x foo_bar y" [{ before := b!"foo_bar", after := b!"baz_qux", start := 9, stop := 2 }] = .error .panic := by decide

/-- … and the same edit listed twice at the end of the file: the first slice is fine, the second
    `replace_range` no longer fits the partly edited text -/
theorem C16_witness_stale_offsets_duplicate :
    applyEdits b!"x foo_bar" [{ before := b!"foo_bar", after := b!"b", start := 2, stop := 9 },
                              { before := b!"foo_bar", after := b!"b", start := 2, stop := 9 }] = .error .panic := by decide

/-! ## scanner.rs::generate_hunks — `line_string[match_col..]` -/

/-- lossy decoding is the identity on valid UTF-8 -/
theorem lossy_valid (raw : Bytes) (h : Utf8.valid raw = true) : Utf8.lossy raw = raw :=
  Panics.lossy_of_valid raw h

/-- Valid UTF-8 line, column on a character boundary, matched text ending on a character boundary (true of any
    `String` found in a `str`): none of the four slices panics. -/
theorem lineAfter_no_panic_valid_utf8 (raw content repl : Bytes) (col : Nat)
    (hv : Utf8.valid raw = true) (hc : isCharBoundary raw col = true)
    (he : col + content.length ≤ raw.length → isCharBoundary raw (col + content.length) = true) :
    (lineAfterOfRaw raw col content repl).isSome = true := by
  unfold lineAfterOfRaw
  rw [lossy_valid raw hv]
  exact Panics.lineAfter_some raw content repl col hc he

/-- the checked version (`line_string.get(match_col..)`) is total for every line and column -/
theorem lineAfterChecked_total (line content repl : Bytes) (col : Nat) :
    (lineAfterChecked line col content repl).isSome = true := by
  unfold lineAfterChecked; split <;> (try split) <;> rfl

example : lineAfterOfRaw b!"x foo_bar y" 2 b!"foo_bar" b!"baz_qux" = some b!"x baz_qux y" := by decide

/-- finding `lossy_column`: `\xff foo_bar` — the raw column 2 lies inside the U+FFFD that replaced `\xff` -/
theorem C16_witness_lossy_column :
    lineAfterOfRaw ([0xFF, 0x20] ++ b!"foo_bar") 2 b!"foo_bar" b!"baz_qux" = none := by decide

/-- the same input through the repaired shape -/
example : lineAfterChecked (Utf8.lossy ([0xFF, 0x20] ++ b!"foo_bar")) 2 b!"foo_bar" b!"baz_qux"
    = some (Utf8.lossy ([0xFF, 0x20] ++ b!"foo_bar")) := by decide

/-! ## coercion.rs::replace_case_insensitive -/

/-- ASCII text and pattern, ASCII lower-casing, non-empty pattern: no slice can panic and the loop terminates -/
theorem replaceCaseInsensitive_ascii_total (text pattern repl : Bytes)
    (ht : ∀ c ∈ text, c.toNat < 128) (hp : pattern ≠ []) :
    ∃ r, replaceCI B.lower text pattern repl = .done r :=
  Panics.replaceCI_ascii text pattern repl ht hp

example : replaceCI B.lower b!"my_Foo_Bar_x" b!"foo_bar" b!"baz_qux" = .done b!"my_baz_qux_x" := by decide

/-- finding `lowercase_offsets`: with a lower-casing that lengthens `İ` the offset found in the copy is out of range
    of the original -/
theorem C16_witness_lowercase_offsets :
    replaceCI lowerDemo b!"İfoo_bar" b!"foo_bar" b!"baz_qux" = .panic := by decide

/-- finding `empty_variant` (second face): an empty pattern never advances -/
theorem C16_witness_empty_pattern_diverges :
    replaceCI B.lower b!"cost" b!"" b!"x" = .diverges := by decide

/-! ## lock.rs::acquire -/

theorem lock_age_no_underflow_iff (now ts : Nat) : (lockAge now ts).isSome = true ↔ ts ≤ now := by
  unfold lockAge; split <;> simp_all

/-- `saturating_sub` agrees with the checked subtraction wherever that is defined -/
theorem lockAgeSat_agrees (now ts : Nat) (h : ts ≤ now) : lockAge now ts = some (lockAgeSat now ts) := by
  simp [lockAge, lockAgeSat, h]

example : lockPanics b!"4242:1700000000" 1790000000 = false := by decide

/-- finding `lock_future_timestamp` -/
theorem C16_witness_lock_future_timestamp : lockPanics b!"1:99999999999" 1790000000 = true := by decide

/-! ## scanner.rs::extract_immediate_context -/

/-- the two `str` slices are in range when both ends are character boundaries inside the line — which holds for
    `match_pos = line.find(content)` and `match_pos + content.len()` -/
theorem extractContext_no_panic (line : Bytes) (s e : Nat) (hs : s ≤ line.length) (he : e ≤ line.length)
    (bs : isCharBoundary line s = true) (be : isCharBoundary line e = true) :
    (extractContextSlices line s e).isSome = true := by
  have h0 : isCharBoundary line 0 = true := by simp [isCharBoundary]
  simp [extractContextSlices, sliceStr, hs, he, bs, be, h0]

example : (extractContextSlices b!"é foo" 3 6).isSome = true := by decide

/-! ## main.rs — exit status -/

/-- every way the process ends without panicking yields a documented status: 0, 1, 2, 3 or 130
    (table regenerated from main.rs on every run) -/
theorem exit_status_in_documented_set (o : Outcome) : exitStatus o ∈ documented := by
  cases o with
  | ok => decide
  | err m =>
    simp only [exitStatus, statusOfError]
    cases h : Gen.ExitCodes.rules.find? (fun r => r.1.any (containsSub m)) with
    | none => decide
    | some r =>
      have hr : r ∈ Gen.ExitCodes.rules := List.mem_of_find?_eq_some h
      have hall : ∀ r ∈ Gen.ExitCodes.rules, r.2 ∈ documented := by decide
      exact hall r hr
  | literalExit i =>
    have hall : ∀ i : Fin Gen.ExitCodes.literalExits.length, (Gen.ExitCodes.literalExits.get i).2.2 ∈ documented := by decide
    exact hall i

example : statusOfError b!"Content mismatch in a.txt" = 3 := by decide
example : statusOfError b!"History entry 'x' not found" = 2 := by decide
example : statusOfError b!"conflicts detected" = 1 := by decide

/-- a panic is not among them -/
theorem panic_status_not_documented : 101 ∉ documented := by decide

/-! ## the full statement, and why it is not a theorem today -/

/-- none of the modelled sites panics or loops, whatever the input -/
def C16_full : Prop :=
  (∀ bytes s e, s ≤ e → e ≤ bytes.length → (isBoundary bytes s e).isSome = true) ∧
  (∀ raw col content repl, (lineAfterOfRaw raw col content repl).isSome = true) ∧
  (∀ lower text pattern repl, ∃ r, replaceCI lower text pattern repl = .done r) ∧
  (∀ orig es, applyEdits orig es ≠ .error .panic) ∧
  (∀ now ts, (lockAge now ts).isSome = true)

theorem C16_full_fails_today : ¬ C16_full := by
  intro ⟨h1, _, _, _, _⟩
  have := h1 b!"a" 1 1 (by decide) (by decide)
  rw [C16_witness_empty_variant] at this
  cases this

/-- The guarded version that does hold: non-empty matches, valid UTF-8 lines with boundary columns, ASCII text for
    the case-insensitive replacement, consistent edit lists, lock timestamps not in the future. -/
theorem C16_partial :
    (∀ bytes s e, s < e → e ≤ bytes.length → (isBoundary bytes s e).isSome = true) ∧
    (∀ raw col content repl, Utf8.valid raw = true → isCharBoundary raw col = true →
        (col + content.length ≤ raw.length → isCharBoundary raw (col + content.length) = true) →
        (lineAfterOfRaw raw col content repl).isSome = true) ∧
    (∀ text pattern repl, (∀ c ∈ text, c.toNat < 128) → pattern ≠ [] → ∃ r, replaceCI B.lower text pattern repl = .done r) ∧
    (∀ orig es, Consistent orig 0 es → applyEdits orig es ≠ .error .panic) ∧
    (∀ now ts, ts ≤ now → (lockAge now ts).isSome = true) :=
  ⟨isBoundary_in_range,
   fun raw col content repl hv hc he => lineAfter_no_panic_valid_utf8 raw content repl col hv hc he,
   replaceCaseInsensitive_ascii_total,
   applyEdits_consistent_no_panic,
   fun now ts h => (lock_age_no_underflow_iff now ts).mpr h⟩

end C16
