import RModel.Base.Lit
import RModel.Model.Panics
import RModel.Lemmas.Edits
import RModel.Lemmas.Panics
/-
  C16 — No input makes renamify crash.   (property theorems only)

  `C16_full` (a theorem since the nine `fix:` commits ac203f2 … ae62ac0): none of the modelled data-dependent
  sites panics or loops, for any byte string / offset / clock value / lower-casing / acronym trie.

  Every repaired site is modelled three times in Model/Panics.lean: `…Old` (the shape before the fix, with its
  kernel-evaluated witness — "before-fix" theorems below), the checked shape, and `…Cur`, which is whichever of
  the two the SOURCE HAS NOW according to the translator-extracted flags `Gen.PanicGuards.*`.  All totality
  theorems are about `…Cur`; their proofs start by evaluating the flag, so reverting a fix in /repo flips the
  flag on the next run and the theorem named after the site stops compiling.

  Unchanged code: `is_boundary` (exact panic condition, safe for every non-empty match — and the variant map can
  no longer contain the empty string), the tokenizer's index arithmetic, `extract_immediate_context`, exit status.
-/
namespace C16
open Panics Edits B

/-! ## pattern.rs::is_boundary (code unchanged; its precondition is now always established) -/

/-- exact characterisation: the function panics iff the precondition fails -/
theorem isBoundary_panic_iff (bytes : Bytes) (s e : Nat) :
    isBoundary bytes s e = none ↔ ¬ boundarySafe bytes s e :=
  Panics.isBoundary_none_iff bytes s e

/-- every non-empty match inside the buffer is safe (all byte strings, all positions) -/
theorem isBoundary_in_range (bytes : Bytes) (s e : Nat) (h1 : s < e) (h2 : e ≤ bytes.length) :
    (isBoundary bytes s e).isSome = true := by
  cases h : isBoundary bytes s e with
  | some _ => rfl
  | none =>
    have := (isBoundary_panic_iff bytes s e).mp h
    exact absurd ⟨Nat.le_of_lt h1, h2, by intro ⟨_, hl, _⟩; omega⟩ this

/-- `find_matches` / `find_enhanced_matches`: non-empty matches within the buffer never make `is_boundary` panic -/
theorem matcher_indices_in_range (bytes : Bytes) (ms : List (Nat × Nat))
    (hregex : ∀ m ∈ ms, m.1 < m.2 ∧ m.2 ≤ bytes.length) :
    ∀ m ∈ ms, (isBoundary bytes m.1 m.2).isSome = true :=
  fun m hm => isBoundary_in_range bytes m.1 m.2 (hregex m hm).1 (hregex m hm).2

/-- case_model.rs::generate_variant_map_internal as it is now: no key of the variant map is the empty string,
    whatever the styles render and whatever the user typed -/
theorem variantMap_has_no_empty_key (rendered : List Bytes) (search : Bytes) (exact : Bool) :
    [] ∉ variantKeysCur rendered search exact := by
  have hflag : Gen.PanicGuards.emptyVariantSkipped = true := by decide
  simp only [variantKeysCur, hflag, if_true]
  exact Panics.variantKeysChecked_nonempty rendered search exact

/-- … hence every match of the alternation built from the variant map is non-empty and `is_boundary` is safe on it
    (the regex contract — a match is an occurrence of one alternative — is the hypothesis `IsMatchOf`) -/
theorem matcher_no_panic (rendered : List Bytes) (search : Bytes) (exact : Bool) (bytes : Bytes) (m : Nat × Nat)
    (hm : IsMatchOf (variantKeysCur rendered search exact) bytes m) :
    (isBoundary bytes m.1 m.2).isSome = true :=
  isBoundary_in_range bytes m.1 m.2
    (Panics.match_nonempty _ bytes m (variantMap_has_no_empty_key rendered search exact) hm) hm.2.1

example : (isBoundary b!"call(hello_world);" 5 16) = some true := by decide
example : IsMatchOf (variantKeysCur [b!"foo_bar", b!"fooBar"] b!"foo_bar" true) b!"x foo_bar" (2, 9) :=
  ⟨by decide, by decide, by decide⟩

/-- before 7e69b4a: a term without ASCII letters/digits rendered as "" in every style and the key "" went in … -/
theorem before_fix_empty_variant_key : [] ∈ variantKeysOld [[], []] b!"$" true := by decide
/-- … the empty alternative matches at end of input after an alphanumeric byte, where `is_boundary` panics -/
theorem before_fix_empty_variant_panics : isBoundary b!"a" 1 1 = none := by decide

/-! ## case_model.rs::parse_to_tokens_with_acronyms — index arithmetic (code unchanged) -/

/-- Loop invariants that justify every slice/index of the tokenizer, for all byte strings and positions:
    the upper-case scan from `i` ends at some `j` with `i ≤ j ≤ len`; hence `bytes[i..k]` for `k ∈ (i+1..j)` and
    `bytes[i..j-1]` (taken only when `j > i + 1`) are in range and `j - 1` does not underflow; the digit scan
    returns `digit_start ≤ current.len()` and never reads `current[-1]`; single reads `bytes[next_pos]`, `bytes[j]`,
    `bytes[i + 1]`, `bytes[i - 1]` sit behind `< bytes.len()` / `i > 0` guards. -/
theorem tokenizer_total (bytes current : Bytes) (i : Nat) (hi : i < bytes.length) :
    let j := scanUpper bytes i
    (i ≤ j ∧ j ≤ bytes.length) ∧
    (∀ k, i + 1 ≤ k → k < j → sliceOk bytes i k) ∧
    (i + 1 < j → sliceOk bytes i (j - 1) ∧ 1 ≤ j) ∧
    (digitStart current current.length ≤ current.length ∧ sliceOk current (digitStart current current.length) current.length) ∧
    (0 < i → (idx bytes (i - 1)).isSome = true) ∧
    (∀ p, p < bytes.length → (idx bytes p).isSome = true) := by
  have hj := Panics.scanUpper_bounds bytes i (Nat.le_of_lt hi)
  have hd := Panics.digitStart_le current current.length
  refine ⟨hj, ?_, ?_, ⟨hd, hd, Nat.le_refl _⟩, ?_, ?_⟩
  · intro k h1 h2; exact ⟨by omega, by omega⟩
  · intro h; exact ⟨⟨by omega, by omega⟩, by omega⟩
  · intro h; simp [idx]; omega
  · intro p hp; simp [idx, hp]

/-- the digit scan never takes its would-be-panic branch -/
theorem digitStart_reads_in_range (current : Bytes) (d : Nat) (hd : d ≤ current.length) (h : 0 < d) :
    (current[d - 1]?).isSome = true := by
  simp; omega

example : scanUpper b!"URLParser" 0 = 4 := by decide
example : digitStart b!"arm64" 5 = 3 := by decide

/-! ## apply.rs::apply_content_edits_with_content -/

/-- `&s[a..b]` on a `str` panics exactly when: start > end, end past the string, or an end point inside a character -/
theorem sliceStr_none_iff (s : Bytes) (a b : Nat) :
    sliceStr s a b = none ↔ (b < a ∨ s.length < b ∨ isCharBoundary s a = false ∨ isCharBoundary s b = false) := by
  unfold sliceStr
  split
  · rename_i h; simp; omega
  · rename_i h
    simp only [true_iff]
    by_cases h1 : a ≤ b
    · by_cases h2 : b ≤ s.length
      · by_cases h3 : isCharBoundary s a = true
        · by_cases h4 : isCharBoundary s b = true
          · exact absurd ⟨h1, h2, h3, h4⟩ h
          · right; right; right; simpa using h4
        · right; right; left; simpa using h3
      · right; left; omega
    · left; omega

/-- The loop as the source has it now never panics: for ALL file contents and ALL edit lists (stale, overlapping,
    out of range, inside a character, start > end) every failure is the reported content mismatch. -/
theorem applyEdits_never_panics (orig : Bytes) (es : List Edit) : applyEditsCur orig es ≠ .error .panic := by
  have h1 : Gen.PanicGuards.applyOrigChecked = true := by decide
  have h2 : Gen.PanicGuards.applyModifiedChecked = true := by decide
  simp only [applyEditsCur, h1, h2, Bool.and_self, applyEditsG]
  exact Panics.runG_true_no_panic orig _ _

/-- and on a consistent list it still computes the left-to-right substitution (C02's theorem, restated for `…Cur`) -/
theorem applyEdits_consistent_ok (c : Bytes) (es : List Edit) (h : Consistent c 0 es) :
    applyEditsCur c es = .ok (spec c 0 es) := by
  have h1 : Gen.PanicGuards.applyOrigChecked = true := by decide
  have h2 : Gen.PanicGuards.applyModifiedChecked = true := by decide
  simp only [applyEditsCur, h1, h2, Bool.and_self]
  exact Edits.applyEdits_eq_spec c es h

example : Consistent b!"x foo_bar y" 0 [{ before := b!"foo_bar", after := b!"baz_qux", start := 2, stop := 9 }] := by decide

/-- the four stale-plan inputs are now reported as a mismatch -/
theorem stale_offsets_now_mismatch :
    applyEditsCur b!"x" [{ before := b!"foo_bar", after := b!"baz_qux", start := 2, stop := 9 }] = .error .mismatch ∧
    applyEditsCur b!"xé foo_bar y" [{ before := b!"foo_bar", after := b!"baz_qux", start := 2, stop := 9 }] = .error .mismatch ∧
    applyEditsCur b!"x foo_bar y" [{ before := b!"foo_bar", after := b!"baz_qux", start := 9, stop := 2 }] = .error .mismatch ∧
    applyEditsCur b!"x foo_bar" [{ before := b!"foo_bar", after := b!"b", start := 2, stop := 9 },
                                 { before := b!"foo_bar", after := b!"b", start := 2, stop := 9 }] = .error .mismatch := by decide

/-- before 29e3f64, one planned edit: the command panicked iff the recorded offsets did not address a `str` slice -/
theorem before_fix_applyEdits_panic_iff (orig : Bytes) (e : Edit) :
    applyEditsOld orig [e] = .error .panic ↔ sliceStr orig e.start e.stop = none := by
  simp only [applyEditsOld, applyEditsG, List.reverse_cons, List.reverse_nil, List.nil_append, runG, stepG]
  cases h : sliceStr orig e.start e.stop with
  | none => simp
  | some actual =>
    have hr : replaceRange orig e.start e.stop e.after = some (orig.take e.start ++ e.after ++ orig.drop e.stop) := by
      unfold sliceStr at h; unfold replaceRange
      split at h
      · rename_i hc; simp [hc]
      · cases h
    by_cases hm : actual ≠ e.before
    · simp [hm]
    · simp [hm, hr]

/-- before-fix witnesses: offsets past the end of a truncated file, inside a multi-byte character, start > end,
    and the same edit listed twice at the end of the file (the second `replace_range` no longer fits) -/
theorem before_fix_stale_offsets_panic :
    applyEditsOld b!"x" [{ before := b!"foo_bar", after := b!"baz_qux", start := 2, stop := 9 }] = .error .panic ∧
    applyEditsOld b!"xé foo_bar y" [{ before := b!"foo_bar", after := b!"baz_qux", start := 2, stop := 9 }] = .error .panic ∧
    applyEditsOld b!"x foo_bar y" [{ before := b!"foo_bar", after := b!"baz_qux", start := 9, stop := 2 }] = .error .panic ∧
    applyEditsOld b!"x foo_bar" [{ before := b!"foo_bar", after := b!"b", start := 2, stop := 9 },
                                 { before := b!"foo_bar", after := b!"b", start := 2, stop := 9 }] = .error .panic := by decide

/-! ## the raw byte column on the lossily decoded line: scanner.rs, resolver.rs, preview/diff.rs, preview/matches.rs -/

/-- lossy decoding is the identity on valid UTF-8 -/
theorem lossy_valid (raw : Bytes) (h : Utf8.valid raw = true) : Utf8.lossy raw = raw :=
  Panics.lossy_of_valid raw h

/-- the raw-slice-compare shape (7807217): when `line.get(match_col..raw_end)` is `Some(content)` the two unchecked byte
    slices `&line[..match_col]` and `&line[raw_end..]` are in range — for every byte line, column and content -/
theorem lineAfterRaw_total (raw content repl : Bytes) (col : Nat) : (lineAfterRaw raw col content repl).isSome = true := by
  unfold lineAfterRaw
  simp only
  split
  · rename_i h
    have hr : col ≤ col + content.length ∧ col + content.length ≤ raw.length := by
      unfold byteSlice at h
      split at h
      · assumption
      · cases h
    have h1 : byteSlice raw 0 col = some ((raw.take col).drop 0) := by simp [byteSlice]; omega
    have h2 : byteSlice raw (col + content.length) raw.length = some ((raw.take raw.length).drop (col + content.length)) := by
      simp [byteSlice, hr.2]
    rw [h1, h2]; rfl
  · rfl

/-- the `line_string.get(match_col..)` shape (ac203f2) is total as well -/
theorem lineAfterStr_total (line content repl : Bytes) (col : Nat) :
    (lineAfterChecked line col content repl).isSome = true := by
  unfold lineAfterChecked; split <;> (try split) <;> rfl

/-- scanner.rs::generate_hunks `line_after` AS THE SOURCE HAS IT NOW: total for EVERY raw line and column (valid UTF-8 or
    not).  Holds for either repaired shape; the unchecked one makes the `decide` below fail. -/
theorem lineAfter_total (raw content repl : Bytes) (col : Nat) :
    (lineAfterOfRaw raw col content repl).isSome = true := by
  have hflag : Gen.PanicGuards.lineAfterRawChecked = true ∨ Gen.PanicGuards.lineAfterChecked = true := by decide
  unfold lineAfterOfRaw
  cases hr : Gen.PanicGuards.lineAfterRawChecked with
  | true => simp only [if_true]; exact lineAfterRaw_total raw content repl col
  | false =>
    have hs : Gen.PanicGuards.lineAfterChecked = true := by
      rcases hflag with h | h
      · rw [hr] at h; cases h
      · exact h
    simp only [Bool.false_eq_true, if_false, lineAfterCur, hs, if_true]
    exact lineAfterStr_total _ content repl col

theorem lineAfterOfRaw_total (raw content repl : Bytes) (col : Nat) :
    (lineAfterOfRaw raw col content repl).isSome = true :=
  lineAfter_total raw content repl col

/-- ambiguity/resolver.rs `line.get(..match_pos).unwrap_or("")` -/
theorem resolverPrefix_total (line : Bytes) (pos : Nat) : (resolverPrefixCur line pos).isSome = true := by
  have hflag : Gen.PanicGuards.resolverPrefixChecked = true := by decide
  simp [resolverPrefixCur, hflag, sliceOrEmpty]

/-- preview/diff.rs render_diff: the checked prefix test, then `replace_range` up to the end of the matched text
    (a `String` found in a `str` ends on a character boundary: hypothesis `hend`) -/
theorem diffStep_total (afterLine content repl : Bytes) (col : Nat)
    (hend : col + content.length ≤ afterLine.length → isCharBoundary afterLine (col + content.length) = true) :
    (diffStepCur afterLine col content repl).isSome = true := by
  have hflag : Gen.PanicGuards.diffAfterLineChecked = true := by decide
  simp only [diffStepCur, hflag, if_true]
  exact Panics.diffStepChecked_some afterLine content repl col hend

/-- preview/matches.rs and preview/diff.rs colour renderers: `get(a..b).unwrap_or("")` everywhere -/
theorem colourSlices_total (line : Bytes) (col stop : Nat) : (matchesSlicesCur line col stop).isSome = true := by
  have h1 : Gen.PanicGuards.matchesLineChecked = true := by decide
  have h2 : Gen.PanicGuards.diffHighlightChecked = true := by decide
  simp [matchesSlicesCur, h1, h2, matchesSlicesChecked]

example : lineAfterOfRaw b!"x foo_bar y" 2 b!"foo_bar" b!"baz_qux" = some b!"x baz_qux y" := by decide
/-- `\xff foo_bar`: the parts around the match are decoded separately (before 7807217 the line came back unchanged) -/
example : lineAfterRaw ([0xFF, 0x20] ++ b!"foo_bar") 2 b!"foo_bar" b!"baz_qux" = some (Utf8.fffd ++ b!" baz_qux") := by decide
example : lineAfterChecked (Utf8.lossy ([0xFF, 0x20] ++ b!"foo_bar")) 2 b!"foo_bar" b!"baz_qux"
    = some (Utf8.lossy ([0xFF, 0x20] ++ b!"foo_bar")) := by decide
/-- a column past the end, or a content that is not there, takes the fallback -/
example : lineAfterRaw b!"foo" 7 b!"foo" b!"x" = some b!"foo" := by decide

/-- the unchecked shape was safe only under hypotheses: valid UTF-8 line, column and match end on boundaries -/
theorem before_fix_lineAfter_safe_on_valid_utf8 (raw content repl : Bytes) (col : Nat)
    (hv : Utf8.valid raw = true) (hc : isCharBoundary raw col = true)
    (he : col + content.length ≤ raw.length → isCharBoundary raw (col + content.length) = true) :
    (lineAfterOfRawOld raw col content repl).isSome = true := by
  unfold lineAfterOfRawOld
  rw [lossy_valid raw hv]
  exact Panics.lineAfter_some raw content repl col hc he

/-- before ac203f2: `\xff foo_bar` — the raw column 2 lies inside the U+FFFD that replaced `\xff`; the same column
    panicked in the resolver, in the diff preview and in the colour renderer -/
theorem before_fix_lossy_column_panics :
    lineAfterOfRawOld ([0xFF, 0x20] ++ b!"foo_bar") 2 b!"foo_bar" b!"baz_qux" = none ∧
    prefixOld (Utf8.lossy ([0xFF, 0x20] ++ b!"foo_bar")) 2 = none ∧
    diffStepOld (Utf8.lossy ([0xFF, 0x20] ++ b!"foo_bar foo_bar")) 2 b!"foo_bar" b!"baz_qux" = none ∧
    matchesSlicesOld (Utf8.lossy ([0xFF, 0x20] ++ b!"foo_bar")) 2 9 = none := by decide

/-! ## coercion.rs::replace_case_insensitive / apply_coercion -/

/-- As repaired: for EVERY lower-casing function (length-changing or not), text, pattern (empty or not) and
    replacement the function returns — no slice can panic and the loop terminates. -/
theorem replaceCaseInsensitive_total (lower : Bytes → Bytes) (text pattern repl : Bytes) :
    ∃ r, replaceCICur lower text pattern repl = .done r := by
  have h1 : Gen.PanicGuards.ciEmptyAndLengthGuard = true := by decide
  have h2 : Gen.PanicGuards.ciSlicesChecked = true := by decide
  simp only [replaceCICur, h1, h2, Bool.and_self, if_true]
  exact Panics.replaceCIChecked_done lower text pattern repl

/-- `container_without_prefix.get(pos..pos + old_pattern.len())?` -/
theorem patternPart_total (container : Bytes) (pos plen : Nat) : (patternPartCur container pos plen).isSome = true := by
  have hflag : Gen.PanicGuards.coercionPartChecked = true := by decide
  simp [patternPartCur, hflag, patternPartChecked]

example : replaceCICur B.lower b!"my_Foo_Bar_x" b!"foo_bar" b!"baz_qux" = .done b!"my_baz_qux_x" := by decide
/-- a length-changing lower-casing or an empty pattern now leaves the text unchanged -/
example : replaceCICur lowerDemo b!"İfoo_bar" b!"foo_bar" b!"baz_qux" = .done b!"İfoo_bar" := by decide
example : replaceCICur B.lower b!"cost" b!"" b!"x" = .done b!"cost" := by decide

/-- the unchecked shape was total on ASCII text with a non-empty pattern only -/
theorem before_fix_replaceCI_ascii_only (text pattern repl : Bytes)
    (ht : ∀ c ∈ text, c.toNat < 128) (hp : pattern ≠ []) :
    ∃ r, replaceCIOld B.lower text pattern repl = .done r :=
  Panics.replaceCI_ascii text pattern repl ht hp

/-- before 0b972bc: a lower-casing that lengthens `İ` puts the offset out of range; before 7e69b4a an empty pattern
    (reached through the empty variant) never advanced -/
theorem before_fix_lowercase_offsets_panics :
    replaceCIOld lowerDemo b!"İfoo_bar" b!"foo_bar" b!"baz_qux" = .panic ∧
    replaceCIOld B.lower b!"cost" b!"" b!"x" = .diverges ∧
    patternPartOld b!"İfoo" 1 3 = none := by decide

/-! ## lock.rs::acquire -/

/-- `current_time.saturating_sub(timestamp)`: defined for every clock value and every timestamp -/
theorem lockAge_total (now ts : Nat) : (lockAgeCur now ts).isSome = true := by
  have hflag : Gen.PanicGuards.lockAgeSaturating = true := by decide
  simp [lockAgeCur, hflag]

theorem lock_never_panics (content : Bytes) (now : Nat) : lockPanics content now = false := by
  unfold lockPanics
  cases lockTimestamp content with
  | none => rfl
  | some ts => simp [lockAge_total now ts]

/-- `saturating_sub` agrees with the checked subtraction wherever that was defined -/
theorem lockAgeSat_agrees (now ts : Nat) (h : ts ≤ now) : lockAgeOld now ts = some (lockAgeSat now ts) := by
  simp [lockAgeOld, lockAgeSat, h]

theorem before_fix_lock_age_underflow_iff (now ts : Nat) : (lockAgeOld now ts).isSome = true ↔ ts ≤ now := by
  unfold lockAgeOld; split <;> simp_all

/-- before 469c078 -/
theorem before_fix_lock_future_timestamp_panics : lockPanicsOld b!"1:99999999999" 1790000000 = true := by decide

/-! ## case_constraints.rs::has_consecutive_uppercase -/

/-- `for len in (2..=sequence_len).rev() { chars[start..start + len] }` with `sequence_len = i - start`, where the scan
    loop guarantees `start ≤ i ≤ chars.len()`: every slice is in range, for any text -/
theorem upperRun_total (n start i byteLen : Nat) (h1 : start ≤ i) (h2 : i ≤ n) : upperRunCur n start i byteLen = true := by
  have hflag : Gen.PanicGuards.upperRunCountsChars = true := by decide
  simp only [upperRunCur, hflag, if_true]
  exact Panics.upperRunChecked_ok n start i byteLen h1 h2

example : upperRunCur 5 1 4 9 = true := by decide
/-- before baef411: `É` alone — one character, two bytes -/
theorem before_fix_nonascii_uppercase_run_panics : upperRunOld 1 0 1 2 = false := by decide

/-! ## scanner.rs — `replace --no-regex` -/

/-- the literal search never loops: the empty pattern is rejected, any other pattern advances -/
theorem literalSearch_terminates (line pattern : Bytes) : literalCur line pattern ≠ .diverges := by
  have hflag : Gen.PanicGuards.emptyLiteralRejected = true := by decide
  simp only [literalCur, hflag, if_true]
  exact Panics.literalChecked_terminates line pattern

example : literalCur b!"a foo b foo" b!"foo" = .done 2 := by decide
example : literalCur b!"hello" b!"" = .rejected := by decide
/-- before 4f20d4d -/
theorem before_fix_empty_literal_pattern_diverges : literalOld b!"hello" b!"" = .diverges := by decide

/-! ## scanner.rs::process_file_content — capture-group references of `replace` -/

/-- For every match, whichever groups took part in it and whichever the replacement mentions, the `$N` expansion
    cannot panic: unset groups are read with `captures.get(i)` and skipped. -/
theorem groupExpansion_total (groups : List (Option Bytes × Bool)) : (expandAll expandGroupCur groups).isSome = true := by
  have hflag : Gen.PanicGuards.capturesGetChecked = true := by decide
  induction groups with
  | nil => rfl
  | cons g rest ih =>
    obtain ⟨c, m⟩ := g
    cases h : expandAll expandGroupCur rest with
    | none => rw [h] at ih; cases ih
    | some xs => simp [expandAll, h, expandGroupCur, hflag, expandGroupGet]

/-- the `Index` shape (`&captures[i]`): `(?:set_(\w+)|get_(\w+))` on `get_x` with `$1` in the replacement -/
theorem index_shape_panics_on_unset_group :
    expandAll expandGroupIndex [(none, true), (some b!"x", false)] = none := by decide
example : expandAll expandGroupCur [(none, true), (some b!"x", false)] = some [none, some b!"x"] := by decide

/-! ## output.rs::format_json -/

/-- the plan value is built without unwrapping: a serialisation error (non-UTF-8 path) becomes `null` -/
theorem planJson_total {α} (ser : Option α) : (planValueCur ser).isSome = true := by
  have hflag : Gen.PanicGuards.jsonPlanChecked = true := by decide
  simp [planValueCur, hflag, planValueChecked]

/-- before f8617fa -/
theorem before_fix_json_nonutf8_path_panics : planValueOld (none : Option Unit) = none := by decide

/-! ## acronym.rs::find_longest_match -/

/-- For every trie (`next`, `isEnd`), every text and every start position on a character boundary: the match end is
    one past an ASCII byte, hence a character boundary, and `&text[start_pos..end]` cannot panic.
    `ContAfterNonAscii` (a continuation byte never follows an ASCII byte) holds for every `str`. -/
theorem findLongestMatch_total {σ} (next : σ → UInt8 → Option σ) (isEnd : σ → Bool) (root : σ) (text : Bytes) (start : Nat)
    (hs : isCharBoundary text start = true) (hc : ContAfterNonAscii text) :
    (findLongestCur next isEnd root text start).isSome = true := by
  have hflag : Gen.PanicGuards.acronymAsciiGuard = true := by decide
  simp only [findLongestCur, hflag]
  exact Panics.findLongest_guarded_some next isEnd root text start hs hc

/-- a two-state trie for the custom acronym `AÃ` read the way the old code read it: byte 0x41, then byte 0xC3 -/
def demoNext : Nat → UInt8 → Option Nat
  | 0, 0x41 => some 1
  | 1, 0xC3 => some 2
  | _, _ => none
def demoEnd : Nat → Bool := fun s => s == 2

example : findLongestCur demoNext demoEnd 0 b!"AÃb" 0 = some none := by decide
/-- before ae62ac0: the walk accepted the first byte of `Ã` and the slice split the character -/
theorem before_fix_acronym_byte_as_char_panics : findLongestOld demoNext demoEnd 0 b!"AÃb" 0 = none := by decide

/-! ## scanner.rs::extract_immediate_context (code unchanged) -/

/-- the two `str` slices are in range when both ends are character boundaries inside the line — which holds for
    `match_pos = line.find(content)` and `match_pos + content.len()` -/
theorem extractContext_no_panic (line : Bytes) (s e : Nat) (hs : s ≤ line.length) (he : e ≤ line.length)
    (bs : isCharBoundary line s = true) (be : isCharBoundary line e = true) :
    (extractContextSlices line s e).isSome = true := by
  have h0 : isCharBoundary line 0 = true := by simp [isCharBoundary]
  simp [extractContextSlices, sliceStr, hs, he, bs, be, h0]

example : (extractContextSlices b!"é foo" 3 6).isSome = true := by decide

/-! ## main.rs — exit status -/

/-- every way the process ends without panicking yields a documented status: 0, 1, 2, 3 or 130
    (table regenerated from main.rs on every run) -/
theorem exit_status_in_documented_set (o : Outcome) : exitStatus o ∈ documented := by
  cases o with
  | ok => decide
  | err m =>
    simp only [exitStatus, statusOfError]
    cases h : Gen.ExitCodes.rules.find? (fun r => r.1.any (containsSub m)) with
    | none => decide
    | some r =>
      have hr : r ∈ Gen.ExitCodes.rules := List.mem_of_find?_eq_some h
      have hall : ∀ r ∈ Gen.ExitCodes.rules, r.2 ∈ documented := by decide
      exact hall r hr
  | literalExit i =>
    have hall : ∀ i : Fin Gen.ExitCodes.literalExits.length, (Gen.ExitCodes.literalExits.get i).2.2 ∈ documented := by decide
    exact hall i

example : statusOfError b!"Content mismatch in a.txt" = 3 := by decide
example : statusOfError b!"History entry 'x' not found" = 2 := by decide
example : statusOfError b!"invalid pattern: the search pattern is empty" = 2 := by decide

/-- a panic is not among them -/
theorem panic_status_not_documented : 101 ∉ documented := by decide

/-! ## the full statement -/

/-- None of the modelled sites panics or loops, whatever the input.  (The matcher clause takes the regex contract
    `IsMatchOf`, the two `replace_range`/trie clauses the `str` facts named in their theorems; nothing else is assumed.) -/
def C16_full : Prop :=
  (∀ rendered search exact bytes m, IsMatchOf (variantKeysCur rendered search exact) bytes m →
      (isBoundary bytes m.1 m.2).isSome = true) ∧
  (∀ raw col content repl, (lineAfterOfRaw raw col content repl).isSome = true) ∧
  (∀ line pos, (resolverPrefixCur line pos).isSome = true) ∧
  (∀ line col stop, (matchesSlicesCur line col stop).isSome = true) ∧
  (∀ lower text pattern repl, ∃ r, replaceCICur lower text pattern repl = .done r) ∧
  (∀ container pos plen, (patternPartCur container pos plen).isSome = true) ∧
  (∀ orig es, applyEditsCur orig es ≠ .error .panic) ∧
  (∀ now ts, (lockAgeCur now ts).isSome = true) ∧
  (∀ n start i byteLen, start ≤ i → i ≤ n → upperRunCur n start i byteLen = true) ∧
  (∀ line pattern, literalCur line pattern ≠ .diverges) ∧
  (∀ ser : Option Unit, (planValueCur ser).isSome = true) ∧
  (∀ groups, (expandAll expandGroupCur groups).isSome = true) ∧
  (∀ o, exitStatus o ∈ documented)

theorem C16_full_holds : C16_full :=
  ⟨matcher_no_panic,
   fun raw col content repl => lineAfterOfRaw_total raw content repl col,
   resolverPrefix_total, colourSlices_total, replaceCaseInsensitive_total, patternPart_total,
   applyEdits_never_panics, lockAge_total, upperRun_total, literalSearch_terminates,
   fun ser => planJson_total ser, groupExpansion_total, exit_status_in_documented_set⟩

/-- the same statement about the shapes the code had before the nine fixes -/
def C16_full_before_fixes : Prop :=
  (∀ bytes s e, s ≤ e → e ≤ bytes.length → (isBoundary bytes s e).isSome = true) ∧
  (∀ raw col content repl, (lineAfterOfRawOld raw col content repl).isSome = true) ∧
  (∀ lower text pattern repl, ∃ r, replaceCIOld lower text pattern repl = .done r) ∧
  (∀ orig es, applyEditsOld orig es ≠ .error .panic) ∧
  (∀ now ts, (lockAgeOld now ts).isSome = true)

theorem C16_full_failed_before_fixes : ¬ C16_full_before_fixes := by
  intro ⟨h1, _, _, _, _⟩
  have := h1 b!"a" 1 1 (by decide) (by decide)
  rw [before_fix_empty_variant_panics] at this
  cases this

end C16
