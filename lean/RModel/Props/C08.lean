import RModel.Base.Lit
import RModel.Model.CaseModel
import RModel.Model.RenamePlan
import RModel.Gen.Acronyms
import RModel.Gen.RenameTables
import RModel.Lemmas.RenamePlan
import RModel.Lemmas.CoerceSafe
import RModel.Props.C02ren
/-
  C08 — Path renames are complete, conflict-free and composable.   (property theorems only; lemmas are in
  `Lemmas/RenamePlan.lean`, the planner model in `Model/RenamePlan.lean`, execution in `Props/C02ren.lean`.)

  For every entry list / tree, variant map and option set (no size bound):
   * `one_rename_per_name`     an entry of an enabled kind whose own name yields a new name is planned exactly once,
                               every other entry not at all; `contains_key_iff` ties "yields a new name" to
                               "contains a variant key";
   * `only_last_component`     every planned rename is `parent ++ [new name]` (`C02ren.LastOnly`), given that no
                               replacement text contains `/` and each contains an alphanumeric;
   * `sources_distinct`        distinct walker entries give `C02ren.DistinctSources`;
   * `destinations_distinct`   a plan that is not refused has pairwise distinct destinations, hence
                               `C02ren.SiblingDestsDistinct`; `shared_destination_refused` is the other direction;
   * `same_style_name`         name = prefix ++ key ++ suffix with a single occurrence of the key that is found first
                               ↦ prefix ++ value ++ suffix (key/value = the two terms rendered in one style);
                               `same_style_name_all_variants` is the same for the other shape of
                               `determine_filename_replacement` (`Tables.allVariants`, generated from the source:
                               `Gen.renameAllVariantsInName`); every general theorem holds for both shapes;
   * `no_variant_left`         shape "every variant": a byte of the old name is copied only where no variant starts,
                               every other position belongs to a rewritten occurrence (when coercion declines);
   * `sources_distinct_any_roots`  since 4d2e5a7 (`dedup_renames`) no node is scheduled twice whatever the search roots
                               (nested, repeated); `dedup_keeps_every_node`: and none is lost;
   * `every_root_contributes`  the rename list is the de-duplicated union over ALL search roots, each with the entries of
                               its own walk (`Gen.everyRootPlanned`): a root hidden from an enclosing root's walk still
                               contributes (`nested_root_hidden_from_outer_walk`);
   * `destinations_distinct_any_roots`  since 0109402 (`Tables.crossRootCheck`, generated) an accepted multi-root scan has
                               pairwise distinct destinations also across roots; `cross_root_before_and_after_fix`
                               is the repaired defect (two files as search paths) on the shape without the check;
   * `apply_places_everything` an accepted plan for a well-formed tree and ANY list of search roots whose
                               destinations are free on disk satisfies all five guards of `C02ren.renamePhase_ok`:
                               STEP 3 succeeds, every node ends at `finalPath rs q`, nothing else moves.
  `C08_full` is false today (`C08_full_false`); the two `C08_witness_*` theorems are the kernel-evaluated
  counterexamples, each replayed on the real binary by `checks/c08.py` (corpus/C08);
  `overlapping_roots_before_and_after_fix`, `symlink_to_root_before_and_after_fix` record the defects repaired by
  4d2e5a7 / ed3f0d7 on the old-style functions; `flags_respected`, `root_filter_exact` are the positive statements
  after 4ad17ef / ed3f0d7.
  File-name coercion (`applyCoercion`) used to enter the general theorems through a contract `CoerceSafe` (its result is a
  usable file name) that was only checked differentially; it is a theorem about the model now
  (`coerceSafe_of_goodVals`, lemmas in `Lemmas/CoerceSafe.lean`), so the planner theorems assume nothing about coercion.
-/
namespace C08
open B Fs Apply RenamePlan RenamePlanL

/-- the tables of the current source -/
def T0 : Tables :=
  { exts := Gen.coercionExtensions, extMax := Gen.coercionExtMaxLen, reserved := Gen.windowsReserved,
    isAcr := (CaseModel.acrOf Gen.defaultAcronyms).isAcr, allVariants := Gen.renameAllVariantsInName,
    crossRootCheck := Gen.crossRootConflictCheck }

-- guards -------------------------------------------------------------------------------------------------------

/-- a replacement text is usable inside a file name: no `/`, at least one alphanumeric -/
def GoodVal (v : Bytes) : Prop := (47 : UInt8) ∉ v ∧ v.any isAlnum = true

/-- keys are non-empty; every replacement text (plain or resolver-chosen) is usable -/
def GoodVals (vmap : List VEntry) : Prop :=
  ∀ v ∈ vmap, v.key ≠ [] ∧ GoodVal v.val ∧ (∀ a, v.amb = some a → GoodVal a)

/-- file-name coercion returns usable file names: for a name without `/`, whatever it returns is non-empty, slash-free
    and not `.`.  This used to be a CONTRACT (a hypothesis of the planner theorems, or coercion switched off); it is a
    theorem about the model of `coercion.rs::apply_coercion` now (`coerceSafe_of_goodVals`). -/
def CoerceSafe (T : Tables) (vmap : List VEntry) : Prop :=
  ∀ (name : Bytes) (v : VEntry) (n : Bytes), (47 : UInt8) ∉ name → v ∈ vmap →
    applyCoercion T name v.key v.val = some n → SafeName n

/-- COERCION IS SAFE, for every table of extensions / acronyms, every variant map with usable values and every name:
    `tokenize` yields non-empty alphanumeric words (at least one when the replacement has a letter or digit),
    `render_tokens` of them has a letter or digit and otherwise only `_ - . space`, and `replace_case_insensitive`
    copies bytes of the name or of the rendering and inserts the rendering at least once. -/
theorem coerceSafe_of_goodVals (T : Tables) (vmap : List VEntry) (hv : GoodVals vmap) : CoerceSafe T vmap := by
  intro name v n hs hmem h
  obtain ⟨hk, hval, _⟩ := hv v hmem
  exact CoerceSafeL.applyCoercion_safe T hs hk hval.2 h

/-- path components contain no `/` -/
def SlashFree (es : List Entry) : Prop := ∀ e ∈ es, ∀ c ∈ e.1, (47 : UInt8) ∉ c

instance (v : Bytes) : Decidable (GoodVal v) := by unfold GoodVal; infer_instance
instance (vmap : List VEntry) : Decidable (GoodVals vmap) := by unfold GoodVals; infer_instance
instance (es : List Entry) : Decidable (SlashFree es) := by unfold SlashFree; infer_instance

/-- the entry is of a kind the flags allow (since 4ad17ef a symlink counts as a file) -/
def KindEnabled (o : Opts) (e : Entry) : Prop :=
  ¬ (e.2 = .dir ∧ o.renameDirs = false) ∧ ¬ (e.2 ≠ .dir ∧ o.renameFiles = false)

-- 1. which names are renamed ------------------------------------------------------------------------------------

/-- a key is looked up by containment, in map order -/
theorem contains_key_iff (vmap : List VEntry) (name : Bytes) :
    (firstKey vmap name).isSome = true ↔ ∃ v ∈ vmap, containsSub name v.key = true := by
  unfold firstKey
  rw [List.find?_isSome]

/-- no contained key, no rename; a contained key gives a new name unless (with search/replace) it equals the old one -/
theorem newName_none_of_no_key (T : Tables) (o : Opts) (vmap : List VEntry) (name : Bytes)
    (h : ∀ v ∈ vmap, containsSub name v.key = false) : newNameFor T o vmap name = none := by
  unfold newNameFor
  have : firstKey vmap name = none := by
    unfold firstKey; rw [List.find?_eq_none]; intro v hv; simp [h v hv]
  rw [this]

theorem newName_some_or_same (T : Tables) (o : Opts) (vmap : List VEntry) (name : Bytes)
    (h : ∃ v ∈ vmap, containsSub name v.key = true) :
    (∃ n, newNameFor T o vmap name = some n) ∨ (o.withSearch = true ∧ newNameFor T o vmap name = none) := by
  have h' := (contains_key_iff vmap name).2 h
  cases hres : newNameFor T o vmap name with
  | some n => exact Or.inl ⟨n, rfl⟩
  | none =>
    refine Or.inr ⟨?_, rfl⟩
    cases hw : o.withSearch with
    | true => rfl
    | false =>
      exfalso
      unfold newNameFor at hres
      cases hf : firstKey vmap name with
      | none => rw [hf] at h'; cases h'
      | some v => rw [hf] at hres; simp [hw] at hres

/-- ONE RENAME PER NAME.  Entries with pairwise distinct paths: an entry of an enabled kind whose own name yields
    a new name is scheduled exactly once, with `with_file_name(new name)`; any other entry is not scheduled. -/
theorem one_rename_per_name (T : Tables) (o : Opts) (vmap : List VEntry) (es : List Entry)
    (hd : es.Pairwise (fun a b => a.1 ≠ b.1)) (e : Entry) (he : e ∈ es) :
    (∀ name n, KindEnabled o e → e.1.getLast? = some name → newNameFor T o vmap name = some n →
      ∃ r ∈ collect T o vmap es, r.path = e.1 ∧ r.newPath = withFileName e.1 n ∧ r.kind = kindOf e.2 ∧
        ∀ r' ∈ collect T o vmap es, r'.path = e.1 → r' = r) ∧
    ((¬ KindEnabled o e ∨ ∀ name, e.1.getLast? = some name → newNameFor T o vmap name = none) →
      ∀ r ∈ collect T o vmap es, r.path ≠ e.1) := by
  have uniq : ∀ r ∈ collect T o vmap es, r.path = e.1 → planEntry T o vmap e = some r := by
    intro r hr hp
    obtain ⟨e', he', hp'⟩ := mem_collect.1 hr
    have h1 : e'.1 = e.1 := (planEntry_some hp').1.symm.trans hp
    have : e' = e := pairwise_fst_inj hd he' he h1
    rw [← this]; exact hp'
  constructor
  · intro name n hk hname hn
    have hp := planEntry_of hk.1 hk.2 hname hn
    refine ⟨_, mem_collect.2 ⟨e, he, hp⟩, rfl, rfl, rfl, ?_⟩
    intro r' hr' hp'
    have := uniq r' hr' hp'
    rw [hp] at this
    exact (Option.some.inj this).symm
  · intro h r hr hp
    have hpe := uniq r hr hp
    obtain ⟨_, _, k1, k2, name, n, hname, hn, _⟩ := planEntry_some hpe
    rcases h with h | h
    · exact h ⟨k1, k2⟩
    · rw [h name hname] at hn; cases hn

-- 2. only the last component changes ---------------------------------------------------------------------------

/-- what `newNameFor` returns is a usable file name — needs: keys non-empty, replacement texts without `/` and with
    an alphanumeric, the old name without `/`, and the coercion contract (or coercion off) -/
theorem newName_safe (T : Tables) (o : Opts) (vmap : List VEntry) (hv : GoodVals vmap)
    (name n : Bytes) (hs : (47 : UInt8) ∉ name)
    (h : newNameFor T o vmap name = some n) : SafeName n := by
  have hc : o.coerce = false ∨ CoerceSafe T vmap := Or.inr (coerceSafe_of_goodVals T vmap hv)
  unfold newNameFor at h
  cases hf : firstKey vmap name with
  | none => rw [hf] at h; cases h
  | some v =>
    rw [hf] at h
    have hmem : v ∈ vmap := List.mem_of_find?_eq_some hf
    have hcon : containsSub name v.key = true := by simpa using List.find?_some hf
    obtain ⟨hk, hval, hamb⟩ := hv v hmem
    -- the plain replacement is safe
    have plainSafe : ∀ ch, GoodVal ch → SafeName (replaceAll name v.key ch) := by
      intro ch ⟨hns, hal⟩
      obtain ⟨x, hx, hxa⟩ := List.any_eq_true.1 hal
      have hin : x ∈ replaceAll name v.key ch := replaceAll_has hk hcon x hx
      refine ⟨?_, ?_, ?_⟩
      · intro h0; rw [h0] at hin; cases hin
      · intro hm
        rcases replaceAll_mem hm with hm | hm
        · exact hs hm
        · exact hns hm
      · intro h1
        rw [h1] at hin
        have : x = 46 := by simpa using hin
        rw [this] at hxa
        exact absurd hxa (by decide)
    have goodRepl : ∀ w ∈ vmap, GoodVal (replOf w) := by
      intro w hw
      obtain ⟨_, hwv, hwa⟩ := hv w hw
      unfold replOf
      cases ha : w.amb with
      | none => simpa using hwv
      | some a => simpa using hwa a ha
    -- … and so is the scan over all variants
    have scanSafe : SafeName (rewriteAll vmap name) := by
      obtain ⟨w, hw, hin⟩ := rewriteGo_has vmap v hmem hk name 0 hcon
      obtain ⟨hns, hal⟩ := goodRepl w hw
      obtain ⟨x, hx, hxa⟩ := List.any_eq_true.1 hal
      have hin' : x ∈ rewriteAll vmap name := hin x hx
      refine ⟨?_, ?_, ?_⟩
      · intro h0; rw [h0] at hin'; cases hin'
      · intro hm
        rcases rewriteGo_mem vmap name 0 _ hm with hm | ⟨u, hu, hm⟩
        · exact hs hm
        · exact (goodRepl u hu).1 hm
      · intro h1
        rw [h1] at hin'
        have : x = 46 := by simpa using hin'
        rw [this] at hxa
        exact absurd hxa (by decide)
    have plainNameSafe : SafeName (plainName T o vmap v name) := by
      unfold plainName
      split
      · split
        · exact scanSafe
        · exact plainSafe _ (goodRepl v hmem)
      · exact plainSafe _ hval
    have candSafe : SafeName (candidate T o vmap v name) := by
      unfold candidate
      simp only
      split
      · rename_i hco
        rcases hc with hc | hc
        · rw [hc] at hco; cases hco
        · cases ha : applyCoercion T name v.key v.val with
          | none => simpa using plainNameSafe
          | some c => simpa using hc name v c hs hmem ha
      · exact plainNameSafe
    simp only at h
    split at h
    · cases h
    · cases h; exact candSafe

/-- ONLY THE LAST COMPONENT.  Every collected rename satisfies `C02ren.LastOnly`:
    `new_path = path.parent ++ [new name]`, new name non-empty. -/
theorem only_last_component (T : Tables) (o : Opts) (vmap : List VEntry) (es : List Entry)
    (hv : GoodVals vmap) (hs : SlashFree es) :
    C02ren.LastOnly (collect T o vmap es) := by
  rw [C02ren.lastOnly_iff]
  intro r hr
  obtain ⟨e, he, hp⟩ := mem_collect.1 hr
  obtain ⟨h1, _, _, _, name, n, hname, hn, hnew⟩ := planEntry_some hp
  have hne : e.1 ≠ [] := by intro h0; rw [h0] at hname; cases hname
  have hsafe := newName_safe T o vmap hv name n (hs e he name (List.mem_of_getLast? hname)) hn
  refine ⟨by rw [h1]; exact hne, n, hsafe.1, ?_⟩
  rw [hnew, withFileName_safe _ hsafe, h1]

-- 3. distinct sources ---------------------------------------------------------------------------------------------

/-- DISTINCT SOURCES from distinct walker entries -/
theorem sources_distinct (T : Tables) (o : Opts) (vmap : List VEntry) (es : List Entry)
    (hd : es.Pairwise (fun a b => a.1 ≠ b.1)) : C02ren.DistinctSources (collect T o vmap es) :=
  collect_distinct T o vmap es hd

-- 4. accepted plans ------------------------------------------------------------------------------------------------

/-- DISTINCT DESTINATIONS.  A plan that `plan_renames_with_search` accepts has no Windows-reserved target and
    pairwise distinct destinations; with `LastOnly` this is `C02ren.SiblingDestsDistinct`. -/
theorem destinations_distinct (T : Tables) (o : Opts) (vmap : List VEntry) (es : List Entry) (rs : List Ren)
    (h : planWithSearch T o vmap es = .ok rs) :
    (∀ r ∈ rs, reservedRen T r = false) ∧
    (∀ r ∈ rs, ∀ r' ∈ rs, r.newPath = r'.newPath → r = r') := by
  have hc := (accepted_perm T o vmap es rs h).2
  exact ⟨(no_conflicts hc).1, no_conflicts_distinctDests hc⟩

theorem siblingDests_of_distinct {rs : List Ren} (hlo : C02ren.LastOnly rs)
    (hdd : ∀ r ∈ rs, ∀ r' ∈ rs, r.newPath = r'.newPath → r = r') : C02ren.SiblingDestsDistinct rs := by
  intro r hr r' hr' hne hpar hlast
  obtain ⟨_, c, _, hn⟩ := (C02ren.lastOnly_iff rs).1 hlo r hr
  obtain ⟨_, c', _, hn'⟩ := (C02ren.lastOnly_iff rs).1 hlo r' hr'
  rw [hn, hn', List.getLast?_concat, List.getLast?_concat] at hlast
  have : r'.newPath = r.newPath := by rw [hn, hn', hpar, Option.some.inj hlast]
  exact hne (by rw [hdd r' hr' r hr this])

/-- … and conversely: two collected renames (neither the working directory) with one destination make
    `plan_renames_with_search` refuse the whole plan -/
theorem shared_destination_refused (T : Tables) (o : Opts) (vmap : List VEntry) (es : List Entry)
    (r r' : Ren) (hr : r ∈ collect T o vmap es) (hr' : r' ∈ collect T o vmap es)
    (hcwd : o.renameRoot = true ∨ (r.path ≠ o.cwd ∧ r'.path ≠ o.cwd))
    (hne : r.path ≠ r'.path) (hsame : r.newPath = r'.newPath) :
    ∃ n, planWithSearch T o vmap es = .error n := by
  cases hres : planWithSearch T o vmap es with
  | error n => exact ⟨n, rfl⟩
  | ok rs =>
    exfalso
    obtain ⟨hperm, _⟩ := accepted_perm T o vmap es rs hres
    have inrs : ∀ x ∈ collect T o vmap es, (o.renameRoot = true ∨ x.path ≠ o.cwd) → x ∈ rs := by
      intro x hx hc
      apply hperm.mem_iff.2
      split
      · exact hx
      · rename_i hrr
        rcases hc with hc | hc
        · exact absurd hc hrr
        · exact List.mem_filter.2 ⟨hx, by simpa using hc⟩
    have h1 := inrs r hr (hcwd.imp id (·.1))
    have h2 := inrs r' hr' (hcwd.imp id (·.2))
    have := (destinations_distinct T o vmap es rs hres).2 r h1 r' h2 hsame
    exact hne (by rw [this])

-- 5. composition -----------------------------------------------------------------------------------------------------------

theorem slashFree_entriesOf (t : Tree) (root : Path) (h : ∀ e ∈ t, ∀ c ∈ e.1, (47 : UInt8) ∉ c) :
    SlashFree (entriesOf t root) := by
  intro e he
  unfold entriesOf at he
  obtain ⟨x, hx, rfl⟩ := List.mem_map.1 he
  exact h x (List.mem_filter.1 hx).1

/-- no search root has a component `.git` (such a root is not walked by an enclosing root) -/
def NoGitRoots (roots : List Path) : Prop := ∀ root ∈ roots, root.contains [46, 103, 105, 116] = false

instance (roots : List Path) : Decidable (NoGitRoots roots) := by unfold NoGitRoots; infer_instance

/-- DISTINCT SOURCES FOR ANY ROOT LIST (since 4d2e5a7, `dedup_renames`): whatever the search roots — nested,
    repeated, overlapping — no node is scheduled twice … -/
theorem sources_distinct_any_roots (T : Tables) (o : Opts) (vmap : List VEntry) (t : Tree) (roots : List Path)
    (b : Bool) (rs : List Ren) (hacc : planRenames T o vmap t roots b = .ok rs) : C02ren.DistinctSources rs :=
  (planRenames_mem T o vmap t roots b rs hacc).1

/-- … and no node that a root's accepted plan schedules is lost by the de-duplication -/
theorem dedup_keeps_every_node (T : Tables) (o : Opts) (vmap : List VEntry) (ess : List (List Entry))
    (raw rs : List Ren) (hraw : planLoop T o vmap ess = .ok raw) (h : planMulti T o vmap ess = .ok rs) :
    List.Sublist rs raw ∧ ∀ r ∈ raw, ∃ r' ∈ rs, r'.path = r.path := by
  obtain ⟨raw', hraw', hrs⟩ := planMulti_ok h
  rw [hraw] at hraw'
  cases hraw'
  subst hrs
  exact ⟨dedupRens_sublist raw, dedupRens_cover raw⟩

/-- DISTINCT DESTINATIONS FOR ANY ROOT LIST, at the level of the scan (what `renamify plan` stores; no root filter).
    Since 0109402 (`T.crossRootCheck`) the merged list of all roots is checked once more, so an accepted multi-root
    plan has pairwise distinct destinations even when the colliding sources lie under different roots — two files
    given as search paths, two sibling directories: `r.newPath = r'.newPath → r.path = r'.path`. -/
theorem destinations_distinct_any_roots (T : Tables) (o : Opts) (vmap : List VEntry) (ess : List (List Entry))
    (rs : List Ren) (hc : T.crossRootCheck = true) (h : planMulti T o vmap ess = .ok rs) :
    C02ren.DistinctSources rs ∧
    ∀ r ∈ rs, ∀ r' ∈ rs, r.newPath ≠ [] → r.newPath = r'.newPath → r.path = r'.path := by
  obtain ⟨raw, _, hrs⟩ := planMulti_ok h
  refine ⟨by rw [hrs]; exact dedupRens_distinct raw, sharedDest_false (planMulti_checked hc h)⟩

/-- … and conversely two renames of different nodes with one destination refuse the scan -/
theorem cross_root_shared_destination_refused (T : Tables) (o : Opts) (vmap : List VEntry)
    (ess : List (List Entry)) (raw : List Ren) (hc : T.crossRootCheck = true)
    (hraw : planLoop T o vmap ess = .ok raw) (hs : sharedDest (dedupRens raw) = true) :
    planMulti T o vmap ess = .error 1 := by
  unfold planMulti
  rw [hraw]
  simp [hc, hs]

/-- UNION OVER ALL ROOTS.  The rename list of an accepted scan is the de-duplicated union of the per-root plans of
    EVERY search root, each planned with the entries its own walk yields (`Gen.everyRootPlanned`: the code's loop is
    `for root in roots`, unfiltered): whatever one root's accepted plan schedules is scheduled — also when the root
    lies inside another root whose walk does not reach it (ignored directory, include/exclude globs) — and nothing
    is scheduled that no root's plan contains. -/
theorem every_root_contributes (T : Tables) (o : Opts) (vmap : List VEntry) (ess : List (List Entry)) (rs : List Ren)
    (hfl : (o.renameFiles || o.renameDirs) = true) (h : planMulti T o vmap ess = .ok rs) :
    (∀ es ∈ ess, ∃ rs0, planWithSearch T o vmap es = .ok rs0 ∧ ∀ r ∈ rs0, ∃ r' ∈ rs, r'.path = r.path) ∧
    (∀ r ∈ rs, ∃ es ∈ ess, ∃ rs0, planWithSearch T o vmap es = .ok rs0 ∧ r ∈ rs0) := by
  obtain ⟨raw, hraw, hrs⟩ := planMulti_ok h
  subst hrs
  constructor
  · intro es hes
    obtain ⟨rs0, h0, hsub⟩ := planLoop_complete T o vmap hfl ess raw hraw es hes
    exact ⟨rs0, h0, fun r hr => dedupRens_cover raw r (hsub r hr)⟩
  · intro r hr
    exact planLoop_mem T o vmap ess raw hraw r ((dedupRens_sublist raw).subset hr)

/-- the guards of `C02ren.renamePhase_ok` hold for every plan the planner accepts, for any list of search roots -/
theorem accepted_guards (T : Tables) (o : Opts) (vmap : List VEntry) (t : Tree) (roots : List Path) (rs : List Ren)
    (hwf : C02ren.TreeWF t) (hv : GoodVals vmap)
    (hsl : ∀ e ∈ t, ∀ c ∈ e.1, (47 : UInt8) ∉ c) (hg : NoGitRoots roots)
    (hacc : planRenames T o vmap t roots = .ok rs) :
    C02ren.LastOnly rs ∧ C02ren.DistinctSources rs ∧ C02ren.KindsOk t rs ∧ C02ren.SiblingDestsDistinct rs := by
  obtain ⟨hds, hmem⟩ := planRenames_mem T o vmap t roots false rs hacc
  -- per rename: the entry it comes from
  have src : ∀ r ∈ rs, ∃ root ∈ roots, ∃ rs0, planWithSearch T o vmap (entriesOf t root) = .ok rs0 ∧ r ∈ rs0 ∧
      r.path ≠ root ∧ ∃ e ∈ entriesOf t root, planEntry T o vmap e = some r := by
    intro r hr
    obtain ⟨⟨root, hroot, rs0, hok, hr0⟩, hne⟩ := hmem r hr
    obtain ⟨e, he, hp⟩ := mem_collect.1 (accepted_subset T o vmap _ rs0 hok r hr0)
    exact ⟨root, hroot, rs0, hok, hr0, hne rfl root hroot, e, he, hp⟩
  have hlo : C02ren.LastOnly rs := by
    intro r hr
    obtain ⟨root, _, rs0, hok, hr0, _, _⟩ := src r hr
    exact only_last_component T o vmap _ hv (slashFree_entriesOf t root hsl) r
      (accepted_subset T o vmap _ rs0 hok r hr0)
  have hdd : ∀ r ∈ rs, ∀ r' ∈ rs, r.newPath = r'.newPath → r = r' := by
    intro r hr r' hr' hnew
    obtain ⟨A, hA, rsA, hokA, hrA, hneA, eA, heA, hpA⟩ := src r hr
    obtain ⟨B, hB, rsB, hokB, hrB, hneB, eB, heB, hpB⟩ := src r' hr'
    have hpar : r.path.dropLast = r'.path.dropLast := by
      rw [← (hlo r hr).2.2.1, ← (hlo r' hr').2.2.1, hnew]
    have preA : pre A r.path = true := by rw [(planEntry_some hpA).1]; exact (mem_entriesOf heA).1
    have preB : pre B r'.path = true := by rw [(planEntry_some hpB).1]; exact (mem_entriesOf heB).1
    have pA := pre_dropLast preA hneA
    have pB := pre_dropLast preB hneB
    rw [hpar] at pA
    rcases pre_comparable pA pB with hab | hba
    · -- B lies below A: r' is planned by A's walk as well
      have hB' : r' ∈ rsA := by
        rw [mem_accepted hokA]
        exact ⟨mem_collect.2 ⟨eB, entriesOf_mono hab (hg B hB) heB, hpB⟩, ((mem_accepted hokB r').1 hrB).2⟩
      exact (destinations_distinct T o vmap _ rsA hokA).2 r hrA r' hB' hnew
    · have hA' : r ∈ rsB := by
        rw [mem_accepted hokB]
        exact ⟨mem_collect.2 ⟨eA, entriesOf_mono hba (hg A hA) heA, hpA⟩, ((mem_accepted hokA r).1 hrA).2⟩
      exact (destinations_distinct T o vmap _ rsB hokB).2 r hA' r' hrB hnew
  refine ⟨hlo, hds, ?_, siblingDests_of_distinct hlo hdd⟩
  intro r hr
  obtain ⟨root, _, _, _, _, _, e, he, hp⟩ := src r hr
  obtain ⟨_, x, hx, rfl, _⟩ := mem_entriesOf he
  have hlk := lookup_of_mem hwf.1 hx
  obtain ⟨h1, h2, _⟩ := planEntry_some hp
  simp only at h1 h2
  rw [h1, hlk, h2]
  refine ⟨rfl, ?_⟩
  cases x.2 <;> simp [ekindOf, kindOf, C02ren.isDirNode]

/-- COMPOSITION.  Tree `t` well formed, everything below the search roots walked (any number of roots, nested or
    repeated ones included), the plan accepted (no conflict) and its
    destinations free on disk (the pre-flight check of `apply_plan`): STEP 3 succeeds, the resulting tree is
    `moveAll rs t` — every node sits at `finalPath rs q`, i.e. its ancestors' renames and its own applied —
    nodes keep content/mode/target, and a path without a renamed prefix has not moved. -/
theorem apply_places_everything (T : Tables) (o : Opts) (vmap : List VEntry) (t : Tree) (roots : List Path)
    (rs : List Ren) (hwf : C02ren.TreeWF t) (hv : GoodVals vmap)
    (hsl : ∀ e ∈ t, ∀ c ∈ e.1, (47 : UInt8) ∉ c) (hg : NoGitRoots roots)
    (hacc : planRenames T o vmap t roots = .ok rs) (hpre : preflightOk t rs = true) :
    (renamePhase t [] (sortRens rs)).outcome = .ok ∧
    (renamePhase t [] (sortRens rs)).tree = C02ren.moveAll rs t ∧
    (∀ e ∈ t, lookup (C02ren.moveAll rs t) (C02ren.finalPath rs e.1) = lookup t e.1) ∧
    (C02ren.moveAll rs t).map (·.2) = t.map (·.2) ∧
    (∀ q, (∀ r ∈ rs, pre r.path q = false) → C02ren.finalPath rs q = q) ∧
    (∀ r ∈ rs, ∃ c, r.newPath = r.path.dropLast ++ [c] ∧
      C02ren.finalPath rs r.path = C02ren.finalPath rs r.path.dropLast ++ [c]) := by
  obtain ⟨h1, h2, h4, hsd⟩ := accepted_guards T o vmap t roots rs hwf hv hsl hg hacc
  have h5 : C02ren.DestFree t rs := (C02ren.destFree_iff_preflight t rs h1 hwf).2 ⟨hpre, hsd⟩
  have hok := C02ren.renamePhase_ok t rs h1 h2 hwf h4 h5
  exact ⟨hok.1, hok.2.1, fun e he => C02ren.lookup_after t rs h1 hwf h5 e he, C02ren.nodes_preserved rs t,
    fun q hq => C02ren.nothing_else_moves rs q hq, fun r hr => C02ren.finalPath_source rs h1 h2 r hr⟩

-- 6. same style ------------------------------------------------------------------------------------------------------------

/-- core of the same-style theorems: once the name before coercion is `pfx ++ val ++ sfx` and coercion is off,
    declines, or agrees, that is the new name -/
theorem same_style_core (T : Tables) (o : Opts) (vmap : List VEntry) (pfx sfx key val : Bytes)
    (hfirst : firstKey vmap (pfx ++ (key ++ sfx)) = some { key := key, val := val, amb := none })
    (hplain : plainName T o vmap { key := key, val := val, amb := none } (pfx ++ (key ++ sfx)) = pfx ++ (val ++ sfx))
    (hco : o.coerce = false ∨ applyCoercion T (pfx ++ (key ++ sfx)) key val = none ∨
           applyCoercion T (pfx ++ (key ++ sfx)) key val = some (pfx ++ (val ++ sfx)))
    (hne : val ≠ key) :
    newNameFor T o vmap (pfx ++ (key ++ sfx)) = some (pfx ++ (val ++ sfx)) := by
  have hcand : candidate T o vmap { key := key, val := val, amb := none } (pfx ++ (key ++ sfx)) =
      pfx ++ (val ++ sfx) := by
    unfold candidate
    simp only
    rw [hplain]
    rcases hco with h | h | h
    · rw [h]; rfl
    · rw [h]; cases o.coerce <;> rfl
    · rw [h]; cases o.coerce <;> rfl
  unfold newNameFor
  rw [hfirst]
  simp only [hcand]
  have : (pfx ++ (val ++ sfx) == pfx ++ (key ++ sfx)) = false := by
    simpa using fun h => hne h
  rw [this]; simp

/-- SAME-STYLE NAME (shape "first key only", the source as it is while `Gen.renameAllVariantsInName = false`).
    `name = pfx ++ key ++ sfx`, where `key ↦ val` is the row that is found first for this name
    (for `key = toStyle A ws_s st`, `val = toStyle A ws_r st` this row exists by `C18.variant_table`), the key
    occurs only there, and coercion is off, declines, or agrees: the new name is `pfx ++ val ++ sfx` — the term
    rewritten in the same style, affixes and extension untouched. -/
theorem same_style_name (T : Tables) (o : Opts) (vmap : List VEntry) (pfx sfx key val : Bytes) (hk : key ≠ [])
    (hshape : T.allVariants = false)
    (hfirst : firstKey vmap (pfx ++ (key ++ sfx)) = some { key := key, val := val, amb := none })
    (hearly : ∀ k, k < pfx.length → key.isPrefixOf ((pfx ++ (key ++ sfx)).drop k) = false)
    (hlate : containsSub sfx key = false)
    (hco : o.coerce = false ∨ applyCoercion T (pfx ++ (key ++ sfx)) key val = none ∨
           applyCoercion T (pfx ++ (key ++ sfx)) key val = some (pfx ++ (val ++ sfx)))
    (hne : val ≠ key) :
    newNameFor T o vmap (pfx ++ (key ++ sfx)) = some (pfx ++ (val ++ sfx)) := by
  refine same_style_core T o vmap pfx sfx key val hfirst ?_ hco hne
  unfold plainName replOf
  rw [hshape]
  cases o.withSearch <;> exact replaceAll_single pfx key val sfx hk hearly hlate

/-- SAME-STYLE NAME (shape "every variant", `T.allVariants = true`, with search/replace): no variant starts inside
    `pfx` or `sfx` and `key ↦ val` is the first row that starts at `key ++ sfx`: the new name is
    `pfx ++ val ++ sfx`. -/
theorem same_style_name_all_variants (T : Tables) (o : Opts) (vmap : List VEntry) (pfx sfx key val : Bytes)
    (hshape : T.allVariants = true) (hws : o.withSearch = true)
    (hfirst : firstKey vmap (pfx ++ (key ++ sfx)) = some { key := key, val := val, amb := none })
    (hpfx : ∀ k, k < pfx.length → startsHere vmap ((pfx ++ (key ++ sfx)).drop k) = none)
    (hhere : startsHere vmap (key ++ sfx) = some { key := key, val := val, amb := none })
    (hsfx : ∀ k, k < sfx.length → startsHere vmap (sfx.drop k) = none)
    (hco : o.coerce = false ∨ applyCoercion T (pfx ++ (key ++ sfx)) key val = none ∨
           applyCoercion T (pfx ++ (key ++ sfx)) key val = some (pfx ++ (val ++ sfx)))
    (hne : val ≠ key) :
    newNameFor T o vmap (pfx ++ (key ++ sfx)) = some (pfx ++ (val ++ sfx)) := by
  refine same_style_core T o vmap pfx sfx key val hfirst ?_ hco hne
  unfold plainName rewriteAll
  rw [hshape, hws]
  simp only [if_true]
  rw [rewriteGo_prefix vmap pfx (key ++ sfx) hpfx]
  congr 1
  have hk : key ≠ [] := (startsHere_some hhere).2.1
  cases hks : key ++ sfx with
  | nil => exact absurd (List.append_eq_nil_iff.1 hks).1 hk
  | cons c cs =>
    rw [hks] at hhere
    obtain ⟨rest, hcut, hrw⟩ := rewriteGo_occ vmap _ c cs hhere
    simp only at hcut
    have hrest : rest = sfx := by
      rw [← hks] at hcut; exact (List.append_cancel_left hcut).symm
    rw [hrw, hrest, rewriteGo_noOcc vmap sfx hsfx]
    rfl

-- 6b. nothing is left over (shape "every variant") -----------------------------------------------------------------------

/-- NO OCCURRENCE LEFT.  With the shape "every variant" (`T.allVariants = true`, search/replace given) the name
    before coercion is the old name cut into occurrences of variants — each replaced by its text — and single
    bytes that are copied, and a byte is copied only at a position where no variant starts: every occurrence of
    every enabled variant that does not overlap an earlier one is rewritten.  When coercion is off or declines,
    this is the planned name. -/
theorem no_variant_left (T : Tables) (o : Opts) (vmap : List VEntry) (name n : Bytes)
    (hshape : T.allVariants = true) (hws : o.withSearch = true)
    (hco : o.coerce = false ∨ ∀ v ∈ vmap, applyCoercion T name v.key v.val = none)
    (h : newNameFor T o vmap name = some n) : Rewritten vmap name n := by
  unfold newNameFor at h
  cases hf : firstKey vmap name with
  | none => rw [hf] at h; cases h
  | some v =>
    rw [hf] at h
    have hmem : v ∈ vmap := List.mem_of_find?_eq_some hf
    have hcand : candidate T o vmap v name = rewriteAll vmap name := by
      unfold candidate plainName
      rw [hshape, hws]
      simp only [if_true]
      rcases hco with hc | hc
      · rw [hc]; rfl
      · rw [hc v hmem]; cases o.coerce <;> rfl
    simp only [hcand] at h
    split at h
    · cases h
    · cases h; exact rewriteAll_spec vmap name.length name (Nat.le_refl _)

-- 7. non-vacuity: a three-level tree with the term in several components and styles -----------------------------

/-- the variant map of `foo_bar → baz_qux` for the default styles, in `BTreeMap` order -/
def vm0 : List VEntry :=
  [⟨b!"FOO BAR", b!"BAZ QUX", none⟩, ⟨b!"FOO-BAR", b!"BAZ-QUX", none⟩, ⟨b!"FOO_BAR", b!"BAZ_QUX", none⟩,
   ⟨b!"Foo Bar", b!"Baz Qux", none⟩, ⟨b!"Foo bar", b!"Baz qux", none⟩, ⟨b!"Foo-Bar", b!"Baz-Qux", none⟩,
   ⟨b!"FooBar", b!"BazQux", none⟩, ⟨b!"foo bar", b!"baz qux", none⟩, ⟨b!"foo-bar", b!"baz-qux", none⟩,
   ⟨b!"fooBar", b!"bazQux", none⟩, ⟨b!"foo_bar", b!"baz_qux", none⟩]

/-- working directory `proj` -/
def o0 : Opts := { cwd := [b!"proj"] }

def exTree : Tree :=
  [([b!"proj"], .dir 493),
   ([b!"proj", b!"foo_bar"], .dir 493),
   ([b!"proj", b!"foo_bar", b!"FooBar"], .dir 493),
   ([b!"proj", b!"foo_bar", b!"FooBar", b!"fooBarTest.rs"], .file b!"x" 420),
   ([b!"proj", b!"foo_bar", b!"FooBar", b!"my-foo-bar.txt"], .file b!"y" 420),
   ([b!"proj", b!"foo_bar", b!"FooBar", b!"README.md"], .file b!"z" 420),
   ([b!"proj", b!"foo_bar", b!"FOO_BAR_LINK"], .link b!"nowhere"),
   ([b!"proj", b!"Foo-Bar.md"], .file b!"w" 420),
   ([b!"proj", b!"notes.txt"], .file b!"n" 420)]

/-- the plan in the planner's order: directories deepest first, files by path -/
def exPlan : List Ren :=
  [⟨[b!"proj", b!"foo_bar", b!"FooBar"], [b!"proj", b!"foo_bar", b!"BazQux"], .dir⟩,
   ⟨[b!"proj", b!"foo_bar"], [b!"proj", b!"baz_qux"], .dir⟩,
   ⟨[b!"proj", b!"Foo-Bar.md"], [b!"proj", b!"Baz-Qux.md"], .file⟩,
   ⟨[b!"proj", b!"foo_bar", b!"FOO_BAR_LINK"], [b!"proj", b!"foo_bar", b!"BAZ_QUX_LINK"], .file⟩,
   ⟨[b!"proj", b!"foo_bar", b!"FooBar", b!"fooBarTest.rs"], [b!"proj", b!"foo_bar", b!"FooBar", b!"bazQuxTest.rs"], .file⟩,
   ⟨[b!"proj", b!"foo_bar", b!"FooBar", b!"my-foo-bar.txt"], [b!"proj", b!"foo_bar", b!"FooBar", b!"my-baz-qux.txt"], .file⟩]

/-- the planner (with coercion, real tables) produces this plan … -/
theorem example_plan : planRenames T0 o0 vm0 exTree [[b!"proj"]] = .ok exPlan := by decide +kernel

/-- … the hypotheses of `apply_places_everything` other than the coercion contract hold … -/
example : C02ren.TreeWF exTree ∧ GoodVals vm0 ∧ (∀ e ∈ exTree, ∀ c ∈ e.1, (47 : UInt8) ∉ c) ∧
    preflightOk exTree exPlan = true := by decide +kernel

/-- … and the model of STEP 3 puts every node where `apply_places_everything` says
    (evaluated independently of the theorem; the working directory itself is not renamed). -/
theorem example_apply :
    (applyPlan exTree ⟨[], exPlan⟩).outcome = .ok ∧
    (applyPlan exTree ⟨[], exPlan⟩).tree =
      [([b!"proj"], .dir 493),
       ([b!"proj", b!"baz_qux"], .dir 493),
       ([b!"proj", b!"baz_qux", b!"BazQux"], .dir 493),
       ([b!"proj", b!"baz_qux", b!"BazQux", b!"bazQuxTest.rs"], .file b!"x" 420),
       ([b!"proj", b!"baz_qux", b!"BazQux", b!"my-baz-qux.txt"], .file b!"y" 420),
       ([b!"proj", b!"baz_qux", b!"BazQux", b!"README.md"], .file b!"z" 420),
       ([b!"proj", b!"baz_qux", b!"BAZ_QUX_LINK"], .link b!"nowhere"),
       ([b!"proj", b!"Baz-Qux.md"], .file b!"w" 420),
       ([b!"proj", b!"notes.txt"], .file b!"n" 420)] := by decide +kernel

/-- the theorem applied to the example, coercion ON and the real tables (no contract is left to assume) -/
example : (renamePhase exTree [] (sortRens exPlan)).tree = C02ren.moveAll exPlan exTree :=
  (apply_places_everything T0 o0 vm0 exTree [[b!"proj"]] exPlan (by decide +kernel)
    (by decide +kernel) (by decide +kernel) (by decide) example_plan (by decide +kernel)).2.1

/-- same-style names in the six name styles, with affix words and extensions (coercion on, real tables) -/
theorem example_same_style :
    newNameFor T0 o0 vm0 b!"my_foo_bar_test.rs" = some b!"my_baz_qux_test.rs" ∧
    newNameFor T0 o0 vm0 b!"foo-bar-impl.md" = some b!"baz-qux-impl.md" ∧
    newNameFor T0 o0 vm0 b!"getFooBarParams.js" = some b!"getBazQuxParams.js" ∧
    newNameFor T0 o0 vm0 b!"fooBarTest.txt" = some b!"bazQuxTest.txt" ∧
    newNameFor T0 o0 vm0 b!"MY_FOO_BAR.h" = some b!"MY_BAZ_QUX.h" ∧
    newNameFor T0 o0 vm0 b!"Foo-Bar-Notes.txt" = some b!"Baz-Qux-Notes.txt" ∧
    newNameFor T0 o0 vm0 b!".foo_bar.tar.gz" = some b!".baz_qux.tar.gz" ∧
    newNameFor T0 o0 vm0 b!"foo_bars.txt" = some b!"baz_quxs.txt" ∧
    newNameFor T0 o0 vm0 b!"foobar.txt" = none := by decide +kernel

/-- the two shapes of `determine_filename_replacement`, fixed independently of the generated flag -/
def T0first : Tables := { T0 with allVariants := false }
def T0all : Tables := { T0 with allVariants := true }

/-- the hypotheses of `same_style_name` are satisfiable … -/
example : newNameFor T0first { o0 with coerce := false } vm0 (b!"my-" ++ (b!"FooBar" ++ b!".txt")) =
    some (b!"my-" ++ (b!"BazQux" ++ b!".txt")) :=
  same_style_name T0first _ vm0 b!"my-" b!".txt" b!"FooBar" b!"BazQux" (by decide) rfl (by decide +kernel)
    (by decide +kernel) (by decide +kernel) (Or.inl rfl) (by decide)

/-- … and so are those of `same_style_name_all_variants` and `no_variant_left` -/
example : newNameFor T0all { o0 with coerce := false } vm0 (b!"my-" ++ (b!"FooBar" ++ b!".txt")) =
    some (b!"my-" ++ (b!"BazQux" ++ b!".txt")) :=
  same_style_name_all_variants T0all _ vm0 b!"my-" b!".txt" b!"FooBar" b!"BazQux" rfl rfl (by decide +kernel)
    (by decide +kernel) (by decide +kernel) (by decide +kernel) (Or.inl rfl) (by decide)

example : Rewritten vm0 b!"foo_bar-FooBar.txt" b!"baz_qux-BazQux.txt" :=
  no_variant_left T0all o0 vm0 _ _ rfl rfl (Or.inr (by decide +kernel)) (by decide +kernel)

/-- two siblings with one destination: the plan is refused (one conflict), nothing is planned -/
theorem example_refused :
    planRenames T0 o0 [⟨b!"foo-bar", b!"qux", none⟩, ⟨b!"foo_bar", b!"qux", none⟩]
      [([b!"proj"], .dir 493), ([b!"proj", b!"foo_bar.txt"], .file b!"x" 420),
       ([b!"proj", b!"foo-bar.txt"], .file b!"x" 420)] [[b!"proj"]] = .error 1 := by decide +kernel

/-- a Windows device name as destination is refused as well -/
theorem example_reserved_refused :
    planRenames T0 o0 [⟨b!"foo_bar", b!"con", none⟩]
      [([b!"proj"], .dir 493), ([b!"proj", b!"foo_bar.txt"], .file b!"x" 420)] [[b!"proj"]] = .error 1 := by
  decide +kernel

-- 8. the property at full strength, and where it fails today ----------------------------------------------------

/-- C08 at full strength for the planner: for every tree, root list, flag set and variant map, an accepted plan
    (a) schedules no node twice, (b) under `--no-rename-files` schedules directories only, (c) schedules every
    enabled entry below a root whose name has a single occurrence of a key, and (d) gives such a name the value in
    place of the key, everything else untouched. -/
def C08_full : Prop :=
  ∀ (T : Tables) (o : Opts) (vmap : List VEntry) (t : Tree) (roots : List Path) (rs : List Ren),
    C02ren.TreeWF t → GoodVals vmap → planRenames T o vmap t roots = .ok rs →
    C02ren.DistinctSources rs ∧
    (o.renameFiles = false → ∀ r ∈ rs, lookup t r.path = none ∨ C02ren.isDirNode (lookup t r.path) = true) ∧
    (∀ root ∈ roots, ∀ e ∈ entriesOf t root, e.1 ≠ root → KindEnabled o e →
      ∀ v ∈ vmap, ∀ pfx sfx, e.1.getLast? = some (pfx ++ (v.key ++ sfx)) → v.val ≠ v.key →
        ∃ r ∈ rs, r.path = e.1) ∧
    (∀ r ∈ rs, ∀ v ∈ vmap, ∀ pfx sfx, r.path.getLast? = some (pfx ++ (v.key ++ sfx)) →
      (∀ w ∈ vmap, ∀ k, k ≤ (pfx ++ (v.key ++ sfx)).length →
        w.key.isPrefixOf ((pfx ++ (v.key ++ sfx)).drop k) = true → k = pfx.length ∧ w = v) →
      r.newPath.getLast? = some (pfx ++ (v.val ++ sfx)))

/-- BEFORE 4d2e5a7 (finding `overlapping_roots_duplicate_renames`, now repaired): the per-root loop alone — which
    was the whole plan then — schedules the file below both roots `proj` and `proj/sub` twice, and `apply` fails
    on the second copy.  With `dedup_renames` the plan has it once and `apply` succeeds. -/
theorem overlapping_roots_before_and_after_fix :
    let t : Tree := [([b!"proj"], .dir 493), ([b!"proj", b!"sub"], .dir 493),
                     ([b!"proj", b!"sub", b!"foo_bar.txt"], .file b!"x" 420)]
    let r : Ren := ⟨[b!"proj", b!"sub", b!"foo_bar.txt"], [b!"proj", b!"sub", b!"baz_qux.txt"], .file⟩
    planLoop T0 o0 vm0 ([[b!"proj"], [b!"proj", b!"sub"]].map (entriesOf t)) = .ok [r, r] ∧
    ¬ C02ren.DistinctSources [r, r] ∧
    (applyPlan t ⟨[], [r, r]⟩).outcome = .renameFailed .ENOTDIR ∧
    planRenames T0 o0 vm0 t [[b!"proj"], [b!"proj", b!"sub"]] = .ok [r] ∧
    planRenames T0 o0 vm0 t [[b!"proj"], [b!"proj"]] = .ok [r] ∧
    planRenames T0 o0 vm0 t [[b!"proj", b!"sub"], [b!"proj"]] = .ok [r] ∧
    (applyPlan t ⟨[], [r]⟩).outcome = .ok := by decide +kernel

/-- what the walk of the root `proj` yields when `proj/build` is ignored, and what the walk of `proj/build/foo_bar_gen` yields -/
def exOuterWalk : List Entry :=
  [([b!"proj"], .dir), ([b!"proj", b!"foo_bar.txt"], .file), ([b!"proj", b!"build"], .dir)]
def exInnerWalk : List Entry :=
  [([b!"proj", b!"build", b!"foo_bar_gen"], .dir), ([b!"proj", b!"build", b!"foo_bar_gen", b!"foo_bar.rs"], .file)]

/-- the seeded shape "outermost roots only" would lose a root that the enclosing root's walk does not reach: the
    inner root `proj/build/foo_bar_gen` lies below `proj/build`, which the outer root's walk skips (ignored), so the
    outer entry list lacks it; planning all roots schedules it and its content, planning the outer root alone
    schedules neither -/
theorem nested_root_hidden_from_outer_walk :
    planMulti T0 o0 vm0 [exOuterWalk, exInnerWalk] =
      .ok [⟨[b!"proj", b!"foo_bar.txt"], [b!"proj", b!"baz_qux.txt"], .file⟩,
           ⟨[b!"proj", b!"build", b!"foo_bar_gen"], [b!"proj", b!"build", b!"baz_qux_gen"], .dir⟩,
           ⟨[b!"proj", b!"build", b!"foo_bar_gen", b!"foo_bar.rs"], [b!"proj", b!"build", b!"foo_bar_gen", b!"baz_qux.rs"], .file⟩] ∧
    planMulti T0 o0 vm0 [exOuterWalk] = .ok [⟨[b!"proj", b!"foo_bar.txt"], [b!"proj", b!"baz_qux.txt"], .file⟩] := by
  decide +kernel

/-- BEFORE / AFTER 0109402 (finding `cross_root_shared_destination`, repaired): two FILES given as search paths,
    `foo_bar.txt` and `foo-bar.txt`, replacement `baz`.  Every root is conflict-free on its own; without the check
    of the merged list both renames to `baz.txt` are planned, the exists test of the pre-flight passes (the destination
    does not exist yet), STEP 3 reports success and one of the two files is gone.  With the check the scan is refused. -/
theorem cross_root_before_and_after_fix :
    let t : Tree := [([b!"proj"], .dir 493), ([b!"proj", b!"foo_bar.txt"], .file b!"A" 420),
                     ([b!"proj", b!"foo-bar.txt"], .file b!"B" 420)]
    let vm : List VEntry := [⟨b!"foo-bar", b!"baz", none⟩, ⟨b!"foo_bar", b!"baz", none⟩]
    let roots : List Path := [[b!"proj", b!"foo_bar.txt"], [b!"proj", b!"foo-bar.txt"]]
    let r1 : Ren := ⟨[b!"proj", b!"foo_bar.txt"], [b!"proj", b!"baz.txt"], .file⟩
    let r2 : Ren := ⟨[b!"proj", b!"foo-bar.txt"], [b!"proj", b!"baz.txt"], .file⟩
    planMulti { T0 with crossRootCheck := false } o0 vm (roots.map (entriesOf t)) = .ok [r1, r2] ∧
    preflightOk t [r1, r2] = true ∧
    (renamePhase t [] (sortRens [r1, r2])).outcome = .ok ∧
    (renamePhase t [] (sortRens [r1, r2])).tree.length = 2 ∧
    -- second net since repo commit 01297aa: `apply_plan` itself refuses such a plan, tree untouched
    (applyPlan t ⟨[], [r1, r2]⟩).outcome = .sharedDest ∧
    (applyPlan t ⟨[], [r1, r2]⟩).tree = t ∧
    planMulti { T0 with crossRootCheck := true } o0 vm (roots.map (entriesOf t)) = .error 1 ∧
    -- sibling directory roots collide in the same way
    planMulti { T0 with crossRootCheck := true } o0 vm
      ([[b!"proj", b!"foo_bar"], [b!"proj", b!"foo-bar"]].map
        (entriesOf [([b!"proj"], .dir 493), ([b!"proj", b!"foo_bar"], .dir 493), ([b!"proj", b!"foo-bar"], .dir 493)]))
      = .error 1 := by decide +kernel

/-- `apply_places_everything` is not vacuous for nested roots: the example tree with the roots `proj`,
    `proj/foo_bar` and `proj` again gives the same plan (the nested root itself is not renamed: it is a root) -/
example : ∃ rs, planRenames T0 o0 vm0 exTree [[b!"proj"], [b!"proj", b!"foo_bar"], [b!"proj"]] = .ok rs ∧
    rs.length = 5 ∧ C02ren.DistinctSources rs ∧ preflightOk exTree rs = true ∧
    NoGitRoots [[b!"proj"], [b!"proj", b!"foo_bar"], [b!"proj"]] := by
  refine ⟨exPlan.filter (fun r => r.path != [b!"proj", b!"foo_bar"]), ?_⟩
  decide +kernel

/-- WITNESS (finding `coercion_restyles_term`): the term in camel / screaming-snake / pascal style next to a word
    attached with `_` is re-rendered in snake style; without coercion it keeps its style. -/
theorem C08_witness_coercion_restyles_term :
    newNameFor T0 o0 vm0 b!"my_fooBar.txt" = some b!"my_baz_qux.txt" ∧
    newNameFor T0 o0 vm0 b!"FOO_BAR_test.rs" = some b!"baz_qux_test.rs" ∧
    newNameFor T0 o0 vm0 b!"FooBar_x" = some b!"baz_qux_x" ∧
    newNameFor T0 { o0 with coerce := false } vm0 b!"my_fooBar.txt" = some b!"my_bazQux.txt" ∧
    newNameFor T0 { o0 with coerce := false } vm0 b!"FOO_BAR_test.rs" = some b!"BAZ_QUX_test.rs" := by
  decide +kernel

/-- WITNESS (finding `two_styles_in_one_name`), on the shape "first key only" — the source as long as
    `Gen.renameAllVariantsInName = false`: only the first key in map order is rewritten (`FooBar` sorts before
    `foo_bar`), the other occurrence keeps the old term. -/
theorem C08_witness_two_styles_in_one_name :
    newNameFor T0first o0 vm0 b!"foo_bar-FooBar.txt" = some b!"foo_bar-BazQux.txt" ∧
    newNameFor T0first o0 vm0 b!"FooBar.foo-bar.d" = some b!"BazQux.foo-bar.d" := by decide +kernel

/-- … and on the shape "every variant" (seeded/_fixes/c08_all_variants_in_name.diff): both occurrences are rewritten,
    each in its own style; single-style names, plural suffixes and everything coercion decides are unchanged
    (`foo_bar_FOO_BAR.txt` is still coerced to snake: finding `coercion_restyles_term`, by design). -/
theorem two_styles_all_variants :
    newNameFor T0all o0 vm0 b!"foo_bar-FooBar.txt" = some b!"baz_qux-BazQux.txt" ∧
    newNameFor T0all o0 vm0 b!"FooBar.foo-bar.d" = some b!"BazQux.baz-qux.d" ∧
    newNameFor T0all o0 vm0 b!"foo_bars.tar.gz" = newNameFor T0first o0 vm0 b!"foo_bars.tar.gz" ∧
    newNameFor T0all o0 vm0 b!"foo_bar_FOO_BAR.txt" = some b!"baz_qux_baz_qux.txt" ∧
    newNameFor T0first o0 vm0 b!"foo_bar_FOO_BAR.txt" = some b!"baz_qux_baz_qux.txt" ∧
    newNameFor T0all o0 vm0 b!"my_fooBar.txt" = some b!"my_baz_qux.txt" ∧
    -- a two-style name that coercion takes over keeps its second occurrence in both shapes (coercion replaces the
    -- first key case-insensitively and overrides the scan): part of `coercion_restyles_term`
    newNameFor T0all o0 vm0 b!"fooBar_foo_bar" = some b!"baz_qux_foo_bar" ∧
    newNameFor T0first o0 vm0 b!"fooBar_foo_bar" = some b!"baz_qux_foo_bar" := by decide +kernel

/-- FLAGS (since 4ad17ef; finding `no_rename_files_renames_symlinks` repaired): with `rename_files = false`
    only directories are planned — regular files and symlinks alike are left alone — and with
    `rename_dirs = false` no directory is planned. -/
theorem flags_respected (T : Tables) (o : Opts) (vmap : List VEntry) (es : List Entry) :
    (o.renameFiles = false → ∀ e : Entry, e.2 ≠ .dir → planEntry T o vmap e = none) ∧
    (o.renameFiles = false → ∀ r ∈ collect T o vmap es, r.kind = .dir) ∧
    (o.renameDirs = false → ∀ r ∈ collect T o vmap es, r.kind = .file) := by
  refine ⟨?_, ?_, ?_⟩
  · intro hf e hk
    cases hp : planEntry T o vmap e with
    | none => rfl
    | some r' => exact absurd ⟨hk, hf⟩ (planEntry_some hp).2.2.2.1
  · intro hf r hr
    obtain ⟨e, _, hp⟩ := mem_collect.1 hr
    obtain ⟨_, hkind, _, h2, _⟩ := planEntry_some hp
    have : e.2 = .dir := Classical.byContradiction (fun hne => h2 ⟨hne, hf⟩)
    rw [hkind, this]; rfl
  · intro hd r hr
    obtain ⟨e, _, hp⟩ := mem_collect.1 hr
    obtain ⟨_, hkind, h1, _, _⟩ := planEntry_some hp
    rw [hkind]
    cases hk : e.2 with
    | dir => exact absurd ⟨hk, hd⟩ h1
    | file => rfl
    | symlink => rfl

/-- after 4ad17ef, evaluated: neither a regular file nor a symlink named with the term is planned under
    `rename_files = false`; a directory still is; without the flag the symlink is planned as kind `file` -/
theorem no_rename_files_after_fix :
    planEntry T0 { o0 with renameFiles := false } vm0 ([b!"proj", b!"foo_bar_link"], .file) = none ∧
    planEntry T0 { o0 with renameFiles := false } vm0 ([b!"proj", b!"foo_bar_link"], .symlink) = none ∧
    planEntry T0 { o0 with renameFiles := false } vm0 ([b!"proj", b!"foo_bar_link"], .dir) =
      some ⟨[b!"proj", b!"foo_bar_link"], [b!"proj", b!"baz_qux_link"], .dir⟩ ∧
    planEntry T0 o0 vm0 ([b!"proj", b!"foo_bar_link"], .symlink) =
      some ⟨[b!"proj", b!"foo_bar_link"], [b!"proj", b!"baz_qux_link"], .file⟩ := by decide +kernel

/-- ROOT FILTER (since ed3f0d7; finding `symlink_to_root_treated_as_root` repaired): without `--rename-root`
    exactly the renames whose source *is* a search root are dropped — nothing else, whatever a symlink points at;
    with `--rename-root` nothing is dropped. -/
theorem root_filter_exact (roots : List Path) (rs : List Ren) (r : Ren) :
    (r ∈ filterRoots roots false rs ↔ r ∈ rs ∧ r.path ∉ roots) ∧
    (r ∈ filterRoots roots true rs ↔ r ∈ rs) := by
  constructor
  · simp only [filterRoots, filterRootsBy, Bool.false_eq_true, if_false, List.mem_filter]
    constructor
    · rintro ⟨h1, h2⟩
      refine ⟨h1, fun hm => ?_⟩
      have : (roots.any fun root => r.path == root) = true := List.any_eq_true.2 ⟨r.path, hm, by simp⟩
      simp [this] at h2
    · rintro ⟨h1, h2⟩
      refine ⟨h1, ?_⟩
      cases ha : (roots.any fun root => r.path == root) with
      | false => rfl
      | true =>
        obtain ⟨root, hroot, heq⟩ := List.any_eq_true.1 ha
        have : r.path = root := by simpa using heq
        exact absurd (this ▸ hroot) h2
  · simp only [filterRoots, filterRootsBy, if_true, List.mem_append, List.mem_filter]
    constructor
    · rintro (h | h) <;> exact h.1
    · intro h
      cases ha : (roots.any fun root => r.path == root) with
      | true => exact Or.inl ⟨h, rfl⟩
      | false => exact Or.inr ⟨h, rfl⟩

/-- BEFORE / AFTER ed3f0d7: with the source located by `Path::canonicalize` (which follows the link) the link
    `proj/sub/foo_bar_self -> .` is taken for the root `proj/sub` and dropped; located by parent + own name it is
    renamed like its sibling. -/
theorem symlink_to_root_before_and_after_fix :
    let t : Tree := [([b!"proj"], .dir 493), ([b!"proj", b!"sub"], .dir 493),
                     ([b!"proj", b!"sub", b!"foo_bar_self"], .link b!"."),
                     ([b!"proj", b!"sub", b!"foo_bar.txt"], .file b!"x" 420)]
    let f : Ren := ⟨[b!"proj", b!"sub", b!"foo_bar.txt"], [b!"proj", b!"sub", b!"baz_qux.txt"], .file⟩
    let l : Ren := ⟨[b!"proj", b!"sub", b!"foo_bar_self"], [b!"proj", b!"sub", b!"baz_qux_self"], .file⟩
    planMulti T0 o0 vm0 [entriesOf t [b!"proj", b!"sub"]] = .ok [f, l] ∧
    filterRootsBy (canon t 8) [[b!"proj", b!"sub"]] false [f, l] = [f] ∧
    planRenames T0 o0 vm0 t [[b!"proj", b!"sub"]] = .ok [f, l] ∧
    (applyPlan t ⟨[], [f, l]⟩).outcome = .ok := by decide +kernel

/-- the full-strength statement is false today: clause (d), by the coercion witness (`my_fooBar.txt`) -/
theorem C08_full_false : ¬ C08_full := by
  intro h
  let t : Tree := [([b!"proj"], .dir 493), ([b!"proj", b!"my_fooBar.txt"], .file b!"x" 420)]
  let r : Ren := ⟨[b!"proj", b!"my_fooBar.txt"], [b!"proj", b!"my_baz_qux.txt"], .file⟩
  have hp : planRenames T0 o0 vm0 t [[b!"proj"]] = .ok [r] := by decide +kernel
  have := (h T0 o0 vm0 t [[b!"proj"]] [r] (by decide +kernel) (by decide +kernel) hp).2.2.2 r (by simp)
    ⟨b!"fooBar", b!"bazQux", none⟩ (by decide) b!"my_" b!".txt" (by decide +kernel) (by decide +kernel)
  exact absurd this (by decide +kernel)

end C08
