import RModel.Props.C19a
import RModel.Props.C19b
import RModel.Props.C19c
import RModel.Props.C19d
import RModel.Props.C19e
import RModel.Props.C19f
import RModel.Props.C19g
/-
  C19 — Machine-readable output is one well-formed, schema-conformant document.
  (property theorems only; the model is Model/Output.lean, the tables are Gen/Bindings.lean and Gen/OutputShapes.lean)

  The table `Output.rows` is: every command × {--output json, summary} × --quiet × --dry-run (where accepted) × -y
  (rename, replace) × a --preview value given or not × --no-regex (replace) × {something found, nothing found} ×
  {no failure, failure at each fallible site of the handler}; the conformance statements range over
  command × {matches, none} × {renames, none} (`docScenarios`).
  All statements are Boolean evaluations of that finite table, closed by kernel evaluation (`decide +kernel`).  The
  evaluations themselves live in the part modules Props/C19a … C19g (namespace `C19.Part`, same statements, with the
  non-vacuity examples) so that lake runs them in parallel; every theorem below restates its statement in full and is
  closed by the part's theorem, so this file is the complete list of what is proved.

  The decidable guards are defined in Props/C19a.lean:
    replaceJsonQuiet r   := r.cmd == .replace && r.json && r.quiet
    replaceEarlyReturn r := r.cmd == .replace && r.yes && !r.dryRun && !r.planEmpty && r.json
    shapeMismatch c m n  := c == .history || c == .status
-/
namespace C19
open Output

/-- The property at full strength (false today, see the witnesses): in every `--output json` row there is exactly one
    stdout emission, it is a JSON document that is a member of every type a wrapper declares for the command, and the
    status is 0 exactly when the requested operation was performed. -/
def C19_full : Prop :=
  ∀ r ∈ jsonRows, ∀ s ∈ docScenarios r.cmd, (s.1 && s.2) = r.planEmpty →
    check r (fun o => oneDocument o && conformsCmd r.cmd s.1 s.2 && (o.exitZero == succeeded r o)) = true

/-! ### exactly one document -/

/-- Every `--output json` row in which nothing fails — except `replace --output json --quiet` — writes exactly one
    stdout emission; it is a JSON document whose shape is known, and it is the command's document `emittedDoc` whatever
    the options and the scenario are. -/
theorem one_document_partial :
    (jsonRows.all fun r => check r fun o =>
      o.failed || replaceJsonQuiet r || (oneDocument o && o.stdout.head? == emittedDoc r.cmd)) = true :=
  Part.one_document_partial

/-- Nothing but JSON is ever written to stdout in a `--output json` row (no preview, summary, prompt or message). -/
theorem only_json_on_stdout :
    (jsonRows.all fun r => check r fun o => o.stdout.all Payload.isJson) = true := Part.only_json_on_stdout

/-- WITNESS error_path_no_document (main.rs::main, `Err` arm): every `--output json` row in which a fallible site of the
    handler fails writes no document at all; the message goes to stderr and the status is not 0.  Every command
    except `version` has such rows. -/
theorem C19_witness_error_path_no_document :
    (jsonRows.all fun r => check r fun o =>
      !o.failed || (o.stdout == [] && !oneDocument o && decide (o.stderrSites ≥ 1) && !o.exitZero)) = true
    ∧ ((Cmd.all.filter (· != .version)).all fun c => jsonRows.any fun r => r.cmd == c && check r (·.failed)) = true :=
  Part.C19_witness_error_path_no_document

/-- the recorded instance: `renamify undo nosuch --output json` -/
theorem C19_witness_error_path_no_document_undo :
    outcome { cmd := .undo, json := true, quiet := false, dryRun := false, yes := false, preview := false, noRegex := false,
              planEmpty := false, failAt := some 0 }
      = some { stdout := [], stderrSites := 1, exitZero := false, performed := [], failed := true } :=
  Part.C19_witness_error_path_no_document_undo

/-- WITNESS replace_json_quiet_no_document: `replace … --output json --quiet` succeeds (status 0) and writes nothing. -/
theorem C19_witness_replace_json_quiet_no_document :
    (jsonRows.all fun r => check r fun o => !(replaceJsonQuiet r && !o.failed) || (o.stdout == [] && o.exitZero)) = true
    ∧ (jsonRows.any fun r => replaceJsonQuiet r && check r (fun o => !o.failed)) = true :=
  Part.C19_witness_replace_json_quiet_no_document

/-- The `--preview` option and (except for `replace`) `--quiet` have no influence on a `--output json` row. -/
theorem preview_ignored_under_json :
    (jsonRows.all fun r => outcome r == outcome { r with preview := !r.preview }) = true := Part.preview_ignored_under_json

theorem quiet_ignored_under_json_except_replace :
    (jsonRows.all fun r => r.cmd == .replace || outcome r == outcome { r with quiet := !r.quiet }) = true :=
  Part.quiet_ignored_under_json_except_replace

/-! ### the document is a member of the declared type -/

/-- The document of every command is a member of every type a wrapper declares for it, in every scenario, except:
    `history`, `status`. -/
theorem conforms_bindings_partial :
    (Cmd.all.all fun c => (docScenarios c).all fun s => shapeMismatch c s.1 s.2 || conformsCmd c s.1 s.2) = true :=
  Part.conforms_bindings_partial

/-- The bare plan printed by `replace --output json` is a `Plan` of the bindings (no wrapper consumes it). -/
theorem replace_prints_a_plan :
    emittedDoc .replace = some (.pretty n!"Plan")
    ∧ conformsGen { replaceEmpty := false, noMatches := false, noRenames := false } (.ref n!"Plan") (.ref n!"Plan") = true :=
  Part.replace_prints_a_plan

/-- (repaired by 7e5290d + regenerated bindings, formerly WITNESS search_mode_required_fields) With an empty replacement
    `MatchHunk.replace` and `Rename.new_path` are still skipped by serde, but the bindings now declare them optional
    (`replace?`, `new_path?`), so the plan printed by `search` is a `Plan` in every scenario.  A binding that goes back
    to a required member (or a new skipped member with a required binding) would falsify this. -/
theorem search_mode_members_optional :
    pres3 { replaceEmpty := true, noMatches := false, noRenames := false } n!"replace" .ifNonEmpty = .absent
    ∧ conformsGen { replaceEmpty := true, noMatches := false, noRenames := true } (.ref n!"MatchHunk") (.ref n!"MatchHunk") = true
    ∧ conformsGen { replaceEmpty := true, noMatches := true, noRenames := false } (.ref n!"Rename") (.ref n!"Rename") = true
    ∧ replaceEmptyOf .search = true
    ∧ ((docScenarios .search).all fun s => conformsCmd .search s.1 s.2) = true :=
  Part.search_mode_members_optional

/-- (about `format_json` in isolation; formerly WITNESS non_utf8_plan_null, repaired by 56d4ab2) `PlanResult` /
    `RenameResult::format_json` render `plan` through `serde_json::to_value(&self.plan).unwrap_or(Value::Null)`: the member
    is a `Plan` unless the plan cannot be serialised (a path that is not valid UTF-8), and only then `null`, which is not
    what cliService.search / createPlan declare.  Since 56d4ab2 the planner refuses such a path before any plan exists
    (the grid cells `*/nonutf8*` are ordinary failing rows), so no command reaches the `serFails` branch;
    `conforms_bindings_partial` above is about `serFails = false`. -/
theorem plan_member_null_only_if_unserialisable :
    conformsCmdIn .search { docCtxOf .search false false with serFails := true } = false
    ∧ conformsCmdIn .plan { docCtxOf .plan false false with serFails := true } = false
    ∧ conformsCmdIn .rename { docCtxOf .rename false false with serFails := true } = true
    ∧ conformsGen { replaceEmpty := false, noMatches := false, noRenames := false, serFails := true }
        (.ref n!"Plan") (.fallible (.ref n!"Plan")) = false
    ∧ conformsGen { replaceEmpty := false, noMatches := false, noRenames := false }
        (.ref n!"Plan") (.fallible (.ref n!"Plan")) = true :=
  Part.plan_member_null_only_if_unserialisable

/-- WITNESS history_shape_mismatch: `history --output json` prints `{"entries":[HistoryItem…]}`; `cliService.history`
    returns it as `HistoryEntry[]` (an object is not an array; a `HistoryItem` has no `created_at`). -/
theorem C19_witness_history_shape_mismatch :
    conformsCmd .history false false = false
    ∧ (expectedTypes .history).map (·.1) = [n!"vscode.history"]
    ∧ conformsGen { replaceEmpty := false, noMatches := false, noRenames := false } (.arr (.ref n!"HistoryEntry")) (.arr (.ref n!"HistoryItem")) = false :=
  Part.C19_witness_history_shape_mismatch

/-- WITNESS status_shape_mismatch: `status --output json` prints `{pending_plan, history_count, last_operation: string|null}`;
    `cliService.status` returns it as `Status = { current_plan?: Plan, last_operation?: HistoryEntry }`. -/
theorem C19_witness_status_shape_mismatch :
    conformsCmd .status false false = false
    ∧ (expectedTypes .status).map (·.1) = [n!"vscode.status"]
    ∧ conformsGen { replaceEmpty := false, noMatches := false, noRenames := false } (.ref n!"HistoryEntry") .str = false
    ∧ conformsGen { replaceEmpty := false, noMatches := false, noRenames := false } (.ref n!"HistoryEntry") .null = false :=
  Part.C19_witness_status_shape_mismatch

/-! ### status -/

/-- main's mapping: Ok ↦ 0 (a non-zero code, and nothing on stdout, when the interrupted flag is set: signals are
    outside the table, every row has `was_interrupted = false`); a command that returned Err always reports one of the
    codes of the Err arm (the translator rejects an Err arm conditioned on the flag), each of them non-zero; the Err arm
    writes to stderr and not to stdout; no `process::exit(0)` before the dispatch; the init helpers never write to stdout. -/
theorem exit_code_discipline :
    Gen.exitOk = 0 ∧ Gen.exitOkInterrupted.all (· != 0) = true ∧ Gen.okArmStdoutSites = 0
    ∧ errCodes.all (· != 0) = true ∧ Gen.errArmStdoutSites = 0 ∧ Gen.errArmStderrSites ≥ 1
    ∧ Gen.preDispatchExits.all (fun e => e.2.1 != n!"0") = true
    ∧ Gen.initHelperStdoutSites.all (fun e => e.2 == 0) = true := Part.exit_code_discipline

/-- The status is 0 exactly when nothing failed and the requested operations were performed — in every row (json or
    not) except `replace` asked to apply (`-y`, no `--dry-run`, something to do) with `--output json`. -/
theorem status_zero_iff_success_partial :
    (rows.all fun r => check r fun o => replaceEarlyReturn r || (o.exitZero == succeeded r o)) = true :=
  Part.status_zero_iff_success_partial

/-- WITNESS replace_json_not_applied: in every such row in which nothing fails the status is 0, `apply_plan` was asked for
    and never called. -/
theorem C19_witness_replace_early_return :
    (rows.all fun r => check r fun o => !(replaceEarlyReturn r && !o.failed) ||
        (o.exitZero && (intended r).contains n!"apply_plan" && !o.performed.contains n!"apply_plan" && !succeeded r o)) = true
    ∧ (rows.any fun r => replaceEarlyReturn r && check r (fun o => !o.failed)) = true :=
  Part.C19_witness_replace_early_return

theorem C19_witness_replace_json_not_applied :
    check (plainRow .replace)
      (fun o => o.stdout == [.pretty n!"Plan"] && o.exitZero && !o.performed.contains n!"apply_plan") = true :=
  Part.C19_witness_replace_json_not_applied

/-- (repaired by 9b4e272, formerly WITNESS replace_quiet_not_applied) In the summary format `replace -y` without
    `--dry-run` and with something to do calls `apply_plan` and succeeds whether or not `--quiet` is given, and with
    `--quiet` it writes nothing to stdout.  An early return of the quiet path would falsify this. -/
theorem replace_quiet_applies :
    (rows.all fun r => check r fun o =>
      !(r.cmd == .replace && !r.json && r.yes && !r.dryRun && !r.planEmpty && !o.failed) ||
        (o.performed.contains n!"apply_plan" && succeeded r o && (!r.quiet || o.stdout == []))) = true
    ∧ check { plainRow .replace with json := false, quiet := true }
        (fun o => o.stdout == [] && o.exitZero && o.performed.contains n!"apply_plan") = true :=
  Part.replace_quiet_applies

/-! ### the sources outside the handlers are as the model assumes -/

/-- The only stdout emission sites of the core library outside `RENAMIFY_DEBUG_*` guards are the two inside
    `rename_operation` (preview before the prompt, the prompt) and the uncalled `write_preview`. -/
theorem core_sites_as_modelled : Gen.coreStdoutSites = assumedCoreSites := Part.core_sites_as_modelled

/-- Every command has a handler with an event list, and emits a document of a known shape. -/
theorem table_is_total :
    (rows.all fun r => (outcome r).isSome) = true
    ∧ (Cmd.all.all fun c => match emittedDoc c with | some p => (docShape p).isSome | none => false) = true :=
  Part.table_is_total

end C19
