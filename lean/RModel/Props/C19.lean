import RModel.Props.C19a
import RModel.Props.C19b
import RModel.Props.C19c
import RModel.Props.C19d
import RModel.Props.C19e
import RModel.Props.C19f
import RModel.Props.C19g
import RModel.Props.C19h
/-
  C19 — Machine-readable output is one well-formed, schema-conformant document.
  (property theorems only; the model is Model/Output.lean, the tables are Gen/Bindings.lean and Gen/OutputShapes.lean)

  State of /repo this file is written for: the CLI-side defects are repaired (6463ac6 replace --output json applies,
  363d4c7 + cc8b751 error document, bfb97ea prompt on stderr, 9b4e272, 7e5290d, 29e3f64, 56d4ab2); what remains is on the
  consumer side: cliService.history / cliService.status declare types the CLI does not emit (findings
  history_shape_mismatch, status_shape_mismatch; proposal seeded/_fixes/c19_vscode_history_status_shapes.diff).  The one guard
  left, `shapeMismatch` (Props/C19a.lean), and the two theorems about those commands are stated over flags that
  translate/bindings.py reads from the TypeScript sources, so this file checks unchanged before and after that proposal
  lands; the fully unguarded version is kept in seeded/_fixes/c19_props_after_fixes/.

  The table `Output.rows` is: every command × {--output json, summary} × --quiet × --dry-run (where accepted) × -y
  (rename, replace) × a --preview value given or not × --no-regex (replace) × {something found, nothing found} ×
  {no failure, failure at each fallible site of the handler}; the conformance statements range over
  command × {matches, none} × {renames, none} (`docScenarios`).
  All statements are Boolean evaluations of that finite table, closed by kernel evaluation (`decide +kernel`) in the part
  modules Props/C19a … C19h (namespace `C19.Part`, same statements, with the non-vacuity examples) so that lake runs them
  in parallel; every theorem below restates its statement in full and is closed by the part's theorem.

    shapeMismatch c := (c == .history && !Gen.vscodeHistoryUnwrapsEntries) || (c == .status && !Gen.vscodeStatusDeclaresPendingPlan)
-/
namespace C19
open Output

/-- The property at full strength (false today because of `history` and `status`, see the two theorems about them): in
    every `--output json` row there is exactly one stdout emission and it is a JSON document of known shape; when nothing
    failed it is a member of every type a wrapper declares for the command (in every scenario compatible with the row),
    when something failed it is the error document; and the status is 0 exactly when the requested operation was performed. -/
def C19_full : Prop :=
  (jsonRows.all fun r => (docScenarios r.cmd).all fun s => ((s.1 && s.2) != r.planEmpty) ||
    check r (fun o => oneDocument o && (o.failed || conformsCmd r.cmd s.1 s.2) && (o.exitZero == succeeded r o))) = true

/-- The property for every row, except that the document of a command in `shapeMismatch` need not be a member of the
    declared type. -/
theorem C19_partial :
    (jsonRows.all fun r => (docScenarios r.cmd).all fun s => ((s.1 && s.2) != r.planEmpty) ||
      check r (fun o => oneDocument o && (o.failed || shapeMismatch r.cmd || conformsCmd r.cmd s.1 s.2)
                        && (o.exitZero == succeeded r o))) = true := Part.C19_partial

/-! ### exactly one document -/

/-- Every `--output json` row writes exactly one stdout emission and it is a JSON document whose shape is known; when
    nothing fails it is the command's document `emittedDoc` whatever the options and the scenario are (for `replace`
    without `-y` or with `--dry-run` it is the bare plan: a preview). -/
theorem one_document :
    (jsonRows.all fun r => check r fun o =>
      oneDocument o && (o.failed || o.stdout.head? == emittedDoc r.cmd
        || (r.cmd == .replace && (r.dryRun || !r.yes) && o.stdout.head? == some (.pretty n!"Plan")))) = true :=
  Part.one_document

/-- Nothing but JSON is ever written to stdout in a `--output json` row (no preview, summary, prompt or message). -/
theorem only_json_on_stdout :
    (jsonRows.all fun r => check r fun o => o.stdout.all Payload.isJson) = true := Part.only_json_on_stdout

/-- (repaired, formerly WITNESS error_path_no_document) Every `--output json` row in which a fallible site of the handler
    fails writes exactly the error document `{"success":false,"error":…}` to stdout, the message to stderr, and has a
    status that is not 0.  Every command except `version` has such rows. -/
theorem error_rows_print_the_error_document :
    (jsonRows.all fun r => check r fun o =>
      !o.failed || (o.stdout == [errorDoc] && oneDocument o && decide (o.stderrSites ≥ 1) && !o.exitZero)) = true
    ∧ ((Cmd.all.filter (· != .version)).all fun c => jsonRows.any fun r => r.cmd == c && check r (·.failed)) = true :=
  Part.error_rows_print_the_error_document

/-- the recorded instance: `renamify undo nosuch --output json` -/
theorem error_document_undo :
    outcome { cmd := .undo, json := true, quiet := false, dryRun := false, yes := false, preview := false, noRegex := false,
              commit := false, planEmpty := false, failAt := some 0 }
      = some { stdout := [errorDoc], stderrSites := 1, exitZero := false, performed := [], failed := true } :=
  Part.error_document_undo

/-- The `--preview` option and `--quiet` have no influence on a `--output json` row. -/
theorem preview_ignored_under_json :
    (jsonRows.all fun r => outcome r == outcome { r with preview := !r.preview }) = true := Part.preview_ignored_under_json

theorem quiet_ignored_under_json :
    (jsonRows.all fun r => outcome r == outcome { r with quiet := !r.quiet }) = true := Part.quiet_ignored_under_json

/-! ### the document is a member of the declared type -/

/-- The document of every command not in `shapeMismatch` is a member of every type a wrapper declares for it, in every
    scenario (in which every path is valid UTF-8; the planner refuses the others). -/
theorem conforms_bindings_partial :
    (Cmd.all.all fun c => (docScenarios c).all fun s => shapeMismatch c || conformsCmd c s.1 s.2) = true :=
  Part.conforms_bindings_partial

/-- (repaired, formerly WITNESS replace_json_not_applied / replace_json_quiet_no_document, document side) `replace --output json`
    prints the result wrapper of `rename` when it applies (`-y`), and the bare plan — a `Plan` of the bindings — as a
    preview with `--dry-run` or without `-y`. -/
theorem replace_documents :
    emittedDoc .replace = some (.jsonOf n!"RenameResult")
    ∧ check { plainRow .replace with dryRun := true } (fun o => o.stdout == [.pretty n!"Plan"]) = true
    ∧ check { plainRow .replace with yes := false } (fun o => o.stdout == [.pretty n!"Plan"]) = true
    ∧ conformsGen { replaceEmpty := false, noMatches := false, noRenames := false } (.ref n!"Plan") (.ref n!"Plan") = true :=
  Part.replace_documents

/-- (repaired by 7e5290d + regenerated bindings) With an empty replacement `MatchHunk.replace` and `Rename.new_path` are
    skipped by serde, and the bindings declare them optional, so the plan printed by `search` is a `Plan`. -/
theorem search_mode_members_optional :
    pres3 { replaceEmpty := true, noMatches := false, noRenames := false } n!"replace" .ifNonEmpty = .absent
    ∧ conformsGen { replaceEmpty := true, noMatches := false, noRenames := true } (.ref n!"MatchHunk") (.ref n!"MatchHunk") = true
    ∧ conformsGen { replaceEmpty := true, noMatches := true, noRenames := false } (.ref n!"Rename") (.ref n!"Rename") = true
    ∧ replaceEmptyOf .search = true
    ∧ ((docScenarios .search).all fun s => conformsCmd .search s.1 s.2) = true :=
  Part.search_mode_members_optional

/-- (about `format_json` in isolation; repaired by 56d4ab2) the `plan` member is `null` only when the plan cannot be
    serialised, which no command reaches any more. -/
theorem plan_member_null_only_if_unserialisable :
    conformsCmdIn .search { docCtxOf .search false false with serFails := true } = false
    ∧ conformsCmdIn .plan { docCtxOf .plan false false with serFails := true } = false
    ∧ conformsCmdIn .rename { docCtxOf .rename false false with serFails := true } = true
    ∧ conformsGen { replaceEmpty := false, noMatches := false, noRenames := false, serFails := true }
        (.ref n!"Plan") (.fallible (.ref n!"Plan")) = false
    ∧ conformsGen { replaceEmpty := false, noMatches := false, noRenames := false }
        (.ref n!"Plan") (.fallible (.ref n!"Plan")) = true :=
  Part.plan_member_null_only_if_unserialisable

/-- history_shape_mismatch, as a statement that is true in both worlds: `history --output json` prints
    `{"entries":[HistoryItem…]}`, and that is a member of what cliService.history declares exactly when the wrapper unwraps
    `entries` (at HEAD it returns the whole document as `HistoryEntry[]`: an object is not an array, and a `HistoryItem`
    is not a `HistoryEntry` even inside the wrapper). -/
theorem history_conforms_iff_wrapper_unwraps_entries :
    conformsCmd .history false false = Gen.vscodeHistoryUnwrapsEntries
    ∧ (expectedTypes .history).map (·.1) = [n!"vscode.history"]
    ∧ conformsGen { replaceEmpty := false, noMatches := false, noRenames := false }
        (.arr (.ref n!"HistoryEntry")) (.arr (.ref n!"HistoryItem")) = false
    ∧ conformsGen { replaceEmpty := false, noMatches := false, noRenames := false }
        (.obj [(n!"entries", false, .arr (.ref n!"HistoryEntry"))]) (.obj [(n!"entries", .always, .arr (.ref n!"HistoryItem"))]) = false :=
  Part.history_conforms_iff_wrapper_unwraps_entries

/-- status_shape_mismatch, likewise: `status --output json` prints `{pending_plan, history_count, last_operation: string|null}`,
    a member of the wrapper's `Status` exactly when that type is the real StatusResult (at HEAD it is
    `{ current_plan?: Plan, last_operation?: HistoryEntry }`, and neither a string nor null is a HistoryEntry). -/
theorem status_conforms_iff_wrapper_declares_status_result :
    conformsCmd .status false false = Gen.vscodeStatusDeclaresPendingPlan
    ∧ (expectedTypes .status).map (·.1) = [n!"vscode.status"]
    ∧ conformsGen { replaceEmpty := false, noMatches := false, noRenames := false } (.ref n!"HistoryEntry") .str = false
    ∧ conformsGen { replaceEmpty := false, noMatches := false, noRenames := false } (.ref n!"HistoryEntry") .null = false :=
  Part.status_conforms_iff_wrapper_declares_status_result

/-! ### status -/

/-- main's mapping: Ok ↦ 0 (a non-zero code, nothing on stdout, when the interrupted flag is set: signals are outside the
    table); a command that returned Err reports one of the non-zero codes of the Err arm, the message on stderr and —
    through `emit_json_error` — the error document `{success, error}` on stdout under `--output json`; so do clap's
    rejection of the argv and every exit before the dispatch (but the signal handler's 130); none of those exits is 0;
    the init helpers never write to stdout. -/
theorem exit_code_discipline :
    Gen.exitOk = 0 ∧ Gen.exitOkInterrupted.all (· != 0) = true ∧ Gen.okArmStdoutSites = 0
    ∧ errCodes.all (· != 0) = true ∧ Gen.errArmStdoutSites = 0 ∧ Gen.errArmStderrSites ≥ 1
    ∧ Gen.errArmJsonDoc = true ∧ Gen.clapErrorJsonDoc = true
    ∧ (match docShape errorDoc with
       | some (.obj fs) => fs.map (·.1) == [n!"success", n!"error"]
       | _ => false) = true
    ∧ Gen.preDispatchExits.all (fun e => e.2.1 != n!"0") = true
    ∧ Gen.preDispatchExits.all (fun e => e.2.1 == n!"130" || e.2.2.2) = true
    ∧ Gen.initHelperStdoutSites.all (fun e => e.2 == 0) = true := Part.exit_code_discipline

/-- The status is 0 exactly when nothing failed and the requested operations were performed — in every row. -/
theorem status_zero_iff_success :
    (rows.all fun r => check r fun o => o.exitZero == succeeded r o) = true := Part.status_zero_iff_success

/-- (repaired, formerly WITNESS replace_json_not_applied / replace_quiet_not_applied) `replace -y` without `--dry-run` and
    with something to do calls `apply_plan` and succeeds in every format; under `--output json` it prints the result
    document (also with `--quiet`), in the summary format `--quiet` prints nothing. -/
theorem replace_applies :
    (rows.all fun r => check r fun o =>
      !(r.cmd == .replace && r.yes && !r.dryRun && !r.planEmpty && !o.failed) ||
        (o.performed.contains n!"apply_plan" && succeeded r o
          && (!r.json || o.stdout == [.jsonOf n!"RenameResult"]) && (r.json || !r.quiet || o.stdout == []))) = true
    ∧ (rows.any fun r => r.cmd == .replace && r.json && r.quiet && r.yes && !r.dryRun && !r.planEmpty
          && check r (fun o => !o.failed)) = true :=
  Part.replace_applies

/-! ### the sources outside the handlers are as the model assumes -/

/-- Nothing else can reach our stdout: every child process of the non-test core and CLI sources is run with `.output()`
    (captured) or has its stdout redirected — a `.status()` / `.spawn()` child would write its own messages in front of
    the document, as `git commit` did under `replace --commit` until 684ddcb; and every call of the error-document emitter
    in main.rs is directly followed by the exit of the process (one that returns lets a caller report the failure again:
    two documents). -/
theorem no_child_inherits_stdout :
    (Gen.childProcessSites.all fun c => c.2.2.2.1 == n!"output" || c.2.2.2.2) = true
    ∧ Gen.unpairedErrorDocCalls = [] := Part.no_child_inherits_stdout

/-- Every stdout emission site of the core library outside `RENAMIFY_DEBUG_*` guards is one of the known ones, and the
    confirmation prompt of `rename_operation` is not among them any more (it goes to stderr). -/
theorem core_sites_as_modelled :
    (Gen.coreStdoutSites.all fun s => knownCoreSites.contains s) = true
    ∧ (Gen.coreStdoutSites.any fun s => s.2.1 == n!"get_user_confirmation") = false := Part.core_sites_as_modelled

/-- Every command has a handler with an event list, and emits a document of a known shape. -/
theorem table_is_total :
    (rows.all fun r => (outcome r).isSome) = true
    ∧ (Cmd.all.all fun c => match emittedDoc c with | some p => (docShape p).isSome | none => false) = true :=
  Part.table_is_total

end C19
