import RModel.Base.Lit
import RModel.Model.Exec
import RModel.Lemmas.Exec
import RModel.Lemmas.ExecRollback
/-
  C11 — A crash at any instant leaves a consistent, usable workspace.   (property theorems only)

  Model: RModel/Model/Exec.lean.  A crash is `Inj.crashBefore k | crashAfter k | crashMid k` (SIGKILL before the
  k-th mutating call, after it, after half of the bytes of a write).  Every theorem that mentions a state `s : St`
  holds for every `s.inj` and every counter `s.n`, i.e. for every k and every mode at once (and, since `fail k e`
  is an injection spec too, for every reported I/O error as well); proofs are structural inductions (`ExecL.Safe`).

  `C11_full` is FALSE for the code as it is: three windows, each with a kernel-evaluated witness that
  checks/c11.py replays on the real binary.
-/
namespace C11
open Fs Apply Exec ExecL

/-- history.json (if there is one) parses and still starts with the earlier entries -/
def HistoryOk (old : Bytes) (t : Tree) : Prop := histParses t = true ∧ old.isPrefixOf (loadHist t) = true

/-- the leftover lock state lets `LockFile::acquire` succeed -/
def LockOk (t : Tree) : Prop := acquirable t = true

/-- the workspace is usable: every file of `orig` holds its complete old or complete planned content (`Whole`),
    the history parses and retains the earlier entries, the next locking command is not blocked -/
def Usable (orig : Tree) (hs : List Hunk) (old : Bytes) (t : Tree) : Prop :=
  Whole orig hs t ∧ HistoryOk old t ∧ LockOk t

/-- the freshness guard of the content phase: the temp names are not in use -/
def TmpFresh (orig : Tree) (files : List Path) : Prop :=
  ∀ f ∈ files, (∀ g ∈ files, g ≠ tmpPath f) ∧ ∀ c m, lookup orig (tmpPath f) ≠ some (.file c m)

/-- content_edit_atomic: at EVERY crash prefix of the content phase (and after every reported error, and at its
    normal end) every file is whole — untouched, or holding the complete planned content — for all plans and trees -/
theorem content_edit_atomic (orig : Tree) (hs : List Hunk) (cfg : Cfg) (files : List Path)
    (hnd : files.Nodup) (hfresh : TmpFresh orig files) (s : St) (hstart : s.t = orig) :
    Whole orig hs (contentLoop cfg hs files s).st.t := by
  have hk : Keep orig hs files s.t := by
    rw [hstart]
    exact ⟨fun p c m hp => Or.inl hp, fun _ _ => rfl⟩
  have := safe_contentLoop ExecFlags.tempRemovedOnFailure orig hs cfg files hnd hfresh s hk
  change Sat _ _ (contentLoop cfg hs files s) at this
  cases hx : contentLoop cfg hs files s with
  | ok a s' => rw [hx] at this; exact this
  | err e s' => rw [hx] at this; exact this
  | crash s' => rw [hx] at this; exact this

/-- the same, spelled out for the three crash modes at an arbitrary call index k -/
theorem content_edit_atomic_crash (orig : Tree) (hs : List Hunk) (cfg : Cfg) (files : List Path)
    (hnd : files.Nodup) (hfresh : TmpFresh orig files) (k : Nat) :
    Whole orig hs (contentLoop cfg hs files { t := orig, inj := .crashBefore k }).st.t ∧
    Whole orig hs (contentLoop cfg hs files { t := orig, inj := .crashAfter k }).st.t ∧
    Whole orig hs (contentLoop cfg hs files { t := orig, inj := .crashMid k }).st.t :=
  ⟨content_edit_atomic orig hs cfg files hnd hfresh _ rfl, content_edit_atomic orig hs cfg files hnd hfresh _ rfl,
   content_edit_atomic orig hs cfg files hnd hfresh _ rfl⟩

/-- rename_phase_crash_ok: at EVERY crash prefix of the rename phase, its rollback included, no node (content and
    mode of a file, mode of a directory) has been altered; the only way to lose one is a rename onto an occupied
    destination, which makes the tree strictly shorter (excluded by the pre-flight, C05) -/
theorem rename_phase_crash_ok (orig : Tree) (cfg : Cfg) (rs : List Ren) (perf : List (Path × Path)) (s : St)
    (hstart : NodesKept orig s.t) : NodesKept orig (renameLoop cfg perf rs s).st.t := by
  have := safe_renameLoop (orig := orig) ExecFlags.rollbackRealPairs cfg rs perf [] s hstart
  change Sat _ _ (renameLoop cfg perf rs s) at this
  cases hx : renameLoop cfg perf rs s with
  | ok a s' => rw [hx] at this; exact this
  | err e s' => rw [hx] at this; exact this
  | crash s' => rw [hx] at this; exact this

/-- … so when nothing was overwritten, every file is intact (same list of nodes) wherever the crash happened -/
theorem rename_phase_nodes_intact (orig : Tree) (cfg : Cfg) (rs : List Ren) (perf : List (Path × Path)) (s : St)
    (hstart : s.t = orig) (hlen : (renameLoop cfg perf rs s).st.t.length = orig.length) :
    nodes (renameLoop cfg perf rs s).st.t = nodes orig := by
  rcases rename_phase_crash_ok orig cfg rs perf s (by rw [hstart]; exact Or.inl rfl) with h | h
  · exact h
  · omega

/-- the history window is EXACT: while the in-place `History::save` (`saveHistF false`) runs on an existing history file, under every fault and crash
    point the file holds the old bytes, the complete new bytes, or — only between `open(O_TRUNC)` and the end of the
    `write` — nothing / the first half -/
theorem history_window_exact (entry : UInt8) (c0 : Bytes) (m0 : Nat) (s : St)
    (h0 : lookup s.t pHist = some (.file c0 m0)) :
    HistStates c0 (encodeHist ((parseHist c0).getD [] ++ [entry])) (saveHistF false entry s).st.t := by
  have := safe_saveHist entry c0 m0 s h0
  cases hx : saveHistF false entry s with
  | ok a s' => rw [hx] at this; exact this
  | err e s' => rw [hx] at this; exact this
  | crash s' => rw [hx] at this; exact this

/-- crash_prefix_partial (history): outside the window — the file holds the old or the complete new bytes — the
    history parses and retains every earlier entry -/
theorem crash_prefix_partial_history (entry : UInt8) (es : Bytes) (c : Bytes) (m : Nat) (t : Tree)
    (hl : lookup t pHist = some (.file c m))
    (hout : c = encodeHist es ∨ c = encodeHist (es ++ [entry])) : HistoryOk es t := by
  unfold HistoryOk histParses loadHist
  rw [hl]
  rcases hout with h | h
  · subst h; simp [parseHist_encode]
  · subst h; simp [parseHist_encode]

/-- the repaired `History::save` (`saveHistF true`: temp file, explicit flush, rename) has NO window: under every
    fault and crash point the history parses and retains every earlier entry -/
theorem history_atomic_no_window (entry : UInt8) (es : Bytes) (m0 : Nat) (s : St)
    (h0 : lookup s.t pHist = some (.file (encodeHist es) m0)) :
    HistoryOk es (saveHistF true entry s).st.t := by
  have h := safe_saveHist_atomic entry (encodeHist es) m0 s h0
  have hst : HistOldOrNew (encodeHist es) (encodeHist (es ++ [entry])) (saveHistF true entry s).st.t := by
    rw [parseHist_encode] at h
    cases hx : saveHistF true entry s with
    | ok a s' => rw [hx] at h; exact h
    | err e s' => rw [hx] at h; exact h
    | crash s' => rw [hx] at h; exact h
  rcases hst with ⟨m, hl⟩ | ⟨m, hl⟩
  · exact crash_prefix_partial_history entry es _ m _ hl (Or.inl rfl)
  · exact crash_prefix_partial_history entry es _ m _ hl (Or.inr rfl)

/-- crash_prefix_partial (content phase): a crash anywhere in the content phase leaves the files whole AND the
    history exactly as it was, provided the plan does not edit `.renamify/history.json` itself -/
theorem crash_prefix_partial_content (orig : Tree) (hs : List Hunk) (cfg : Cfg) (files : List Path)
    (hnd : files.Nodup) (hfresh : TmpFresh orig files) (s : St) (hstart : s.t = orig)
    (c0 : Bytes) (m0 : Nat) (hh : lookup orig pHist = some (.file c0 m0)) (hno : ∀ h ∈ hs, h.file ≠ pHist) :
    Whole orig hs (contentLoop cfg hs files s).st.t ∧
    lookup (contentLoop cfg hs files s).st.t pHist = some (.file c0 m0) := by
  have hw := content_edit_atomic orig hs cfg files hnd hfresh s hstart
  refine ⟨hw, ?_⟩
  rcases hw pHist c0 m0 hh with h | ⟨c', hc', h⟩
  · exact h
  · have hed : editsFor hs pHist = [] := by
      unfold editsFor
      rw [List.map_eq_nil_iff, List.filter_eq_nil_iff]
      intro h hm
      simpa using hno h hm
    rw [hed] at hc'
    simp [Edits.applyEditsG, Edits.runG] at hc'
    subst hc'
    exact h

/-- lock_never_observed_partial: `acquire` in the publish-by-hard-link variant (repo commit 35d666f), at EVERY crash
    prefix and after every injected error: the lock path holds what it held before the command, nothing, or the
    COMPLETE content — never an empty or half-written file.  (`l0` is arbitrary: also a leftover of an older version.) -/
theorem lock_never_observed_partial (stale cleans : Bool) (s : St) :
    LockStates (lookup s.t pLock) (acquireF true stale cleans s).st.t := by
  have h := safe_acquire_link stale cleans (lookup s.t pLock) s rfl
  cases hx : acquireF true stale cleans s with
  | ok a s' => rw [hx] at h; exact h
  | err e s' => rw [hx] at h; exact h
  | crash s' => rw [hx] at h; exact h

/-- … and each of these states lets the next `acquire` go ahead when a file that is not `pid:timestamp` is treated as
    abandoned (`stale = true`, the code as it is): `lock_empty_window` cannot occur -/
theorem lock_states_acquirable (l0 : Option Node) (t : Tree) (h : LockStates l0 t)
    (h0 : l0 = none ∨ ∃ c m, l0 = some (.file c m)) : acquirableF true t = true := by
  unfold acquirableF
  rcases h with h | h | ⟨m, h⟩
  · rw [h]
    rcases h0 with h0 | ⟨c, m, h0⟩
    · rw [h0]
    · rw [h0]; simp
  · rw [h]
  · rw [h]; simp

/-- leftover_temp_never_blocks: in the shape the code has (`File::create`: truncating open of the temp file), a file
    that a killed process left at the temp name — empty, half written, complete — never makes a later content edit of the
    same target fail: from any quiet state the atomic replace ends NORMALLY (no error, no crash), the target holds the
    complete new content and the temp name is free again.  For all trees, paths and contents. -/
theorem leftover_temp_never_blocks (f : Path) (c c' x : Bytes) (m mx : Nat) (hne : tmpPath f ≠ f) (s : St)
    (hq : Quiet s) (hl : lookup s.t (tmpPath f) = some (.file x mx)) (hf : lookup s.t f = some (.file c m))
    (hp : parentOk s.t (tmpPath f) = .ok ()) :
    ∃ s', replaceFileX false f c' m s = .ok () s' ∧ lookup s'.t f = some (.file c' m) ∧
      lookup s'.t (tmpPath f) = none := by
  have h := safeQ_replaceFile_leftover f c c' x m mx hne s hq ⟨hl, hf, hp⟩
  cases hx : replaceFileX false f c' m s with
  | ok a s' => rw [hx] at h; exact ⟨s', rfl, h.2.2⟩
  | err e s' => rw [hx] at h; exact absurd h.2.2 id
  | crash s' => rw [hx] at h; exact absurd h id

/-- the code opens the temp file with a truncating create and names it per process: either property alone already keeps a
    killed run's leftover from blocking the next one (`leftoverBlocks` is false); read from the source by
    translate/execflags.py — a fixed name together with `create_new` (seeded/C11d) flips this -/
theorem temp_file_flags : ExecFlags.tempOpenExclusive = false ∧ ExecFlags.tempNamePerPid = true := by decide

/-- the flags the model is built with at the code as it is (read from the source by translate/execflags.py) -/
theorem lock_flags : ExecFlags.publishByLink = true ∧ ExecFlags.emptyLockIsStale = true := by decide

-- concrete scenarios (kernel evaluated) -----------------------------------------------------------------------------

def meta0 : Tree :=
  [ ([dotR], .dir 0o755), (pHist, .file (encodeHist [entryOld]) 0o644), (pPlanJson, .file blob 0o644) ]
def tA : Tree := [ ([b!"a.txt"], .file b!"foo" 0o644), ([b!"b.txt"], .file b!"foo" 0o600) ] ++ meta0
def plA : Plan :=
  { hunks := [ { file := [b!"a.txt"], before := b!"foo", after := b!"bar", start := 0, stop := 3 },
               { file := [b!"b.txt"], before := b!"foo", after := b!"bar", start := 0, stop := 3 } ], rens := [] }
/-- the state a completed `apply` of `plA` leaves (user part), on which `undo` runs -/
def tApplied : Tree :=
  [ ([b!"a.txt"], .file b!"bar" 0o644), ([b!"b.txt"], .file b!"bar" 0o600) ] ++
  [ ([dotR], .dir 0o755), (pHist, .file (encodeHist [entryOld, entryApply]) 0o644) ]
def restoreA : List (Path × Bytes) := [ ([b!"a.txt"], b!"foo"), ([b!"b.txt"], b!"foo") ]

/-- the property at full strength: whatever the kill point of `apply`, the workspace is usable.
    It was false before the repairs e12ff90 / 851189b / 35d666f (`C11_full_false` is conditional on the source flag and
    vacuous now); for the code as it is it is not proved as one statement — see the phase theorems above. -/
def C11_full : Prop :=
  ∀ (plan : Plan) (t : Tree) (inj : Inj),
    Usable t plan.hunks (loadHist t) (run (bodyApply plan) t inj).st.t

set_option maxRecDepth 100000 in
/-- finding history_trunc_window: SIGKILL right after `openw history.json` (call 29): the file is empty, does not
    parse, and the next load starts an empty history — the earlier entry `O` is lost -/
theorem C11_witness_history_trunc : ExecFlags.atomicHistorySave = false →
    outcome (run (bodyApply plA) tA (.crashAfter 29)) = .crashed ∧
    histParses (run (bodyApply plA) tA (.crashAfter 29)).st.t = false ∧
    loadHist (run (bodyApply plA) tA (.crashAfter 29)).st.t = [] ∧ loadHist tA = [entryOld] := by decide +kernel

set_option maxRecDepth 100000 in
/-- … and the same in the middle of the write (call 30): half of the bytes do not parse either -/
theorem C11_witness_history_trunc_mid : ExecFlags.atomicHistorySave = false →
    histParses (run (bodyApply plA) tA (.crashMid 30)).st.t = false ∧
    histParses (run (bodyApply plA) tA (.crashBefore 30)).st.t = false ∧
    histParses (run (bodyApply plA) tA (.crashAfter 30)).st.t = true := by decide +kernel

set_option maxRecDepth 100000 in
/-- the former finding lock_empty_window, BEFORE repo commit 35d666f (`acquireF false false false`: create_new, then
    write): SIGKILL right after `openw renamify.lock` (call 1) leaves an EMPTY lock file, and that `acquire` can
    never succeed again -/
theorem lock_empty_window_before_35d666f :
    outcome (run (acquireF false false false) (tA.take 2) (.crashAfter 1)) = .crashed ∧
    lookup (run (acquireF false false false) (tA.take 2) (.crashAfter 1)).st.t pLock = some (.file [] 0o644) ∧
    acquirableF false (run (acquireF false false false) (tA.take 2) (.crashAfter 1)).st.t = false ∧
    outcome (run (acquireF false false false) (run (acquireF false false false) (tA.take 2) (.crashAfter 1)).st.t .none)
      = .fail := by decide +kernel

set_option maxRecDepth 100000 in
/-- … and the code as it is on the same scenario: whatever the kill point (here: after each of the five calls of
    `acquire`), the lock is absent or complete, a leftover `renamify.lock.<pid>.tmp` does not matter, and the next
    `acquire` succeeds -/
theorem lock_link_example :
    (∀ k ∈ [0, 1, 2, 3, 4],
      (lookup (run acquire (tA.take 2) (.crashAfter k)).st.t pLock = none ∨
       lookup (run acquire (tA.take 2) (.crashAfter k)).st.t pLock = some (.file lockText 0o644)) ∧
      outcome (run acquire (run acquire (tA.take 2) (.crashAfter k)).st.t .none) = .ok) ∧
    lookup (run acquire (tA.take 2) (.crashAfter 2)).st.t pLockTmp = some (.file lockText 0o644) := by
  decide +kernel

set_option maxRecDepth 100000 in
/-- what `create_new` on a FIXED temp name does to the next run (the shape of seeded/C11d): the leftover of a run killed
    right after the temp file was created (here: the empty file) makes the same edit fail with EEXIST — for ever, since the
    failing call did not create the file and does not remove it -/
theorem leftover_temp_blocks_with_create_new :
    outcome (run (replaceFileX true [b!"a.txt"] b!"bar" 0o644)
      ([ ([b!"a.txt"], .file b!"foo" 0o644), (tmpPath [b!"a.txt"], .file [] 0o644) ]) .none) = .fail ∧
    outcome (run (replaceFileX false [b!"a.txt"] b!"bar" 0o644)
      ([ ([b!"a.txt"], .file b!"foo" 0o644), (tmpPath [b!"a.txt"], .file [] 0o644) ]) .none) = .ok := by decide +kernel

set_option maxRecDepth 100000 in
/-- finding undo_inplace_truncation: `undo` rewrites user files in place; SIGKILL right after `openw a.txt` (call 0)
    leaves `a.txt` EMPTY — neither the old nor the new content -/
theorem C11_witness_undo_inplace : ExecFlags.undoViaTemp = false →
    outcome (run (bodyUndo plA restoreA) tApplied (.crashAfter 0)) = .crashed ∧
    lookup (run (bodyUndo plA restoreA) tApplied (.crashAfter 0)).st.t [b!"a.txt"] = some (.file [] 0o644) := by
  decide +kernel

set_option maxRecDepth 100000 in
theorem C11_full_false : ExecFlags.atomicHistorySave = false → ¬ C11_full := by
  intro hf h
  have := (h plA tA (.crashAfter 29)).2.1.1
  change histParses (run (bodyApply plA) tA (.crashAfter 29)).st.t = true at this
  have h2 := (C11_witness_history_trunc hf).2.1
  rw [h2] at this
  cases this

set_option maxRecDepth 100000 in
/-- non-vacuity: the guards of `content_edit_atomic` hold on the scenario, and a mid-write kill of the temp file
    (call 6) indeed leaves a half-written TEMP file next to an intact `a.txt` -/
theorem content_edit_atomic_example :
    (sortedFiles plA.hunks).Nodup ∧
    lookup (run (bodyApply plA) tA (.crashMid 6)).st.t [b!"a.txt"] = some (.file b!"foo" 0o644) ∧
    lookup (run (bodyApply plA) tA (.crashMid 6)).st.t (tmpPath [b!"a.txt"]) = some (.file b!"b" 0o644) := by
  decide +kernel

end C11
