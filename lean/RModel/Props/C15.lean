import RModel.Base.Lit
import RModel.Model.Hunks
import RModel.Model.Edits
import RModel.Lemmas.Edits
import RModel.Lemmas.Matcher
import RModel.Lemmas.Hunks
import RModel.Lemmas.DiffLift
import RModel.Gen.LineAfterColumn
/-
  C15 — What the preview shows is what apply does.   (property theorems only)

  Scope of the theorems: lines that are valid UTF-8 (on other lines `generate_hunks` slices the LOSSY
  string at a column of the RAW line and panics — C16's witness), hunks consistent with the line
  (C03 proves that of every case-aware plan), replacements without `\n` for the statement about line
  NUMBERS.  The diff preview and the plan JSON are in scope; colours and the other previews are not.
-/
namespace C15
open Hunks Edits Matcher

/-- each 'before' line is the file's current line -/
theorem line_before_is_line (content : Bytes) (line col start stop : Nat) (text repl l : Bytes)
    (hl : lineOf content line = some l) (hv : Utf8.valid l = true) (h : Hunk) (how : How)
    (hg : hunkGeom content line col start stop text repl = .ok h how) : h.lineBefore = l := by
  simp only [hunkGeom, hunkGeomG, Bool.false_eq_true, if_false, hl, Matcher.lossy_of_valid hv] at hg
  split at hg
  · cases hg
  · cases hg; rfl

/-- each match's 'after' line is that line with that match replaced; the `find` fallback is unreachable -/
theorem line_after_single (content : Bytes) (line col start stop : Nat) (text repl l : Bytes)
    (hl : lineOf content line = some l) (hv : Utf8.valid l = true)
    (hne : text ≠ []) (hpre : text <+: l.drop col) (hb : isCharBoundary l col = true) :
    ∃ h, hunkGeom content line col start stop text repl = .ok h .splice ∧
      h.lineBefore = l ∧ h.lineAfter = l.take col ++ repl ++ l.drop (col + text.length) ∧
      h.byteOffset = col ∧ h.content = text ∧ h.replace = repl := by
  have hlen : 0 < text.length := List.length_pos_iff.mpr hne
  have hle := hpre.length_le
  simp only [List.length_drop] at hle
  have hcol : col < l.length := by omega
  simp only [hunkGeom, hunkGeomG, Bool.false_eq_true, if_false, if_true, hl, Matcher.lossy_of_valid hv, lineAfter, startsWithAt, hcol, if_true, hb, List.isPrefixOf_iff_prefix.mpr hpre, spliceAt]
  exact ⟨_, rfl, rfl, rfl, rfl, rfl, rfl⟩

/-- `line_after_single` for the planner AS IT IS: `Gen.lineAfterColumnIsByte` is re-extracted from scanner.rs on every run
    (translate/line_after_column.py: which position does `generate_hunks` slice the line at?).  If the code starts to
    splice at a character offset the flag flips to `false`, `decide` fails here and the check reports the broken proof —
    and `C15_witness_char_column` below shows what then goes wrong. -/
theorem line_after_single_current (content : Bytes) (line col start stop : Nat) (text repl l : Bytes)
    (hl : lineOf content line = some l) (hv : Utf8.valid l = true)
    (hne : text ≠ []) (hpre : text <+: l.drop col) (hb : isCharBoundary l col = true) :
    ∃ h, hunkGeomG Gen.lineAfterColumnIsByte false content line col start stop text repl = .ok h .splice ∧
      h.lineBefore = l ∧ h.lineAfter = l.take col ++ repl ++ l.drop (col + text.length) := by
  have hflag : Gen.lineAfterColumnIsByte = true := by decide
  rw [hflag]
  obtain ⟨h, h1, h2, h3, _⟩ := line_after_single content line col start stop text repl l hl hv hne hpre hb
  exact ⟨h, h1, h2, h3⟩

/-- `line_after_single` WITHOUT the valid-UTF-8 clause, for the shape of seeded/_fixes/c03_line_context_decoded_parts.diff.
    Reading of the property on a line that cannot be decoded: the recorded context is the LOSSY RENDERING of the file's line
    (`String::from_utf8_lossy`, one U+FFFD per maximal invalid sequence) — `line_before` renders the whole line, `line_after`
    is (rendering of the bytes before the match) ++ replacement ++ (rendering of the bytes after the match), `char_offset`
    counts the characters of the rendered text before the match.  For ANY bytes: the match only has to stand at its column
    of the raw line (C03); the `find` fallback is unreachable. -/
theorem line_after_single_decoded (colIsByte : Bool) (content : Bytes) (line col start stop : Nat) (text repl l : Bytes)
    (hl : lineOf content line = some l) (hpre : text <+: l.drop col) (hlen : col + text.length ≤ l.length) :
    ∃ h, hunkGeomG colIsByte true content line col start stop text repl = .ok h .splice ∧
      h.lineBefore = Utf8.lossy l ∧
      h.lineAfter = Utf8.lossy (l.take col) ++ repl ++ Utf8.lossy (l.drop (col + text.length)) ∧
      h.charOffset = Utf8.charCount (Utf8.lossy (l.take col)) ∧
      h.byteOffset = col ∧ h.content = text ∧ h.replace = repl := by
  have hcol : col ≤ l.length := by omega
  simp only [hunkGeomG, hl, if_true, lineAfterParts, hlen, decide_true, Bool.true_and,
    List.isPrefixOf_iff_prefix.mpr hpre, hcol]
  exact ⟨_, rfl, rfl, rfl, rfl, rfl, rfl, rfl⟩

/-- … and for the planner AS IT IS: holds as soon as `Gen.lineAfterDecodesParts` (re-extracted from scanner.rs on every run)
    is true; today it is false and the valid-UTF-8 clause of `line_after_single_current` is needed
    (C03 finding invalid_utf8_line_context). -/
theorem line_after_single_decoded_current (content : Bytes) (line col start stop : Nat) (text repl l : Bytes)
    (hflag : Gen.lineAfterDecodesParts = true)
    (hl : lineOf content line = some l) (hpre : text <+: l.drop col) (hlen : col + text.length ≤ l.length) :
    ∃ h, hunkGeomG Gen.lineAfterColumnIsByte Gen.lineAfterDecodesParts content line col start stop text repl = .ok h .splice ∧
      h.lineBefore = Utf8.lossy l ∧
      h.lineAfter = Utf8.lossy (l.take col) ++ repl ++ Utf8.lossy (l.drop (col + text.length)) := by
  rw [hflag]
  obtain ⟨h, h1, h2, h3, _⟩ := line_after_single_decoded Gen.lineAfterColumnIsByte content line col start stop text repl l hl hpre hlen
  exact ⟨h, h1, h2, h3⟩

/-- on a valid-UTF-8 line both shapes record the same context (the repair changes nothing there) -/
theorem decoded_parts_agree_on_valid (content : Bytes) (line col start stop : Nat) (text repl l : Bytes)
    (hl : lineOf content line = some l) (hv : Utf8.valid l = true) (hvt : Utf8.valid (l.take col) = true)
    (hvd : Utf8.valid (l.drop (col + text.length)) = true)
    (hne : text ≠ []) (hpre : text <+: l.drop col) (hb : isCharBoundary l col = true) :
    ∃ h h', hunkGeomG true false content line col start stop text repl = .ok h .splice ∧
      hunkGeomG true true content line col start stop text repl = .ok h' .splice ∧
      h.lineBefore = h'.lineBefore ∧ h.lineAfter = h'.lineAfter := by
  have hlen : col + text.length ≤ l.length := by
    have := hpre.length_le
    simp only [List.length_drop] at this
    have : 0 < text.length := List.length_pos_iff.mpr hne
    omega
  obtain ⟨h, h1, h2, h3, _⟩ := line_after_single content line col start stop text repl l hl hv hne hpre hb
  obtain ⟨h', g1, g2, g3, _⟩ := line_after_single_decoded true content line col start stop text repl l hl hpre hlen
  refine ⟨h, h', h1, g1, ?_, ?_⟩
  · rw [h2, g2, Matcher.lossy_of_valid hv]
  · rw [h3, g3, Matcher.lossy_of_valid hvt, Matcher.lossy_of_valid hvd]

/-- the single-hunk 'after' line is the left-to-right splice of the line with that one edit -/
theorem line_after_eq_spec (l : Bytes) (col : Nat) (text repl : Bytes) :
    l.take col ++ repl ++ l.drop (col + text.length)
      = spec l 0 [{ before := text, after := repl, start := col, stop := col + text.length }] := by
  simp [spec]

/-- `diff_plus_line` (line level).  For ANY number of hunks of one line that are consistent with it
    (ascending, disjoint, on character boundaries, text present — C03) and have non-empty text, the text
    that `render_diff` puts on the `+` side — `line_after` for one hunk, the right-to-left merge in
    descending `byte_offset` order for several — is the line with every match replaced, left to right.
    No uniqueness of the text within the line is needed (the merge indexes by column, never searches),
    CR-LF needs no special case (the terminator is part of `line`), length-changing replacements are fine. -/
theorem diff_after_eq_spec (line : Bytes) (hs : List Hunk) (hnil : hs ≠ [])
    (hne : ∀ h ∈ hs, h.content ≠ [])
    (hlb : ∀ h ∈ hs, h.lineBefore = line)
    (hla : ∀ h ∈ hs, h.lineAfter = line.take h.byteOffset ++ h.replace ++ line.drop (h.byteOffset + h.content.length))
    (hc : Consistent line 0 (hs.map toEdit)) :
    diffAfterText hs = some (spec line 0 (hs.map toEdit)) := by
  match hs, hnil with
  | [h], _ =>
    simp only [diffAfterText, List.map_cons, List.map_nil]
    rw [hla h List.mem_cons_self]
    simp [spec, toEdit]
  | h1 :: h2 :: rest, _ =>
    have hasc := (ascending_of_consistent line 0 (h1 :: h2 :: rest) hne hc).1
    simp only [diffAfterText]
    rw [hlb h1 List.mem_cons_self, sortDesc_of_ascending _ hasc,
      mergeRun_reverse_eq_spec line 0 _ hne hc]
    simp

/-- … and that text is exactly what stands in the line's place in the file after apply: the applied file is
    (lines before, edited) ++ (the `+` text) ++ (lines after, edited), and apply succeeds (C02). -/
theorem diff_plus_text_is_applied_text (A L B : Bytes) (EA EB : List Edit) (hs : List Hunk)
    (hnil : hs ≠ []) (hne : ∀ h ∈ hs, h.content ≠ [])
    (hlb : ∀ h ∈ hs, h.lineBefore = L)
    (hla : ∀ h ∈ hs, h.lineAfter = L.take h.byteOffset ++ h.replace ++ L.drop (h.byteOffset + h.content.length))
    (hA : Consistent A 0 EA) (hL : Consistent L 0 (hs.map toEdit)) :
    ∃ plus, diffAfterText hs = some plus ∧
      spec (A ++ (L ++ B)) 0 (EA ++ shift A.length (hs.map toEdit ++ shift L.length EB))
        = spec A 0 EA ++ (plus ++ spec B 0 EB) := by
  refine ⟨_, diff_after_eq_spec L hs hnil hne hlb hla hL, ?_⟩
  rw [spec_append A (L ++ B) 0 EA _ hA, spec_append L B 0 _ EB hL]

/-- `diff_plus_line_eq_applied` (file level).  File = A ++ L ++ B with A a block of complete lines and L one
    line ending in `\n` (CR-LF included).  Edits before the line (EA), the line's hunks (hs) and edits after it (EB) are
    consistent with their parts; texts and replacements before and on the line contain no newline and texts are non-empty.
    Then the block `@@ line n @@` with n = (newlines in A) + 1 shows, on its `+` side, exactly line n of the file that apply
    produces (`Edits.spec`, equal to the result of the real apply loop by C02), and line n of the original file is L. -/
theorem diff_plus_line_eq_applied (A L B : Bytes) (EA EB : List Edit) (hs : List Hunk)
    (hAend : A = [] ∨ ∃ A0, A = A0 ++ [10])
    (hLline : ∃ L0, L = L0 ++ [10] ∧ nlCount L0 = 0)
    (hnil : hs ≠ []) (hne : ∀ h ∈ hs, h.content ≠ [])
    (hlb : ∀ h ∈ hs, h.lineBefore = L)
    (hla : ∀ h ∈ hs, h.lineAfter = L.take h.byteOffset ++ h.replace ++ L.drop (h.byteOffset + h.content.length))
    (hA : Consistent A 0 EA) (hL : Consistent L 0 (hs.map toEdit))
    (hnlA : ∀ e ∈ EA, nlCount e.before = 0 ∧ nlCount e.after = 0 ∧ e.start < e.stop)
    (hnlL : ∀ h ∈ hs, nlCount h.content = 0 ∧ nlCount h.replace = 0) :
    ∃ plus, diffAfterText hs = some plus ∧
      lineOf (A ++ (L ++ B)) (nlCount A + 1) = some L ∧
      lineOf (spec (A ++ (L ++ B)) 0 (EA ++ shift A.length (hs.map toEdit ++ shift L.length EB))) (nlCount A + 1)
        = some plus := by
  have hplus := diff_after_eq_spec L hs hnil hne hlb hla hL
  refine ⟨_, hplus, ?_, ?_⟩
  · have hA0 : trailingRun A = 0 := by
      rcases hAend with rfl | ⟨A0, rfl⟩
      · simp [trailingRun]
      · exact trailingRun_snoc_nl _
    have hLne : L ≠ [] := by
      obtain ⟨L0, rfl, _⟩ := hLline
      simp
    exact lineOf_middle A L B hA0 hLne (Or.inl hLline)
  · rw [spec_append A (L ++ B) 0 EA _ hA, spec_append L B 0 _ EB hL]
    obtain ⟨t0, c0⟩ := spec_complete_lines A EA hAend hA hnlA
    have hnlE : ∀ e ∈ hs.map toEdit, nlCount e.before = 0 ∧ nlCount e.after = 0 ∧ e.start < e.stop := by
      intro e he
      obtain ⟨h, hh, rfl⟩ := List.mem_map.mp he
      have hl : 0 < h.content.length := List.length_pos_iff.mpr (hne h hh)
      exact ⟨(hnlL h hh).1, (hnlL h hh).2, by simp only [toEdit]; omega⟩
    obtain ⟨P0, hP, hP0⟩ := spec_one_line L (hs.map toEdit) hL hnlE hLline
    have hPne : spec L 0 (hs.map toEdit) ≠ [] := by rw [hP]; simp
    rw [← c0]
    exact lineOf_middle _ _ _ t0 hPne (Or.inl ⟨P0, hP, hP0⟩)

/-- non-vacuity of the file-level statement: second line of a three-line file, hunks on lines 1 and 2 -/
example :
    let A := b!"a foo\n"; let L := b!"é foo, foo;\r\n"; let B := b!"tail\n"
    let mk := fun (c : Nat) =>
      ({ line := 2, byteOffset := c, charOffset := 0, start := 0, stop := 0, content := b!"foo", replace := b!"quux",
         lineBefore := L, lineAfter := L.take c ++ b!"quux" ++ L.drop (c + 3) } : Hunk)
    let EA : List Edit := [{ before := b!"foo", after := b!"quux", start := 2, stop := 5 }]
    diffAfterText [mk 3, mk 8] = some b!"é quux, quux;\r\n" ∧
    spec (A ++ (L ++ B)) 0 (EA ++ shift A.length ([mk 3, mk 8].map toEdit ++ shift L.length []))
      = b!"a quux\né quux, quux;\r\ntail\n" ∧
    lineOf (spec (A ++ (L ++ B)) 0 (EA ++ shift A.length ([mk 3, mk 8].map toEdit ++ shift L.length []))) 2
      = some b!"é quux, quux;\r\n" := by decide

/-- non-vacuity: three hunks on a CR-LF line with multi-byte text before them, length-changing replacements -/
example :
    let line := b!"é foo_bar, fooBar; FOO_BAR\r\n"
    let mk := fun (c : Nat) (t r : Bytes) =>
      ({ line := 1, byteOffset := c, charOffset := 0, start := c, stop := c + t.length,
         content := t, replace := r, lineBefore := line,
         lineAfter := line.take c ++ r ++ line.drop (c + t.length) } : Hunk)
    diffAfterText [mk 3 b!"foo_bar" b!"a", mk 12 b!"fooBar" b!"alphaBetaGamma", mk 20 b!"FOO_BAR" b!"A"]
      = some b!"é a, alphaBetaGamma; A\r\n" := by decide

/-- The statement without the disjointness hypothesis is false (`C15_needs_disjoint_hunks`); it mattered for real plans until
    4d2e5a7 (duplicate hunks from overlapping search roots), C03.multi_root_sort_key_unique now rules such plans out: whatever
    hunks a plan lists for a line, the `+` text is what the apply loop makes of that line. -/
def C15_without_disjointness : Prop :=
  ∀ (line : Bytes) (hs : List Hunk), hs ≠ [] → (∀ h ∈ hs, h.lineBefore = line) →
    (∀ h ∈ hs, h.content ≠ [] ∧ h.content <+: line.drop h.byteOffset) →
    (∀ h ∈ hs, h.lineAfter = line.take h.byteOffset ++ h.replace ++ line.drop (h.byteOffset + h.content.length)) →
    ∃ plus, diffAfterText hs = some plus ∧ applyEdits line (hs.map toEdit) = .ok plus

-- what the hypotheses are for (kernel-evaluated, each replayed on the real code by checks/c15.py) ----------

private def dupLine : Bytes := b!"x foo_bar y fooBar tail\n"
private def dupH1 : Hunk :=
  { line := 1, byteOffset := 2, charOffset := 2, start := 2, stop := 9, content := b!"foo_bar",
    replace := b!"baz", lineBefore := dupLine, lineAfter := b!"x baz y fooBar tail\n" }
private def dupH2 : Hunk :=
  { line := 1, byteOffset := 12, charOffset := 12, start := 12, stop := 18, content := b!"fooBar",
    replace := b!"baz", lineBefore := dupLine, lineAfter := b!"x foo_bar y baz tail\n" }

/-- Disjointness is needed: with every hunk listed twice (nested / repeated search roots) the preview
    silently skips the second copy, apply splices it again at the original offsets.  Exactly what the real
    binary did on `renamify plan foo_bar baz . sub` + `apply` before 4d2e5a7. -/
theorem C15_needs_disjoint_hunks :
    diffAfterText [dupH1, dupH1, dupH2, dupH2] = some b!"x baz y baz tail\n" ∧
    applyEdits dupLine [toEdit dupH1, toEdit dupH1, toEdit dupH2, toEdit dupH2] = .ok b!"x bazazil\n" := by decide

/-- the same, as an inequality between preview and apply (the repaired finding duplicate_hunks_preview_vs_apply) -/
theorem C15_beforefix_duplicate_hunks_preview_vs_apply :
    diffAfterText [dupH1, dupH1, dupH2, dupH2] ≠
      (match applyEdits dupLine [toEdit dupH1, toEdit dupH1, toEdit dupH2, toEdit dupH2] with
       | .ok b => some b | .error _ => none) := by decide

/-- Consistency with the file (C03) is needed: the literal planner's line-relative offsets, read as file offsets by apply,
    hit a span with the same text.  `renamify replace --no-regex foo foobar` on "foo foo\nfoo\n": the previews show
    `foobar foobar` / `foobar`, apply (exit 0) writes `foobarbfoobarfoo` / `foo`.  Exactly what the real binary did before d278bf5. -/
theorem C15_beforefix_replace_offsets_preview_vs_apply :
    let file := b!"foo foo\nfoo\n"
    let hs := planLiteral false file b!"foo" b!"foobar"
    hs.map (fun h => (h.line, h.start, h.stop, h.lineAfter)) =
      [(1, 0, 3, b!"foobar foo"), (1, 4, 7, b!"foo foobar"), (2, 0, 3, b!"foobar")] ∧
    diffAfterText (hs.take 2) = some b!"foobar foobar" ∧
    applyEdits file (hs.map (fun h => { before := h.content, after := h.replace, start := h.start, stop := h.stop }))
      = .ok b!"foobarbfoobarfoo\nfoo\n" := by decide

/-- … and when the replacement starts with the searched text the preview itself is wrong twice over -/
theorem C15_witness_duplicate_prefix_extending :
    let l := b!"a foo b\n"
    let h : Hunk := { line := 1, byteOffset := 2, charOffset := 2, start := 2, stop := 5, content := b!"foo", replace := b!"foo_x",
                      lineBefore := l, lineAfter := b!"a foo_x b\n" }
    diffAfterText [h, h] = some b!"a foo_x_x b\n" := by decide

/-- overlapping hunks: the one further left no longer finds its text and is dropped without notice -/
theorem C15_witness_overlap_skipped :
    let l := b!"abc\n"
    let h1 : Hunk := { line := 1, byteOffset := 0, charOffset := 0, start := 0, stop := 2, content := b!"ab", replace := b!"X",
                       lineBefore := l, lineAfter := b!"Xc\n" }
    let h2 : Hunk := { line := 1, byteOffset := 1, charOffset := 1, start := 1, stop := 2, content := b!"b", replace := b!"YY",
                       lineBefore := l, lineAfter := b!"aYYc\n" }
    diffAfterText [h1, h2] = some b!"aYYc\n" := by decide

/-- a replacement with a newline: the `+` text is still the splice, but it is two lines, so "the added line
    for line n" is no longer line n of the applied file (line numbers below shift as well) -/
theorem C15_witness_newline_in_replacement :
    let l := b!"a foo b\n"
    let h : Hunk := { line := 1, byteOffset := 2, charOffset := 2, start := 2, stop := 5, content := b!"foo", replace := b!"x\ny",
                      lineBefore := l, lineAfter := b!"a x\ny b\n" }
    diffAfterText [h] = some b!"a x\ny b\n" ∧
    lineOf (spec l 0 [toEdit h]) 1 = some b!"a x\n" := by decide

/-- a column inside a character (only reachable with hand-made plans, or on lines that are not valid UTF-8): since ac203f2
    the splice is skipped; before, `after_line[col..]` panicked -/
theorem C15_midchar_column_skipped :
    let l := b!"é foo\n"
    let h : Hunk := { line := 1, byteOffset := 1, charOffset := 0, start := 1, stop := 4, content := b!"foo", replace := b!"x",
                      lineBefore := l, lineAfter := l }
    diffAfterText [h, h] = some l := by decide

/-- … and before ac203f2 the same plan made `render_diff` panic (`after_line[col..]`) -/
theorem C15_beforefix_midchar_panics :
    let l := b!"é foo\n"
    let h : Hunk := { line := 1, byteOffset := 1, charOffset := 0, start := 1, stop := 4, content := b!"foo", replace := b!"x",
                      lineBefore := l, lineAfter := l }
    diffAfterTextOld [h, h] = none := by decide

/-- checked slicing: the column test itself can no longer panic -/
theorem startsWithAt_total (s : Bytes) (i : Nat) (p : Bytes) : startsWithAt s i p ≠ none := by
  unfold startsWithAt
  split
  · split <;> simp
  · simp

/-- The byte column is needed.  A planner that splices at the CHARACTER offset misses the match as soon as a multi-byte
    character precedes it; the `find` fallback then replaces the first textual occurrence of the variant on the line —
    here the one embedded in `xold_namey` — so the preview shows `xbrand_new_namey é old_name` where apply writes
    `xold_namey é brand_new_name`. -/
theorem C15_witness_char_column :
    let c := b!"xold_namey é old_name\n"
    hunkGeomAtG false false c 14 22 b!"old_name" b!"brand_new_name" =
      .ok { line := 1, byteOffset := 14, charOffset := 13, start := 14, stop := 22, content := b!"old_name",
            replace := b!"brand_new_name", lineBefore := c, lineAfter := b!"xbrand_new_namey é old_name\n" } .fallback ∧
    hunkGeomAtG true false c 14 22 b!"old_name" b!"brand_new_name" =
      .ok { line := 1, byteOffset := 14, charOffset := 13, start := 14, stop := 22, content := b!"old_name",
            replace := b!"brand_new_name", lineBefore := c, lineAfter := b!"xold_namey é brand_new_name\n" } .splice := by decide

end C15
