import RModel.Base.Lit
import RModel.Model.CaseModel
import RModel.Model.VariantMap
import RModel.Gen.Acronyms
import RModel.Gen.Styles
import RModel.Lemmas.CaseModel
import RModel.Lemmas.CaseModelWords
import RModel.Lemmas.CaseModelAcr
import RModel.Lemmas.CaseModelDetect
import RModel.Lemmas.CaseModelStyles
import RModel.Lemmas.CaseModelVariant
/-
  C18 — Case conversion is a consistent algebra.   (property theorems only; lemmas in Lemmas/CaseModel*.lean)

  Vocabulary of the statements (definitions in `Lemmas/CaseModel*.lean`, namespace `CaseModel`):
  * `LowerWord w`  : `w ≠ [] ∧ ∀ c ∈ w, isLower c`;   `Word w` : `2 ≤ |w| ∧ ∀ c ∈ w, isLower c`;
    `LowerWords ws` / `Words ws` : every word of the list.
  * `AcrOk A`      : `A.flm rest = some n → 1 ≤ n ∧ n ≤ |rest| ∧ ∀ c ∈ rest.take n, isAlnum c`.
  * `AcrStable A`  : `A.flm (x ++ t) = some n → n ≤ |x| → A.flm x = some n` (the longest trie match does not depend
    on the bytes after it).  Both contracts are proved for every `acrOf acrs` with alphanumeric entries.
  * `Neutral A ws` : every word satisfies
      N1 `NeutralUpper A w` : if the trie matches a prefix of length `n` of `upper w` then `n = |w|` or the trie does
                              not match at `(upper w).drop n` (no "acronym directly followed by an acronym"), and
      N2 `NeutralCap A w`   : the trie does not match exactly one letter at `capitalizeFirst w`.
    N1 is what the upper-case styles need, N2 what the capitalised styles need; the lower-case styles need nothing.
  * `V12`          : all styles but `lowerFlat`, `upperFlat`.
  * `rendWords ws st` : the exact token list of `toStyle A ws st` (the words, upper-cased, or capitalised).
-/
namespace C18
open B CaseModel

def A : Acr := acrOf Gen.defaultAcronyms

/-- the intended vocabulary of the generators -/
def vocab : List Bytes :=
  [b!"foo", b!"bar", b!"baz", b!"qux", b!"alpha", b!"gamma", b!"delta", b!"widget", b!"gadget", b!"tiger",
   b!"lemon", b!"nova"]

-- the contract of the trie, for the generated acronym list (re-checked by evaluation whenever the list changes) --------

theorem acrOk_default : AcrOk A := acrOk_of_acrsAlnum (by decide +kernel)
theorem acrStable_default : AcrStable A := acrStable_acrOf _

/-- the contract holds for every acronym list with alphanumeric entries -/
theorem acrOk_general {acrs : List Bytes} (h : ∀ a ∈ acrs, ∀ c ∈ a, isAlnum c = true) :
    AcrOk (acrOf acrs) ∧ AcrStable (acrOf acrs) := ⟨acrOk_acrOf h, acrStable_acrOf acrs⟩

example : Words vocab := by decide
example : Neutral A vocab := by decide +kernel
example : UpperSafe A vocab := by decide +kernel

-- kernel-evaluated boundary facts that fix the guard from outside ---------------------------------------------------

theorem one_letter_word_breaks_camel :
    parse A (toStyle A [b!"foo", b!"a", b!"bar"] .camel) = [b!"foo", b!"ABar"] := by decide +kernel

theorem acronym_word_changes_tokens :
    parse A (toStyle A [b!"foo", b!"api", b!"bar"] .pascal) = [b!"Foo", b!"Api", b!"Bar"] ∧
    parse A b!"fooAPIBar" = [b!"foo", b!"API", b!"Bar"] := by decide +kernel

theorem digits_glue_to_previous_word :
    parse A b!"foo2bar" = [b!"foo2bar"] ∧ parse A b!"foo_2_bar" = [b!"foo", b!"2", b!"bar"] := by decide +kernel

/-- N1 is needed: `uiux` upper-cased is `UI` directly followed by `UX` -/
theorem neutral_upper_needed :
    ¬ NeutralUpper A b!"uiux" ∧ NeutralCap A b!"uiux" ∧
    parse A (toStyle A [b!"uiux", b!"foo"] .screamingSnake) = [b!"UI", b!"UX", b!"FOO"] := by decide +kernel

/-- N2 is needed (only for acronym sets with one-letter entries; the default set has none): with the set `{F}` -/
theorem neutral_cap_needed :
    ¬ NeutralCap (acrOf [b!"F"]) b!"foo" ∧ NeutralUpper (acrOf [b!"F"]) b!"foo" ∧
    parse (acrOf [b!"F"]) (toStyle (acrOf [b!"F"]) [b!"foo", b!"bar"] .pascal) = [b!"F", b!"oo", b!"Bar"] := by
  decide +kernel

/-- N2 is vacuous for the default set: it has no one-letter acronym -/
theorem neutral_cap_default_of_no_unit : (Gen.defaultAcronyms.all (fun a => a.length != 1)) = true := by
  decide +kernel

-- 1. lower-case separator styles: no neutrality needed, one-letter words allowed --------------------------------------

theorem parse_render_lower {A : Acr} {ws : List Bytes} {st : Style} (hA : AcrOk A) (hw : LowerWords ws)
    (hst : st ∈ [Style.snake, .kebab, .dot, .lowerSentence]) : parse A (toStyle A ws st) = ws := by
  rw [toStyle_words A hw]
  cases st <;> first
    | exact absurd hst (by decide)
    | exact parse_lower_sep hA (by decide) hw

example : parse A (toStyle A [b!"foo", b!"x", b!"api"] .kebab) = [b!"foo", b!"x", b!"api"] :=
  parse_render_lower acrOk_default (by decide) (by decide)

-- 2. upper-case separator styles -----------------------------------------------------------------------------------------------

theorem parse_render_upper {A : Acr} {ws : List Bytes} {st : Style} (hA : AcrOk A) (hS : AcrStable A)
    (hw : LowerWords ws) (hN : ∀ w ∈ ws, NeutralUpper A w)
    (hst : st ∈ [Style.screamingSnake, .screamingTrain, .upperSentence]) :
    (parse A (toStyle A ws st)).map lower = ws := by
  rw [toStyle_words A hw]
  cases st <;> first
    | exact absurd hst (by decide)
    | (simp only []; rw [parse_upper_sep hA hS (by decide) hw hN]; exact map_lower_upper_words hw)

example : (parse A (toStyle A [b!"foo", b!"bar"] .screamingSnake)).map lower = [b!"foo", b!"bar"] :=
  parse_render_upper acrOk_default acrStable_default (by decide) (by decide +kernel) (by decide)

-- 3. capitalised words with separators --------------------------------------------------------------------------------------

theorem parse_render_hump_sep {A : Acr} {ws : List Bytes} {st : Style} (hA : AcrOk A) (hS : AcrStable A)
    (hw : Words ws) (hN : ∀ w ∈ ws, NeutralCap A w) (hst : st ∈ [Style.title, .train, .sentence]) :
    (parse A (toStyle A ws st)).map lower = ws := by
  have hl := hw.lowerWords
  rw [toStyle_words A hl]
  cases st <;> first
    | exact absurd hst (by decide)
    | (simp only []; rw [parse_cap_sep hA hS (by decide) hw hN]; exact map_lower_cap_words hl)
    | (cases ws with
       | nil => rfl
       | cons w r =>
         simp only []
         rw [parse_sentence_words hA hS (hw w (List.mem_cons_self ..)) (hN w (List.mem_cons_self ..)) hl.tail]
         simp only [List.map_cons, lower_capitalizeFirst (hl w (List.mem_cons_self ..)).2,
           map_lower_lowerWords hl.tail])

example : (parse A (toStyle A [b!"foo", b!"bar", b!"baz"] .sentence)).map lower = [b!"foo", b!"bar", b!"baz"] :=
  parse_render_hump_sep acrOk_default acrStable_default (by decide) (by decide +kernel) (by decide)

-- 4. camel / pascal: boundaries only from lower → upper transitions --------------------------------------------

theorem parse_render_hump {A : Acr} {ws : List Bytes} {st : Style} (hA : AcrOk A) (hS : AcrStable A)
    (hw : Words ws) (hN : ∀ w ∈ ws, NeutralCap A w) (hst : st ∈ [Style.camel, .pascal]) :
    (parse A (toStyle A ws st)).map lower = ws := by
  have hl := hw.lowerWords
  rw [toStyle_words A hl]
  cases st <;> first
    | exact absurd hst (by decide)
    | (cases ws with
       | nil => rfl
       | cons w r =>
         simp only []
         rw [parse_camel hA hS (hl w (List.mem_cons_self ..)) (caps_of_words hw.tail)
           (caps_neutral (fun x hx => hN x (List.mem_cons_of_mem _ hx)))]
         simp only [List.map_cons, lower_of_lower (hl w (List.mem_cons_self ..)).2, map_lower_cap_words hl.tail])
    | (cases ws with
       | nil => rfl
       | cons w r =>
         simp only [List.map_cons]
         rw [parse_pascal hA hS (isCap_capitalizeFirst (hw w (List.mem_cons_self ..)))
           (hN w (List.mem_cons_self ..)) (caps_of_words hw.tail)]
         exact map_lower_cap_words hl)

example : (parse A (toStyle A [b!"foo", b!"bar", b!"baz"] .camel)).map lower = [b!"foo", b!"bar", b!"baz"] :=
  parse_render_hump acrOk_default acrStable_default (by decide) (by decide +kernel) (by decide)

-- 5. all twelve boundary-visible styles --------------------------------------------------------------------------------------

/-- the exact tokens -/
theorem parse_render_exact {A : Acr} {ws : List Bytes} {st : Style} (hA : AcrOk A) (hS : AcrStable A)
    (hw : Words ws) (hN : Neutral A ws) (hst : st ∈ V12) : parse A (toStyle A ws st) = rendWords ws st :=
  parse_rendWords hA hS hw hN hst

theorem parse_render {A : Acr} {ws : List Bytes} {st : Style} (hA : AcrOk A) (hS : AcrStable A)
    (hw : Words ws) (hN : Neutral A ws) (hst : st ∈ V12) : (parse A (toStyle A ws st)).map lower = ws := by
  rw [parse_rendWords hA hS hw hN hst]; exact map_lower_rendWords hw.lowerWords st

example : ∀ st ∈ V12, (parse A (toStyle A [b!"widget", b!"nova"] st)).map lower = [b!"widget", b!"nova"] :=
  fun _ hst => parse_render acrOk_default acrStable_default (by decide) (by decide +kernel) hst

-- 6. the rendered multi-word name is recognised as that style (needs neither neutrality nor the trie contract) --

theorem detect_render {A : Acr} {ws : List Bytes} {st : Style} (h2 : 2 ≤ ws.length) (hw : Words ws)
    (hst : st ∈ V12) : detectStyle A (toStyle A ws st) = some st := detect_toStyle A h2 hw hst

example : detectStyle A (toStyle A [b!"tiger", b!"lemon"] .sentence) = some .sentence :=
  detect_render (by decide) (by decide) (by decide)

/-- one word is not enough: a single lower-case word is no style at all, a capitalised one is Pascal -/
theorem detect_render_needs_two_words :
    detectStyle A (toStyle A [b!"foo"] .snake) = none ∧ detectStyle A (toStyle A [b!"foo"] .title) = some .pascal := by
  decide +kernel

-- 7. rendering is idempotent, all fourteen styles ---------------------------------------------------------------------------

/-- the flat styles need only the trie contract: however the flat string is cut, concatenation restores it -/
theorem render_idem_flat {A : Acr} {ws : List Bytes} {st : Style} (hA : AcrOk A)
    (hw : ∀ w ∈ ws, ∀ c ∈ w, isLower c = true) (hst : st ∈ [Style.lowerFlat, .upperFlat]) :
    toStyle A (parse A (toStyle A ws st)) st = toStyle A ws st := by
  cases st <;> first
    | exact absurd hst (by decide)
    | exact render_idem_lowerFlat hA hw
    | exact render_idem_upperFlat hA hw

theorem render_idem {A : Acr} {ws : List Bytes} (st : Style) (hA : AcrOk A) (hS : AcrStable A) (hw : Words ws)
    (hN : Neutral A ws) : toStyle A (parse A (toStyle A ws st)) st = toStyle A ws st := by
  by_cases hst : st ∈ V12
  · rw [parse_rendWords hA hS hw hN hst]; exact toStyle_rendWords hw st
  · apply render_idem_flat hA (fun w h => (hw w h).2)
    cases st <;> first
      | exact absurd (by decide) hst
      | decide

example : ∀ st, toStyle A (parse A (toStyle A [b!"gadget", b!"delta"] st)) st = toStyle A [b!"gadget", b!"delta"] st :=
  fun st => render_idem st acrOk_default acrStable_default (by decide) (by decide +kernel)

/-- without neutrality idempotence fails for the boundary-visible styles (not for the flat ones) -/
theorem render_idem_needs_neutral :
    toStyle A (parse A (toStyle A [b!"uiux", b!"foo"] .screamingSnake)) .screamingSnake = b!"UI_UX_FOO" ∧
    toStyle A [b!"uiux", b!"foo"] .screamingSnake = b!"UIUX_FOO" ∧
    parse A (toStyle A [b!"uiux", b!"foo"] .upperFlat) = [b!"UI", b!"UXFOO"] := by decide +kernel

-- 8. distinct styles render a multi-word name differently ------------------------------------------------------------

theorem render_injective_on_V12 {A : Acr} {ws : List Bytes} {st st' : Style} (h2 : 2 ≤ ws.length) (hw : Words ws)
    (hne : st ≠ st') (_hst : st ∈ V12) (hst' : st' ∈ V12) : toStyle A ws st ≠ toStyle A ws st' :=
  fun h => hne (toStyle_inj A h2 hw hst' h)

/-- also against the two flat styles -/
theorem render_injective_V12_any {A : Acr} {ws : List Bytes} {st st' : Style} (h2 : 2 ≤ ws.length) (hw : Words ws)
    (hne : st' ≠ st) (hst : st ∈ V12) : toStyle A ws st' ≠ toStyle A ws st :=
  fun h => hne (toStyle_inj A h2 hw hst h)

example : toStyle A [b!"foo", b!"bar"] .title ≠ toStyle A [b!"foo", b!"bar"] .sentence :=
  render_injective_on_V12 (by decide) (by decide) (by decide) (by decide) (by decide)

/-- one word is not enough: snake and kebab of one word coincide -/
theorem render_injective_needs_two_words : toStyle A [b!"foo"] .snake = toStyle A [b!"foo"] .kebab := by decide

-- 9. the variant table --------------------------------------------------------------------------------------------------------------

/-- the property at full strength: every enabled boundary-visible style row maps search to replacement in that style -/
def variant_table_full : Prop :=
  ∀ (ws_s ws_r : List Bytes) (sst rst st : Style) (styles : Option (List Style)) (isAmb : Bool),
    2 ≤ ws_s.length → Words ws_s → Words ws_r → Neutral A ws_s → Neutral A ws_r → UpperSafe A ws_s → UpperSafe A ws_r →
    sst ∈ V12 → rst ∈ V12 → st ∈ styles.getD Gen.variantMapDefaultStyles → st ∈ V12 →
    (variantMap A styles false (fun _ => none) (fun _ => none) isAmb (toStyle A ws_s sst) (toStyle A ws_r rst)).lookup
      (toStyle A ws_s st) = some (toStyle A ws_r st)

/-- search typed in style `sst` (words `ws_s`), replacement typed in style `rst` (words `ws_r`): the row for every
    enabled boundary-visible style `st` maps the search term in `st` to the replacement in `st`, unless the final
    exact-entry `insert(search, replace)` overrides it (`styles = none`, search not ambiguous, `st = sst ≠ rst`).
    Hypotheses: `UpperSafe` (words longer than two letters and not acronyms) only for a term typed in an upper-case
    style; the singular/plural rows must not produce the looked-up key (`hcol`). -/
theorem variant_table_partial {A : Acr} (hA : AcrOk A) (hS : AcrStable A) {ws_s ws_r : List Bytes}
    {sst rst st : Style} {styles : Option (List Style)} {plurals : Bool} {sing plur : Bytes → Option Bytes}
    {isAmb : Bool}
    (h2 : 2 ≤ ws_s.length) (hws : Words ws_s) (hwr : Words ws_r) (hNs : Neutral A ws_s) (hNr : Neutral A ws_r)
    (hsst : sst ∈ V12) (hrst : rst ∈ V12)
    (hUs : sst ∈ upperStyles → UpperSafe A ws_s) (hUr : rst ∈ upperStyles → UpperSafe A ws_r)
    (hst : st ∈ styles.getD Gen.variantMapDefaultStyles) (hst12 : st ∈ V12)
    (hcol : ∀ st' ∈ styles.getD Gen.variantMapDefaultStyles,
      ∀ m ∈ (variantModels plurals sing plur (parse A (toStyle A ws_s sst)) (parse A (toStyle A ws_r rst))).tail,
        toStyle A m.1 st' ≠ toStyle A ws_s st)
    (hov : ¬ (styles = none ∧ isAmb = false ∧ st = sst ∧ sst ≠ rst)) :
    (variantMap A styles plurals sing plur isAmb (toStyle A ws_s sst) (toStyle A ws_r rst)).lookup
      (toStyle A ws_s st) = some (toStyle A ws_r st) :=
  variant_lookup hA hS h2 hws hwr hNs hNr hsst hrst hUs hUr hst hst12 hcol hov

/-- with plural variants disabled the no-collision hypothesis is vacuous -/
theorem variant_table {A : Acr} (hA : AcrOk A) (hS : AcrStable A) {ws_s ws_r : List Bytes}
    {sst rst st : Style} {styles : Option (List Style)} {sing plur : Bytes → Option Bytes} {isAmb : Bool}
    (h2 : 2 ≤ ws_s.length) (hws : Words ws_s) (hwr : Words ws_r) (hNs : Neutral A ws_s) (hNr : Neutral A ws_r)
    (hsst : sst ∈ V12) (hrst : rst ∈ V12)
    (hUs : sst ∈ upperStyles → UpperSafe A ws_s) (hUr : rst ∈ upperStyles → UpperSafe A ws_r)
    (hst : st ∈ styles.getD Gen.variantMapDefaultStyles) (hst12 : st ∈ V12)
    (hov : ¬ (styles = none ∧ isAmb = false ∧ st = sst ∧ sst ≠ rst)) :
    (variantMap A styles false sing plur isAmb (toStyle A ws_s sst) (toStyle A ws_r rst)).lookup
      (toStyle A ws_s st) = some (toStyle A ws_r st) :=
  variant_lookup hA hS h2 hws hwr hNs hNr hsst hrst hUs hUr hst hst12
    (fun _ _ m hm => absurd hm (by simp [variantModels])) hov

example : ∀ st ∈ Gen.variantMapDefaultStyles, st ≠ .snake →
    (variantMap A none false (fun _ => none) (fun _ => none) false (toStyle A [b!"foo", b!"bar"] .snake)
      (toStyle A [b!"baz", b!"qux"] .pascal)).lookup (toStyle A [b!"foo", b!"bar"] st) =
      some (toStyle A [b!"baz", b!"qux"] st) :=
  fun st hst hne => variant_table acrOk_default acrStable_default (by decide) (by decide) (by decide)
    (by decide +kernel) (by decide +kernel) (by decide) (by decide) (fun h => absurd h (by decide))
    (fun h => absurd h (by decide)) hst
    (by revert hst; cases st <;> decide) (fun h => hne h.2.2.1)

/-- the listed finding `exact_entry_override`: `barBaz` → `BarFoo` with the default styles; the Camel row is the
    exact pair as typed, not `barBaz ↦ barFoo` -/
theorem variant_table_exact_override_witness :
    (variantMap A none false (fun _ => none) (fun _ => none) false b!"barBaz" b!"BarFoo").lookup b!"barBaz"
      = some b!"BarFoo" ∧
    toStyle A [b!"bar", b!"baz"] .camel = b!"barBaz" ∧ toStyle A [b!"bar", b!"foo"] .pascal = b!"BarFoo" ∧
    toStyle A [b!"bar", b!"foo"] .camel = b!"barFoo" := by decide +kernel

theorem variant_table_full_false : ¬ variant_table_full := by
  intro h
  have := h [b!"bar", b!"baz"] [b!"bar", b!"foo"] .camel .pascal .camel none false (by decide) (by decide) (by decide)
    (by decide +kernel) (by decide +kernel) (by decide +kernel) (by decide +kernel) (by decide) (by decide)
    (by decide) (by decide)
  revert this
  decide +kernel

/-- the collision case of the singular/plural rows, in general: the first row with the key wins -/
theorem variant_table_collision {k : Bytes} (pre : List (Bytes × Bytes)) (e : Bytes × Bytes)
    (post : List (Bytes × Bytes)) (hpre : ∀ x ∈ pre, x.1 ≠ k) (he : e.1 = k) :
    (buildMap (pre ++ e :: post)).lookup k = some e.2 := variant_lookup_collision pre e post hpre he

/-- … and on a concrete (artificial) singularizer that turns the last token into `_bar`: with styles
    `[camel, snake]` the Camel rendering `foo` ++ `_bar` of the singular row takes the Snake key `foo_bar` -/
theorem variant_table_collision_witness :
    (variantMap A (some [.camel, .snake]) true (fun _ => some b!"_bar") (fun _ => none) false b!"foo_bar"
      b!"baz_qux").lookup b!"foo_bar" = some b!"baz_bar" := by decide +kernel

/-- `UpperSafe` is needed for a term typed in an upper-case style: two-letter words stay upper-case in the hump
    styles, acronym words are kept verbatim -/
theorem upper_safe_needed :
    toStyle A (parse A (toStyle A [b!"ab", b!"cd"] .screamingSnake)) .pascal = b!"ABCD" ∧
    toStyle A [b!"ab", b!"cd"] .pascal = b!"AbCd" ∧
    toStyle A (parse A (toStyle A [b!"foo", b!"api"] .screamingSnake)) .pascal = b!"FooAPI" ∧
    toStyle A [b!"foo", b!"api"] .pascal = b!"FooApi" := by decide +kernel

end C18
