import RModel.Base.Lit
import RModel.Model.CaseModel
import RModel.Gen.Acronyms
import RModel.Gen.Styles
/-
  C18 — Case conversion is a consistent algebra.   (property theorems only; lemmas in Lemmas/CaseModel*.lean)
-/
namespace C18
open B CaseModel

def A : Acr := acrOf Gen.defaultAcronyms

/-- kernel-evaluated boundary facts that fix the guard from outside -/
theorem one_letter_word_breaks_camel :
    parse A (toStyle A [b!"foo", b!"a", b!"bar"] .camel) = [b!"foo", b!"ABar"] := by decide +kernel

theorem acronym_word_changes_tokens :
    parse A (toStyle A [b!"foo", b!"api", b!"bar"] .pascal) = [b!"Foo", b!"Api", b!"Bar"] ∧
    parse A b!"fooAPIBar" = [b!"foo", b!"API", b!"Bar"] := by decide +kernel

theorem digits_glue_to_previous_word :
    parse A b!"foo2bar" = [b!"foo2bar"] ∧ parse A b!"foo_2_bar" = [b!"foo", b!"2", b!"bar"] := by decide +kernel

end C18
