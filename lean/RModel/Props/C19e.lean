import RModel.Props.C19a
/- C19, part e (kernel evaluation of one slice of the table; statements restated in Props/C19.lean) -/
namespace C19.Part
open Output C19

theorem quiet_ignored_under_json :
    (jsonRows.all fun r => outcome r == outcome { r with quiet := !r.quiet }) = true := by decide +kernel

end C19.Part
