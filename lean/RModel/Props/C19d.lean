import RModel.Props.C19a
/- C19, part d (kernel evaluation of one slice of the table; statements restated in Props/C19.lean) -/
namespace C19.Part
open Output C19

theorem C19_witness_replace_json_quiet_no_document :
    (jsonRows.all fun r => check r fun o => !(replaceJsonQuiet r && !o.failed) || (o.stdout == [] && o.exitZero)) = true
    ∧ (jsonRows.any fun r => replaceJsonQuiet r && check r (fun o => !o.failed)) = true := by decide +kernel

theorem preview_ignored_under_json :
    (jsonRows.all fun r => outcome r == outcome { r with preview := !r.preview }) = true := by decide +kernel

end C19.Part
