import RModel.Props.C19a
/- C19, part d (kernel evaluation of one slice of the table; statements restated in Props/C19.lean) -/
namespace C19.Part
open Output C19

theorem preview_ignored_under_json :
    (jsonRows.all fun r => outcome r == outcome { r with preview := !r.preview }) = true := by decide +kernel

theorem table_is_total :
    (rows.all fun r => (outcome r).isSome) = true
    ∧ (Cmd.all.all fun c => match emittedDoc c with | some p => (docShape p).isSome | none => false) = true := by
  decide +kernel

end C19.Part
