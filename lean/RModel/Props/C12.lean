import RModel.Model.Lock
import RModel.Lemmas.Lock
import RModel.Lemmas.LockGuard
import RModel.Gen.LockUsers
/-
  C12 — the workspace lock gives mutual exclusion.                       (property theorems only)

  Model: `RModel/Model/Lock.lean` — N processes, one lock path with inode identity, a seconds clock,
  pid liveness; one transition = one system call (plus the clock/`kill(pid,0)` decision) of one process.
  A schedule is a list of events (`proc p` = the next call of process p, `tick d` = d seconds pass);
  the theorems quantify over ALL schedules by induction (an inductive invariant, `Lock.Inv`), for any N.

  What holds (theorems):   starting with no lock file, or with a scheduled live holder, while nobody is
  older than 300 s, and either terminated processes linger or there are at most two processes:
  at most one process owns the lock at any time, its file is never unlinked by anybody else, a process
  whose acquire failed never enters, and when nobody owns the lock the file is gone.
  What does not hold (kernel-evaluated witnesses with explicit schedules): everything else the property
  asks for — see `C12_full` (a `def`, refuted by `C12_full_false`).  The witnesses are stated for explicit
  variants of the acquire/drop code (flags of `Lock.State`); which variant /repo has is regenerated into
  `Gen.LockUsers` and pinned by the theorems of the last section (`mutex_absent_source`, `all_mutators_lock`,
  `drop_is_content_checked`, …).  The defects that were repaired in /repo are kept as theorems about the old
  variants here (model) and in `Props/C12Findings.lean` (old lock-user table).
-/
namespace C12
open Lock

/-! ## statements -/

def AtMostOneHolder (s : State) : Prop := ∀ p q, s.pc p = .holding → s.pc q = .holding → p = q
def AtMostOneOwner (s : State) : Prop := ∀ p q, (s.pc p).owns = true → (s.pc q).owns = true → p = q
/-- every owner's file is the one linked at the lock path (nobody removed or replaced it) -/
def OwnersLinked (s : State) : Prop := ∀ p, (s.pc p).owns = true → s.cell = some (inoOf p)
def Quiescent (s : State) : Prop := ∀ p, (s.pc p).owns = false
def Safe (s : State) : Prop :=
  AtMostOneHolder s ∧ AtMostOneOwner s ∧ OwnersLinked s ∧ s.stolen = false ∧ (Quiescent s → s.cell = none)

/-- the five initial lock states of the property's quantifier -/
inductive Init
  | absent
  | stale (pid age : Nat)        -- "pid:now-age" with age > 300 (pid dead or alive)
  | orphaned (age : Nat)         -- dead pid, age ≤ 300
  | malformed (c : Content)      -- empty, text without exactly one ':', or not UTF-8
  | held (age : Nat)             -- process 0 is inside its command since `now - age`

def Init.wf : Init → Prop
  | .absent => True
  | .stale _ age => age > staleTimeout
  | .orphaned age => age ≤ staleTimeout
  | .malformed c => c = .empty ∨ c = .garbage ∨ c = .invalid
  | .held _ => True

def Init.state0 (n now : Nat) (debug exits : Bool) : Init → State
  | .absent => initAbsent n now debug exits
  | .stale pid age => initFile n now debug exits (.pidts pid (now - age))
  | .orphaned age => initFile n now debug exits (.pidts orphanPid (now - age))
  | .malformed c => initFile n now debug exits c
  | .held age => initHeld n now debug exits (now - age)

/-- the source variant: which unparsable lock files are removed (`ab`), lock file published complete (`ap`) -/
def variant (ab : Abandon) (ap : Bool) (s : State) : State := { s with abandon := ab, atomicPublish := ap }

def Init.state (n now : Nat) (debug exits : Bool) (ab : Abandon) (ap : Bool) (i : Init) : State :=
  variant ab ap (i.state0 n now debug exits)

/-- C12 at full strength: from each of the five initial states, for any number of processes, either
    build, processes leaving when they are done, and EVERY schedule: mutual exclusion, no foreign
    unlink, lock gone when nobody owns it, nobody crashes.  FALSE on the current code. -/
def C12_full : Prop :=
  ∀ (i : Init), i.wf → ∀ (n now : Nat), 1000 ≤ now → ∀ (debug : Bool) (ab : Abandon) (ap : Bool) (es : List Ev),
    Safe (run (i.state n now debug true ab ap) es) ∧ ∀ p, (run (i.state n now debug true ab ap) es).pc p ≠ .panicked

/-- … and the liveness half shared with C11: a leftover lock file never blocks the next command. -/
def C12_never_blocked : Prop :=
  ∀ (i : Init), i.wf → (∀ age, i ≠ .held age) → ∀ (now : Nat), 1000 ≤ now → ∀ debug ap,
    ∃ es, (run (i.state 1 now debug true .none ap) es).pc 0 = .holding

/-! ## what is proved for all schedules -/

theorem safe_of_inv {T t0 : Nat} {s : State} (h : Inv T t0 s) : Safe s := by
  refine ⟨?_, h.owners_unique, h.owner_linked, h.notStolen, h.released⟩
  intro p q hp hq
  exact h.owners_unique p q (by rw [hp]; rfl) (by rw [hq]; rfl)

theorem inv_initAbsent (n now : Nat) (debug exits : Bool) (ab : Abandon) (ap : Bool)
    (hpub : ab ≠ .none → ap = true) (hm : exits = false ∨ n ≤ 2) :
    Inv (now + staleTimeout) now (variant ab ap (initAbsent n now debug exits)) := by
  constructor
  · exact hm
  · exact Nat.le_refl _
  · exact Nat.le_refl _
  · intro p _; rfl
  · intro p hp; left; have hp' : p < n := hp; simp [variant, initAbsent, base, pidOf]; omega
  · intro q b h; cases h
  · intro p c h; cases h
  · intro i hi
    rcases hi with hc | ⟨q, hq⟩
    · cases hc
    · cases hq
  · intro p ts h; rcases h with h | h | h <;> cases h
  · intro i h; cases h
  · intro _ q; rfl
  · rfl
  · exact hpub
  · rfl

theorem inv_initHeld (n now ts : Nat) (debug exits : Bool) (ab : Abandon) (ap : Bool)
    (hpub : ab ≠ .none → ap = true) (hm : exits = false ∨ n ≤ 2)
    (hn : 0 < n) (hts : ts ≤ now) :
    Inv (ts + staleTimeout) ts (variant ab ap (initHeld n now debug exits ts)) := by
  have hpc : ∀ q, (variant ab ap (initHeld n now debug exits ts)).pc q = if q = 0 then .holding else .start :=
    fun q => rfl
  constructor
  · exact hm
  · exact Nat.le_refl _
  · exact hts
  · intro p hp
    have hp' : n ≤ p := hp
    rw [hpc, if_neg (by omega)]
  · intro p hp; left; have hp' : p < n := hp; simp [variant, initHeld, base, pidOf]; omega
  · intro q b h; rw [hpc] at h; split at h <;> cases h
  · intro p c h; rw [hpc] at h; split at h <;> cases h
  · intro i hi
    have hi0 : i = inoOf 0 := by
      rcases hi with hc | ⟨q, hq⟩
      · have hc' : some (inoOf 0) = some i := hc
        cases hc'; rfl
      · rw [hpc] at hq; split at hq <;> cases hq
    subst hi0
    show Harmless _ ts (upd (fun _ => Content.empty) (inoOf 0) (.pidts (pidOf 0) ts) (inoOf 0))
    rw [upd_same]; exact Or.inr ⟨0, ts, rfl, hn, Nat.le_refl _, hts⟩
  · intro p t h; rw [hpc] at h; split at h <;> (rcases h with h | h | h <;> cases h)
  · intro i hi
    have hi' : some (inoOf 0) = some i := hi
    cases hi'
    refine ⟨0, rfl, rfl, ?_⟩
    intro q hq
    rw [hpc] at hq
    by_cases hq0 : q = 0
    · exact hq0
    · rw [if_neg hq0] at hq; cases hq
  · intro h; cases h
  · rfl
  · exact hpub
  · rfl

/-- **Mutual exclusion from "no lock file"**, any number `n` of processes, every schedule `es`
    (induction over the schedule, not enumeration).  Hypotheses (each one has a witness below showing it
    is needed): the acquire that does NOT remove empty lock files (`emptyRemoves = false`, which is how
    `initAbsent` is built: the source before repo commit 9509d2d; with that branch the theorem is false even
    for two processes, `C12_witness_empty_window_race`), terminated processes linger (`exits = false`), and
    the clock stays within 300 s of the start (`hclk`).  Conclusion `Safe`: ≤ 1 holder, ≤ 1 owner, every owner's file is still linked at the
    lock path, no foreign unlink ever happened, and the file is gone whenever nobody owns the lock. -/
theorem mutex_absent (n now : Nat) (debug : Bool) (es : List Ev)
    (hclk : (run (initAbsent n now debug false) es).now ≤ now + staleTimeout) :
    Safe (run (initAbsent n now debug false) es) :=
  safe_of_inv (Inv.run es (inv_initAbsent n now debug false .none false (fun h => absurd rfl h) (Or.inl rfl)) hclk)

/-- The same for two processes **with** processes leaving as soon as they are done: the exit race
    needs three. -/
theorem mutex_absent_two_exits (n now : Nat) (hn : n ≤ 2) (debug : Bool) (es : List Ev)
    (hclk : (run (initAbsent n now debug true) es).now ≤ now + staleTimeout) :
    Safe (run (initAbsent n now debug true) es) :=
  safe_of_inv (Inv.run es (inv_initAbsent n now debug true .none false (fun h => absurd rfl h) (Or.inr hn)) hclk)

/-- **Mutual exclusion against a live holder**: process 0 is inside its command since `ts ≤ now`, the
    other `n-1` processes start; clock hypothesis: no `now` that occurs exceeds `ts + 300`. -/
theorem mutex_live_holder (n now ts : Nat) (hn : 0 < n) (hts : ts ≤ now) (debug : Bool) (es : List Ev)
    (hclk : (run (initHeld n now debug false ts) es).now ≤ ts + staleTimeout) :
    Safe (run (initHeld n now debug false ts) es) :=
  safe_of_inv (Inv.run es (inv_initHeld n now ts debug false .none false (fun h => absurd rfl h) (Or.inl rfl) hn hts) hclk)

theorem mutex_live_holder_two_exits (n now ts : Nat) (hn : 0 < n) (hn2 : n ≤ 2) (hts : ts ≤ now)
    (debug : Bool) (es : List Ev)
    (hclk : (run (initHeld n now debug true ts) es).now ≤ ts + staleTimeout) :
    Safe (run (initHeld n now debug true ts) es) :=
  safe_of_inv (Inv.run es (inv_initHeld n now ts debug true .none false (fun h => absurd rfl h) (Or.inr hn2) hn hts) hclk)

/-- **The proposed repair is safe** (seeded/_fixes/c12_publish_lock_by_link.diff): when the lock file is
    published complete (`atomicPublish`: temporary file + `hard_link`), `acquire` may treat ANY unparsable
    lock file — empty or not — as abandoned and remove it (`ab` arbitrary), and mutual exclusion from "no
    lock file" still holds for every number of processes and every schedule.  Without `atomicPublish` the
    same policy is unsafe for two processes (`C12_witness_empty_window_race`). -/
theorem mutex_absent_published (n now : Nat) (debug : Bool) (ab : Abandon) (es : List Ev)
    (hclk : (run (variant ab true (initAbsent n now debug false)) es).now ≤ now + staleTimeout) :
    Safe (run (variant ab true (initAbsent n now debug false)) es) :=
  safe_of_inv (Inv.run es (inv_initAbsent n now debug false ab true (fun _ => rfl) (Or.inl rfl)) hclk)

theorem mutex_absent_published_two_exits (n now : Nat) (hn : n ≤ 2) (debug : Bool) (ab : Abandon) (es : List Ev)
    (hclk : (run (variant ab true (initAbsent n now debug true)) es).now ≤ now + staleTimeout) :
    Safe (run (variant ab true (initAbsent n now debug true)) es) :=
  safe_of_inv (Inv.run es (inv_initAbsent n now debug true ab true (fun _ => rfl) (Or.inr hn)) hclk)

theorem mutex_live_holder_published (n now ts : Nat) (hn : 0 < n) (hts : ts ≤ now) (debug : Bool) (ab : Abandon)
    (es : List Ev)
    (hclk : (run (variant ab true (initHeld n now debug false ts)) es).now ≤ ts + staleTimeout) :
    Safe (run (variant ab true (initHeld n now debug false ts)) es) :=
  safe_of_inv (Inv.run es (inv_initHeld n now ts debug false ab true (fun _ => rfl) (Or.inl rfl) hn hts) hclk)

/-- with the repair a leftover empty or garbage lock file no longer blocks: one process alone cleans it up
    and acquires (7 calls: exists, open, read, decision, unlink, mkdir, link) … -/
example : (runP (withPublishFix (initFile 1 1000 true true .empty)) [0, 0, 0, 0, 0, 0, 0]).pc 0 = .holding ∧
          (runP (withPublishFix (initFile 1 1000 true true .garbage)) [0, 0, 0, 0, 0, 0, 0]).pc 0 = .holding := by decide

/-- … while several cleaners still race like in the orphaned case (same class as `C12_witness_orphan_race`:
    the check-then-unlink of a leftover file is not atomic; not repaired by that diff) -/
theorem C12_witness_published_cleaner_race :
    let s := runP (withPublishFix (initFile 2 1000 true true .garbage)) [0, 0, 0, 0, 1, 1, 1, 1, 0, 0, 0, 1, 1, 1]
    s.pc 0 = .holding ∧ s.pc 1 = .holding ∧ s.stolen = true := by decide

/-- plain schedules (no clock events) satisfy the clock hypothesis trivially -/
theorem mutex_absent_plain (n now : Nat) (debug : Bool) (sched : List Nat) :
    Safe (runP (initAbsent n now debug false) sched) := by
  have key : ∀ (l : List Nat) (s : State), (run s (l.map .proc)).now = s.now := by
    intro l
    induction l with
    | nil => intro s; rfl
    | cons p l ih =>
      intro s
      show (run (stepEv s (.proc p)) (l.map .proc)).now = s.now
      rw [ih]
      exact stepEv_proc_now s p
  exact mutex_absent n now debug (sched.map .proc) (by rw [key]; exact Nat.le_add_right _ _)

/-- Non-vacuity: two processes race from "absent"; one enters, the other is refused with EEXIST,
    and after the winner's drop the file is gone. -/
example : let s := runP (initAbsent 2 1000 true false) [0, 1, 0, 1, 0, 1, 0]
    s.pc 0 = .holding ∧ s.pc 1 = .failed .createExists ∧ cellContent s = some (.pidts (pidOf 0) 1000) := by decide
example : let s := runP (initAbsent 2 1000 true false) [0, 1, 0, 1, 0, 1, 0, 0, 0, 0]
    s.pc 0 = .done ∧ s.cell = none := by decide
/-- … and a newcomer that reads a live holder's file gives up with "already running". -/
example : (runP (initHeld 2 1000 true false 990) [1, 1, 1, 1]).pc 1 = .failed (.alreadyRunning (pidOf 0)) := by decide

/-- **Losers do not enter**: once acquire has failed (or panicked) the process stays there under every
    schedule — it never reaches the critical section (the only place where the tree is touched). -/
theorem losers_do_not_enter (s : State) (p : Nat) (e : Err) (h : s.pc p = .failed e) (es : List Ev) :
    (run s es).pc p = .failed e := by
  induction es generalizing s with
  | nil => exact h
  | cons ev es ih => exact ih _ (stepEv_failed s p e h ev)

/-- the four ways acquire fails are exactly the four error returns of `acquire`; none of them has
    created a file: a process is `failed` only before its `create_new` succeeded -/
theorem failed_never_owned (e : Err) : (Pc.failed e).owns = false := rfl

/-- **Lock released**: a holder that runs its work step and `Drop` (three calls) leaves no lock file,
    whatever state it starts from (today's unconditional Drop), or whenever the file is its own (a Drop that
    checks the content, seeded/_fixes/c12_drop_only_own_lock.diff) … -/
theorem lock_released (s : State) (p : Nat) (hp : p < s.n) (hpc : s.pc p = .holding) (hg : s.guarded = false)
    (hd : s.dropChecks = false ∨ s.cell = some (inoOf p)) :
    (runP s [p, p, p]).cell = none ∧ (runP s [p, p, p]).pc p = .done :=
  drop_releases s p hp hpc hg hd

/-- Ctrl-C while the confirmation prompt waits (`release_held_locks` + `process::exit`): the lock file is
    gone although no destructor runs; and since `promptInt` is a schedule event, the mutex theorems above
    cover it under every interleaving … -/
theorem prompt_interrupt_releases (s : State) (p : Nat) (hp : p < s.n) (hpc : s.pc p = .holding)
    (hg : s.guarded = true → s.guard = none)
    (hd : s.dropChecks = false ∨ s.cell = some (inoOf p)) :
    (promptExit s p).cell = none ∧ (promptExit s p).pc p = .done := by
  unfold promptExit
  rw [if_pos ⟨hp, hpc, hg⟩]
  cases hc : s.cell with
  | none => exact ⟨rfl, upd_same _ _ _⟩
  | some i =>
    have hno : ¬ (s.dropChecks = true ∧ i ≠ inoOf p) := by
      rcases hd with hd | hd
      · rw [hd]; simp
      · rw [hc] at hd; cases hd; simp
    simp [hno, upd_same]

/-- … e.g. holder interrupted at the prompt while a newcomer is half-way through acquire -/
example : let s := run (initHeld 2 1000 true true 990) [.proc 1, .proc 1, .promptInt 0, .proc 0, .proc 1, .proc 1]
    s.cell = none ∧ s.pc 0 = .done ∧ s.alive (pidOf 0) = false ∧ s.stolen = false := by decide

/-- … and under the conditions of the mutex theorems the file is gone in EVERY reachable state in which
    nobody owns the lock (all finished or failed), for every schedule. -/
theorem lock_released_all_schedules (n now : Nat) (debug : Bool) (es : List Ev)
    (hclk : (run (initAbsent n now debug false) es).now ≤ now + staleTimeout)
    (hq : Quiescent (run (initAbsent n now debug false) es)) :
    (run (initAbsent n now debug false) es).cell = none :=
  (mutex_absent n now debug es hclk).2.2.2.2 hq

/-! ## what is false: explicit schedules, checked by kernel evaluation

  Replay on real processes: every number in a schedule is "let this process perform its next
  intercepted call" (`checks/c12.py::real_schedules` drives `renamify test-lock` processes through the
  LD_PRELOAD scheduler; the decision step of the model has no call of its own: it happens when the
  `read` is granted, except `kill(pid,0)` which is a scheduling point of its own). -/

def orphanState (n : Nat) : State := initFile n 1000 true true (.pidts orphanPid 990)
def staleState (n : Nat) : State := initFile n 1000 true true (.pidts orphanPid 699)

/-- both processes read the orphaned lock, both decide to remove it; P0 removes it, creates and writes
    its own; then P1's pending `remove_file` deletes P0's fresh lock and P1 acquires as well. -/
def raceSchedule : List Nat := [0, 0, 0, 0, 1, 1, 1, 1, 0, 0, 0, 0, 1, 1, 1, 1]

theorem C12_witness_orphan_race :
    let s := runP (orphanState 2) raceSchedule
    s.pc 0 = .holding ∧ s.pc 1 = .holding ∧ s.stolen = true ∧ s.cell = some (inoOf 1) ∧
    cellContent s = some (.pidts (pidOf 1) 1000) := by decide

/-- the same schedule with a stale (301 s old) lock -/
theorem C12_witness_stale_race :
    let s := runP (staleState 2) raceSchedule
    s.pc 0 = .holding ∧ s.pc 1 = .holding ∧ s.stolen = true ∧ s.cell = some (inoOf 1) := by decide

/-- sequentially both clean-ups are fine: alone, a process removes the old lock and acquires -/
example : (runP (orphanState 1) [0, 0, 0, 0, 0, 0, 0, 0]).pc 0 = .holding ∧
          (runP (staleState 1) [0, 0, 0, 0, 0, 0, 0, 0]).pc 0 = .holding := by decide

/-- An empty lock file (a crash between `create_new` and `write_all`, shared with C11), any text
    without exactly one ':' or bytes that are not UTF-8 are never removed: every acquire ends in EEXIST
    (or in "Failed to read lock file content") … -/
theorem C12_witness_malformed_blocks :
    (runP (withEmptyBranch (initFile 2 1000 true true .garbage)) [0, 0, 0, 0, 0, 0, 1, 1, 1, 1, 1, 1]).pc 0 = .failed .createExists ∧
    (runP (withEmptyBranch (initFile 2 1000 true true .garbage)) [0, 0, 0, 0, 0, 0, 1, 1, 1, 1, 1, 1]).pc 1 = .failed .createExists ∧
    (runP (initFile 2 1000 true true .empty) [0, 0, 0, 0, 0, 0]).pc 0 = .failed .createExists ∧
    (runP (initFile 2 1000 true true .garbage) [0, 0, 0, 0, 0, 0]).cell = some 0 ∧
    (runP (initFile 2 1000 true true .invalid) [0, 0, 0]).pc 0 = .failed .readInvalid := by decide

/-- … for ever: no number of processes, no schedule, no amount of waiting lets anybody in. -/
theorem malformed_blocks_forever (n now : Nat) (debug exits : Bool) (ab : Abandon) (ap : Bool) (c : Content)
    (hc : (c = .garbage ∧ ab ≠ .unparsable) ∨ c = .invalid ∨ (c = .empty ∧ ab = .none)) (es : List Ev) (p : Nat) :
    (run (variant ab ap (initFile n now debug exits c)) es).pc p ≠ .holding ∧
    cellContent (run (variant ab ap (initFile n now debug exits c)) es) = some c := by
  have h0 : Stuck c (variant ab ap (initFile n now debug exits c)) := by
    refine ⟨?_, ⟨?_, ?_⟩, fun _ => rfl, rfl, rfl, rfl, fun _ => rfl⟩
    · rcases hc with h | h | h
      · exact Or.inr (Or.inl h.1)
      · exact Or.inr (Or.inr h)
      · exact Or.inl h.1
    · intro he
      rcases hc with h | h | h
      · rw [he] at h; cases h.1
      · rw [he] at h; cases h
      · exact h.2
    · intro hg
      rcases hc with h | h | h
      · exact h.2
      · rw [hg] at h; cases h
      · rw [hg] at h; cases h.1
  have h := Stuck.run es h0
  constructor
  · intro hp
    have := h.pcs p
    rw [hp] at this; cases this
  · show Option.map _ _ = _
    rw [h.cell]; show some (_ : Content) = _; rw [h.file]

/-- **Why repo commit 9509d2d was taken back** (an empty lock file is removed as abandoned, `Abandon.empty`).  `acquire` still
    creates the file empty and writes it afterwards, so a LIVE acquirer's file is empty for a moment; a
    second process that reads it in that window removes it.  No leftover lock, two processes, nobody
    slow: P0 exists/mkdir/create — P1 exists/open/read(empty)/decide/unlink/mkdir/create — P0 write (into
    its unlinked inode) — P1 write: both hold.  (Hence `emptyRemoves = false` in `mutex_absent`.) -/
def emptyWindowSchedule : List Nat := [0, 0, 0, 1, 1, 1, 1, 1, 1, 1, 0, 1]

theorem C12_witness_empty_window_race :
    let s := runP (withEmptyBranch (initAbsent 2 1000 true true)) emptyWindowSchedule
    s.pc 0 = .holding ∧ s.pc 1 = .holding ∧ s.stolen = true ∧ s.cell = some (inoOf 1) := by decide

/-- the same schedule without the branch: P1 is refused with EEXIST -/
example : (runP (initAbsent 2 1000 true true) [0, 0, 0, 1, 1, 1, 1, 1, 1]).pc 1 = .failed .createExists := by decide

/-- with the branch, a leftover empty file is cleaned up (what the commit wanted) … -/
example : (runP (withEmptyBranch (initFile 1 1000 true true .empty)) [0, 0, 0, 0, 0, 0, 0, 0]).pc 0 = .holding := by decide

/-- … but two cleaners race exactly like in the orphaned case -/
theorem C12_witness_empty_cleaner_race :
    let s := runP (withEmptyBranch (initFile 2 1000 true true .empty)) raceSchedule
    s.pc 0 = .holding ∧ s.pc 1 = .holding ∧ s.stolen = true := by decide

/-- A live holder that has been working for more than 300 s (here 301) is evicted by a newcomer:
    P1 reads P0's lock, finds it stale, removes it and acquires — two holders. -/
theorem C12_witness_stale_live_evicted :
    let s := runP (initHeld 2 1000 true true 699) [1, 1, 1, 1, 1, 1, 1, 1]
    s.pc 0 = .holding ∧ s.pc 1 = .holding ∧ s.stolen = true ∧ s.alive (pidOf 0) = true := by decide

/-- … and when the evicted P0 finishes, its `Drop` removes P1's lock without looking at the content
    (`release()` would have checked it, but no command calls it); P1 keeps working without a lock
    file and a third process P2 walks in. -/
theorem C12_witness_drop_removes_foreign :
    let s := runP (initHeld 3 1000 true true 699) [1, 1, 1, 1, 1, 1, 1, 1, 0, 0, 0]
    s.pc 0 = .done ∧ s.pc 1 = .holding ∧ s.cell = none ∧
    (runP s [2, 2, 2, 2]).pc 2 = .holding ∧ (runP s [2, 2, 2, 2]).pc 1 = .holding := by decide

/-- the prompt-exit path is as blind as `Drop`: an evicted holder interrupted at its prompt unlinks the
    new holder's lock -/
theorem C12_witness_prompt_exit_removes_foreign :
    let s := run (initHeld 2 1000 true true 699) ((List.replicate 8 (Ev.proc 1)) ++ [.promptInt 0])
    s.pc 0 = .done ∧ s.pc 1 = .holding ∧ s.cell = none ∧ s.stolen = true := by decide

/-- with a Drop that removes the file only if it is still its own (c12_drop_only_own_lock.diff) the evicted
    holder's exit leaves the new holder's lock alone -/
example :
    let s := runP (withDropChecks (initHeld 3 1000 true true 699)) [1, 1, 1, 1, 1, 1, 1, 1, 0, 0, 0]
    s.pc 0 = .done ∧ s.pc 1 = .holding ∧ s.cell = some (inoOf 1) ∧
    (runP s [2, 2, 2, 2]).pc 2 = .failed (.alreadyRunning (pidOf 1)) := by decide

/-- A lock whose timestamp lies in the future (clock stepped back, or written by hand): the debug
    build panics on `current_time - timestamp` … -/
theorem C12_witness_future_ts_panics :
    (runP (initFile 1 1000 true true (.pidts orphanPid 1100)) [0, 0, 0, 0]).pc 0 = .panicked := by decide

/-- with `saturating_sub` (c12_future_timestamp_saturating.diff) the age is 0 in either build: an orphaned
    lock is cleaned up through the liveness check, a live holder keeps its lock -/
example : (runP (withSaturating (initFile 1 1000 true true (.pidts orphanPid 1100)))
    [0, 0, 0, 0, 0, 0, 0, 0]).pc 0 = .holding := by decide
set_option maxRecDepth 8000 in
example : (runP (withSaturating (initHeld 2 1000 false true 1100)) [1, 1, 1, 1]).pc 1
    = .failed (.alreadyRunning (pidOf 0)) := by decide

/-- … and the release build wraps to a huge age, so even a LIVE holder's lock counts as stale. -/
theorem C12_witness_future_ts_release_evicts :
    let s := runP (initHeld 2 1000 false true 1100) [1, 1, 1, 1, 1, 1, 1, 1]
    s.pc 0 = .holding ∧ s.pc 1 = .holding ∧ s.stolen = true := by decide

/-- Three processes, no leftover lock, nobody slow: P0 holds; P1 reads P0's lock; P0 finishes,
    drops and exits; P2 acquires; only now P1 evaluates `is_process_running(P0)` = false, removes the
    "orphaned" lock — which is P2's — and acquires.  (This is why `mutex_absent` needs
    `exits = false` for n ≥ 3.) -/
def exitRaceSchedule : List Nat := [0, 0, 0, 0, 1, 1, 1, 0, 0, 0, 0, 2, 2, 2, 2, 1, 1, 1, 1, 1]

theorem C12_witness_exit_race :
    let s := runP (initAbsent 3 1000 true true) exitRaceSchedule
    s.pc 0 = .done ∧ s.alive (pidOf 0) = false ∧ s.pc 1 = .holding ∧ s.pc 2 = .holding ∧ s.stolen = true := by
  decide

/-- with two processes the same prefix only produces a spurious failure, not a second holder -/
example : (runP (initAbsent 2 1000 true true) [0, 0, 0, 0, 1, 1, 1, 0, 0, 0, 0, 1, 1]).pc 1
    = .failed (.removeFailed .orphaned) := by decide

/-- The full-strength statement is false (any of the witnesses refutes it; here the orphan race). -/
theorem C12_full_false : ¬ C12_full := by
  intro h
  have := (h (.orphaned 10) (by show 10 ≤ 300; decide) 2 1000 (by decide) true .none false (raceSchedule.map .proc)).1.1 0 1
  exact absurd (this (by decide) (by decide)) (by decide)

/-- … and so is "a leftover lock file never blocks" (the malformed file does, for ever). -/
theorem C12_never_blocked_false : ¬ C12_never_blocked := by
  intro h
  obtain ⟨es, hes⟩ := h (.malformed .garbage) (Or.inr (Or.inl rfl)) (by intro age h; cases h) 1000 (by decide) true false
  exact (malformed_blocks_forever 1 1000 true true .none false .garbage (Or.inl ⟨rfl, by decide⟩) es 0).1 hes

/-! ## the guarded shape (seeded/_fixes/c12_1_guard_lock_file_sequences.diff + c12_2_live_holder_never_stale.diff)

  `acquire` (read the lock file, judge it, remove it, publish ours) and the release paths (`Drop`,
  `release_held_locks`: check the content, remove) run under an exclusive `flock` on `.renamify`
  (`Lock.gstep`; the flock is a kernel mutex, `State.guard`), and a lock is removed as stale or orphaned only if
  its pid is dead.  For that shape mutual exclusion needs NO hypothesis: not on the lock file that is there at
  the start, not on the clock, not on the number of processes, not on processes leaving. -/

/-- at most one holder, at most one owner, owners' files in place, nothing ever stolen, and when nobody owns
    the lock the path is empty or still holds the file that was there initially -/
def SafeG (s : State) : Prop :=
  AtMostOneHolder s ∧ AtMostOneOwner s ∧ OwnersLinked s ∧ s.stolen = false ∧
  (Quiescent s → s.cell = none ∨ s.cell = some 0)

theorem safeG_of_ginv {s : State} (h : GInv s) : SafeG s := by
  refine ⟨?_, h.owners_unique, fun p hp => (h.owners p hp).1, h.notStolen, ?_⟩
  · intro p q hp hq
    exact h.owners_unique p q (by rw [hp]; rfl) (by rw [hq]; rfl)
  · intro hq
    cases hc : s.cell with
    | none => exact Or.inl rfl
    | some i =>
      by_cases hi : i = 0
      · subst hi; exact Or.inr rfl
      · obtain ⟨o, _, hoo⟩ := h.linked i hc hi
        rw [hq o] at hoo; cases hoo

/-- the three kinds of initial state, with arbitrary values of the other shape flags -/
def guardedShape (ab : Abandon) (ap sat dc lr : Bool) (s : State) : State :=
  { s with abandon := ab, atomicPublish := ap, saturating := sat, dropChecks := dc, staleNeedsDead := true,
           lossyRead := lr, guarded := true }

theorem ginv_initAbsent (n now : Nat) (d e : Bool) (ab : Abandon) (ap sat dc lr : Bool) :
    GInv (guardedShape ab ap sat dc lr (initAbsent n now d e)) := by
  constructor
  · rfl
  · rfl
  · intro p _; rfl
  · intro p hp _; have hp' : p < n := hp; simp [guardedShape, initAbsent, base, pidOf]; omega
  · intro p h; cases h
  · intro p h; cases h
  · intro p ts h; cases h
  · intro p i h; cases h
  · intro p c h; cases h
  · intro p w h; cases h
  · intro o h; cases h
  · intro i h; cases h
  · rfl

/-- ANY lock file may be there at the start: orphaned, stale, empty, damaged, naming a live foreign process … -/
theorem ginv_initFile (n now : Nat) (d e : Bool) (c : Content) (ab : Abandon) (ap sat dc lr : Bool) :
    GInv (guardedShape ab ap sat dc lr (initFile n now d e c)) := by
  constructor
  · rfl
  · rfl
  · intro p _; rfl
  · intro p hp _; have hp' : p < n := hp; simp [guardedShape, initFile, base, pidOf]; omega
  · intro p h; cases h
  · intro p h; cases h
  · intro p ts h; cases h
  · intro p i h; cases h
  · intro p c h; cases h
  · intro p w h; cases h
  · intro o h; cases h
  · intro i h hi
    have h' : some 0 = some i := h
    cases h'; exact absurd rfl hi
  · rfl

theorem ginv_initHeld (n now ts : Nat) (d e : Bool) (hn : 0 < n) (ab : Abandon) (ap sat dc lr : Bool) :
    GInv (guardedShape ab ap sat dc lr (initHeld n now d e ts)) := by
  have hpc : ∀ q, (guardedShape ab ap sat dc lr (initHeld n now d e ts)).pc q = if q = 0 then .holding else .start :=
    fun q => rfl
  constructor
  · rfl
  · rfl
  · intro p hp
    have hp' : n ≤ p := hp
    rw [hpc, if_neg (by omega)]
  · intro p hp _; have hp' : p < n := hp; simp [guardedShape, initHeld, base, pidOf]; omega
  · intro p h; rw [hpc] at h; split at h <;> cases h
  · intro p h; cases h
  · intro p ts' h; rw [hpc] at h; split at h <;> cases h
  · intro p i h; rw [hpc] at h; split at h <;> cases h
  · intro p c h; rw [hpc] at h; split at h <;> cases h
  · intro p w h; rw [hpc] at h; split at h <;> cases h
  · intro o ho
    rw [hpc] at ho
    by_cases ho0 : o = 0
    · subst ho0
      refine ⟨rfl, ts, ?_⟩
      show upd (fun _ => Content.empty) (inoOf 0) (Content.pidts (pidOf 0) ts) (inoOf 0) = _
      exact upd_same _ _ _
    · rw [if_neg ho0] at ho; cases ho
  · intro i h _
    have h' : some (inoOf 0) = some i := h
    cases h'
    exact ⟨0, rfl, rfl⟩
  · rfl

/-- **Mutual exclusion under the guard, from every initial lock-file state, any number of processes, every
    schedule** (calls, clock ticks of any size, Ctrl-C at prompts, processes leaving). -/
theorem mutex_guarded {s0 : State} (h : GInv s0) (es : List Ev) : SafeG (run s0 es) :=
  safeG_of_ginv (GInv.run es h)

theorem mutex_guarded_absent (n now : Nat) (d e : Bool) (ab : Abandon) (ap sat dc lr : Bool) (es : List Ev) :
    SafeG (run (guardedShape ab ap sat dc lr (initAbsent n now d e)) es) :=
  mutex_guarded (ginv_initAbsent n now d e ab ap sat dc lr) es

theorem mutex_guarded_any_lock_file (n now : Nat) (d e : Bool) (c : Content) (ab : Abandon) (ap sat dc lr : Bool)
    (es : List Ev) : SafeG (run (guardedShape ab ap sat dc lr (initFile n now d e c)) es) :=
  mutex_guarded (ginv_initFile n now d e c ab ap sat dc lr) es

theorem mutex_guarded_live_holder (n now ts : Nat) (d e : Bool) (hn : 0 < n) (ab : Abandon) (ap sat dc lr : Bool)
    (es : List Ev) : SafeG (run (guardedShape ab ap sat dc lr (initHeld n now d e ts)) es) :=
  mutex_guarded (ginv_initHeld n now ts d e hn ab ap sat dc lr) es

/-- `withGuard` (all repairs) is one of these shapes -/
example (s : State) : withGuard s = guardedShape .unparsable true true true true s := rfl

/-- the schedules that break the unguarded shape, replayed on the guarded one (a call on a held guard does not
    return: the blocked process's turns are no-ops): orphan race, stale race, unparsable cleaner race,
    three-process exit race, live holder older than 300 s -/
example : let s := runP (withGuard (orphanState 2)) (raceSchedule ++ [1, 1])
    s.pc 0 = .holding ∧ s.pc 1 = .failed (.alreadyRunning (pidOf 0)) ∧ s.stolen = false := by decide
example : let s := runP (withGuard (staleState 2)) (raceSchedule ++ [1, 1])
    s.pc 0 = .holding ∧ s.pc 1 = .failed (.alreadyRunning (pidOf 0)) ∧ s.stolen = false := by decide
example : let s := runP (withGuard (initFile 2 1000 true true .garbage)) (raceSchedule ++ [1, 1])
    s.pc 0 = .holding ∧ s.pc 1 = .failed (.alreadyRunning (pidOf 0)) ∧ s.stolen = false := by decide
example : let s := runP (withGuard (initAbsent 3 1000 true true)) exitRaceSchedule
    s.pc 1 = .failed (.alreadyRunning (pidOf 0)) ∧ s.pc 2 = .start ∧ s.stolen = false := by decide
example : let s := runP (withGuard (initHeld 2 1000 true true 699)) [1, 1, 1, 1, 1, 1, 1, 1]
    s.pc 0 = .holding ∧ s.pc 1 = .failed (.alreadyRunning (pidOf 0)) ∧ s.stolen = false := by decide
/-- a non-UTF-8 lock file is unparsable, hence abandoned: one process cleans it up and acquires -/
example : (runP (withGuard (initFile 1 1000 true true .invalid)) [0, 0, 0, 0, 0, 0, 0, 0]).pc 0 = .holding := by decide

/-- the guard alone is not enough for a holder older than 300 s: with "stale needs dead" off it is still evicted
    (the hypothesis `staleNeedsDead` of `GInv`; repaired by c12_2_live_holder_never_stale.diff) -/
theorem C12_witness_guard_without_liveness :
    let s := runP { withGuard (initHeld 2 1000 true true 699) with staleNeedsDead := false } [1, 1, 1, 1, 1, 1, 1, 1]
    s.pc 0 = .holding ∧ s.pc 1 = .holding ∧ s.stolen = true := by decide


/-! ## the source fingerprint and the table of lock users (generated from /repo on every run) -/

open Gen.LockUsers

theorem acquire_shape_matches :
    acquireShape = Lock.expectedAcquireShape abandonPolicy publishByLink guardedSequences := by decide
theorem drop_shape_matches : dropShape = Lock.expectedDropShape dropChecksContent := by decide
theorem release_held_shape_matches : releaseHeldShape = Lock.expectedReleaseHeldShape := by decide
theorem stale_timeout_matches : staleTimeoutSecs = Lock.staleTimeout := by decide
/-- `parts.len() == 2`, `parse::<u32>().unwrap_or(0)`, `parse::<u64>().unwrap_or(0)` -/
theorem parse_shape_matches :
    partsTestIsEq = true ∧ partsLen = 2 ∧ parseDefaults = [(32, 0), (64, 0)] := by decide
/-- `if age > 300 {remove} else if running {fail} else {remove}`, or — a live holder is never stale —
    `if pid != 0 && running {fail} else if age > 300 {remove} else {remove}`, as modelled by `Lock.decide'` -/
theorem decision_chain_matches :
    decisionChain = (if liveNeverStale then [(.running, .fail), (.staleGt, .remove), (.otherwise, .remove)]
                     else [(.staleGt, .remove), (.running, .fail), (.otherwise, .remove)]) := by decide
/-- the model's states are built with the flags of the source: `Driver/OpsLock.lean` reads them from here -/
theorem source_flags_are_booleans : (ageSaturates = true ∨ ageSaturates = false) ∧
    (dropChecksContent = true ∨ dropChecksContent = false) := by decide
/-- Ctrl-C at the confirmation prompt: the handler calls `release_held_locks()` before `process::exit`, the
    path was registered after the write and is de-registered by `Drop` (modelled by `Lock.promptExit`) -/
theorem prompt_exit_releases_in_source : promptExitReleases = true := by decide

/-- the lock path comes into being exclusively: `create_new(true)` (O_EXCL) or `hard_link` (EEXIST if the
    path exists), never `create(true)`/truncate -/
theorem create_is_exclusive :
    (FsCall.optCreateNew ∈ acquireShape ∨ FsCall.hardLink ∈ acquireShape) ∧
    FsCall.optCreate ∉ acquireShape ∧ FsCall.optTruncate ∉ acquireShape := by
  decide

/-- the commands that change the tree or renamify's own state -/
def mutating : List Command := [.plan, .rename, .apply, .undo, .redo, .replace]

/-- every mutating command takes the lock (false on the pinned tree: `C12_all_mutators_lock_false_old`) -/
def C12_all_mutators_lock : Prop := ∀ c ∈ mutating, locks c = true

/-- **Every mutating command takes the lock** (since repo commit 451dd24); removing the acquire from any
    of them flips this theorem, and the CLI oracle of `checks/c12.py` reports the command entering under a
    held lock. -/
theorem all_mutators_lock : C12_all_mutators_lock := by unfold C12_all_mutators_lock; decide

/-- exactly these commands reach `LockFile::acquire`; `search`, `rename`, `replace` and `plan` skip it exactly
    when `dry_run` (a dry run writes nothing; `search` = `plan` with `dry_run = true`); the table covers every
    CLI command -/
theorem lockers_exactly :
    (table.filter (·.locks)).map (·.cmd) = [.search, .rename, .replace, .plan, .apply, .undo, .redo, .testLock] ∧
    (table.filter (·.unlessDryRun)).map (·.cmd) = [.search, .rename, .replace, .plan] ∧
    table.map (·.cmd) = Command.all := by decide

/-- wherever the lock is taken it is bound to a variable that lives until the operation returns, and
    nothing mutating precedes it; `apply`, `undo`, `redo` and `test-lock` take it unconditionally -/
theorem lockers_hold_until_return :
    (∀ r ∈ table, r.locks = true → r.held = true ∧ r.first = true) ∧
    (∀ r ∈ table, r.cmd = .testLock ∨ r.cmd = .apply ∨ r.cmd = .undo ∨ r.cmd = .redo → r.unlessDryRun = false) := by
  decide

theorem plan_locks : locks .plan = true := by decide
theorem rename_locks : locks .rename = true := by decide
theorem apply_locks : locks .apply = true := by decide
theorem undo_locks : locks .undo = true := by decide
theorem redo_locks : locks .redo = true := by decide
theorem replace_locks : locks .replace = true := by decide
theorem test_lock_locks : locks .testLock = true := by decide

/-! ### the shape of `lock.rs` that the mutex theorems are about -/

/-- the side condition of the invariant (`Lock.Inv.publish`) holds for the source: unparsable lock files are
    removed only because the lock file is published complete.  (Also true for the pinned tree, which removes
    none; false for the 9509d2d variant, `C12_witness_empty_window_race`.) -/
theorem source_publish_condition : abandonPolicy ≠ .none → publishByLink = true := by decide

/-- **Mutual exclusion for the acquire that the source has** (flags regenerated from /repo on every run):
    from "no lock file", any number of processes, every schedule, clock within 300 s, terminated processes
    lingering … -/
theorem mutex_absent_source (n now : Nat) (debug : Bool) (es : List Ev)
    (hclk : (run (variant abandonPolicy publishByLink (initAbsent n now debug false)) es).now ≤ now + staleTimeout) :
    Safe (run (variant abandonPolicy publishByLink (initAbsent n now debug false)) es) :=
  safe_of_inv (Inv.run es (inv_initAbsent n now debug false abandonPolicy publishByLink source_publish_condition
    (Or.inl rfl)) hclk)

/-- … for two processes also when they exit at once … -/
theorem mutex_absent_source_two_exits (n now : Nat) (hn : n ≤ 2) (debug : Bool) (es : List Ev)
    (hclk : (run (variant abandonPolicy publishByLink (initAbsent n now debug true)) es).now ≤ now + staleTimeout) :
    Safe (run (variant abandonPolicy publishByLink (initAbsent n now debug true)) es) :=
  safe_of_inv (Inv.run es (inv_initAbsent n now debug true abandonPolicy publishByLink source_publish_condition
    (Or.inr hn)) hclk)

/-- … and against a live holder. -/
theorem mutex_live_holder_source (n now ts : Nat) (hn : 0 < n) (hts : ts ≤ now) (debug : Bool) (es : List Ev)
    (hclk : (run (variant abandonPolicy publishByLink (initHeld n now debug false ts)) es).now ≤ ts + staleTimeout) :
    Safe (run (variant abandonPolicy publishByLink (initHeld n now debug false ts)) es) :=
  safe_of_inv (Inv.run es (inv_initHeld n now ts debug false abandonPolicy publishByLink source_publish_condition
    (Or.inl rfl) hn hts) hclk)

/-- **The model's `alive` predicate is what the source computes**: `is_process_running(pid)` is `kill(pid, 0) == 0`
    and nothing else, i.e. a pid counts as alive exactly as long as the process exists (`State.alive`: true from
    start until the process has left).  Every mutex theorem relies on "a live holder is reported alive"
    (`GInv.liveness`/`Inv.liveness` + `decide'`); a further condition in the probe (what the process executes,
    who owns it, …) can report a live holder dead and breaks them — it flips this theorem. -/
theorem liveness_is_kill_zero : livenessIsKillZero = true := by decide

/-- the shapes of `lock.rs` for which mutual exclusion is proved: unguarded (theorems `mutex_*_source` above, with
    their clock / exit hypotheses), or guarded with "a live holder is never stale" and publish by link
    (`mutex_source_guarded` below, no hypotheses).  A guard without the liveness repair is not covered. -/
theorem source_shape :
    guardedSequences = false ∨ (guardedSequences = true ∧ liveNeverStale = true ∧ publishByLink = true) := by decide

/-- the model state with every shape flag taken from the source -/
def srcShape (s : State) : State :=
  { s with abandon := abandonPolicy, atomicPublish := publishByLink, saturating := ageSaturates,
           dropChecks := dropChecksContent, staleNeedsDead := liveNeverStale, lossyRead := readsLossily,
           guarded := guardedSequences }

/-- **If the source is guarded, mutual exclusion holds for it from every initial lock-file state, for any number
    of processes and every schedule** (vacuous while the source is unguarded) -/
theorem mutex_source_guarded (hg : guardedSequences = true) (n now : Nat) (d e : Bool) (c : Option Content)
    (es : List Ev) :
    SafeG (run (srcShape (match c with | none => initAbsent n now d e | some c => initFile n now d e c)) es) := by
  have hl : liveNeverStale = true := by
    rcases source_shape with h | h
    · rw [hg] at h; cases h
    · exact h.2.1
  have e1 : ∀ s, srcShape s = guardedShape abandonPolicy publishByLink ageSaturates dropChecksContent readsLossily s := by
    intro s; unfold srcShape guardedShape; rw [hg, hl]
  rw [e1]
  cases c with
  | none => exact mutex_guarded_absent n now d e _ _ _ _ _ es
  | some c => exact mutex_guarded_any_lock_file n now d e c _ _ _ _ _ es

/-- an unparsable (empty or damaged) lock file is abandoned, and the lock file is published by `hard_link`
    (repo commit 35d666f): a leftover file no longer blocks the next command (`malformed_blocks` is repaired
    for text; see the `withPublishFix` examples above) -/
theorem unparsable_abandoned_under_atomic_publish : abandonPolicy = .unparsable ∧ publishByLink = true := by decide

/-- `Drop` and `release_held_locks` remove the file only if its content is still ours (repo commit d33e63d):
    the model's `dropChecks`, under which an evicted holder leaves the new holder's lock alone -/
theorem drop_is_content_checked : dropChecksContent = true := by decide

/-- the age of a lock saturates at 0 (repo commit 469c078): no panic, no wrap for a future timestamp -/
theorem age_saturates : ageSaturates = true := by decide

/-- no command calls `release()`: what runs at the end of a command is `Drop` (modelled at `dropCheck`/`dropUnlink`) -/
theorem release_never_called : releaseCallSites = 0 := by decide

end C12
