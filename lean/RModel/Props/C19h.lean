import RModel.Props.C19a
/- C19, part h (kernel evaluation of one slice of the table; statements restated in Props/C19.lean) -/
namespace C19.Part
open Output C19

theorem C19_partial :
    (jsonRows.all fun r => (docScenarios r.cmd).all fun s => ((s.1 && s.2) != r.planEmpty) ||
      check r (fun o => oneDocument o && (o.failed || shapeMismatch r.cmd || conformsCmd r.cmd s.1 s.2)
                        && (o.exitZero == succeeded r o))) = true := by
  decide +kernel

end C19.Part
