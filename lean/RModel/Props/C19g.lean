import RModel.Props.C19a
/- C19, part g (kernel evaluation of one slice of the table; statements restated in Props/C19.lean) -/
namespace C19.Part
open Output C19

theorem C19_witness_replace_early_return :
    (rows.all fun r => check r fun o => !(replaceEarlyReturn r && !o.failed) ||
        (o.exitZero && (intended r).contains n!"apply_plan" && !o.performed.contains n!"apply_plan" && !succeeded r o)) = true
    ∧ (rows.any fun r => replaceEarlyReturn r && check r (fun o => !o.failed)) = true := by
  decide +kernel

theorem C19_witness_replace_json_not_applied :
    check (plainRow .replace)
      (fun o => o.stdout == [.pretty n!"Plan"] && o.exitZero && !o.performed.contains n!"apply_plan") = true := by decide +kernel

theorem replace_quiet_applies :
    (rows.all fun r => check r fun o =>
      !(r.cmd == .replace && !r.json && r.yes && !r.dryRun && !r.planEmpty && !o.failed) ||
        (o.performed.contains n!"apply_plan" && succeeded r o && (!r.quiet || o.stdout == []))) = true
    ∧ check { plainRow .replace with json := false, quiet := true }
        (fun o => o.stdout == [] && o.exitZero && o.performed.contains n!"apply_plan") = true := by decide +kernel

end C19.Part
