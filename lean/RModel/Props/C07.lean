import RModel.Base.Lit
import RModel.Model.CaseModel
import RModel.Model.Compound
import RModel.Gen.Acronyms
import RModel.Lemmas.Compound
import RModel.Props.C18
/-
  C07 — Only the term changes: match soundness and locality.   (property theorems only; lemmas in Lemmas/Compound.lean)

  Model: `RModel/Model/Compound.lean` — `find_compound_variants` (with the re-join guard of commit 70a22d6;
  `findCompoundOld` is the function before it), `IdentifierExtractor`, `is_boundary`, the exact pass
  and the overlap resolution of `find_enhanced_matches`, on top of the C18 tokenizer / renderer / detector.
  `Words` = lower-case words of length >= 2, `Neutral` = the C18 acronym-neutrality guard, `substAll pat rep 0 ws` =
  the word list `ws` with every (non-overlapping, left to right) occurrence of the word sequence `pat` replaced by `rep`.
-/
namespace C07
open B CaseModel Compound

def A : Acr := acrOf Gen.defaultAcronyms
theorem acrOk : AcrOk A := C18.acrOk_default
theorem acrStable : AcrStable A := C18.acrStable_default

/-- the scanner's default style list -/
def libStyles : List Style := [.snake, .kebab, .camel, .pascal, .screamingSnake, .train]

/-- the separator styles covered by the general locality theorem -/
def sepStyles : List Style := [.snake, .kebab, .screamingSnake, .train]

-- 1. locality ----------------------------------------------------------------------------------------------------------

/-- Locality, word-list form.  An identifier that is `lead` (nothing, `_` or `__`) followed by the rendering of the word
    list `ws` in a separator style (single separator kind, single separators) and that contains the search words `pat`
    (but is not just `pat`) is rewritten to `lead` + the same rendering of `ws` with the occurrences of `pat` replaced by
    the replacement words: every other word, the separators and the leading underscores are reproduced. -/
theorem compound_locality_words {A : Acr} (hA : AcrOk A) (hS : AcrStable A) {st : Style} (hst : st ∈ sepStyles)
    {lead : Bytes} (hlead : lead = [] ∨ lead = [95] ∨ lead = [95, 95])
    {ws pat rep : List Bytes} (hws : Words ws) (hN : Neutral A ws) (hpat : Words pat) (hrep : Words rep)
    (h2 : 2 ≤ pat.length) (hrne : rep ≠ []) (hne : ws ≠ pat) (hocc : 0 < occCount pat 0 ws)
    {old new : Bytes} (hold : parse A old = pat) (hnew : parse A new = rep)
    {styles : List Style} (hmem : st ∈ styles) :
    findCompound A (lead ++ toStyle A ws st) old new styles =
      some ⟨lead ++ toStyle A ws st, lead ++ toStyle A (substAll pat rep 0 ws) st, st⟩ := by
  have hl := hws.lowerWords
  have hpl : ∀ p ∈ pat, lower p = p := fun p hp => lower_of_lower (hpat p hp).2
  have h2w : 2 ≤ ws.length := by have := occCount_le_length hocc; omega
  have hpne : pat ≠ [] := by intro h; rw [h] at h2; simp at h2
  have hsub : LowerWords (substAll pat rep 0 ws) := by
    intro x hx
    rcases mem_substAll hx with h | h
    · exact hl x h
    · exact (hrep x h).lowerWord
  rw [toStyle_words A hl, toStyle_words A hsub]
  have hrepl := hrep.lowerWords
  cases st <;> first
    | exact absurd hst (by decide)
    | skip
  · -- snake
    have := findCompound_sep_core A 95 id LowerWord .snake (lead := lead) (ws := ws) (pat := pat) (rep := rep)
      (old := old) (new := new) (styles := styles) hlead (Or.inl rfl)
      (by rw [List.map_id]; exact parse_lower_sep hA (by decide) hl) hold hnew
      (fun w hw => ⟨lower_of_lower (hl w hw).2, hl w hw⟩) hpl
      (by rw [List.map_id]; exact alpha_lowerWords hl) (by rw [List.map_id]; exact fun r hr => (hl r hr).1)
      (by rw [List.map_id]; exact detect_snake A h2w hl)
      (by
        intro w' hw' hlen
        rw [List.map_id] at *
        rw [finalStyle_lower A hw' (by omega) (detect_snake A h2w hl) (by decide)]
        show List.map lower rep = List.map id rep
        rw [List.map_id]; exact map_lower_lowerWords hrepl)
      h2w hpne hrne hne hocc hmem
    simpa only [List.map_id] using this
  · -- kebab
    have := findCompound_sep_core A 45 id LowerWord .kebab (lead := lead) (ws := ws) (pat := pat) (rep := rep)
      (old := old) (new := new) (styles := styles) hlead (Or.inr rfl)
      (by rw [List.map_id]; exact parse_lower_sep hA (by decide) hl) hold hnew
      (fun w hw => ⟨lower_of_lower (hl w hw).2, hl w hw⟩) hpl
      (by rw [List.map_id]; exact alpha_lowerWords hl) (by rw [List.map_id]; exact fun r hr => (hl r hr).1)
      (by rw [List.map_id]; exact detect_kebab A h2w hl)
      (by
        intro w' hw' hlen
        rw [List.map_id] at *
        rw [finalStyle_lower A hw' (by omega) (detect_kebab A h2w hl) (by decide)]
        show List.map lower rep = List.map id rep
        rw [List.map_id]; exact map_lower_lowerWords hrepl)
      h2w hpne hrne hne hocc hmem
    simpa only [List.map_id] using this
  · -- screaming snake
    exact findCompound_sep_core A 95 upper UpperTok .screamingSnake hlead (Or.inl rfl)
      (parse_upper_sep hA hS (by decide) hl (fun w hw => (hN w hw).1)) hold hnew
      (fun w hw => ⟨lower_upper_of_lower (hl w hw).2,
        by rw [UpperTok, upper_length]; exact ⟨(hws w hw).1, upper_all_upper (hl w hw).2⟩⟩) hpl
      (alpha_upperWords hl)
      (by intro r hr; rw [List.mem_map] at hr; obtain ⟨w, hw, rfl⟩ := hr; exact upper_ne_nil (hl w hw).1)
      (detect_screamingSnake A h2w hl)
      (by
        intro w' hw' hlen
        rw [finalStyle_upper A hw' (by omega) (detect_screamingSnake A h2w hl) (by decide)]
        rfl)
      h2w hpne hrne hne hocc hmem
  · -- train
    have hcaps := caps_of_words hws
    exact findCompound_sep_core A 45 capitalizeFirst IsCap .train hlead (Or.inr rfl)
      (parse_cap_sep hA hS (by decide) hws (fun w hw => (hN w hw).2)) hold hnew
      (fun w hw => ⟨lower_capitalizeFirst (hl w hw).2, isCap_capitalizeFirst (hws w hw)⟩) hpl
      (alpha_capWords hcaps) (fun r hr => isCap_ne_nil (hcaps r hr))
      (detect_train A (by rw [List.length_map]; exact h2w) hcaps)
      (by
        intro w' _ _
        have hd := detect_train A (by rw [List.length_map]; exact h2w) hcaps
        simp only [finalStyle, hd, beq_self_eq_true, if_true, styledTokens, toStyle, map_capOrKeep_lowerWords hrepl]
        exact splitOn_joinWith 45 _ (by simpa using hrne) (alpha_ne_sep (by decide) (alpha_capWords (caps_of_words hrep))))
      h2w hpne hrne hne hocc hmem


/-- Locality, the shape of the property: identifier = lead + prefix words + TERM + suffix words in one separator style.
    Guards: single separator kind and single separators (by construction of `toStyle`), at most two leading
    underscores, at least one affix word, and the term occurs once (`OccursOnce`, decidable).  Then the compound
    replacement is lead + prefix words + REPLACEMENT + suffix words in the same style. -/
theorem compound_locality_partial {A : Acr} (hA : AcrOk A) (hS : AcrStable A) {st : Style} (hst : st ∈ sepStyles)
    {lead : Bytes} (hlead : lead = [] ∨ lead = [95] ∨ lead = [95, 95])
    {pre pat rep suf : List Bytes} (hpre : Words pre) (hsuf : Words suf) (hpat : Words pat) (hrep : Words rep)
    (hN : Neutral A (pre ++ pat ++ suf)) (h2 : 2 ≤ pat.length) (hrne : rep ≠ []) (haff : pre ++ suf ≠ [])
    (honce : OccursOnce pre pat suf)
    {old new : Bytes} (hold : parse A old = pat) (hnew : parse A new = rep)
    {styles : List Style} (hmem : st ∈ styles) :
    findCompound A (lead ++ toStyle A (pre ++ pat ++ suf) st) old new styles =
      some ⟨lead ++ toStyle A (pre ++ pat ++ suf) st, lead ++ toStyle A (pre ++ rep ++ suf) st, st⟩ := by
  have hpne : pat ≠ [] := by intro h; rw [h] at h2; simp at h2
  have ho := substAll_once (rep := rep) hpne pre suf honce
  have hws : Words (pre ++ pat ++ suf) := by
    intro w hw
    simp only [List.mem_append] at hw
    rcases hw with (h | h) | h
    · exact hpre w h
    · exact hpat w h
    · exact hsuf w h
  have hne : pre ++ pat ++ suf ≠ pat := by
    intro h
    have hlen := congrArg List.length h
    simp only [List.length_append] at hlen
    have : pre.length + suf.length = 0 := by omega
    apply haff
    have h1 : pre = [] := List.eq_nil_of_length_eq_zero (by omega)
    have h2 : suf = [] := List.eq_nil_of_length_eq_zero (by omega)
    rw [h1, h2]; rfl
  have := compound_locality_words hA hS hst hlead hws hN hpat hrep h2 hrne hne (by rw [ho.2]; decide) hold hnew hmem
  rw [ho.1] at this
  exact this

/-- non-vacuity: `__my_foo_bar_item` with foo_bar -> baz_qux, and the theorem's prediction evaluated -/
example : findCompound A b!"__my_foo_bar_item" b!"foo_bar" b!"baz_qux" libStyles =
    some ⟨b!"__my_foo_bar_item", b!"__my_baz_qux_item", .snake⟩ :=
  compound_locality_partial acrOk acrStable (st := .snake) (by decide) (lead := b!"__") (by decide)
    (pre := [b!"my"]) (pat := [b!"foo", b!"bar"]) (rep := [b!"baz", b!"qux"]) (suf := [b!"item"])
    (by decide) (by decide) (by decide) (by decide) (by decide +kernel) (by decide) (by decide) (by decide)
    ⟨by decide, by decide⟩ (by decide +kernel) (by decide +kernel) (by decide)

example : findCompound A b!"My-Foo-Bar" b!"foo_bar" b!"baz_qux" libStyles = some ⟨b!"My-Foo-Bar", b!"My-Baz-Qux", .train⟩ :=
  compound_locality_partial acrOk acrStable (st := .train) (by decide) (lead := []) (by decide)
    (pre := [b!"my"]) (pat := [b!"foo", b!"bar"]) (rep := [b!"baz", b!"qux"]) (suf := [])
    (by decide) (by decide) (by decide) (by decide) (by decide +kernel) (by decide) (by decide) (by decide)
    ⟨by decide, by decide⟩ (by decide +kernel) (by decide +kernel) (by decide)

/-- Locality for PascalCase (the hump-joined analogue): `lead` + the PascalCase rendering of `ws`, containing the search
    words, is rewritten to `lead` + the PascalCase rendering of `ws` with the occurrences replaced. -/
theorem compound_locality_pascal {A : Acr} (hA : AcrOk A) (hS : AcrStable A)
    {lead : Bytes} (hlead : lead = [] ∨ lead = [95] ∨ lead = [95, 95])
    {ws pat rep : List Bytes} (hws : Words ws) (hN : Neutral A ws) (hpat : Words pat) (hrep : Words rep)
    (h2 : 2 ≤ pat.length) (hrne : rep ≠ []) (hne : ws ≠ pat) (hocc : 0 < occCount pat 0 ws)
    {old new : Bytes} (hold : parse A old = pat) (hnew : parse A new = rep)
    {styles : List Style} (hmem : Style.pascal ∈ styles) :
    findCompound A (lead ++ toStyle A ws .pascal) old new styles =
      some ⟨lead ++ toStyle A ws .pascal, lead ++ toStyle A (substAll pat rep 0 ws) .pascal, .pascal⟩ := by
  have hsub : LowerWords (substAll pat rep 0 ws) := by
    intro x hx
    rcases mem_substAll hx with h | h
    · exact hws.lowerWords x h
    · exact (hrep x h).lowerWord
  rw [toStyle_words A hws.lowerWords, toStyle_words A hsub]
  exact findCompound_pascal_core hA hS hlead hws (fun w hw => (hN w hw).2) hpat hrep hold hnew h2 hrne hne hocc hmem

/-- PascalCase, shape form: lead + prefix words + TERM + suffix words -/
theorem compound_locality_pascal_partial {A : Acr} (hA : AcrOk A) (hS : AcrStable A)
    {lead : Bytes} (hlead : lead = [] ∨ lead = [95] ∨ lead = [95, 95])
    {pre pat rep suf : List Bytes} (hpre : Words pre) (hsuf : Words suf) (hpat : Words pat) (hrep : Words rep)
    (hN : Neutral A (pre ++ pat ++ suf)) (h2 : 2 ≤ pat.length) (hrne : rep ≠ []) (haff : pre ++ suf ≠ [])
    (honce : OccursOnce pre pat suf)
    {old new : Bytes} (hold : parse A old = pat) (hnew : parse A new = rep)
    {styles : List Style} (hmem : Style.pascal ∈ styles) :
    findCompound A (lead ++ toStyle A (pre ++ pat ++ suf) .pascal) old new styles =
      some ⟨lead ++ toStyle A (pre ++ pat ++ suf) .pascal, lead ++ toStyle A (pre ++ rep ++ suf) .pascal, .pascal⟩ := by
  have hpne : pat ≠ [] := by intro h; rw [h] at h2; simp at h2
  have ho := substAll_once (rep := rep) hpne pre suf honce
  have hws : Words (pre ++ pat ++ suf) := by
    intro w hw
    simp only [List.mem_append] at hw
    rcases hw with (h | h) | h
    · exact hpre w h
    · exact hpat w h
    · exact hsuf w h
  have hne : pre ++ pat ++ suf ≠ pat := by
    intro h
    have hlen := congrArg List.length h
    simp only [List.length_append] at hlen
    apply haff
    have h1 : pre = [] := List.eq_nil_of_length_eq_zero (by omega)
    have h2 : suf = [] := List.eq_nil_of_length_eq_zero (by omega)
    rw [h1, h2]; rfl
  have := compound_locality_pascal hA hS hlead hws hN hpat hrep h2 hrne hne (by rw [ho.2]; decide) hold hnew hmem
  rw [ho.1] at this
  exact this

example : findCompound A b!"_MyFooBarItem" b!"foo_bar" b!"baz_qux" libStyles =
    some ⟨b!"_MyFooBarItem", b!"_MyBazQuxItem", .pascal⟩ :=
  compound_locality_pascal_partial acrOk acrStable (lead := b!"_") (by decide)
    (pre := [b!"my"]) (pat := [b!"foo", b!"bar"]) (rep := [b!"baz", b!"qux"]) (suf := [b!"item"])
    (by decide) (by decide) (by decide) (by decide) (by decide +kernel) (by decide) (by decide) (by decide)
    ⟨by decide, by decide⟩ (by decide +kernel) (by decide +kernel) (by decide)

/-- camelCase (and PascalCase again), evaluated by the kernel on representative shapes (the general camelCase statement is
    not proved: its first word is rendered differently from the others): term at the
    start, in the middle, at the end, with leading underscores and with a three-word term -/
theorem compound_locality_hump_examples :
    findCompound A b!"myFooBarItem" b!"foo_bar" b!"baz_qux" libStyles = some ⟨b!"myFooBarItem", b!"myBazQuxItem", .camel⟩ ∧
    findCompound A b!"fooBarItem" b!"foo_bar" b!"baz_qux" libStyles = some ⟨b!"fooBarItem", b!"bazQuxItem", .camel⟩ ∧
    findCompound A b!"MyFooBar" b!"foo_bar" b!"baz_qux" libStyles = some ⟨b!"MyFooBar", b!"MyBazQux", .pascal⟩ ∧
    findCompound A b!"FooBarItemOld" b!"foo_bar" b!"lemon" libStyles = some ⟨b!"FooBarItemOld", b!"LemonItemOld", .pascal⟩ ∧
    findCompound A b!"__getMyFooBarBaz" b!"foo_bar_baz" b!"lemon_tiger" libStyles =
      some ⟨b!"__getMyFooBarBaz", b!"__getMyLemonTiger", .camel⟩ := by decide +kernel

-- 2. soundness ---------------------------------------------------------------------------------------------------------

/-- Match soundness.  Every match returned by the line matcher either (exact path) is a hit of a variant of the term
    that satisfies `is_boundary`, or (compound path) is the answer of the compound matcher on some identifier whose
    token list contains the search tokens as a contiguous, case-insensitive window (or, for an identifier with two
    separator kinds, that starts with the search text as typed followed by a separator). -/
theorem match_soundness {A : Acr} {content search replace : Bytes} {variants : List Bytes} {styles : List Style} {m : M}
    (h : m ∈ findEnhanced A content search replace variants styles) :
    (∃ s e, (s, e) ∈ scanExact variants 0 0 content ∧ m.start = s ∧ m.stop = e ∧
        m.variant = (content.drop s).take (e - s) ∧
        isBoundary (content.take s) ((content.drop s).take (e - s)) (content.drop e) = true) ∨
    (∃ c, findCompound A m.variant search replace styles = some c ∧ m.text = c.replacement ∧
        (shortcutCond (extractPrefix m.variant).2 search = true ∨
         HasWindow (parse A (extractPrefix m.variant).2) (parse A search))) := by
  rcases findEnhanced_origin h with ⟨s, e, hse, hb, h1, h2, h3, _⟩ | ⟨ident, c, hc, hv, ht⟩
  · exact Or.inl ⟨s, e, hse, h1, h2, h3, hb⟩
  · right
    rw [hv]
    exact ⟨c, hc, ht, (findCompound_sound hc).2⟩

/-- non-vacuity: the line `let my_foo_bar = 1;` has exactly one match, through the compound path -/
example : findEnhanced A b!"let my_foo_bar = 1;" b!"foo_bar" b!"baz_qux" (variantKeys A b!"foo_bar" libStyles) libStyles =
    [⟨1, 4, 4, 14, b!"my_foo_bar", b!"my_baz_qux"⟩] := by decide +kernel

/-- the "single word, single style" skip of the exact pass (commit 1fd3fe0): a camelCase / PascalCase term typed without
    separators is two words and goes through the exact pass even with one enabled style; a true single word still skips
    it (only compound matches are wanted then) -/
theorem single_style_hump_term_uses_exact_pass :
    findEnhanced A b!"foo_bar" b!"FooBar" b!"lemon_tiger" (variantKeys A b!"FooBar" [.snake]) [.snake] =
      [⟨1, 0, 0, 7, b!"foo_bar", b!"foo_bar"⟩] ∧
    findEnhanced A b!"foo" b!"foo" b!"lemon" (variantKeys A b!"foo" [.snake]) [.snake] = [] := by decide +kernel

/-- an answer of the compound matcher implies a window of the search tokens in the identifier's tokens -/
theorem compound_soundness {A : Acr} {ident old new : Bytes} {styles : List Style} {c : CMatch}
    (h : findCompound A ident old new styles = some c) :
    c.full = ident ∧ (shortcutCond (extractPrefix ident).2 old = true ∨
      HasWindow (parse A (extractPrefix ident).2) (parse A old)) := findCompound_sound h

-- 3. near misses -------------------------------------------------------------------------------------------------------

/-- Near miss, compound path.  An identifier made of lower-case words with one separator kind (`_` or `-`) whose word
    list does not contain the search words as a contiguous sublist gets no compound match: `xfoo_bar` = [xfoo, bar],
    `foo_barn` = [foo, barn], `afoo_barb`, `fo_o_bar` = [fo, o, bar] for the term [foo, bar]. -/
theorem near_miss_untouched {A : Acr} (hA : AcrOk A) {d : UInt8} (hd : d = 95 ∨ d = 45)
    {lead : Bytes} (hlead : lead = [] ∨ lead = [95] ∨ lead = [95, 95])
    {ws pat : List Bytes} (hws : LowerWords ws) (h2 : 2 ≤ ws.length) (hpat : LowerWords pat)
    (hno : ¬ pat <:+: ws) {old new : Bytes} (hold : parse A old = pat) (styles : List Style) :
    findCompound A (lead ++ joinWith [d] ws) old new styles = none := by
  cases hfc : findCompound A (lead ++ joinWith [d] ws) old new styles with
  | none => rfl
  | some c =>
    exfalso
    obtain ⟨w0, ws', rfl⟩ := List.exists_cons_of_ne_nil (ne_nil_of_two h2)
    have hw0 := hws w0 (List.mem_cons_self ..)
    obtain ⟨c0, r0, hr0⟩ := List.exists_cons_of_ne_nil hw0.1
    have hex : extractPrefix (lead ++ joinWith [d] (w0 :: ws')) = (lead, joinWith [d] (w0 :: ws')) :=
      extractPrefix_lead hlead (c := c0) (by rw [head?_joinWith _ hw0.1, hr0]; rfl)
        (lower_alpha (hw0.2 c0 (by rw [hr0]; simp)))
    have hs := (findCompound_sound hfc).2
    rw [hex] at hs
    simp only [shortcutCond_sep hd h2 (alpha_lowerWords hws), Bool.false_eq_true, false_or] at hs
    rw [parse_lower_sep hA (by rcases hd with rfl | rfl <;> decide) hws, hold] at hs
    obtain ⟨l, w, r, hlwr, hm⟩ := hs
    have hwmem : ∀ x ∈ w, x ∈ w0 :: ws' := by
      intro x hx; rw [hlwr]; simp [hx]
    have := tokensMatch_map (f := id) w pat (fun x hx => lower_of_lower (hws x (hwmem x hx)).2)
      (fun p hp => lower_of_lower (hpat p hp).2)
    rw [List.map_id, hm] at this
    have hwp : w = pat := by simpa using this.symm
    apply hno
    rw [← hwp, hlwr]
    exact ⟨l, r, rfl⟩

example : findCompound A b!"xfoo_bar" b!"foo_bar" b!"baz_qux" libStyles = none :=
  near_miss_untouched acrOk (d := 95) (Or.inl rfl) (lead := []) (by decide) (ws := [b!"xfoo", b!"bar"])
    (pat := [b!"foo", b!"bar"]) (by decide) (by decide) (by decide) (by decide) (by decide +kernel) _

example : findCompound A b!"fo-o-bar-item" b!"foo_bar" b!"baz_qux" libStyles = none :=
  near_miss_untouched acrOk (d := 45) (Or.inr rfl) (lead := []) (by decide) (ws := [b!"fo", b!"o", b!"bar", b!"item"])
    (pat := [b!"foo", b!"bar"]) (by decide) (by decide) (by decide) (by decide) (by decide +kernel) _

/-- Near miss, exact path, right side: a hit of a (space-free) variant that is directly followed by a lower-case letter
    or a digit (`foo_barn`, `fooBarn`, `foo_bar2`), or by an upper-case letter after an upper-case letter or digit
    (`FOO_BARN`), is rejected by `is_boundary` — whatever the surrounding text. -/
theorem near_miss_exact_right {before m after : Bytes} {c : UInt8} (hsp : contains m 32 = false) (hc : isAlnum c = true)
    (hcase : isUpper c = false ∨ ∃ l, m.getLast? = some l ∧ isLower l = false) :
    isBoundary before m (c :: after) = false := isBoundary_glued_right hsp hc hcase

/-- Near miss, exact path, left side: a hit directly preceded by an upper-case letter or a digit (`XfooBar`, `2foo_bar`),
    or by any letter when the hit starts lower-case (`xfoo_bar`, `xfooBar`), is rejected. -/
theorem near_miss_exact_left {before m after : Bytes} {p : UInt8} (hsp : contains m 32 = false) (hp : isAlnum p = true)
    (hcase : isLower p = false ∨ ∃ c cs, m = c :: cs ∧ isUpper c = false) :
    isBoundary (before ++ [p]) m after = false := isBoundary_glued_left hsp hp hcase

example : isBoundary b!"let " b!"foo_bar" b!"n = 1" = false :=
  near_miss_exact_right (by decide) (by decide) (Or.inl (by decide))
example : isBoundary b!"let x" b!"foo_bar" b!" = 1" = false :=
  near_miss_exact_left (before := b!"let ") (by decide) (by decide) (Or.inr ⟨_, _, rfl, by decide⟩)

/-- Digit-adjacent near miss, left side: a hit (of any space-free variant) directly preceded by a DIGIT is rejected by
    `is_boundary`, whatever the hit starts with and whatever surrounds it (`x2foo_bar`, `v10foo_bar_cache`, `load3fooBar`,
    `id7foo-bar`, `2foo_bar`).  `is_boundary` has no digit rule at all: the only alphanumeric neighbour it accepts is an
    upper-case letter after a lower-case one. -/
theorem near_miss_exact_digit_before {before m after : Bytes} {p : UInt8} (hsp : contains m 32 = false)
    (hp : isDigit p = true) : isBoundary (before ++ [p]) m after = false :=
  isBoundary_glued_left hsp (by simp only [isAlnum, hp, Bool.or_true])
    (Or.inl (by cases h : isLower p with | false => rfl | true => exact absurd (lower_not_digit h) (by rw [hp]; decide)))

/-- Digit-adjacent near miss, right side: a hit whose last byte is a digit (term ending in a digit: `foo_v2`) directly
    followed by any letter or digit is rejected (`foo_v2x`, `fooV2n`, `FOO_V2N`); and a hit followed by a digit is rejected
    whatever it ends with (`foo_bar2`, `fooBar10`). -/
theorem near_miss_exact_digit_after {before m after : Bytes} {c : UInt8} (hsp : contains m 32 = false)
    (hc : isAlnum c = true) (h : isDigit c = true ∨ ∃ l, m.getLast? = some l ∧ isDigit l = true) :
    isBoundary before m (c :: after) = false := by
  apply isBoundary_glued_right hsp hc
  rcases h with h | ⟨l, hl, hd⟩
  · left
    cases hu : isUpper c with
    | false => rfl
    | true => exact absurd (upper_not_digit hu) (by rw [h]; decide)
  · right
    refine ⟨l, hl, ?_⟩
    cases hlo : isLower l with
    | false => rfl
    | true => exact absurd (lower_not_digit hlo) (by rw [hd]; decide)

example : isBoundary b!"x2" b!"foo_bar" b!" = 1" = false :=
  near_miss_exact_digit_before (before := b!"x") (by decide) (by decide)
example : isBoundary b!"let " b!"foo_v2" b!"x = 1" = false :=
  near_miss_exact_digit_after (by decide) (by decide) (Or.inr ⟨_, rfl, by decide⟩)

/-- the tokenizer's digit rules, by kernel evaluation (the general tokenizer lemmas of C18 cover letter-only words; words
    carrying digits are covered here by evaluation and by the differential check): digit->lower and letter->digit do not
    start a word, digit->UPPER does -/
theorem digit_word_rules :
    parse A b!"x2foo_bar" = [b!"x2foo", b!"bar"] ∧ parse A b!"load3fooBar" = [b!"load3foo", b!"Bar"] ∧
    parse A b!"foo_bar2x" = [b!"foo", b!"bar2x"] ∧ parse A b!"foo_v2x" = [b!"foo", b!"v2x"] ∧
    parse A b!"x2FooBar" = [b!"x2", b!"Foo", b!"Bar"] ∧ parse A b!"foo_v2X" = [b!"foo", b!"v2", b!"X"] := by decide +kernel

/-- the whole line matcher on the digit-adjacent near misses (exact, compound and overlap passes together): no match;
    the last three use the term `foo_v2`, which ends in a digit -/
theorem near_miss_digit_family_untouched :
    (∀ t ∈ [b!"x2foo_bar", b!"v10foo_bar_cache", b!"load3fooBar", b!"id7foo-bar", b!"my_x2foo_bar_list", b!"2foo_bar",
            b!"foo_bar2x", b!"fooBar10", b!"my_foo_bar2_item", b!"let x2foo_bar = foo_bar2;"],
      findEnhanced A t b!"foo_bar" b!"baz_qux" (variantKeys A b!"foo_bar" libStyles) libStyles = []) ∧
    (∀ t ∈ [b!"foo_v2x", b!"fooV2n", b!"FOO_V2n", b!"my_foo_v2x_item"],
      findEnhanced A t b!"foo_v2" b!"baz_qux" (variantKeys A b!"foo_v2" libStyles) libStyles = []) := by decide +kernel

/-- and digit->UPPER is a word start: these contain the word sequence and are rewritten locally -/
theorem digit_then_upper_is_a_word_start :
    findCompound A b!"myX2FooBar" b!"foo_bar" b!"baz_qux" libStyles = some ⟨b!"myX2FooBar", b!"myX2BazQux", .camel⟩ ∧
    findCompound A b!"arm64FooBar" b!"foo_bar" b!"baz_qux" libStyles = some ⟨b!"arm64FooBar", b!"arm64BazQux", .camel⟩ := by
  decide +kernel

/-- the whole line matcher on the near-miss family of the property text (exact, compound and overlap passes together,
    scanner default styles): no match at all -/
theorem near_miss_family_untouched :
    ∀ t ∈ [b!"xfoo_bar", b!"foo_barn", b!"foobar", b!"afoo_barb", b!"FOO_BARN", b!"fooBarn", b!"XfooBar", b!"fo_o_bar",
           b!"foo_bar2", b!"Foobar", b!"FOOBAR", b!"my_xfoo_bar", b!"foo-barn-item", b!"let xfoo_bar = foo_barn;"],
      findEnhanced A t b!"foo_bar" b!"baz_qux" (variantKeys A b!"foo_bar" libStyles) libStyles = [] := by decide +kernel

-- 4. irregular identifiers: the re-join guard (commit 70a22d6) and the exact path --------------------------------

/-- Guard soundness.  Whenever the compound matcher answers (outside the mixed-separator shortcut), the token walk of
    `untouched_text_survives_rejoin` succeeded on the identifier: nothing in front of the first word, the join separator
    between any two neighbouring words that are not inside one matched window, at most one trailing delimiter. -/
theorem compound_answer_passed_guard {A : Acr} {ident old new : Bytes} {styles : List Style} {c : CMatch}
    (h : findCompound A ident old new styles = some c) (hs : shortcutCond (extractPrefix ident).2 old = false) :
    survivesRejoin (extractPrefix ident).2 (parse A (extractPrefix ident).2)
      (matchedWindows (parse A old) 0 0 (parse A (extractPrefix ident).2)) c.style = true :=
  findCompound_guard h hs

/-- Exact path locality.  A hit of the exact pass is, byte for byte, one of the variants of the term (a rendering of the
    search words in an enabled style) sitting at `start..end`; the planner replaces exactly that span, so the edit is
    the term's span and nothing else. -/
theorem exact_hit_is_a_variant {variants : List Bytes} {content : Bytes} {s e : Nat}
    (h : (s, e) ∈ scanExact variants 0 0 content) :
    ∃ v ∈ variants, v ≠ [] ∧ e = s + v.length ∧ (content.drop s).take (e - s) = v := by
  obtain ⟨v, hv, hne, _, he, hp⟩ := scanExact_sound content 0 0 s e h
  refine ⟨v, hv, hne, he, ?_⟩
  have : e - s = v.length := by omega
  rw [this]
  exact take_of_isPrefixOf (by simpa using hp)

/-- with the variant table of the term: the text of an exact match is the term rendered in one of the enabled styles -/
theorem exact_match_is_term_rendering {A : Acr} {content search replace : Bytes} {styles : List Style} {m : M}
    (h : m ∈ findEnhanced A content search replace (variantKeys A search styles) styles)
    (hex : m.text = m.variant) (hnc : ∀ c, findCompound A m.variant search replace styles = some c → c.replacement ≠ m.variant) :
    ∃ st ∈ styles, m.variant = toStyle A (parse A search) st ∧
      (content.drop m.start).take (m.stop - m.start) = m.variant := by
  rcases match_soundness h with ⟨s, e, hse, h1, h2, h3, _⟩ | ⟨c, hc, ht, _⟩
  · obtain ⟨v, hv, _, _, hslice⟩ := exact_hit_is_a_variant hse
    simp only [variantKeys, List.mem_map] at hv
    obtain ⟨st, hst, rfl⟩ := hv
    exact ⟨st, hst, by rw [h3, hslice], by rw [h1, h2, h3]⟩
  · exact absurd (by rw [← ht, hex]) (hnc c hc)

/-- formerly finding `doubled_separator_collapsed` (fixed by 70a22d6): for `my__foo_bar_x` the compound matcher now stays
    silent and the exact pass marks exactly the term's span 8..15 of `let my__foo_bar_x = 1;` -/
theorem doubled_separator_in_place :
    findCompound A b!"my__foo_bar_x" b!"foo_bar" b!"baz_qux" libStyles = none ∧
    findEnhanced A b!"let my__foo_bar_x = 1;" b!"foo_bar" b!"baz_qux" (variantKeys A b!"foo_bar" libStyles) libStyles =
      [⟨1, 8, 8, 15, b!"foo_bar", b!"foo_bar"⟩] ∧
    findCompound A b!"my_foo_bar__" b!"foo_bar" b!"baz_qux" libStyles = none ∧
    findEnhanced A b!"my_foo_bar__" b!"foo_bar" b!"baz_qux" (variantKeys A b!"foo_bar" libStyles) libStyles =
      [⟨1, 3, 3, 10, b!"foo_bar", b!"foo_bar"⟩] := by decide +kernel

/-- THE TERM TWICE IN ONE IDENTIFIER (seeds C07e / C07f recorded the matched windows in the coordinates of the token list
    AFTER earlier splices; with a replacement of another word count the window of the second occurrence shifted, the re-join
    guard looked at the wrong gap and a doubled separator was collapsed).  With the windows in the coordinates of the ORIGINAL
    tokens: a doubled separator before or after the second occurrence makes the compound matcher stay silent, and the exact
    pass marks exactly the two spans; with single separators throughout it answers, and both occurrences are replaced. -/
theorem twice_in_one_identifier_in_place :
    findCompound A b!"foo_bar_x__foo_bar" b!"foo_bar" b!"baz" libStyles = none ∧
    (findEnhanced A b!"foo_bar_x__foo_bar" b!"foo_bar" b!"baz" (variantKeys A b!"foo_bar" libStyles) libStyles).map
      (fun m => (m.start, m.stop, m.variant)) = [(0, 7, b!"foo_bar"), (11, 18, b!"foo_bar")] ∧
    findCompound A b!"foo_bar_x_foo_bar__y" b!"foo_bar" b!"alpha_beta_gamma" libStyles = none ∧
    (findEnhanced A b!"foo_bar_x_foo_bar__y" b!"foo_bar" b!"alpha_beta_gamma" (variantKeys A b!"foo_bar" libStyles)
      libStyles).map (fun m => (m.start, m.stop, m.variant)) = [(0, 7, b!"foo_bar"), (10, 17, b!"foo_bar")] ∧
    findCompound A b!"foo_bar_x_foo_bar_y" b!"foo_bar" b!"baz" libStyles =
      some ⟨b!"foo_bar_x_foo_bar_y", b!"baz_x_baz_y", .snake⟩ := by decide +kernel

/-- formerly finding `leading_underscores_lost` -/
theorem leading_underscores_in_place :
    findCompound A b!"___foo_bar_x" b!"foo_bar" b!"baz_qux" libStyles = none ∧
    findEnhanced A b!"___foo_bar_x" b!"foo_bar" b!"baz_qux" (variantKeys A b!"foo_bar" libStyles) libStyles =
      [⟨1, 3, 3, 10, b!"foo_bar", b!"foo_bar"⟩] := by decide +kernel

/-- formerly finding `hump_identifier_with_underscore_rejoined` -/
theorem hump_underscore_in_place :
    findCompound A b!"myFooBar_" b!"foo_bar" b!"baz_qux" libStyles = none ∧
    findEnhanced A b!"myFooBar_" b!"foo_bar" b!"baz_qux" (variantKeys A b!"foo_bar" libStyles) libStyles =
      [⟨1, 2, 2, 8, b!"FooBar", b!"FooBar"⟩] := by decide +kernel

/-- the guard does not reject what the pinned tests rely on: a window covering all hump words of a hyphenated identifier,
    a doubled separator INSIDE the term's span, and identifiers mixing `_` and `-` -/
theorem guard_keeps_pinned_behaviour :
    findCompound A b!"FooBarBazQux-config" b!"foo_bar_baz_qux" b!"alpha_beta" libStyles =
      some ⟨b!"FooBarBazQux-config", b!"AlphaBeta-config", .kebab⟩ ∧
    findCompound A b!"my_foo__bar_x" b!"foo_bar" b!"baz_qux" libStyles =
      some ⟨b!"my_foo__bar_x", b!"my_baz_qux_x", .snake⟩ := by decide +kernel

/-- before the fix (the same function without the guard): the three defects, kept as regression anchors -/
theorem C07_before_fix_witnesses :
    findCompoundOld A b!"my__foo_bar_x" b!"foo_bar" b!"baz_qux" libStyles = some ⟨b!"my__foo_bar_x", b!"my_baz_qux_x", .snake⟩ ∧
    findCompoundOld A b!"my_foo_bar__" b!"foo_bar" b!"baz_qux" libStyles = some ⟨b!"my_foo_bar__", b!"my_baz_qux_", .snake⟩ ∧
    findCompoundOld A b!"___foo_bar_x" b!"foo_bar" b!"baz_qux" libStyles = some ⟨b!"___foo_bar_x", b!"__baz_qux_x", .snake⟩ ∧
    findCompoundOld A b!"myFooBar_" b!"foo_bar" b!"baz_qux" libStyles = some ⟨b!"myFooBar_", b!"my_BazQux_", .snake⟩ := by
  decide +kernel

-- 4b. dotted paths: the extractor's dot splitting --------------------------------------------------------------------

/-- whichever shape the dot splitting has, a recorded segment is as long as its span; with the trimming shape no segment
    starts with a hyphen -/
theorem splitDots_spans {trim : Bool} : ∀ (parts : List Bytes) (pos : Nat) {s e : Nat} {t : Bytes},
    (s, e, t) ∈ splitDots trim pos parts → e = s + t.length ∧ pos ≤ s ∧ t ≠ [] ∧ (trim = true → t.head? ≠ some 45)
  | [], _, _, _, _, h => by simp [splitDots] at h
  | p :: ps, pos, s, e, t, h => by
    rw [splitDots] at h
    simp only [List.mem_append] at h
    rcases h with h | h
    · by_cases hne : (if trim = true then p.dropWhile (· == 45) else p).isEmpty = true
      · simp only [hne, if_true, List.not_mem_nil] at h
      · simp only [hne, Bool.false_eq_true, if_false, List.mem_singleton, Prod.mk.injEq] at h
        obtain ⟨rfl, rfl, rfl⟩ := h
        refine ⟨rfl, by omega, by simpa using hne, ?_⟩
        intro ht
        subst ht
        simp only [if_true]
        exact dropWhile_hyphen_head p
    · obtain ⟨h1, h2, h3, h4⟩ := splitDots_spans ps (pos + p.length + 1) h
      exact ⟨h1, by omega, h3, h4⟩

/-- finding `dot_segment_leading_hyphen_rejoined`, on the extractor shape of the pinned tree (parts pushed as they are): the
    part `-foo_bar_wide` of `cfg.-foo_bar_wide` is one identifier, mixes '-' and '_', and is re-joined with '-' -/
theorem C07_witness_dot_segment_leading_hyphen :
    findAllG false libStyles b!"x = cfg.-foo_bar_wide;" = [(0, 1, b!"x"), (4, 7, b!"cfg"), (8, 21, b!"-foo_bar_wide")] ∧
    findEnhancedG false A b!"x = cfg.-foo_bar_wide;" b!"foo_bar" b!"qux_zed" (variantKeys A b!"foo_bar" libStyles) libStyles =
      [⟨1, 8, 8, 21, b!"-foo_bar_wide", b!"qux-zed-wide"⟩] := by decide +kernel

/-- the same inputs on the shape of the proposed repair (leading hyphens trimmed, start moved with them): the identifier is
    `foo_bar_wide` at 9..21 and the edit is local; on a hyphen-only segment both shapes edit locally (the trimmed one through the compound
    matcher, the untrimmed one through the exact pass) -/
theorem dot_segment_leading_hyphen_in_place :
    findAllG true libStyles b!"x = cfg.-foo_bar_wide;" = [(0, 1, b!"x"), (4, 7, b!"cfg"), (9, 21, b!"foo_bar_wide")] ∧
    findEnhancedG true A b!"x = cfg.-foo_bar_wide;" b!"foo_bar" b!"qux_zed" (variantKeys A b!"foo_bar" libStyles) libStyles =
      [⟨1, 9, 9, 21, b!"foo_bar_wide", b!"qux_zed_wide"⟩] ∧
    findEnhancedG true A b!".search-form.-foo-bar-wide {}" b!"foo_bar" b!"qux_zed" (variantKeys A b!"foo_bar" libStyles) libStyles =
      [⟨1, 14, 14, 26, b!"foo-bar-wide", b!"qux-zed-wide"⟩] ∧
    findEnhancedG false A b!".search-form.-foo-bar-wide {}" b!"foo_bar" b!"qux_zed" (variantKeys A b!"foo_bar" libStyles) libStyles =
      [⟨1, 14, 14, 21, b!"foo-bar", b!"foo-bar"⟩] := by
  decide +kernel

-- 5. full strength: any separator multiplicity (snake family) -------------------------------------------------------


/-- snake-case identifier with `n1` underscores between prefix words and term and `n2` between term and suffix words -/
def snakeIdent (lead : Bytes) (pre mid suf : List Bytes) (n1 n2 : Nat) : Bytes :=
  lead ++ (joinWith [95] pre ++ List.replicate n1 95 ++ joinWith [95] mid ++ List.replicate n2 95 ++ joinWith [95] suf)

/-- Full strength for the snake family: whatever the number of underscores between prefix words, term and suffix words,
    an answer of the compound matcher reproduces everything outside the term byte for byte. -/
def C07_full : Prop :=
  ∀ (lead : Bytes) (pre pat rep suf : List Bytes) (n1 n2 : Nat) (c : CMatch),
    (lead = [] ∨ lead = [95] ∨ lead = [95, 95]) →
    Words pre → Words pat → Words rep → Words suf → pre ≠ [] → suf ≠ [] → 2 ≤ pat.length → rep ≠ [] →
    Neutral A (pre ++ pat ++ suf) → OccursOnce pre pat suf → 1 ≤ n1 → 1 ≤ n2 →
    findCompound A (snakeIdent lead pre pat suf n1 n2) (joinWith [95] pat) (joinWith [95] rep) libStyles = some c →
    c.replacement = snakeIdent lead pre rep suf n1 n2

/-- Irregular multiplicities are left to the exact matcher: with more than one underscore between the prefix words and
    the term or between the term and the suffix words, the compound matcher produces nothing (the exact pass then marks
    the term's own span, see `exact_hit_is_a_variant` and `doubled_separator_in_place`). -/
theorem snake_irregular_none {lead : Bytes} {pre pat suf : List Bytes} {n1 n2 : Nat} {new : Bytes}
    (hlead : lead = [] ∨ lead = [95] ∨ lead = [95, 95])
    (hpre : Words pre) (hpat : Words pat) (hsuf : Words suf) (hpne : pre ≠ []) (hsne : suf ≠ []) (h2 : 2 ≤ pat.length)
    (honce : OccursOnce pre pat suf) (h1 : 1 ≤ n1) (h2' : 1 ≤ n2) (h11 : ¬ (n1 = 1 ∧ n2 = 1)) :
    findCompound A (snakeIdent lead pre pat suf n1 n2) (joinWith [95] pat) new libStyles = none := by
  have hpatne : pat ≠ [] := by intro h; rw [h] at h2; simp at h2
  have hws : Words (pre ++ pat ++ suf) := by
    intro w hw
    simp only [List.mem_append] at hw
    rcases hw with (h | h) | h
    · exact hpre w h
    · exact hpat w h
    · exact hsuf w h
  have hold : parse A (joinWith [95] pat) = pat := parse_lower_sep acrOk (by decide) hpat.lowerWords
  cases hfc : findCompound A (snakeIdent lead pre pat suf n1 n2) (joinWith [95] pat) new libStyles with
  | none => rfl
  | some c =>
  exfalso
  obtain ⟨p0, ps, rfl⟩ := List.exists_cons_of_ne_nil hpne
  obtain ⟨q0, qs, rfl⟩ := List.exists_cons_of_ne_nil hpatne
  obtain ⟨s0, ss, rfl⟩ := List.exists_cons_of_ne_nil hsne
  have hl := hws.lowerWords
  have ha := alpha_lowerWords hl
  have hp0 := hl p0 (by simp)
  obtain ⟨c0, r0, hr0⟩ := List.exists_cons_of_ne_nil hp0.1
  have hhead : (joinWith [95] (p0 :: ps) ++ List.replicate n1 95 ++ joinWith [95] (q0 :: qs) ++ List.replicate n2 95 ++
      joinWith [95] (s0 :: ss)).head? = some c0 := by
    rw [joinWith_eq_tailOf, hr0]; rfl
  have hex := extractPrefix_lead hlead hhead (lower_alpha (hp0.2 c0 (by rw [hr0]; simp)))
  have f45 := contains_body_false (c := 45) (by decide) (by decide) ha n1 n2
  have f46 := contains_body_false (c := 46) (by decide) (by decide) ha n1 n2
  have f95 : contains (joinWith [95] (p0 :: ps) ++ List.replicate n1 95 ++ joinWith [95] (q0 :: qs) ++ List.replicate n2 95 ++
      joinWith [95] (s0 :: ss)) 95 = true := by
    obtain ⟨k, rfl⟩ : ∃ k, n1 = k + 1 := ⟨n1 - 1, by omega⟩
    simp [contains, List.any_append, List.replicate_succ]
  have hsc : shortcutCond (joinWith [95] (p0 :: ps) ++ List.replicate n1 95 ++ joinWith [95] (q0 :: qs) ++
      List.replicate n2 95 ++ joinWith [95] (s0 :: ss)) (joinWith [95] (q0 :: qs)) = false := by
    simp only [shortcutCond, f45, f46, Bool.and_false, Bool.or_self, Bool.false_and]
  have hparse := parse_three_blocks (A := A) (d := 95) (by decide) (xs := p0 :: ps) (ys := q0 :: qs) (zs := s0 :: ss)
    (by simp) (by simp) (by simp) (fun r hr => good_lower acrOk (hl r hr).1 (hl r hr).2) h1 h2'
  have hg := findCompound_guard hfc (by rw [snakeIdent, hex]; exact hsc)
  rw [snakeIdent, hex] at hg
  simp only [hparse, hold] at hg
  have hmw := mw_once (pat := q0 :: qs) (by simp) (fun p hp => lower_of_lower (hpat p hp).2) (p0 :: ps) (s0 :: ss) 0
    (fun w hw => by
      simp only [List.mem_append] at hw
      rcases hw with h | h
      · exact lower_of_lower (hpre w h).2
      · exact lower_of_lower (hsuf w h).2) honce
  rw [hmw] at hg
  have hwords : ∀ t ∈ (p0 :: ps) ++ (q0 :: qs) ++ (s0 :: ss), t ≠ [] ∧ ∀ c ∈ t, isAlnum c = true :=
    fun t ht => ⟨(hl t ht).1, fun c hc => lower_alnum ((hl t ht).2 c hc)⟩
  have hgo := gapsOk_three_blocks [(0 + (p0 :: ps).length, 0 + (p0 :: ps).length + (q0 :: qs).length)] hwords n1 n2
  simp only [survivesRejoin, f95, f45, Bool.and_false, Bool.false_eq_true, if_false, if_true, hgo] at hg
  simp only [insideWindow, List.any_cons, List.any_nil, List.length_cons, Nat.zero_add, Nat.lt_irrefl, decide_false,
    Bool.false_and, Bool.and_false, Bool.or_false, Bool.false_or, Bool.and_eq_true, beq_iff_eq] at hg
  exact h11 hg

theorem C07_full_holds : C07_full := by
  intro lead pre pat rep suf n1 n2 c hlead hpre hpat hrep hsuf hpne hsne h2 hrne hN honce h1 h2' hfc
  have hpatne : pat ≠ [] := by intro h; rw [h] at h2; simp at h2
  have hws : Words (pre ++ pat ++ suf) := by
    intro w hw
    simp only [List.mem_append] at hw
    rcases hw with (h | h) | h
    · exact hpre w h
    · exact hpat w h
    · exact hsuf w h
  have hold : parse A (joinWith [95] pat) = pat := parse_lower_sep acrOk (by decide) hpat.lowerWords
  have hnew : parse A (joinWith [95] rep) = rep := parse_lower_sep acrOk (by decide) hrep.lowerWords
  by_cases h11 : n1 = 1 ∧ n2 = 1
  · obtain ⟨rfl, rfl⟩ := h11
    have e : ∀ mid : List Bytes, mid ≠ [] → snakeIdent lead pre mid suf 1 1 = lead ++ joinWith [95] (pre ++ mid ++ suf) := by
      intro mid hm
      rw [snakeIdent, joinWith_append 95 (pre ++ mid) suf (by simp [hpne]) hsne, joinWith_append 95 pre mid hpne hm]
      simp [List.replicate]
    have hloc := compound_locality_partial acrOk acrStable (st := .snake) (by decide) hlead hpre hsuf hpat hrep hN h2 hrne
      (by simp [hpne]) honce hold hnew (styles := libStyles) (by decide)
    have hl1 : LowerWords (pre ++ pat ++ suf) := hws.lowerWords
    have hl2 : LowerWords (pre ++ rep ++ suf) := by
      intro w hw
      simp only [List.mem_append] at hw
      rcases hw with (h | h) | h
      · exact (hpre w h).lowerWord
      · exact (hrep w h).lowerWord
      · exact (hsuf w h).lowerWord
    rw [toStyle_words A hl1, toStyle_words A hl2] at hloc
    rw [e pat hpatne, hloc] at hfc
    cases hfc
    exact (e rep hrne).symm
  · have := snake_irregular_none hlead hpre hpat hsuf hpne hsne h2 honce h1 h2' h11 (new := joinWith [95] rep)
    rw [this] at hfc
    cases hfc


/-- non-vacuity of `C07_full_holds` (regular case, the matcher answers) and of `snake_irregular_none` -/
example : findCompound A (snakeIdent b!"_" [b!"my"] [b!"foo", b!"bar"] [b!"item"] 1 1) b!"foo_bar" b!"baz_qux" libStyles =
    some ⟨b!"_my_foo_bar_item", b!"_my_baz_qux_item", .snake⟩ := by decide +kernel
example : findCompound A b!"my___foo_bar__item" b!"foo_bar" b!"baz_qux" libStyles = none :=
  snake_irregular_none (lead := []) (pre := [b!"my"]) (pat := [b!"foo", b!"bar"]) (suf := [b!"item"]) (n1 := 3) (n2 := 2)
    (by decide) (by decide) (by decide) (by decide) (by decide) (by decide) (by decide) ⟨by decide, by decide⟩
    (by decide) (by decide) (by decide)

/-- the guards of `compound_locality_partial` seen from outside: a single trailing separator is still restored, and a
    digit word keeps its place -/
theorem trailing_single_and_digits_preserved :
    findCompound A b!"my_foo_bar_" b!"foo_bar" b!"baz_qux" libStyles = some ⟨b!"my_foo_bar_", b!"my_baz_qux_", .snake⟩ ∧
    findCompound A b!"v2_foo_bar_2" b!"foo_bar" b!"baz_qux" libStyles = some ⟨b!"v2_foo_bar_2", b!"v2_baz_qux_2", .snake⟩ ∧
    findCompound A b!"foo_bar2" b!"foo_bar" b!"baz_qux" libStyles = none := by decide +kernel

end C07
