import RModel.Base.Lit
import RModel.Model.Serde
import RModel.Lemmas.Serde
import RModel.Gen.SerdeSchema
import RModel.Gen.SerdeVerdict
/-
  C17 — Plans survive being saved and reloaded.   (property theorems only)

  Model: `Serde.ser` / `Serde.de` are serde-derive's rules for a struct, driven by a schema of field
  attributes; `Gen.planTy` / `Gen.historyEntryTy` are regenerated from the `#[serde(...)]` attributes of
  `Plan, MatchHunk, Rename, Stats, RenameKind, Style, HistoryEntry` on every run.

  Full statement (`C17_full`): every well-typed plan value `v` satisfies `de planTy (ser planTy v) = ok v`.
  It is equivalent to `SchemaOk Gen.planTy` (`C17_full_iff`), a closed decidable fact about the generated
  schema that the translator records in `Gen/SerdeVerdict.lean` (`Gen.planVerdict`), re-checked by `decide`.
  On the unchanged tree the verdict is `false`: `MatchHunk.replace` and `Rename.new_path` are dropped when
  empty (`skip_serializing_if`) but required on reading (no `default`).  Proved in every case:
   * `roundtrip_iff`           exact characterisation for every schema and value (nested structs, Option, Vec, …)
   * `plan_roundtrip_partial`  round-trip for every plan in which none of the listed fields is empty
   * `C17_witness_*`           the concrete plans on which loading fails, if the field is (still) offending
   * `plan_roundtrip`          the full theorem, under the hypothesis `Gen.planVerdict = true`
-/
namespace C17
open Serde

/-- Exact characterisation, any schema: a value survives `save; load` iff wherever one of its fields is
    skipped on writing, the missing-key rule of that field returns exactly the skipped value. -/
theorem roundtrip_iff (t : Ty) (v : RVal) (hwf : wf t = true) (hw : wellTyped t v = true) :
    de t (ser t v) = .ok v ↔ guard t v = true :=
  Serde.roundtrip_iff t v hwf hw

/-- Flat form of the same statement for one struct whose field values round-trip individually:
    the struct round-trips iff no field is (skipped ∧ required) and every skipped field's default is its value. -/
theorem struct_roundtrip_iff (n : Bytes) (deny : Bool) (fs : List Field) (vs : List RVal)
    (hwf : wf (.struct n deny fs) = true) (hw : wellTyped (.struct n deny fs) (.record vs) = true) :
    de (.struct n deny fs) (ser (.struct n deny fs) (.record vs)) = .ok (.record vs)
      ↔ guardFields fs vs = true := by
  rw [Serde.roundtrip_iff _ _ hwf hw]; simp [Serde.guard]

/-- what `guardFields` says for the first field: skipped ⇒ the missing-key value is the value (in particular
    the field is not `required`); not skipped ⇒ the field's own value round-trips -/
theorem guardFields_cons (n : Bytes) (t : Ty) (k : Skip) (m : Missing) (fs : List Field) (v : RVal) (vs : List RVal) :
    guardFields (.mk n t k m :: fs) (v :: vs) = true ↔
      ((skipped k v = true → missingValue t m = some v) ∧ (skipped k v = false → guard t v = true))
        ∧ guardFields fs vs = true := by
  simp only [guardFields, Bool.and_eq_true]
  cases skipped k v <;> simp

/-- a skipped required field always breaks the round-trip -/
theorem required_skipped_breaks (n : Bytes) (t : Ty) (k : Skip) (fs : List Field) (v : RVal) (vs : List RVal)
    (hs : skipped k v = true) : guardFields (.mk n t k .required :: fs) (v :: vs) = false := by
  simp [guardFields, hs, missingValue]

/-- lifting through `Vec` -/
theorem vec_roundtrip_iff (t : Ty) (vs : List RVal) (hwf : wf t = true) (hw : ∀ x ∈ vs, wellTyped t x = true) :
    de (.vec t) (ser (.vec t) (.list vs)) = .ok (.list vs) ↔ ∀ x ∈ vs, de t (ser t x) = .ok x := by
  rw [Serde.roundtrip_iff (.vec t) (.list vs) (by simpa [wf] using hwf) (by simpa [wellTyped] using hw)]
  simp only [Serde.guard, List.all_eq_true]
  exact ⟨fun h x hx => (Serde.roundtrip_iff t x hwf (hw x hx)).mpr (h x hx),
         fun h x hx => (Serde.roundtrip_iff t x hwf (hw x hx)).mp (h x hx)⟩

/-- lifting through `Option` -/
theorem opt_roundtrip_iff (t : Ty) (x : RVal) (hwf : wf t = true) (hno : t.isOpt = false) (hw : wellTyped t x = true) :
    de (.opt t) (ser (.opt t) (.some x)) = .ok (.some x) ↔ de t (ser t x) = .ok x := by
  rw [Serde.roundtrip_iff (.opt t) (.some x) (by simp [wf, hwf, hno]) (by simpa [wellTyped] using hw),
      Serde.roundtrip_iff t x hwf hw]
  simp [Serde.guard]

theorem opt_none_roundtrip (t : Ty) : de (.opt t) (ser (.opt t) .none) = .ok .none := by
  simp [ser, de, J.isNull]

/-- The decidable schema check is sufficient: every skippable field has a missing-key rule returning the
    skipped value ⇒ every well-typed value round-trips. -/
theorem roundtrip_of_schemaOk (t : Ty) (h : SchemaOk t = true) (v : RVal) (hw : wellTyped t v = true) :
    de t (ser t v) = .ok v :=
  Serde.roundtrip_of_schemaOk t h v hw

/-- … and with a list of excepted fields, for every value in which none of those is skipped. -/
theorem roundtrip_of_schemaOkExcept (bad : List (Bytes × Bytes)) (t : Ty) (v : RVal)
    (hs : SchemaOkExcept bad t = true) (hw : wellTyped t v = true) (hg : guardOn bad t v = true) :
    de t (ser t v) = .ok v :=
  Serde.roundtrip_of_schemaOkExcept bad t v hs hw hg

-- the generated schema ---------------------------------------------------------------------------------

/-- the property at full strength -/
def C17_full : Prop := ∀ v, wellTyped Gen.planTy v = true → de Gen.planTy (ser Gen.planTy v) = .ok v

/-- Apart from the fields listed in KNOWN_FINDINGS (`Gen.knownBad` = `MatchHunk.replace`, `Rename.new_path`)
    every skippable field of `Plan` is restored on reading.  Fails to compile as soon as another field is
    dropped-but-required (a removed `default` on a non-`Option` field, a new `skip_serializing_if`). -/
theorem schemaOkExcept_plan : SchemaOkExcept Gen.knownBad Gen.planTy = true := by decide

/-- C17 for every plan in which no hunk has an empty `replace` and no rename an empty `new_path`
    (`guardOn Gen.knownBad`): the saved plan loads and equals the plan. -/
theorem plan_roundtrip_partial (v : RVal) (hw : wellTyped Gen.planTy v = true)
    (hg : guardOn Gen.knownBad Gen.planTy v = true) : de Gen.planTy (ser Gen.planTy v) = .ok v :=
  Serde.roundtrip_of_schemaOkExcept Gen.knownBad Gen.planTy v schemaOkExcept_plan hw hg

/-- Non-vacuity: the fully populated plan (one hunk, one rename, every optional field `Some`, one created
    directory, one `matches_by_variant` entry) is well-typed and satisfies the guard … -/
example : wellTyped Gen.planTy (sample Gen.planTy) = true ∧ guardOn Gen.knownBad Gen.planTy (sample Gen.planTy) = true := by
  decide

/-- … and the guard is exactly about empty strings in the two listed fields: a hunk `{replace: ""}` violates it. -/
example : guardOn [(b!"H", b!"replace")] (.vec (.struct b!"H" false [.mk b!"replace" .str .strEmpty .required]))
            (.list [.record [.str b!"x"], .record [.str b!""]]) = false := by decide

/-- The full theorem, available as soon as the regenerated schema passes the check (`#[serde(default)]` on
    the two fields): every plan from every entry point survives `save; load`. -/
theorem plan_roundtrip (h : Gen.planVerdict = true) : C17_full :=
  fun v hw => Serde.roundtrip_of_schemaOk Gen.planTy (Gen.planVerdict_eq.trans h) v hw

/-- Every field the schema check reports is a genuine counterexample: the value built from it
    (`witnessFor`: that field skipped, everything else populated) is a well-typed plan that does not survive. -/
def witnessFails (t : Ty) (p : Bytes × Bytes) : Bool :=
  match witnessFor p.1 p.2 t with
  | some w => wellTyped t w && !decide (de t (ser t w) = .ok w)
  | none => false

theorem plan_offending_witnessed : (offending Gen.planTy).all (witnessFails Gen.planTy) = true := by decide

/-- the decidable check is exact for the generated schema: C17 holds iff the verdict is `true` -/
theorem C17_full_iff : C17_full ↔ Gen.planVerdict = true := by
  constructor
  · intro hfull
    rw [← Gen.planVerdict_eq]
    have hwf : wf Gen.planTy = true := by decide
    have hall := plan_offending_witnessed
    cases ho : offending Gen.planTy with
    | nil => simp [SchemaOk, hwf, ho]
    | cons p ps =>
      rw [ho] at hall
      simp only [List.all_cons, Bool.and_eq_true, witnessFails] at hall
      cases hwit : witnessFor p.1 p.2 Gen.planTy with
      | none => rw [hwit] at hall; simp at hall
      | some w =>
        rw [hwit] at hall
        simp only [Bool.and_eq_true, Bool.not_eq_true', decide_eq_false_iff_not] at hall
        exact absurd (hfull w hall.1.1) hall.1.2
  · exact plan_roundtrip

/-- Known defect 1 (conditional on the field still being offending, so that this file compiles before and
    after the repair; `Gen.planOffending_eq` states which case holds): the plan of a deletion — a hunk whose
    `replace` is empty — is written without the key and cannot be loaded: "missing field `replace`". -/
theorem C17_witness_empty_replace :
    (offending Gen.planTy).contains (b!"MatchHunk", b!"replace") = true →
    (witnessFor b!"MatchHunk" b!"replace" Gen.planTy).map
        (fun w => (wellTyped Gen.planTy w, de Gen.planTy (ser Gen.planTy w)))
      = some (true, .error (.missingField b!"replace")) := by decide

/-- Known defect 2: a rename with an empty `new_path` (only produced by `search`, or through the library API)
    cannot be loaded: "missing field `new_path`". -/
theorem C17_witness_empty_new_path :
    (offending Gen.planTy).contains (b!"Rename", b!"new_path") = true →
    (witnessFor b!"Rename" b!"new_path" Gen.planTy).map
        (fun w => (wellTyped Gen.planTy w, de Gen.planTy (ser Gen.planTy w)))
      = some (true, .error (.missingField b!"new_path")) := by decide

/-- The mechanism in isolation (fixed schema, independent of the generated one): `skip_serializing_if`
    without `default` loses the empty string; with `default` it is restored. -/
theorem skip_without_default_fails :
    de (.struct b!"H" false [.mk b!"content" .str .never .required, .mk b!"replace" .str .strEmpty .required])
       (ser (.struct b!"H" false [.mk b!"content" .str .never .required, .mk b!"replace" .str .strEmpty .required])
            (.record [.str b!" foo", .str b!""]))
      = .error (.missingField b!"replace") := by decide

theorem skip_with_default_roundtrips :
    de (.struct b!"H" false [.mk b!"content" .str .never .required, .mk b!"replace" .str .strEmpty .default])
       (ser (.struct b!"H" false [.mk b!"content" .str .never .required, .mk b!"replace" .str .strEmpty .default])
            (.record [.str b!" foo", .str b!""]))
      = .ok (.record [.str b!" foo", .str b!""]) := by decide

/-- the same for `PathBuf` / `is_empty_path` -/
theorem skip_path_without_default_fails :
    de (.struct b!"R" false [.mk b!"path" .path .never .required, .mk b!"new_path" .path .pathEmpty .required])
       (ser (.struct b!"R" false [.mk b!"path" .path .never .required, .mk b!"new_path" .path .pathEmpty .required])
            (.record [.str b!"a/b", .str b!""]))
      = .error (.missingField b!"new_path") := by decide

/-- `Option` fields are safe with or without `default`: a missing key is `None` -/
theorem option_skip_is_safe (m : Missing) (hm : m = .default ∨ m = .implicitNone) (t : Ty) :
    fieldOk (.opt t) .optNone m = true := by
  cases hm with
  | inl h => subst h; simp [fieldOk, Skip.value, missingValue, Ty.default]
  | inr h => subst h; simp [fieldOk, Skip.value, missingValue]

/-- The history file (`Vec<HistoryEntry>`) always round-trips: no field of `HistoryEntry` is skippable. -/
theorem history_roundtrip (v : RVal) (hw : wellTyped Gen.historyTy v = true) :
    de Gen.historyTy (ser Gen.historyTy v) = .ok v :=
  Serde.roundtrip_of_schemaOk Gen.historyTy (by decide) v hw

example : wellTyped Gen.historyTy (sample Gen.historyTy) = true := by decide

/-- "Applying a saved plan has the same effect as applying it directly": whatever `apply` does with a plan,
    doing it with the reloaded plan gives the same result, for every plan that round-trips. -/
theorem apply_saved_eq_apply_direct {α} (apply : RVal → α) (t : Ty) (v : RVal)
    (h : de t (ser t v) = .ok v) : okMap apply (de t (ser t v)) = (.ok (apply v) : Except DeErr α) := by
  rw [h]; rfl

theorem apply_saved_plan_partial {α} (apply : RVal → α) (v : RVal) (hw : wellTyped Gen.planTy v = true)
    (hg : guardOn Gen.knownBad Gen.planTy v = true) :
    okMap apply (de Gen.planTy (ser Gen.planTy v)) = (.ok (apply v) : Except DeErr α) :=
  apply_saved_eq_apply_direct apply _ v (plan_roundtrip_partial v hw hg)

end C17
