import RModel.Gen.ExecFlags
import RModel.Base.Lit
import RModel.Model.Serde
import RModel.Lemmas.Serde
import RModel.Gen.SerdeSchema
import RModel.Gen.SerdeVerdict
/-
  C17 — Plans survive being saved and reloaded.   (property theorems only)

  Model: `Serde.ser` / `Serde.de` are serde-derive's rules for a struct, driven by a schema of field
  attributes; `Gen.planTy` / `Gen.historyEntryTy` are regenerated from the `#[serde(...)]` attributes of
  `Plan, MatchHunk, Rename, Stats, RenameKind, Style, HistoryEntry` on every run.

  Full statement (`C17_full`): every well-typed plan value `v` satisfies `de planTy (ser planTy v) = ok v`.
  It is equivalent to `SchemaOk Gen.planTy` (`C17_full_iff`), a closed decidable fact about the generated
  schema that the translator records in `Gen/SerdeVerdict.lean` (`Gen.planVerdict`, `Gen.planVerdict_is_true`),
  re-checked by `decide`.  Since repo commit 7e5290d (`#[serde(default)]` on `MatchHunk.replace` and
  `Rename.new_path`) the verdict is `true` and the property is proved unguarded:
   * `roundtrip_iff`           exact characterisation for every schema and value (nested structs, Option, Vec, …)
   * `plan_roundtrip_all`      C17_full for the regenerated schema (breaks as soon as the schema regresses)
   * `history_roundtrip`       the history file
   * `Old.*`, `C17_witness_*`  the schema before the repair, its guarded theorem and the two kernel-evaluated witnesses
-/
namespace C17
open Serde

/-- Exact characterisation, any schema: a value survives `save; load` iff wherever one of its fields is
    skipped on writing, the missing-key rule of that field returns exactly the skipped value. -/
theorem roundtrip_iff (t : Ty) (v : RVal) (hwf : wf t = true) (hw : wellTyped t v = true) :
    de t (ser t v) = .ok v ↔ guard t v = true :=
  Serde.roundtrip_iff t v hwf hw

/-- Flat form of the same statement for one struct whose field values round-trip individually:
    the struct round-trips iff no field is (skipped ∧ required) and every skipped field's default is its value. -/
theorem struct_roundtrip_iff (n : Bytes) (deny : Bool) (fs : List Field) (vs : List RVal)
    (hwf : wf (.struct n deny fs) = true) (hw : wellTyped (.struct n deny fs) (.record vs) = true) :
    de (.struct n deny fs) (ser (.struct n deny fs) (.record vs)) = .ok (.record vs)
      ↔ guardFields fs vs = true := by
  rw [Serde.roundtrip_iff _ _ hwf hw]; simp [Serde.guard]

/-- what `guardFields` says for the first field: skipped ⇒ the missing-key value is the value (in particular
    the field is not `required`); not skipped ⇒ the field's own value round-trips -/
theorem guardFields_cons (n : Bytes) (t : Ty) (k : Skip) (m : Missing) (fs : List Field) (v : RVal) (vs : List RVal) :
    guardFields (.mk n t k m :: fs) (v :: vs) = true ↔
      ((skipped k v = true → missingValue t m = some v) ∧ (skipped k v = false → guard t v = true))
        ∧ guardFields fs vs = true := by
  simp only [guardFields, Bool.and_eq_true]
  cases skipped k v <;> simp

/-- a skipped required field always breaks the round-trip -/
theorem required_skipped_breaks (n : Bytes) (t : Ty) (k : Skip) (fs : List Field) (v : RVal) (vs : List RVal)
    (hs : skipped k v = true) : guardFields (.mk n t k .required :: fs) (v :: vs) = false := by
  simp [guardFields, hs, missingValue]

/-- lifting through `Vec` -/
theorem vec_roundtrip_iff (t : Ty) (vs : List RVal) (hwf : wf t = true) (hw : ∀ x ∈ vs, wellTyped t x = true) :
    de (.vec t) (ser (.vec t) (.list vs)) = .ok (.list vs) ↔ ∀ x ∈ vs, de t (ser t x) = .ok x := by
  rw [Serde.roundtrip_iff (.vec t) (.list vs) (by simpa [wf] using hwf) (by simpa [wellTyped] using hw)]
  simp only [Serde.guard, List.all_eq_true]
  exact ⟨fun h x hx => (Serde.roundtrip_iff t x hwf (hw x hx)).mpr (h x hx),
         fun h x hx => (Serde.roundtrip_iff t x hwf (hw x hx)).mp (h x hx)⟩

/-- lifting through `Option` -/
theorem opt_roundtrip_iff (t : Ty) (x : RVal) (hwf : wf t = true) (hno : t.isOpt = false) (hw : wellTyped t x = true) :
    de (.opt t) (ser (.opt t) (.some x)) = .ok (.some x) ↔ de t (ser t x) = .ok x := by
  rw [Serde.roundtrip_iff (.opt t) (.some x) (by simp [wf, hwf, hno]) (by simpa [wellTyped] using hw),
      Serde.roundtrip_iff t x hwf hw]
  simp [Serde.guard]

theorem opt_none_roundtrip (t : Ty) : de (.opt t) (ser (.opt t) .none) = .ok .none := by
  simp [ser, de, J.isNull]

/-- The decidable schema check is sufficient: every skippable field has a missing-key rule returning the
    skipped value ⇒ every well-typed value round-trips. -/
theorem roundtrip_of_schemaOk (t : Ty) (h : SchemaOk t = true) (v : RVal) (hw : wellTyped t v = true) :
    de t (ser t v) = .ok v :=
  Serde.roundtrip_of_schemaOk t h v hw

/-- … and with a list of excepted fields, for every value in which none of those is skipped. -/
theorem roundtrip_of_schemaOkExcept (bad : List (Bytes × Bytes)) (t : Ty) (v : RVal)
    (hs : SchemaOkExcept bad t = true) (hw : wellTyped t v = true) (hg : guardOn bad t v = true) :
    de t (ser t v) = .ok v :=
  Serde.roundtrip_of_schemaOkExcept bad t v hs hw hg

-- the generated schema ---------------------------------------------------------------------------------

/-- the property at full strength -/
def C17_full : Prop := ∀ v, wellTyped Gen.planTy v = true → de Gen.planTy (ser Gen.planTy v) = .ok v

/-- The full theorem in terms of the verdict the translator records for the schema it extracted. -/
theorem plan_roundtrip (h : Gen.planVerdict = true) : C17_full :=
  fun v hw => Serde.roundtrip_of_schemaOk Gen.planTy (Gen.planVerdict_eq.trans h) v hw

/-- Every skippable field of `Plan`, `MatchHunk`, `Rename` (as regenerated from the source on this run) is
    restored on reading.  `Gen.planVerdict_is_true` exists only if the translator found the schema fine and is
    re-checked by `decide`; this line fails to compile as soon as a field is dropped-but-required again
    (a removed `default` on a non-`Option` field, a new `skip_serializing_if` without `default`). -/
theorem schemaOk_plan : SchemaOk Gen.planTy = true := Gen.planVerdict_eq.trans Gen.planVerdict_is_true

/-- **C17 (serialisation half), unguarded**: every well-typed plan value — from any planner entry point, with
    empty replacement strings, any text, absolute or relative paths, every optional field present or absent —
    written with the derive rules and read back is the same plan. -/
theorem plan_roundtrip_all : C17_full := plan_roundtrip Gen.planVerdict_is_true

/-- Non-vacuity: the fully populated plan is well-typed, and so is the plan of a deletion (the value in which
    a hunk's `replace` is the empty string), which round-trips now. -/
example : wellTyped Gen.planTy (sample Gen.planTy) = true := by decide
example : (witnessFor b!"MatchHunk" b!"replace" Gen.planTy).map
            (fun w => (wellTyped Gen.planTy w, decide (de Gen.planTy (ser Gen.planTy w) = .ok w))) = some (true, true) := by
  decide
example : (witnessFor b!"Rename" b!"new_path" Gen.planTy).map
            (fun w => (wellTyped Gen.planTy w, decide (de Gen.planTy (ser Gen.planTy w) = .ok w))) = some (true, true) := by
  decide

/-- Every field the schema check reports is a genuine counterexample: the value built from it
    (`witnessFor`: that field skipped, everything else populated) is a well-typed plan that does not survive. -/
def witnessFails (t : Ty) (p : Bytes × Bytes) : Bool :=
  match witnessFor p.1 p.2 t with
  | some w => wellTyped t w && !decide (de t (ser t w) = .ok w)
  | none => false

theorem plan_offending_witnessed : (offending Gen.planTy).all (witnessFails Gen.planTy) = true := by decide

/-- the decidable check is exact for the generated schema: C17 holds iff the verdict is `true` -/
theorem C17_full_iff : C17_full ↔ Gen.planVerdict = true := by
  constructor
  · intro hfull
    rw [← Gen.planVerdict_eq]
    have hwf : wf Gen.planTy = true := by decide
    have hall := plan_offending_witnessed
    cases ho : offending Gen.planTy with
    | nil => simp [SchemaOk, hwf, ho]
    | cons p ps =>
      rw [ho] at hall
      simp only [List.all_cons, Bool.and_eq_true, witnessFails] at hall
      cases hwit : witnessFor p.1 p.2 Gen.planTy with
      | none => rw [hwit] at hall; simp at hall
      | some w =>
        rw [hwit] at hall
        simp only [Bool.and_eq_true, Bool.not_eq_true', decide_eq_false_iff_not] at hall
        exact absurd (hfull w hall.1.1) hall.1.2
  · exact plan_roundtrip

-- the schema before repo commit 7e5290d (kept as a constant: the defect that was found and repaired) -----

namespace Old

/-- `MatchHunk` as it was: `replace` dropped when empty, no `default` -/
def matchHunkTy : Ty := .struct b!"MatchHunk" false [
  .mk b!"file" .path .never .required,
  .mk b!"line" .num .never .required,
  .mk b!"byte_offset" .num .never .required,
  .mk b!"char_offset" .num .never .required,
  .mk b!"variant" .str .never .required,
  .mk b!"content" .str .never .required,
  .mk b!"replace" .str .strEmpty .required,
  .mk b!"start" .num .never .required,
  .mk b!"end" .num .never .required,
  .mk b!"line_before" (.opt .str) .optNone .implicitNone,
  .mk b!"line_after" (.opt .str) .optNone .implicitNone,
  .mk b!"coercion_applied" (.opt .str) .optNone .implicitNone,
  .mk b!"original_file" (.opt .path) .optNone .default,
  .mk b!"renamed_file" (.opt .path) .optNone .default,
  .mk b!"patch_hash" (.opt .str) .optNone .default]

/-- `Rename` as it was: `new_path` dropped when empty, no `default` -/
def renameTy : Ty := .struct b!"Rename" false [
  .mk b!"path" .path .never .required,
  .mk b!"new_path" .path .pathEmpty .required,
  .mk b!"kind" (.enum b!"RenameKind" [b!"file", b!"dir"]) .never .required,
  .mk b!"coercion_applied" (.opt .str) .optNone .implicitNone]

def planTy : Ty := .struct b!"Plan" false [
  .mk b!"id" .str .never .required,
  .mk b!"created_at" .str .never .required,
  .mk b!"search" .str .never .required,
  .mk b!"replace" .str .never .required,
  .mk b!"styles" (.vec (.enum b!"Style" [b!"Snake", b!"Kebab", b!"Camel", b!"Pascal"])) .never .required,
  .mk b!"includes" (.vec .str) .never .required,
  .mk b!"excludes" (.vec .str) .never .required,
  .mk b!"matches" (.vec matchHunkTy) .never .required,
  .mk b!"paths" (.vec renameTy) .never .required,
  .mk b!"stats" (.struct b!"Stats" false [
      .mk b!"files_scanned" .num .never .required,
      .mk b!"total_matches" .num .never .required,
      .mk b!"matches_by_variant" (.map .num) .never .required,
      .mk b!"files_with_matches" .num .never .required]) .never .required,
  .mk b!"version" .str .never .required,
  .mk b!"created_directories" (.opt (.vec .path)) .optNone .default]

def knownBad : List (Bytes × Bytes) := [(b!"MatchHunk", b!"replace"), (b!"Rename", b!"new_path")]

end Old

/-- the old schema failed the check, through exactly the two fields -/
theorem old_schema_offending : offending Old.planTy = Old.knownBad ∧ SchemaOk Old.planTy = false := by decide

/-- what did hold before the repair: every plan without an empty `replace` / `new_path` survived -/
theorem old_plan_roundtrip_partial (v : RVal) (hw : wellTyped Old.planTy v = true)
    (hg : guardOn Old.knownBad Old.planTy v = true) : de Old.planTy (ser Old.planTy v) = .ok v :=
  Serde.roundtrip_of_schemaOkExcept Old.knownBad Old.planTy v (by decide) hw hg

example : wellTyped Old.planTy (sample Old.planTy) = true ∧ guardOn Old.knownBad Old.planTy (sample Old.planTy) = true := by
  decide

/-- Defect 1 (repaired by 7e5290d): the plan of a deletion — a hunk whose `replace` is empty — was written
    without the key and could not be loaded: "missing field `replace`"
    (`rename foo_bar "" -y` then `undo`; `plan foo_bar ""` then `apply`). -/
theorem C17_witness_empty_replace :
    (witnessFor b!"MatchHunk" b!"replace" Old.planTy).map
        (fun w => (wellTyped Old.planTy w, de Old.planTy (ser Old.planTy w)))
      = some (true, .error (.missingField b!"replace")) := by decide

/-- Defect 2 (repaired by 7e5290d): a rename with an empty `new_path` (what an empty replacement plans for
    every matching name) could not be loaded: "missing field `new_path`". -/
theorem C17_witness_empty_new_path :
    (witnessFor b!"Rename" b!"new_path" Old.planTy).map
        (fun w => (wellTyped Old.planTy w, de Old.planTy (ser Old.planTy w)))
      = some (true, .error (.missingField b!"new_path")) := by decide

/-- the same two values survive under the current schema (the repair is what makes the difference) -/
theorem repaired_witnesses_roundtrip :
    (witnessFor b!"MatchHunk" b!"replace" Gen.planTy).map (fun w => decide (de Gen.planTy (ser Gen.planTy w) = .ok w)) = some true ∧
    (witnessFor b!"Rename" b!"new_path" Gen.planTy).map (fun w => decide (de Gen.planTy (ser Gen.planTy w) = .ok w)) = some true := by
  decide

-- loaders ------------------------------------------------------------------------------------------------

/-- a plain loader is the parser -/
theorem load_plain (accept : RVal → Bool) (t : Ty) (j : J) : load true accept t j = de t j := by
  unfold load; cases de t j <;> simp

/-- … and a loader with an acceptance condition is not: whatever parses but is not accepted is lost.
    (`read_plan`-style version gates are of this form: the schema is fine, the value parses, the load fails.) -/
theorem load_rejects (accept : RVal → Bool) (t : Ty) (v : RVal) (h : de t (ser t v) = .ok v) (hr : accept v = false) :
    load false accept t (ser t v) = .error .rejected := by
  unfold load; rw [h]; simp [hr]

/-- **C17, code-level statement**: whatever the planners produce (any well-typed plan), written by the code and
    read back by any of the code's loaders (`Gen.loaderSites`: apply from a path / an id / the default file, undo,
    redo, status), is the same plan.  `Gen.loadersPlain_is_true` exists only if the translator found no rejection
    depending on the loaded value after any parse of a `Plan`; a new acceptance condition removes it and this
    theorem stops compiling. -/
theorem plan_load_roundtrip_all (accept : RVal → Bool) (v : RVal) (hw : wellTyped Gen.planTy v = true) :
    load Gen.loadersPlain accept Gen.planTy (ser Gen.planTy v) = .ok v := by
  rw [Gen.loadersPlain_is_true, load_plain]; exact plan_roundtrip_all v hw

theorem history_load_roundtrip_all (accept : RVal → Bool) (v : RVal) (hw : wellTyped Gen.historyTy v = true) :
    load Gen.loadersPlain accept Gen.historyTy (ser Gen.historyTy v) = .ok v := by
  rw [Gen.loadersPlain_is_true, load_plain]
  exact Serde.roundtrip_of_schemaOk Gen.historyTy (by decide) v hw

/-- non-vacuity of `load_rejects`: a version gate on a one-field plan -/
example : load false (fun v => decide (v = .record [.str b!"1.0.0"])) (.struct b!"P" false [.mk b!"version" .str .never .required])
            (ser (.struct b!"P" false [.mk b!"version" .str .never .required]) (.record [.str b!"0.6.0"]))
          = .error .rejected := by decide

/-- The mechanism in isolation (fixed schema, independent of the generated one): `skip_serializing_if`
    without `default` loses the empty string; with `default` it is restored. -/
theorem skip_without_default_fails :
    de (.struct b!"H" false [.mk b!"content" .str .never .required, .mk b!"replace" .str .strEmpty .required])
       (ser (.struct b!"H" false [.mk b!"content" .str .never .required, .mk b!"replace" .str .strEmpty .required])
            (.record [.str b!" foo", .str b!""]))
      = .error (.missingField b!"replace") := by decide

theorem skip_with_default_roundtrips :
    de (.struct b!"H" false [.mk b!"content" .str .never .required, .mk b!"replace" .str .strEmpty .default])
       (ser (.struct b!"H" false [.mk b!"content" .str .never .required, .mk b!"replace" .str .strEmpty .default])
            (.record [.str b!" foo", .str b!""]))
      = .ok (.record [.str b!" foo", .str b!""]) := by decide

/-- the same for `PathBuf` / `is_empty_path` -/
theorem skip_path_without_default_fails :
    de (.struct b!"R" false [.mk b!"path" .path .never .required, .mk b!"new_path" .path .pathEmpty .required])
       (ser (.struct b!"R" false [.mk b!"path" .path .never .required, .mk b!"new_path" .path .pathEmpty .required])
            (.record [.str b!"a/b", .str b!""]))
      = .error (.missingField b!"new_path") := by decide

/-- `Option` fields are safe with or without `default`: a missing key is `None` -/
theorem option_skip_is_safe (m : Missing) (hm : m = .default ∨ m = .implicitNone) (t : Ty) :
    fieldOk (.opt t) .optNone m = true := by
  cases hm with
  | inl h => subst h; simp [fieldOk, Skip.value, missingValue, Ty.default]
  | inr h => subst h; simp [fieldOk, Skip.value, missingValue]

/-- The history file (`Vec<HistoryEntry>`) always round-trips: no field of `HistoryEntry` is skippable. -/
theorem history_roundtrip (v : RVal) (hw : wellTyped Gen.historyTy v = true) :
    de Gen.historyTy (ser Gen.historyTy v) = .ok v :=
  Serde.roundtrip_of_schemaOk Gen.historyTy (by decide) v hw

example : wellTyped Gen.historyTy (sample Gen.historyTy) = true := by decide

/-- "Applying a saved plan has the same effect as applying it directly": whatever `apply` does with a plan,
    doing it with the reloaded plan gives the same result, for every plan that round-trips. -/
theorem apply_saved_eq_apply_direct {α} (apply : RVal → α) (t : Ty) (v : RVal)
    (h : de t (ser t v) = .ok v) : okMap apply (de t (ser t v)) = (.ok (apply v) : Except DeErr α) := by
  rw [h]; rfl

theorem apply_saved_plan {α} (apply : RVal → α) (v : RVal) (hw : wellTyped Gen.planTy v = true) :
    okMap apply (de Gen.planTy (ser Gen.planTy v)) = (.ok (apply v) : Except DeErr α) :=
  apply_saved_eq_apply_direct apply _ v (plan_roundtrip_all v hw)

/-- what is on disk after `write_plan` is the serialised value and NOTHING ELSE: the file is opened with truncation
    (`File::create`), so a longer document that an earlier `plan` left at the same path is replaced, not overlaid.  The flag
    is read from the source of `scanner.rs::write_plan` on every run; seeds C17e / C17f (an `OpenOptions` without
    `truncate(true)`) flip it, and the check's second write over a longer document shows the leftover tail. -/
theorem plan_file_replaced_not_overlaid : ExecFlags.planWriteTruncates = true := by decide

end C17
