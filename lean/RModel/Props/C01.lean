import RModel.Base.Lit
import RModel.Model.Fs
import RModel.Model.Apply
import RModel.Model.Patch
import RModel.Model.Undo
import RModel.Lemmas.RenamePhase
import RModel.Lemmas.PatchText
import RModel.Lemmas.Undo
import RModel.Lemmas.UndoB
import RModel.Lemmas.UndoC
import RModel.Lemmas.PathOrder
import RModel.Props.C02ren
/-
  C01 — Undo restores the exact pre-apply tree.   (property theorems only; lemmas in `Lemmas/Undo.lean`)
-/
namespace C01
open Fs Apply Patch Undo PatchText

-- 1. header rewriting ------------------------------------------------------------------------------------

/-- HEADER REWRITING TOUCHES ONLY THE HEADER.  For every text `l1 ++ l2 ++ body` whose first two lines are a
    `--- ` and a `+++ ` line and whose rest starts with `@@`, `replace_patch_headers` yields the two new header
    lines (each with the line ending of the line it replaces) followed by `body` byte for byte — whatever `body`
    contains: `--- x`, `+++ y`, `@@`, CRLF, a missing final newline. -/
theorem rewriteHeaders_only_headers (l1 l2 body a b : Bytes) (h1 : IsLine l1) (h2 : IsLine l2)
    (p1 : sw l1 b!"--- " = true) (p2 : sw l2 b!"+++ " = true) (p3 : sw body b!"@@" = true) :
    rewriteHeaders (l1 ++ l2 ++ body) a b
      = b!"--- " ++ quoteName a ++ eol l1 ++ (b!"+++ " ++ quoteName b ++ eol l2 ++ body) :=
  rewriteGo_shape l1 l2 body (quoteName a) (quoteName b) h1 h2 p1 p2 p3

/-- non-vacuity, and the shapes that used to break: body lines `--- x`, `+++ y`, `@@`, CRLF header, no final newline -/
example :
    rewriteHeaders (b!"--- original\r\n" ++ b!"+++ modified\n" ++ b!"@@ -1,3 +1,3 @@\n--- foo x\n+-- bar x\n+++ y\r\n@@\n\\ No newline at end of file")
        b!"new/p.txt" b!"old/p.txt"
      = b!"--- new/p.txt\r\n+++ old/p.txt\n@@ -1,3 +1,3 @@\n--- foo x\n+-- bar x\n+++ y\r\n@@\n\\ No newline at end of file" := by
  decide

/-- THE OLD DEFECT (before "fix: rewrite only the header lines of reverse patches"): every `--- ` / `+++ ` line was
    rewritten, so the deleted line `-- baz_qux x` (printed `--- baz_qux x`) became a file-name header. -/
theorem rewriteHeadersOld_witness_dashdash :
    rewriteHeadersOld b!"--- original\n+++ modified\n@@ -1 +1 @@\n--- baz_qux x\n+-- foo_bar x\n" b!"n.txt" b!"n.txt"
      = b!"--- n.txt\n+++ n.txt\n@@ -1 +1 @@\n--- n.txt\n+-- foo_bar x\n" ∧
    rewriteHeaders b!"--- original\n+++ modified\n@@ -1 +1 @@\n--- baz_qux x\n+-- foo_bar x\n" b!"n.txt" b!"n.txt"
      = b!"--- n.txt\n+++ n.txt\n@@ -1 +1 @@\n--- baz_qux x\n+-- foo_bar x\n" := by decide


-- 2. diff contract and content restoration -------------------------------------------------------------------

/-- What is assumed about `diffy` (hypotheses, not axioms).  `roundtrip` is the stated contract; `emptyId` and
    `nameBlind` say that `apply` ignores the header and does nothing without hunks (`diffy/src/apply.rs`); `names` and
    `selfParse` say that `create_patch` uses the generic header and that diffy parses its own output back
    (`Patch::from_str(p.to_string()) == p`).  Nothing about renamify's rewriting is assumed any more: that part is
    `parse_rewrite_fmt`.  All five are exercised on every generated pair by the check (`diffrt`, `patchrt`, `papply`). -/
abbrev Contract := UndoLemmas.Contract

/-- QUOTED HEADER NAMES READ BACK.  For EVERY path string — quotes, backslashes, TAB, CR, LF, NUL included — diffy's
    `parse_filename` returns exactly the name that `replace_patch_headers` wrote (quoted when diffy requires it).
    (Commit "quote file names in reverse patch headers when diffy requires it".) -/
theorem parseFilename_quoted (n : Bytes) :
    parseFilename b!"--- " (b!"--- " ++ quoteName n ++ [10]) = .ok n ∧
    parseFilename b!"+++ " (b!"+++ " ++ quoteName n ++ [10]) = .ok n :=
  ⟨PatchParse.parseFilename_quoted _ n, PatchParse.parseFilename_quoted _ n⟩

/-- `parse_rewrite_fmt`.  For every patch `p` with diffy's generic header and at least one hunk that diffy parses back
    from its own text, and for EVERY pair of paths: parsing the text with renamify's header lines gives `p` with the
    two paths as names.  (The hypothesis `parse (fmt p) = ok p` is about diffy alone; it is `Contract.selfParse` for
    the patches `create_patch` produces and is compared with the real parser on every run.) -/
theorem parse_rewrite_fmt (p : Patch.Patch) (a b : Bytes) (ho : p.old = some b!"original")
    (hn : p.new = some b!"modified") (hh : p.hunks ≠ []) (hp : Patch.parse (fmt p) = .ok p) :
    Patch.parse (rewriteHeaders (fmt p) a b) = .ok { p with old := some a, new := some b } :=
  PatchParse.parse_rewrite p a b ho hn hh hp

/-- non-vacuity of `parse_rewrite_fmt` and independent kernel evaluation: CRLF lines, `--- `/`+++ ` body lines, blank
    context, both sides without final newline; paths with a space, non-ASCII bytes, a double quote, a backslash,
    TAB, CR and LF -/
theorem parse_rewrite_fmt_instances :
    (let p := diffAll b!"x baz_qux\r\n-- baz_qux\n\nlast" b!"x foo_bar\r\n-- foo_bar\n\nlast baz"
     Patch.parse (fmt p) = .ok p ∧
     Patch.parse (rewriteHeaders (fmt p) b!"my dir/n\xc3\xa9w.txt" b!"my dir/old.txt")
       = .ok { p with old := some b!"my dir/n\xc3\xa9w.txt", new := some b!"my dir/old.txt" } ∧
     Patch.parse (rewriteHeaders (fmt p) b!"q\"baz_qux\".txt" b!"a\\b/t\tab\rcr\nlf")
       = .ok { p with old := some b!"q\"baz_qux\".txt", new := some b!"a\\b/t\tab\rcr\nlf" }) ∧
    (let p : Patch.Patch := Patch.Patch.mk (some b!"original") (some b!"modified")
        [Patch.Hunk.mk ⟨1, 3⟩ ⟨1, 3⟩ none [⟨.context, b!"a\n"⟩, ⟨.delete, b!"-- x\n"⟩, ⟨.insert, b!"++ y\n"⟩, ⟨.context, b!"\n"⟩],
         Patch.Hunk.mk ⟨10, 1⟩ ⟨10, 1⟩ none [⟨.delete, b!"end"⟩, ⟨.insert, b!"END"⟩]]
     Patch.parse (fmt p) = .ok p ∧
     Patch.parse (rewriteHeaders (fmt p) b!"a/b" b!"c/d") = .ok { p with old := some b!"a/b", new := some b!"c/d" }) ∧
    rewriteHeaders b!"--- original\n+++ modified\n@@ -1 +1 @@\n-a\n+b\n" b!"q\"x\".txt" b!"t\tab"
      = b!"--- \"q\\\"x\\\".txt\"\n+++ \"t\\tab\"\n@@ -1 +1 @@\n-a\n+b\n" := by
  decide

/-- THE OLD DEFECT (before "fix: quote file names in reverse patch headers when diffy requires it"): with the path
    written as it is, a double quote or a backslash made renamify's own patch unparsable — "invalid char in unquoted
    filename" — although the same patch with diffy's generic header parses (a TAB only truncated the name). -/
theorem rewriteHeadersUnquoted_witness :
    let p := diffAll b!"say baz_qux\n" b!"say foo_bar\n"
    Patch.parse (fmt p) = .ok p ∧
    Patch.parse (rewriteHeadersUnquoted (fmt p) b!"q\"baz_qux\".txt" b!"q\"foo_bar\".txt") = .error .invalidUnquoted ∧
    Patch.parse (rewriteHeadersUnquoted (fmt p) b!"a\\b/n.txt" b!"a\\b/n.txt") = .error .invalidUnquoted ∧
    (Patch.parse (rewriteHeadersUnquoted (fmt p) b!"tab\tbaz.txt" b!"tab\tfoo.txt")).isOk = true ∧
    (Patch.parse (rewriteHeaders (fmt p) b!"q\"baz_qux\".txt" b!"q\"foo_bar\".txt")).isOk = true := by decide

open UndoLemmas in
/-- CONTENT RESTORATION.  Under the contract, STEP 2 of undo gives an edited file its original bytes back and keeps
    its mode; no other node is touched — whatever the two paths are. -/
theorem undo_content (cfg : Cfg) (hc : Contract cfg) (T : Tree) (f cur : Path) (c1 c0 : Bytes) (m : Nat)
    (hl : lookup T f = some (.file c1 m)) (hv : Utf8.valid c1 = true) (hne : c1 ≠ c0) :
    applyOne cfg T { orig := f, cur := cur,
                     text := rewriteHeaders (fmt (cfg.diff c1 c0)) (joinPath cur) (joinPath f) }
      = (setContent T f c0, false) ∧
    lookup (setContent T f c0) f = some (.file c0 m) ∧
    ∀ k, k ≠ f → lookup (setContent T f c0) k = lookup T k := by
  have hh : (cfg.diff c1 c0).hunks ≠ [] := fun h => hne (hc.eq_of_noHunks h)
  refine ⟨applyOne_good cfg hc T f cur c1 c0 m hl hv hh, ?_, ?_⟩
  · rw [lookup_setContent]; simp [hl, setFile]
  · intro k hk; rw [lookup_setContent, if_neg hk]

/-- repaired: a file whose name contains a double quote is restored by the driver's instance of the model … -/
theorem undo_content_quoted_name :
    let t : Tree := [([b!"q\"x\".txt"], .file b!"say baz_qux\n" 436)]
    let pr : PatchRec := PatchRec.mk [b!"q\"x\".txt"] [b!"q\"x\".txt"]
      (rewriteHeaders (fmt (diffAll b!"say baz_qux\n" b!"say foo_bar\n")) b!"q\"x\".txt" b!"q\"x\".txt")
    applyOne driverCfg t pr = ([([b!"q\"x\".txt"], .file b!"say foo_bar\n" 436)], false) := by decide

/-- … whereas a patch that does not parse (the old unquoted header) leaves the new content and drops a `.rej` file -/
theorem undo_content_witness_rej :
    let t : Tree := [([b!"q\"x\".txt"], .file b!"say baz_qux\n" 420)]
    let pr : PatchRec := PatchRec.mk [b!"q\"x\".txt"] [b!"q\"x\".txt"]
      (rewriteHeadersUnquoted (fmt (diffAll b!"say baz_qux\n" b!"say foo_bar\n")) b!"q\"x\".txt" b!"q\"x\".txt")
    (applyOne driverCfg t pr).2 = true ∧
    lookup (applyOne driverCfg t pr).1 [b!"q\"x\".txt"] = some (.file b!"say baz_qux\n" 420) ∧
    (lookup (applyOne driverCfg t pr).1 [b!"q\"x\".txt.rej"]).isSome = true := by decide

-- 3. rename reversal -----------------------------------------------------------------------------------------

open UndoLemmas RenamePhase in
/-- UNDO STEP 1 INVERTS THE RENAME PHASE.  For every tree and rename set within the guards of the rename-phase
    theorem (`C02ren.renamePhase_ok`: the tree after apply is `moveAll rs t`), the undo sequence — directories back
    shallowest first, then files, each guarded by `symlink_metadata` — returns every node to its original path:
    directories renamed inside renamed directories at any depth and renamed symlinks (dangling or not) included. -/
theorem undo_paths (t : Tree) (rs : List Ren) (h1 : C02ren.LastOnly rs) (h2 : C02ren.DistinctSources rs)
    (h3 : C02ren.TreeWF t) (h4 : C02ren.KindsOk t rs) (h5 : C02ren.DestFree t rs) :
    undoRenames rs (C02ren.moveAll rs t) = (t, none) := by
  rw [C02ren.moveAll_eq]
  exact undo_paths_core t rs ⟨h1.toLemma, h2, h3.toLemma, h4.toLemma, h5⟩

/-- a directory tree renamed on three levels, with a file that is edited only, renamed only, both -/
def nestedTree : Tree :=
  [([b!"foo_bar"], .dir 493),
   ([b!"foo_bar", b!"foo_bar"], .dir 493),
   ([b!"foo_bar", b!"foo_bar", b!"foo_bar"], .dir 448),
   ([b!"foo_bar", b!"foo_bar", b!"foo_bar", b!"foo_bar.txt"], .file b!"x foo_bar\r\n" 384),
   ([b!"foo_bar", b!"foo_bar", b!"other.txt"], .file b!"fooBar" 420),
   ([b!"foo_bar", b!"foo_bar_only.md"], .file [] 493),
   ([b!"README"], .file b!"r" 420)]

/-- in the planner's order (directories deepest first) -/
def nestedRens : List Ren :=
  [⟨[b!"foo_bar", b!"foo_bar", b!"foo_bar"], [b!"foo_bar", b!"foo_bar", b!"baz_qux"], .dir⟩,
   ⟨[b!"foo_bar", b!"foo_bar"], [b!"foo_bar", b!"baz_qux"], .dir⟩,
   ⟨[b!"foo_bar"], [b!"baz_qux"], .dir⟩,
   ⟨[b!"foo_bar", b!"foo_bar", b!"foo_bar", b!"foo_bar.txt"], [b!"foo_bar", b!"foo_bar", b!"foo_bar", b!"baz_qux.txt"], .file⟩,
   ⟨[b!"foo_bar", b!"foo_bar_only.md"], [b!"foo_bar", b!"baz_qux_only.md"], .file⟩]

/-- non-vacuity of `undo_paths`: the guards hold on the 3-level example … -/
example : C02ren.LastOnly nestedRens ∧ C02ren.DistinctSources nestedRens ∧ C02ren.TreeWF nestedTree ∧
    C02ren.KindsOk nestedTree nestedRens ∧ C02ren.DestFree nestedTree nestedRens := by decide

/-- … and the model evaluates to the original tree on it (independently of the theorem). -/
example : undoRenames nestedRens (C02ren.moveAll nestedRens nestedTree) = (nestedTree, none) := by decide

/-- THE OLD DEFECT (before "fix: undo renames directories back shallowest first"): with directories processed deepest
    first the inner mappings are looked up at `foo_bar/foo_bar/baz_qux`, `foo_bar/baz_qux` while the tree still has
    `baz_qux/baz_qux/baz_qux`; `exists()` says no, they are skipped, and only the outermost directory comes back. -/
theorem undoRenamesOld_witness_nested :
    (undoRenamesOld nestedRens (C02ren.moveAll nestedRens nestedTree)).2 = none ∧
    (undoRenamesOld nestedRens (C02ren.moveAll nestedRens nestedTree)).1 ≠ nestedTree ∧
    lookup (undoRenamesOld nestedRens (C02ren.moveAll nestedRens nestedTree)).1 [b!"foo_bar", b!"baz_qux"]
      = some (.dir 493) := by decide

-- 4. the round trip ------------------------------------------------------------------------------------------------

open RenamePhase UndoLemmas in
/-- `G01`: the guard of `undo_apply_id`.  Clause by clause:
    * `lastOnly … destFree` — the guards of the rename-phase theorem (`C02ren.renamePhase_ok`); every plan the planner
      emits and the pre-flight accepts satisfies them;
    * `applyOk`   — "after any successful apply";
    The former clause `filesDistinct` (the edited files are visited once each) is a theorem for every plan now
    (`PathOrder.sortedFiles_nodup`: `PathBuf`'s order is a strict total order, `insertPath` keeps the keys ascending).
    Gone since the three repairs of 2026-09-29: `noLinks` (no renamed node is a symlink: the guard of STEP 1 is lstat
    now) and `names` (paths of edited files free of `" \ CR LF`: the header names are quoted now).
    Not expressible in the tree model and therefore outside the theorem: permissions of the user running undo
    (undo now writes through a temp file like apply, so a read-only FILE is restored; a read-only DIRECTORY stops both). -/
structure G01 (t : Tree) (p : Plan) : Prop where
  lastOnly : C02ren.LastOnly p.rens
  distinct : C02ren.DistinctSources p.rens
  treeWF : C02ren.TreeWF t
  kinds : C02ren.KindsOk t p.rens
  destFree : C02ren.DestFree t p.rens
  applyOk : (applyPlan t p).outcome = .ok

open RenamePhase UndoLemmas in
/-- UNDO ∘ APPLY = ID.  For every tree and plan in `G01` and every diff library satisfying `Contract`:
    apply succeeds, undo succeeds, and the tree after undo is literally the tree before apply — every path, byte,
    mode and link target, in the same order (files edited AND renamed AND inside renamed directories, renamed
    symlinks, and paths with any bytes included). -/
theorem undo_apply_id (cfg : Cfg) (hc : Contract cfg) (t : Tree) (p : Plan) (g : G01 t p) :
    ∃ u, applyUndo cfg t p = (.ok, some u) ∧ u.outcome = .ok ∧ u.tree = t := by
  have hlo := g.lastOnly.toLemma
  have h2 : GDistinctSources p.rens := g.distinct
  have h3 := g.treeWF.toLemma
  have h4 := g.kinds.toLemma
  have h5 : GDestFree t p.rens := g.destFree
  have hpf : preflight t [] p.rens = none := preflight_of_guards hlo h3 h5
  -- the content phase succeeded
  have hok := g.applyOk
  obtain ⟨t1, hcp⟩ : ∃ t1, contentPhase p.hunks t (sortedFiles p.hunks) = (.ok, t1) := by
    cases hcp : contentPhase p.hunks t (sortedFiles p.hunks) with
    | mk o t1 =>
      cases o with
      | ok => exact ⟨t1, rfl⟩
      | _ => simp [applyPlan, applyCore, hpf, hcp] at hok
  have hs := sameShape_contentPhase p.hunks (sortedFiles p.hunks) t
  rw [hcp] at hs
  simp only at hs
  have g1 : Guards t1 p.rens := ⟨hlo, h2, h3.sameShape hs, h4.sameShape hs, h5.sameShape hs⟩
  obtain ⟨hkeys, hout, hin, hlink⟩ := contentPhase_lookup p.hunks (sortedFiles p.hunks) t t1 hcp
  have hr := renamePhase_sortRens t1 p.rens hlo h2 g1.wf g1.ko g1.df
  have hcur : ∀ f, currentPath ((sortRens p.rens).map (fun r => (r.path, finalPath p.rens r.path))) f
      = finalPath p.rens f := currentPath_sortRens p.rens h2 (fileLeaf_of_guards h3 hlo h4)
  -- the whole apply
  have happ : applyPlan t p = (⟨.ok, moveAll p.rens t1,
      (sortRens p.rens).map (fun r => (r.path, finalPath p.rens r.path))⟩ : Result) ∧
      (sortedFiles p.hunks).all (fun f => readable (moveAll p.rens t1) (finalPath p.rens f)) = true := by
    unfold applyPlan applyCore at hok ⊢
    simp only [hpf, hcp, hr, backupPhase, hcur] at hok ⊢
    by_cases hall : (sortedFiles p.hunks).all (fun f => readable (moveAll p.rens t1) (finalPath p.rens f)) = true
    · simp [hall]
    · exfalso
      rw [if_neg hall] at hok
      split at hok
      · split at hok <;> simp at hok
      · simp at hok
  obtain ⟨happ, hall⟩ := happ
  -- what `generate_reverse_patches` stores
  let r : Result := ⟨.ok, moveAll p.rens t1, (sortRens p.rens).map (fun r => (r.path, finalPath p.rens r.path))⟩
  let C0 : Path → Bytes := fun k => match lookup t k with | some (.file c _) => c | _ => []
  have hpatch : ∀ f ∈ sortedFiles p.hunks, ∃ c0 m c1, lookup t f = some (.file c0 m) ∧
      lookup t1 f = some (.file c1 m) ∧ Utf8.valid c1 = true ∧
      patchFor cfg t r f = if (cfg.diff c1 c0).hunks.isEmpty then none else
        some { orig := f, cur := finalPath p.rens f,
               text := rewriteHeaders (fmt (cfg.diff c1 c0)) (joinPath (finalPath p.rens f)) (joinPath f) } := by
    intro f hf
    obtain ⟨c0, m, c1, hl0, hv0, hl1⟩ := hin f hf
    obtain ⟨e, he, hef⟩ := mem_of_lookup_some hl1
    have hlm : lookup (moveAll p.rens t1) (finalPath p.rens f) = some (.file c1 m) := by
      rw [← hef, lookup_moveAll g1.lo g1.wf g1.df he, hef, hl1]
    have hv1 : Utf8.valid c1 = true := by
      have := (List.all_eq_true.1 hall) f hf
      simpa [readable, hlm] using this
    refine ⟨c0, m, c1, hl0, hl1, hv1, ?_⟩
    simp only [patchFor, readStr, hl0, hv0, if_true, r, hcur, hlm, hv1]
  have hundo : undoRenames p.rens (moveAll p.rens t1) = (t1, none) := undo_paths_core t1 p.rens g1
  let patches := (sortedFiles p.hunks).filterMap (patchFor cfg t r)
  have hdist : patches.Pairwise (fun a b => a.orig ≠ b.orig) := by
    apply List.Pairwise.filterMap _ _ (PathOrder.sortedFiles_nodup p.hunks)
    intro a a' hne b hb b' hb'
    rw [patchFor_orig cfg t r a b hb, patchFor_orig cfg t r a' b' hb']
    exact hne
  have hgood : ∀ pr ∈ patches, GoodAt cfg C0 t1 pr := by
    intro pr hpr
    obtain ⟨f, hf, hfp⟩ := List.mem_filterMap.1 hpr
    obtain ⟨c0, m, c1, hl0, hl1, hv1, hpf'⟩ := hpatch f hf
    rw [hpf'] at hfp
    split at hfp
    · cases hfp
    · injection hfp with hfp
      subst hfp
      rename_i hemp
      refine ⟨c1, m, hl1, hv1, ?_, ?_⟩
      · simp only [C0, hl0]
        intro h; apply hemp; rw [h]; rfl
      · simp only [C0, hl0]
  obtain ⟨T', hT1, hT2, hT3⟩ := applyPatches_good cfg hc C0 patches t1 0 hdist hgood
  have hTt : T' = t := by
    apply tree_ext t T' (hT2.trans hkeys) h3.1
    intro k
    rw [hT3 k]
    by_cases hk : k ∈ patches.map (·.orig)
    · rw [if_pos hk]
      obtain ⟨pr, hpr, hprk⟩ := List.mem_map.1 hk
      obtain ⟨f, hf, hfp⟩ := List.mem_filterMap.1 hpr
      have hfk : f = k := by rw [← hprk, patchFor_orig cfg t r f pr hfp]
      subst hfk
      obtain ⟨c0, m, c1, hl0, hl1, _, _⟩ := hpatch f hf
      simp [hl1, hl0, setFile, C0]
    · rw [if_neg hk]
      by_cases hkf : k ∈ sortedFiles p.hunks
      · obtain ⟨c0, m, c1, hl0, hl1, hv1, hpf'⟩ := hpatch k hkf
        by_cases hemp : (cfg.diff c1 c0).hunks.isEmpty = true
        · have : c1 = c0 := hc.eq_of_noHunks (List.isEmpty_iff.1 hemp)
          rw [hl1, hl0, this]
        · exfalso
          apply hk
          rw [if_neg hemp] at hpf'
          exact List.mem_map.2 ⟨_, List.mem_filterMap.2 ⟨k, hkf, hpf'⟩, rfl⟩
      · exact hout k hkf
  refine ⟨{ outcome := .ok, tree := T' }, ?_, rfl, hTt⟩
  simp only [applyUndo, applyFull, happ, reversePatches, undoRenaming, hundo]
  show (Apply.Outcome.ok, some (match applyPatches cfg t1 patches 0 with
    | (t2, 0) => ({ outcome := .ok, tree := t2 } : UResult)
    | (t2, n) => { outcome := .patchFailed n, tree := t2 })) = _
  rw [hT1]
  rfl


/-- non-vacuity of `G01`: the 3-level example with the innermost file edited (and renamed, inside renamed directories)
    and an edited-only file -/
def nestedPlan : Plan :=
  { hunks := [{ file := [b!"foo_bar", b!"foo_bar", b!"foo_bar", b!"foo_bar.txt"], before := b!"foo_bar", after := b!"baz_qux", start := 2, stop := 9 },
              { file := [b!"foo_bar", b!"foo_bar", b!"other.txt"], before := b!"fooBar", after := b!"bazQux", start := 0, stop := 6 }],
    rens := nestedRens }

example : G01 nestedTree nestedPlan :=
  ⟨by decide, by decide, by decide, by decide, by decide, by decide⟩

/-- … and on it the driver's instance of the model evaluates to the identity (independently of the theorem) -/
example : (applyUndo driverCfg nestedTree nestedPlan).1 = .ok ∧
    ((applyUndo driverCfg nestedTree nestedPlan).2.map (fun u => (u.outcome, u.tree))) = some (.ok, nestedTree) := by
  decide

/-- … also with a renamed dangling symlink and an edited file whose name carries a double quote and a backslash
    (both outside the old `G01`) -/
def hostilePlanTree : Tree :=
  [([b!"foo_bar_dangling"], .link b!"nowhere"),
   ([b!"foo_bar-link"], .link b!"foo_bar.txt"),
   ([b!"foo_bar.txt"], .file b!"tgt\n" 436),
   ([b!"say \"foo_bar\" a\\b.txt"], .file b!"say foo_bar\r\n-- foo_bar" 292)]

def hostilePlan : Plan :=
  { hunks := [{ file := [b!"say \"foo_bar\" a\\b.txt"], before := b!"foo_bar", after := b!"baz_qux", start := 4, stop := 11 },
              { file := [b!"say \"foo_bar\" a\\b.txt"], before := b!"foo_bar", after := b!"baz_qux", start := 16, stop := 23 }],
    rens := [⟨[b!"foo_bar_dangling"], [b!"baz_qux_dangling"], .file⟩, ⟨[b!"foo_bar-link"], [b!"baz_qux-link"], .file⟩,
             ⟨[b!"foo_bar.txt"], [b!"baz_qux.txt"], .file⟩,
             ⟨[b!"say \"foo_bar\" a\\b.txt"], [b!"say \"baz_qux\" a\\b.txt"], .file⟩] }

example : G01 hostilePlanTree hostilePlan :=
  ⟨by decide, by decide, by decide, by decide, by decide, by decide⟩

/-- REPAIRED BEHAVIOUR, kernel-evaluated on the driver's instance: dangling link, link to a renamed sibling, quoted
    and backslashed file name, mode 0444, CRLF and no final newline — all restored -/
theorem undo_apply_id_hostile :
    (applyUndo driverCfg hostilePlanTree hostilePlan).1 = .ok ∧
    ((applyUndo driverCfg hostilePlanTree hostilePlan).2.map (fun u => (u.outcome, u.tree)))
      = some (.ok, hostilePlanTree) := by decide

/-- Since repo commit 01297aa the destination guard of `G01` is no longer a hypothesis: an apply that SUCCEEDED has
    passed the pre-flight loop, and the loop is exactly `DestFree` (`C02ren.destFree_iff_preflight_loop`).  So for every
    plan whose renames change only the last component of distinct existing sources: apply succeeded ⇒ undo restores
    the tree literally. -/
theorem undo_apply_id_of_ok (cfg : Cfg) (hc : Contract cfg) (t : Tree) (p : Plan)
    (h1 : C02ren.LastOnly p.rens) (h2 : C02ren.DistinctSources p.rens) (h3 : C02ren.TreeWF t)
    (h4 : C02ren.KindsOk t p.rens) (hok : (applyPlan t p).outcome = .ok) :
    ∃ u, applyUndo cfg t p = (.ok, some u) ∧ u.outcome = .ok ∧ u.tree = t := by
  have hp : preflight t [] p.rens = none := by
    cases hp : preflight t [] p.rens with
    | none => rfl
    | some o =>
      rw [RenamePhase.applyPlan_preflight_refusal t p hp] at hok
      rcases RenamePhase.preflight_some _ _ hp with rfl | rfl <;> cases hok
  exact undo_apply_id cfg hc t p
    ⟨h1, h2, h3, h4, (C02ren.destFree_iff_preflight_loop t p.rens h1 h3 h4).2 hp, hok⟩

/-- `C01_full`: the property without the rename-set guards.  What separates it from `undo_apply_id_of_ok` is only that
    the plan is one the planner can emit (`lastOnly`, `distinct`, `kinds`: C08). -/
def C01_full : Prop :=
  ∀ (cfg : Cfg), Contract cfg → ∀ (t : Tree) (p : Plan), C02ren.TreeWF t → (applyPlan t p).outcome = .ok →
    ∃ u, applyUndo cfg t p = (.ok, some u) ∧ u.outcome = .ok ∧ u.tree = t

/-- the hand-made plan that used to refute `C01_full` (two sources, one destination: a file was lost at apply time and
    could not be restored) is refused up front since repo commit 01297aa; the rename phase on its own still loses it -/
theorem two_to_one_now_refused :
    let t : Tree := [([b!"a"], .file b!"A" 420), ([b!"b"], .file b!"B" 420)]
    let p : Plan := { hunks := [], rens := [⟨[b!"a"], [b!"c"], .file⟩, ⟨[b!"b"], [b!"c"], .file⟩] }
    C02ren.TreeWF t ∧ (applyPlan t p).outcome = .sharedDest ∧ (applyPlan t p).tree = t ∧
    (renamePhase t [] (sortRens p.rens)).outcome = .ok ∧
    (renamePhase t [] (sortRens p.rens)).tree = [([b!"c"], .file b!"B" 420)] := by decide

/-- THE OLD DEFECT (before "fix: undo renames dangling symlinks back"): with the `exists()` guard, which follows links,
    a renamed dangling symlink is skipped — undo reported success and the link kept its new name; with the lstat
    guard it comes back. -/
theorem undoRenamesFollow_witness_dangling :
    let t : Tree := [([b!"foo_bar_dangling"], .link b!"nowhere"), ([b!"keep.txt"], .file b!"k" 420)]
    let rs : List Ren := [⟨[b!"foo_bar_dangling"], [b!"baz_qux_dangling"], .file⟩]
    undoRenamesFollow rs (C02ren.moveAll rs t)
      = ([([b!"baz_qux_dangling"], .link b!"nowhere"), ([b!"keep.txt"], .file b!"k" 420)], none) ∧
    undoRenames rs (C02ren.moveAll rs t) = (t, none) := by decide

end C01
