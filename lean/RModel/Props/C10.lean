import RModel.Base.Lit
import RModel.Model.History
import RModel.Model.HistorySpec
import RModel.Model.HistoryTree
import RModel.Lemmas.History
import RModel.Lemmas.HistoryRefine
import RModel.Lemmas.HistoryTree
/-
  C10 — History is a consistent append-only record under any operation sequence.   (property theorems only)

  Full statement: `C10_full` below (a `def … : Prop`; FALSE today — four kernel-evaluated witnesses).
  Proved for EVERY tree side `ops`, every start state, every command list and every clock schedule (`tick`s):
    * `append_only`            the history after a run has the history before it as a prefix;
    * `step_appends`           one command leaves `entries` alone or appends exactly one entry, and appends one
                               iff it reports success;
    * `fresh_id_partial`       the id of an appended entry is not in the history it is appended to (this is the
                               duplicate check of `add_entry`, not a property of how ids are generated), hence
    * `ids_nodup`              ids stay pairwise distinct along every run;
    * `rejected_unchanged`     a command rejected by the eligibility checks changes nothing at all;
    * `undo_eligibility`, `redo_eligibility`   what the implementation tests before it undoes / redoes;
    * `refines_spec_partial`   under the guard `G10` (checked command by command along the run) and the round-trip
                               law of the tree side, every command conforms to the abstract history.
  `G10` clause by clause: a rename/redo must compute an id that is not yet in the history (`freshId`: no two
  id-equal commands in one second), must not stop half-way through its files (`noPartial`: C04's subject), an
  undo that passes the implementation's eligibility test must address an operation the abstract history has as
  applied and whose post-state is the current tree (`undoInPlace`), a redo that passes must address an
  operation the abstract history has as undone and whose pre-state is the current tree (`redoInPlace`).
-/
namespace C10
open History HistorySpec

section generic
variable {Tree Plan Backup H : Type} [DecidableEq H]

/-- One command leaves `entries` unchanged or appends exactly one entry whose id was not there;
    it appends iff it reports success. -/
theorem step_appends (ops : Ops Tree Plan Backup H) (w : World Tree Plan Backup H) (c : Cmd H) :
    ((step ops w c).2 = .ok ∧ AppendsOne w.entries (step ops w c).1.entries) ∨
    ((step ops w c).2 ≠ .ok ∧ (step ops w c).1.entries = w.entries) :=
  History.step_appends ops w c

/-- Append-only, all sequences, all clocks: earlier entries are never lost, altered or duplicated. -/
theorem append_only (ops : Ops Tree Plan Backup H) (w : World Tree Plan Backup H) (cs : List (Cmd H)) :
    w.entries <+: (run ops w cs).1.entries :=
  History.run_prefix ops w cs

/-- … and the number of entries added is the number of commands that reported success. -/
theorem one_entry_per_success (ops : Ops Tree Plan Backup H) (w : World Tree Plan Backup H) (cs : List (Cmd H)) :
    (run ops w cs).1.entries.length = w.entries.length + (run ops w cs).2.count .ok :=
  History.run_length ops w cs

/-- The appended id is fresh — because `add_entry` refuses a duplicate, whatever the id generator does. -/
theorem fresh_id_partial (ops : Ops Tree Plan Backup H) (w : World Tree Plan Backup H) (c : Cmd H) (e : Entry H)
    (h : (step ops w c).1.entries = w.entries ++ [e]) : hasId w.entries e.id = false :=
  History.step_fresh ops w c e h

/-- ids stay pairwise distinct along every run -/
theorem ids_nodup (ops : Ops Tree Plan Backup H) (w : World Tree Plan Backup H) (cs : List (Cmd H))
    (h : (w.entries.map (·.id)).Nodup) : ((run ops w cs).1.entries.map (·.id)).Nodup :=
  History.run_nodup ops w cs h

/-- A rejected command changes nothing: not the tree, not the history, not the stores below `.renamify`. -/
theorem rejected_unchanged (ops : Ops Tree Plan Backup H) (w : World Tree Plan Backup H) (c : Cmd H)
    (h : (step ops w c).2 = .rejected) : (step ops w c).1 = w :=
  History.step_rejected ops w c h

/-- Undo succeeds only on an entry that exists, is not itself a revert and has no revert yet;
    it then appends `revert-<id>-<now>` pointing at it. -/
theorem undo_eligibility (ops : Ops Tree Plan Backup H) (w : World Tree Plan Backup H) (t : Target H)
    (h : (step ops w (.undo t)).2 = .ok) :
    ∃ i e, resolve w.entries true t = some i ∧ findEntry w.entries i = some e ∧ e.revertOf = none ∧
      hasRevertOf w.entries i = false ∧
      (step ops w (.undo t)).1.entries = w.entries ++ [{ id := .revert i w.clock, revertOf := some i }] :=
  History.undo_ok ops w t h

/-- Redo succeeds only on an entry that exists and has a revert — it does NOT test whether it was redone since. -/
theorem redo_eligibility (ops : Ops Tree Plan Backup H) (w : World Tree Plan Backup H) (t : Target H)
    (h : (step ops w (.redo t)).2 = .ok) :
    ∃ i, resolve w.entries false t = some i ∧ hasId w.entries i = true ∧ hasRevertOf w.entries i = true ∧
      (step ops w (.redo t)).1.entries = w.entries ++ [{ id := .redo i w.clock, revertOf := none }] :=
  History.redo_ok ops w t h

/-- `latest` for undo never resolves to a revert entry, `latest` for redo always to the target of one. -/
theorem latest_undo_not_revert (es : List (Entry H)) (i : EId H) (h : latestUndo es = some i) :
    ∃ e ∈ es, e.id = i ∧ e.revertOf = none :=
  History.latestUndo_spec es i h

theorem latest_redo_reverted (es : List (Entry H)) (i : EId H) (h : latestRedo es = some i) :
    hasRevertOf es i = true :=
  History.latestRedo_spec es i h

/-- Equal concatenated terms in the same second give the same id, and a rename whose id is already in the
    history never succeeds (whatever it did to the tree before it found out). -/
theorem duplicate_id_never_ok (ops : Ops Tree Plan Backup H) (w : World Tree Plan Backup H) (s r : Bytes)
    (h : hasId w.entries (.plan (ops.hash (s ++ r) w.clock)) = true) : (step ops w (.rename s r)).2 ≠ .ok := by
  intro hk
  rcases History.stepRename_cases ops w s r with h' | h' | h'
  · rw [h'.2.1] at h; cases h
  · rcases h'.1 with h1 | h1 <;> simp [step, h1] at hk
  · simp [step, h'.1] at hk

/-- … and with an injective hash, different (terms, second) give different ids: freshness of a rename's id
    then follows from "no entry was created from the same concatenated terms in this second". -/
theorem fresh_of_injective (ops : Ops Tree Plan Backup H)
    (hinj : ∀ k k' s s', ops.hash k s = ops.hash k' s' → k = k' ∧ s = s')
    (es : List (Entry H)) (key : Bytes) (now : Nat)
    (h : ∀ e ∈ es, (∀ h', e.id ≠ .plan h') ∨ (∃ k s, e.id = .plan (ops.hash k s) ∧ ¬ (k = key ∧ s = now))) :
    hasId es (.plan (ops.hash key now)) = false :=
  History.fresh_of_injective ops hinj es key now h

/-- THE FULL STATEMENT (false today, see the witnesses): whatever the tree side, as long as it has the undo
    round-trip law, every command of every sequence from an empty history conforms to the abstract history:
    it succeeds into the state the history implies with exactly one fresh entry, or changes neither tree nor history;
    undo only while applied, redo only while undone. -/
def C10_full : Prop :=
  ∀ (Tree Plan Backup H : Type) [DecidableEq H] (ops : Ops Tree Plan Backup H), RoundTrip ops →
    ∀ (t : Tree) (clock : Nat) (cs : List (Cmd H)),
      AllConform ops (init t clock : World Tree Plan Backup H) ([] : Spec Tree H) cs

/-- Refinement under the guard: for every tree side with the round-trip law, every start tree, clock and command
    list whose steps all satisfy `G10`, every command conforms to the abstract history. -/
theorem refines_spec_partial [DecidableEq Tree] (ops : Ops Tree Plan Backup H) (hRT : RoundTrip ops)
    (t : Tree) (clock : Nat) (cs : List (Cmd H))
    (hG : Guarded ops (init t clock : World Tree Plan Backup H) ([] : Spec Tree H) cs = true) :
    AllConform ops (init t clock : World Tree Plan Backup H) ([] : Spec Tree H) cs :=
  History.guarded_conform ops hRT cs _ _ (History.inv_init ops t clock) hG

/-- One guarded step from any state satisfying the invariant (what the induction uses), exposed because it also
    says: inside the guard an undo that succeeds addresses an operation that is applied in the abstract history,
    and a redo one that is undone. -/
theorem guarded_step_conforms [DecidableEq Tree] (ops : Ops Tree Plan Backup H) (hRT : RoundTrip ops)
    (w : World Tree Plan Backup H) (s : Spec Tree H) (c : Cmd H) (hI : History.Inv ops w s)
    (hG : G10 ops w s c = true) : Conforms ops w s c :=
  (History.inv_step ops hRT w s c hI hG).1

end generic

-- kernel-evaluated witnesses on the concrete tree side ------------------------------------------------
section witnesses
open HistoryTree

/-- the check's workspace: A = foo_bar→baz_qux, A' = foo→foo_bar (replacement contains the search), B = alpha→gamma -/
def t0 : HistoryTree.Tree :=
  [(b!"f1.txt", b!"foo_bar one\n"), (b!"f2.txt", b!"alpha x\n"), (b!"f3.txt", b!"use foo_bar and alpha\n")]

abbrev C := Cmd HistoryTree.H
def renA : C := .rename b!"foo_bar" b!"baz_qux"
def renA' : C := .rename b!"foo" b!"foo_bar"
def renB : C := .rename b!"alpha" b!"gamma"

/-- Two identical renames within one second: the second edits the tree AGAIN (`foo_bar_bar_bar`), then
    `add_entry` refuses the duplicate id: exit ≠ 0, tree changed, no entry.  One second apart both succeed. -/
theorem C10_witness_same_second :
    (run ops (start t0) [renA', renA']).2 = [.ok, .failed] ∧
    (run ops (start t0) [renA', renA']).1.entries.length = 1 ∧
    get (run ops (start t0) [renA']).1.tree b!"f1.txt" = some b!"foo_bar_bar one\n" ∧
    get (run ops (start t0) [renA', renA']).1.tree b!"f1.txt" = some b!"foo_bar_bar_bar one\n" ∧
    (run ops (start t0) [renA', .tick, renA']).2 = [.ok, .noop, .ok] := by decide

/-- rename, undo, redo, redo: the second redo is attempted again because `redo_renaming` only looks for a revert
    entry (`redo_of` is never written).  With a replacement that contains the search term the stored plan
    still validates, so it is applied a second time and recorded as a second redo.  With A (`foo_bar→baz_qux`)
    the content validation happens to stop it. -/
theorem C10_witness_redo_twice :
    (run ops (start t0) [renA', .tick, .undo .latest, .tick, .redo .latest, .tick, .redo .latest]).2
      = [.ok, .noop, .ok, .noop, .ok, .noop, .ok] ∧
    (run ops (start t0) [renA', .tick, .undo .latest, .tick, .redo .latest, .tick, .redo .latest]).1.entries.length = 4 ∧
    get (run ops (start t0) [renA', .tick, .undo .latest, .tick, .redo .latest]).1.tree b!"f1.txt"
      = some b!"foo_bar_bar one\n" ∧
    get (run ops (start t0) [renA', .tick, .undo .latest, .tick, .redo .latest, .tick, .redo .latest]).1.tree b!"f1.txt"
      = some b!"foo_bar_bar_bar one\n" ∧
    (run ops (start t0) [renA, .tick, .undo .latest, .tick, .redo .latest, .tick, .redo .latest]).2
      = [.ok, .noop, .ok, .noop, .ok, .noop, .rejected] := by decide

/-- Two redos of one id within a second: the plan is applied, then `add_entry` rejects `redo-<id>-<sec>`. -/
theorem C10_witness_redo_id_collision :
    (run ops (start t0) [renA', .tick, .undo .latest, .tick, .redo .latest, .redo .latest]).2
      = [.ok, .noop, .ok, .noop, .ok, .failed] ∧
    (run ops (start t0) [renA', .tick, .undo .latest, .tick, .redo .latest, .redo .latest]).1.entries.length = 3 ∧
    get (run ops (start t0) [renA', .tick, .undo .latest, .tick, .redo .latest, .redo .latest]).1.tree b!"f1.txt"
      = some b!"foo_bar_bar_bar one\n" := by decide

/-- Undo of a non-latest operation whose reverse patch no longer applies to one of its files: the files whose
    patch applies are restored (f1), the other is left alone with a `.rej` next to it (f3), exit ≠ 0, no entry:
    a failed command that changed the tree. -/
theorem C10_witness_undo_older :
    (run ops (start t0) [renA, .tick, renB, .tick, .undo (.id (.plan (b!"foo_barbaz_qux", 0)))]).2
      = [.ok, .noop, .ok, .noop, .failed] ∧
    (run ops (start t0) [renA, .tick, renB, .tick, .undo (.id (.plan (b!"foo_barbaz_qux", 0)))]).1.entries.length = 2 ∧
    (run ops (start t0) [renA, .tick, renB, .tick, .undo (.id (.plan (b!"foo_barbaz_qux", 0)))]).1.tree
      = [(b!"f1.txt", b!"foo_bar one\n"), (b!"f2.txt", b!"gamma x\n"),
         (b!"f3.txt", b!"use baz_qux and gamma\n"), (b!"f3.txt.rej", b!"REJ")] := by decide

/-- The id hashes the CONCATENATION of search and replacement: `ab→c` and `a→bc` in one second collide. -/
theorem C10_witness_concat_collision :
    (run ops (start [(b!"g.txt", b!"ab a\n")]) [.rename b!"ab" b!"c", .rename b!"a" b!"bc"]).2 = [.ok, .failed] ∧
    (run ops (start [(b!"g.txt", b!"ab a\n")]) [.rename b!"ab" b!"c", .rename b!"a" b!"bc"]).1.tree
      = [(b!"g.txt", b!"c bc\n")] := by decide

/-- A redo that is not "in place": B, undo B, then A' moves the offsets in f3; redoing B re-edits f2, then the
    stored plan fails validation on f3 and the command stops: exit ≠ 0, f2 changed, no entry (content edits are
    not rolled back — C04's defect, reached through a stale stored plan). -/
theorem C10_witness_redo_partial :
    (run ops (start t0) [renB, .tick, .undo .latest, .tick, renA', .tick, .redo (.id (.plan (b!"alphagamma", 0)))]).2
      = [.ok, .noop, .ok, .noop, .ok, .noop, .failed] ∧
    (run ops (start t0) [renB, .tick, .undo .latest, .tick, renA', .tick, .redo (.id (.plan (b!"alphagamma", 0)))]).1.entries.length = 3 ∧
    (run ops (start t0) [renB, .tick, .undo .latest, .tick, renA', .tick, .redo (.id (.plan (b!"alphagamma", 0)))]).1.tree
      = [(b!"f1.txt", b!"foo_bar_bar one\n"), (b!"f2.txt", b!"gamma x\n"),
         (b!"f3.txt", b!"use foo_bar_bar and alpha\n")] := by decide

/-- The flat-file tree side satisfies the hypothesis of the refinement theorem … -/
theorem roundtrip_concrete : RoundTrip HistoryTree.ops := HistoryTree.roundTrip

/-- … so for it the refinement holds outright for every guarded sequence. -/
theorem refines_spec_concrete (t : HistoryTree.Tree) (clock : Nat) (cs : List C)
    (hG : Guarded ops (init t clock) [] cs = true) : AllConform ops (init t clock) [] cs :=
  refines_spec_partial ops HistoryTree.roundTrip t clock cs hG

/-- Non-vacuity of the guard: a sequence with renames of three different plans, undo and redo by `latest` and by id,
    a rejected redo and a rejected undo, one second apart, lies inside `G10` … -/
example : Guarded ops (start t0) []
    [renA, .tick, renB, .tick, .undo .latest, .tick, .redo .latest, .tick, .undo .latest, .tick,
     .undo (.id (.plan (b!"foo_barbaz_qux", 0))), .tick, .redo (.id (.plan (b!"foo_barbaz_qux", 0))), .tick,
     .redo (.id (.plan (b!"nope", 7))), .undo (.id (.plan (b!"nope", 7))), renA', renB] = true := by decide

/-- … while each witness sequence leaves it exactly at the offending command. -/
example : Guarded ops (start t0) [] [renA', renA'] = false ∧ Guarded ops (start t0) [] [renA'] = true := by decide
example : Guarded ops (start t0) [] [renA', .tick, .undo .latest, .tick, .redo .latest, .tick, .redo .latest] = false ∧
    Guarded ops (start t0) [] [renA', .tick, .undo .latest, .tick, .redo .latest, .tick] = true := by decide
example : Guarded ops (start t0) [] [renA, .tick, renB, .tick, .undo (.id (.plan (b!"foo_barbaz_qux", 0)))] = false ∧
    Guarded ops (start t0) [] [renA, .tick, renB, .tick] = true := by decide

/-- The full statement is false: the same-second witness is a counterexample for the flat-file tree side. -/
theorem C10_full_false : ¬ C10_full := by
  intro h
  have h2 := h HistoryTree.Tree HistoryTree.Plan HistoryTree.Backup HistoryTree.H ops HistoryTree.roundTrip
    (HistoryTree.normalize t0) 0 [renA', renA']
  have hc : Conforms ops (step ops (init (HistoryTree.normalize t0) 0) renA').1
      (specStep ops [] (init (HistoryTree.normalize t0) 0) renA') renA' := h2.2.1
  have hbad : ¬ Conforms ops (step ops (init (HistoryTree.normalize t0) 0) renA').1
      (specStep ops [] (init (HistoryTree.normalize t0) 0) renA') renA' := by
    unfold Conforms
    intro hh
    rcases hh with ⟨hok, _⟩ | ⟨_, htree, _⟩
    · revert hok; decide
    · revert htree; decide
  exact hbad hc

/-- Non-vacuity of the eligibility theorems: undo and redo do succeed in the model. -/
example : (step ops (run ops (start t0) [renA, .tick]).1 (.undo .latest)).2 = .ok := by decide
example : (step ops (run ops (start t0) [renA, .tick, .undo .latest, .tick]).1 (.redo .latest)).2 = .ok := by decide
example : (step ops (run ops (start t0) [renA]).1 (.redo .latest)).2 = .rejected := by decide

end witnesses

end C10
