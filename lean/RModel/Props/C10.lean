import RModel.Base.Lit
import RModel.Model.History
import RModel.Model.HistorySpec
import RModel.Model.HistoryTree
import RModel.Model.HistoryTreeDir
import RModel.Lemmas.History
import RModel.Lemmas.HistoryStatus
import RModel.Lemmas.HistoryRefine
import RModel.Lemmas.HistoryTree
/-
  C10 — History is a consistent append-only record under any operation sequence.   (property theorems only)

  The model has four switchable checks (`Cfg`): `earlyDupCheck` (c3d511b), `redoOnce` (07a4584), the pre-validations
  `undoPrevalidate` (657a7be), `redoPrevalidate` (3933d7f), and two shape flags: `planBeforeEntry` (6667a82: the plan is
  stored before the history entry, which is the commit point) and `revertIdOfRoot` (false in the code; a seeded change
  builds the revert id on the root plan id).
  `Cfg.current` is REGENERATED from the source (Gen/HistoryFlags.lean); the driver runs it.  Every theorem below is
  stated for an arbitrary `cfg` with explicit hypotheses on its flags (or on a fixed named configuration), so the file
  checks whatever the flags are; `current_shape` says which configuration the translator read from the code (all four
  checks, plan before entry, revert id on the entry id) — if a check disappears from the code this stops checking.

  Full statement: `C10_full cfg` (a `def … : Prop`).  `C10_full_false_without_prevalidation`: false for the code without
  the pre-validations (witnesses `undo_older_without_prevalidation`, `redo_partial_without_prevalidation`).

  A. every `cfg`, every tree side, every start state, command list and clock schedule:
     `append_only`, `step_appends`, `one_entry_per_success`, `fresh_id_partial`, `ids_nodup`, `rejected_unchanged`,
     `undo_eligibility`, `redo_eligibility`, `revert_ids_wellformed`.
  B. consequences of single checks, all sequences:
     `duplicate_id_changes_nothing`, `failed_only_by_partial_apply` (earlyDupCheck); `redo_only_once`, `redo_never_again`
     (redoOnce); `redo_atomic` (earlyDupCheck + redoPrevalidate): a redo that does not succeed changes nothing;
     `undo_atomic`, `undo_atomic_all_runs` (undoPrevalidate): an undo that does not succeed changes nothing.
  C. `refines_spec_partial` (earlyDupCheck + redoOnce): under the guard `G10` and the round-trip law of the tree side every
     command conforms to the abstract history.  `G10`: `noPartial` (a rename's apply does not stop half-way: C04),
     `undoInPlace`, `redoInPlace` (tree = post- / pre-state of the addressed operation).  With the pre-validations the
     in-place clauses are no longer needed for "or is rejected leaving tree and history unchanged" (that part is B,
     unconditional); they remain only for "the tree is exactly the recorded pre- or post-state", which for an undo/redo that
     succeeds out of place is not what the history implies anyway (the check's oracle uses the per-file reading there).
  D'. the directory instance used by the driver for workspaces with a renamed directory (`HistoryTreeDir`): kernel-evaluated
     `dir_rename_undo_roundtrip`, `dir_stale_redo_refused`, `dir_undo_older_refused`.  The theorems of A–C hold for it as for
     every tree side; its round-trip law (the hypothesis of C) is not proved, only compared with the CLI.
  D. before / after theorems for the four repaired defects and for the two proposed pre-validations.
-/
namespace C10
open History HistorySpec

section generic
variable {Tree Plan Backup H : Type} [DecidableEq H]

-- A. every cfg ---------------------------------------------------------------------------------------------

/-- One command leaves `entries` unchanged or appends exactly one entry whose id was not there;
    it appends iff it reports success. -/
theorem step_appends (cfg : Cfg) (ops : Ops Tree Plan Backup H) (w : World Tree Plan Backup H) (c : Cmd H) :
    ((step cfg ops w c).2 = .ok ∧ AppendsOne w.entries (step cfg ops w c).1.entries) ∨
    ((step cfg ops w c).2 ≠ .ok ∧ (step cfg ops w c).1.entries = w.entries) :=
  History.step_appends cfg ops w c

/-- Append-only, all sequences, all clocks: earlier entries are never lost, altered or duplicated. -/
theorem append_only (cfg : Cfg) (ops : Ops Tree Plan Backup H) (w : World Tree Plan Backup H) (cs : List (Cmd H)) :
    w.entries <+: (run cfg ops w cs).1.entries :=
  History.run_prefix cfg ops w cs

/-- … and the number of entries added is the number of commands that reported success. -/
theorem one_entry_per_success (cfg : Cfg) (ops : Ops Tree Plan Backup H) (w : World Tree Plan Backup H)
    (cs : List (Cmd H)) :
    (run cfg ops w cs).1.entries.length = w.entries.length + (run cfg ops w cs).2.count .ok :=
  History.run_length cfg ops w cs

/-- The appended id is fresh — because `add_entry` refuses a duplicate, whatever the id generator does. -/
theorem fresh_id_partial (cfg : Cfg) (ops : Ops Tree Plan Backup H) (w : World Tree Plan Backup H) (c : Cmd H)
    (e : Entry H) (h : (step cfg ops w c).1.entries = w.entries ++ [e]) : hasId w.entries e.id = false :=
  History.step_fresh cfg ops w c e h

/-- ids stay pairwise distinct along every run -/
theorem ids_nodup (cfg : Cfg) (ops : Ops Tree Plan Backup H) (w : World Tree Plan Backup H) (cs : List (Cmd H))
    (h : (w.entries.map (·.id)).Nodup) : ((run cfg ops w cs).1.entries.map (·.id)).Nodup :=
  History.run_nodup cfg ops w cs h

/-- A rejected command changes nothing: not the tree, not the history, not the stores below `.renamify`. -/
theorem rejected_unchanged (cfg : Cfg) (ops : Ops Tree Plan Backup H) (w : World Tree Plan Backup H) (c : Cmd H)
    (h : (step cfg ops w c).2 = .rejected) : (step cfg ops w c).1 = w :=
  History.step_rejected cfg ops w c h

/-- Undo succeeds only on an entry that exists, is not itself a revert and has no revert yet;
    it then appends `revert-<id>-<now>` pointing at it. -/
theorem undo_eligibility (cfg : Cfg) (ops : Ops Tree Plan Backup H) (w : World Tree Plan Backup H) (t : Target H)
    (h : (step cfg ops w (.undo t)).2 = .ok) :
    ∃ i e, resolve w.entries true t = some i ∧ findEntry w.entries i = some e ∧ e.revertOf = none ∧
      hasRevertOf w.entries i = false ∧
      (step cfg ops w (.undo t)).1.entries = w.entries ++ [{ id := revertId cfg i w.clock, revertOf := some i }] :=
  History.undo_ok cfg ops w t h

/-- Redo succeeds only on an entry that exists and has a revert; it appends `redo-<id>-<now>`. -/
theorem redo_eligibility (cfg : Cfg) (ops : Ops Tree Plan Backup H) (w : World Tree Plan Backup H) (t : Target H)
    (h : (step cfg ops w (.redo t)).2 = .ok) :
    ∃ i, resolve w.entries false t = some i ∧ hasId w.entries i = true ∧ hasRevertOf w.entries i = true ∧
      (step cfg ops w (.redo t)).1.entries = w.entries ++ [{ id := .redo i w.clock, revertOf := none }] :=
  History.redo_ok cfg ops w t h

omit [DecidableEq H] in
/-- `latest` for undo never resolves to a revert entry, `latest` for redo always to the target of one. -/
theorem latest_undo_not_revert (es : List (Entry H)) (i : EId H) (h : latestUndo es = some i) :
    ∃ e ∈ es, e.id = i ∧ e.revertOf = none :=
  History.latestUndo_spec es i h

theorem latest_redo_reverted (es : List (Entry H)) (i : EId H) (h : latestRedo es = some i) :
    hasRevertOf es i = true :=
  History.latestRedo_spec es i h

/-- With an injective hash, different (concatenated terms, second) give different ids. -/
theorem fresh_of_injective (ops : Ops Tree Plan Backup H)
    (hinj : ∀ k k' s s', ops.hash k s = ops.hash k' s' → k = k' ∧ s = s')
    (es : List (Entry H)) (key : Bytes) (now : Nat)
    (h : ∀ e ∈ es, (∀ h', e.id ≠ .plan h') ∨ (∃ k s, e.id = .plan (ops.hash k s) ∧ ¬ (k = key ∧ s = now))) :
    hasId es (.plan (ops.hash key now)) = false :=
  History.fresh_of_injective ops hinj es key now h

-- B. consequences of the single checks ---------------------------------------------------------------------------

/-- ids of the form `revert-<j>-…` always belong to entries that revert `j`, along every run from an empty history -/
theorem revert_ids_wellformed (cfg : Cfg) (hRI : cfg.revertIdOfRoot = false) (ops : Ops Tree Plan Backup H) (t : Tree)
    (clock : Nat) (cs : List (Cmd H)) :
    History.RevForm (run cfg ops (init t clock : World Tree Plan Backup H) cs).1.entries :=
  History.run_revForm cfg hRI ops _ cs (by intro e he; simp [init] at he)

/-- 6667a82.  With the early id check the order "plan file, then history entry" vs "entry, then plan file" makes no
    difference to any command: the only step at which they differ (the entry cannot be recorded) is unreachable. -/
theorem plan_order_irrelevant (cfg : Cfg) (hE : cfg.earlyDupCheck = true) (b : Bool) (ops : Ops Tree Plan Backup H)
    (w : World Tree Plan Backup H) (id : EId H) (p : Plan) :
    applyWithId { cfg with planBeforeEntry := b } ops w id p = applyWithId cfg ops w id p := by
  unfold applyWithId
  by_cases hd : hasId w.entries id = true
  · simp [hd, hE]
  · have hd' : hasId w.entries id = false := by simpa using hd
    cases ha : ops.apply w.tree p <;> simp [hd', addEntry]

/-- c3d511b.  A rename whose id is already in the history — equal concatenated terms in the same second — changes
    nothing at all and does not report success; likewise `apply_plan` under any id that is already there (redo). -/
theorem duplicate_id_changes_nothing (cfg : Cfg) (hE : cfg.earlyDupCheck = true) (ops : Ops Tree Plan Backup H)
    (w : World Tree Plan Backup H) :
    (∀ s r, hasId w.entries (.plan (ops.hash (s ++ r) w.clock)) = true →
      (step cfg ops w (.rename s r)).1 = w ∧ (step cfg ops w (.rename s r)).2 ≠ .ok) ∧
    (∀ id p, hasId w.entries id = true → applyWithId cfg ops w id p = (w, .rejected)) :=
  ⟨fun s r h => History.stepRename_dup_current cfg hE ops w s r h,
   fun id p h => History.applyWithId_dup_current cfg hE ops w id p h⟩

/-- The only way a rename fails after a change is the tree side stopping half-way; the same for `apply_plan`
    under any id. -/
theorem failed_only_by_partial_apply (cfg : Cfg) (hE : cfg.earlyDupCheck = true) (ops : Ops Tree Plan Backup H)
    (w : World Tree Plan Backup H) :
    (∀ s r, (step cfg ops w (.rename s r)).2 = .failed →
      ∃ t', ops.apply w.tree (ops.scan w.tree s r) = .partly t') ∧
    (∀ id p, (applyWithId cfg ops w id p).2 = .failed → ∃ t', ops.apply w.tree p = .partly t') :=
  ⟨fun s r h => History.stepRename_failed_current cfg hE ops w s r h,
   fun id p h => History.applyWithId_failed_current cfg hE ops w id p h⟩

/-- 07a4584.  A redo succeeds only on an id that has no redo entry yet, and gives it one. -/
theorem redo_only_once (cfg : Cfg) (hR : cfg.redoOnce = true) (ops : Ops Tree Plan Backup H)
    (w : World Tree Plan Backup H) (t : Target H) (h : (step cfg ops w (.redo t)).2 = .ok) :
    ∃ i, resolve w.entries false t = some i ∧ hasRedoOf w.entries i = false ∧
      hasRedoOf (step cfg ops w (.redo t)).1.entries i = true :=
  History.stepRedo_ok_current cfg hR ops w t h

/-- … and from then on, whatever commands follow, `redo <id>` is rejected with the world unchanged. -/
theorem redo_never_again (cfg : Cfg) (hR : cfg.redoOnce = true) (ops : Ops Tree Plan Backup H)
    (w : World Tree Plan Backup H) (i : EId H) (h : hasRedoOf w.entries i = true) (cs : List (Cmd H)) :
    step cfg ops (run cfg ops w cs).1 (.redo (.id i)) = ((run cfg ops w cs).1, .rejected) := by
  have hp := History.hasRedoOf_prefix _ _ i (History.run_prefix cfg ops w cs) h
  show stepRedo cfg ops _ (.id i) = _
  by_cases hid : hasId (run cfg ops w cs).1.entries i = true
  · exact History.stepRedo_redone_current cfg hR ops _ (.id i) i (by simp [resolve, hid]) hp
  · unfold stepRedo; simp [resolve, hid]

/-- 3933d7f, the redo pre-validation (with the early id check): in ANY state a redo either succeeds or changes nothing —
    not the tree, not the history, not the stores.  No guard. -/
theorem redo_atomic (cfg : Cfg) (hE : cfg.earlyDupCheck = true) (hP : cfg.redoPrevalidate = true)
    (ops : Ops Tree Plan Backup H) (w : World Tree Plan Backup H) (t : Target H)
    (h : (step cfg ops w (.redo t)).2 ≠ .ok) : (step cfg ops w (.redo t)).1 = w := by
  rcases History.stepRedo_cases cfg ops w t with h' | h' | h'
  · exact absurd h'.1 h
  · exact h'.2
  · exact absurd h'.1 (History.stepRedo_never_failed cfg hE hP ops w t)

/-- 657a7be, the undo pre-validation: in any state whose revert ids are well-formed an undo either succeeds or changes
    nothing. -/
theorem undo_atomic (cfg : Cfg) (hU : cfg.undoPrevalidate = true) (hRI : cfg.revertIdOfRoot = false) (ops : Ops Tree Plan Backup H)
    (w : World Tree Plan Backup H) (t : Target H) (hF : History.RevForm w.entries)
    (h : (step cfg ops w (.undo t)).2 ≠ .ok) : (step cfg ops w (.undo t)).1 = w := by
  rcases History.stepUndo_cases cfg ops w t with h' | h' | h'
  · exact absurd h'.1 h
  · exact h'.2
  · exact absurd h'.1 (History.stepUndo_never_failed cfg hU hRI ops w t hF)

/-- … hence after ANY command sequence from an empty history, with any clock schedule. -/
theorem undo_atomic_all_runs (cfg : Cfg) (hU : cfg.undoPrevalidate = true) (hRI : cfg.revertIdOfRoot = false) (ops : Ops Tree Plan Backup H)
    (tr : Tree) (clock : Nat) (cs : List (Cmd H)) (t : Target H)
    (h : (step cfg ops (run cfg ops (init tr clock) cs).1 (.undo t)).2 ≠ .ok) :
    (step cfg ops (run cfg ops (init tr clock) cs).1 (.undo t)).1 = (run cfg ops (init tr clock) cs).1 :=
  undo_atomic cfg hU hRI ops _ t (revert_ids_wellformed cfg hRI ops tr clock cs) h

-- C. refinement ------------------------------------------------------------------------------------------------

/-- THE FULL STATEMENT (false today, see the witnesses): whatever the tree side, as long as it has the undo
    round-trip law, every command of every sequence from an empty history conforms to the abstract history:
    it succeeds into the state the history implies with exactly one fresh entry, or changes neither tree nor history;
    undo only while applied, redo only while undone. -/
def C10_full (cfg : Cfg) : Prop :=
  ∀ (Tree Plan Backup H : Type) [DecidableEq H] (ops : Ops Tree Plan Backup H), RoundTrip ops →
    ∀ (t : Tree) (clock : Nat) (cs : List (Cmd H)),
      AllConform cfg ops (init t clock : World Tree Plan Backup H) ([] : Spec Tree H) cs

/-- Refinement under the guard: for every tree side with the round-trip law, every start tree, clock and command
    list whose steps all satisfy `G10`, every command conforms to the abstract history. -/
theorem refines_spec_partial [DecidableEq Tree] (cfg : Cfg) (hE : cfg.earlyDupCheck = true) (hR : cfg.redoOnce = true)
    (hRI : cfg.revertIdOfRoot = false) (ops : Ops Tree Plan Backup H) (hRT : RoundTrip ops) (t : Tree) (clock : Nat) (cs : List (Cmd H))
    (hG : Guarded cfg ops (init t clock : World Tree Plan Backup H) ([] : Spec Tree H) cs = true) :
    AllConform cfg ops (init t clock : World Tree Plan Backup H) ([] : Spec Tree H) cs :=
  History.guarded_conform cfg hE hR hRI ops hRT cs _ _ (History.inv_init ops t clock) hG

/-- One guarded step from any state satisfying the invariant (what the induction uses).  In particular: an undo
    that succeeds addresses an operation that is applied in the abstract history, a redo one that is undone — without
    the guard saying so. -/
theorem guarded_step_conforms [DecidableEq Tree] (cfg : Cfg) (hE : cfg.earlyDupCheck = true) (hR : cfg.redoOnce = true)
    (hRI : cfg.revertIdOfRoot = false) (ops : Ops Tree Plan Backup H) (hRT : RoundTrip ops)
    (w : World Tree Plan Backup H) (s : Spec Tree H) (c : Cmd H) (hI : History.Inv ops w s)
    (hG : G10 ops w s c = true) : Conforms cfg ops w s c :=
  (History.inv_step cfg hE hR hRI ops hRT w s c hI hG).1

/-- The eligibility scans of the implementation decide the abstract status, in every state reached inside the guard:
    an entry without a revert carries an applied operation, a reverted and not-yet-redone entry an undone one. -/
theorem eligibility_is_status (ops : Ops Tree Plan Backup H) (w : World Tree Plan Backup H) (s : Spec Tree H)
    (hI : History.Inv ops w s) (e : Entry H) (he : e ∈ w.entries) (hn : e.revertOf = none) (o : Op Tree H)
    (ho : find s e.id.root = some o) :
    (hasRevertOf w.entries e.id = false → o.applied = true) ∧
    (hasRevertOf w.entries e.id = true → hasRedoOf w.entries e.id = false → o.applied = false) :=
  ⟨fun h => hI.status.unrevApplied e he hn h o ho, fun h1 h2 => hI.status.revUndone e he hn h1 h2 o ho⟩

end generic

-- kernel-evaluated statements on the concrete tree side ---------------------------------------------------------
section witnesses
open HistoryTree

/-- the check's workspace: A = foo_bar→baz_qux, A' = foo→foo_bar (replacement contains the search), B = alpha→gamma -/
def t0 : HistoryTree.Tree :=
  [(b!"f1.txt", b!"foo_bar one\n"), (b!"f2.txt", b!"alpha x\n"), (b!"f3.txt", b!"use foo_bar and alpha\n")]

abbrev C := Cmd HistoryTree.H
def renA : C := .rename b!"foo_bar" b!"baz_qux"
def renA' : C := .rename b!"foo" b!"foo_bar"
def renB : C := .rename b!"alpha" b!"gamma"
def idA : EId HistoryTree.H := .plan (b!"foo_barbaz_qux", 0)
def idB : EId HistoryTree.H := .plan (b!"alphagamma", 0)

/-- the shape of the code the translator read: all four checks, the plan stored before the history entry, the revert id
    built on the entry id (if a check disappears or the id format changes, this stops checking) -/
theorem current_shape : Cfg.current = Cfg.full := by decide

-- the two remaining ways out of the property, and what the proposed pre-validations do about them -----------------

/-- Undo of a non-latest operation whose reverse patch no longer applies to one of its files: the files whose
    patch applies are restored (f1), the other is left alone with a `.rej` next to it (f3), exit ≠ 0, no entry:
    a failed command that changed the tree. -/
theorem undo_older_without_prevalidation :
    (run .withoutPrevalidation ops (start t0) [renA, .tick, renB, .tick, .undo (.id idA)]).2
      = [.ok, .noop, .ok, .noop, .failed] ∧
    (run .withoutPrevalidation ops (start t0) [renA, .tick, renB, .tick, .undo (.id idA)]).1.entries.length = 2 ∧
    (run .withoutPrevalidation ops (start t0) [renA, .tick, renB, .tick, .undo (.id idA)]).1.tree
      = [(b!"f1.txt", b!"foo_bar one\n"), (b!"f2.txt", b!"gamma x\n"),
         (b!"f3.txt", b!"use baz_qux and gamma\n"), (b!"f3.txt.rej", b!"REJ")] := by decide

/-- A redo that is not "in place": B, undo B, then A' moves the offsets in f3; redoing B re-edits f2, then the
    stored plan fails validation on f3 and the command stops: exit ≠ 0, f2 changed, no entry (content edits are
    not rolled back — C04's defect, reached through a stale stored plan). -/
theorem redo_partial_without_prevalidation :
    (run .withoutPrevalidation ops (start t0) [renB, .tick, .undo .latest, .tick, renA', .tick, .redo (.id idB)]).2
      = [.ok, .noop, .ok, .noop, .ok, .noop, .failed] ∧
    (run .withoutPrevalidation ops (start t0) [renB, .tick, .undo .latest, .tick, renA', .tick, .redo (.id idB)]).1.entries.length = 3 ∧
    (run .withoutPrevalidation ops (start t0) [renB, .tick, .undo .latest, .tick, renA', .tick, .redo (.id idB)]).1.tree
      = [(b!"f1.txt", b!"foo_bar_bar one\n"), (b!"f2.txt", b!"gamma x\n"),
         (b!"f3.txt", b!"use foo_bar_bar and alpha\n")] := by decide

/-- WITH the undo pre-validation the same undo is refused and nothing at all is touched (no `.rej`, no partial
    restore); once B is undone, A can be undone. -/
theorem undo_older_prevalidated_rejected :
    (run .full ops (start t0) [renA, .tick, renB, .tick, .undo (.id idA)]).2 = [.ok, .noop, .ok, .noop, .rejected] ∧
    (run .full ops (start t0) [renA, .tick, renB, .tick, .undo (.id idA)]).1.tree
      = (run .full ops (start t0) [renA, .tick, renB, .tick]).1.tree ∧
    (run .full ops (start t0) [renA, .tick, renB, .tick, .undo (.id idA), .undo .latest, .tick, .undo (.id idA)]).2
      = [.ok, .noop, .ok, .noop, .rejected, .ok, .noop, .ok] ∧
    (run .full ops (start t0) [renA, .tick, renB, .tick, .undo (.id idA), .undo .latest, .tick, .undo (.id idA)]).1.tree
      = HistoryTree.normalize t0 := by decide

/-- WITH the redo pre-validation the stale redo is refused and f2 stays as it was. -/
theorem redo_partial_prevalidated_rejected :
    (run .full ops (start t0) [renB, .tick, .undo .latest, .tick, renA', .tick, .redo (.id idB)]).2
      = [.ok, .noop, .ok, .noop, .ok, .noop, .rejected] ∧
    (run .full ops (start t0) [renB, .tick, .undo .latest, .tick, renA', .tick, .redo (.id idB)]).1.tree
      = (run .full ops (start t0) [renB, .tick, .undo .latest, .tick, renA', .tick]).1.tree := by decide

/-- each pre-validation is needed for its own command -/
theorem undo_prevalidation_alone_keeps_redo_partial :
    (run { Cfg.withoutPrevalidation with undoPrevalidate := true } ops (start t0)
      [renB, .tick, .undo .latest, .tick, renA', .tick, .redo (.id idB)]).2
      = [.ok, .noop, .ok, .noop, .ok, .noop, .failed] := by decide

theorem redo_prevalidation_alone_keeps_undo_older :
    (run { Cfg.withoutPrevalidation with redoPrevalidate := true } ops (start t0)
      [renA, .tick, renB, .tick, .undo (.id idA)]).2 = [.ok, .noop, .ok, .noop, .failed] := by decide

-- what the repairs removed: the code before them vs. the code as it is -----------------------------------------------

/-- BEFORE c3d511b: two identical renames within one second — the second edits the tree AGAIN (`foo_bar_bar_bar`),
    then `add_entry` refuses the duplicate id: exit ≠ 0, tree changed, no entry. -/
theorem same_second_before_fix :
    (run .beforeFixes ops (start t0) [renA', renA']).2 = [.ok, .failed] ∧
    (run .beforeFixes ops (start t0) [renA', renA']).1.entries.length = 1 ∧
    get (run .beforeFixes ops (start t0) [renA']).1.tree b!"f1.txt" = some b!"foo_bar_bar one\n" ∧
    get (run .beforeFixes ops (start t0) [renA', renA']).1.tree b!"f1.txt" = some b!"foo_bar_bar_bar one\n" := by decide

/-- NOW: the second one is rejected and the whole world is as the first left it; one second apart both succeed. -/
theorem same_second_now_rejected :
    (run .withoutPrevalidation ops (start t0) [renA', renA']).2 = [.ok, .rejected] ∧
    (run .withoutPrevalidation ops (start t0) [renA', renA']).1.tree = (run .withoutPrevalidation ops (start t0) [renA']).1.tree ∧
    (run .withoutPrevalidation ops (start t0) [renA', renA']).1.entries = (run .withoutPrevalidation ops (start t0) [renA']).1.entries ∧
    (run .withoutPrevalidation ops (start t0) [renA', .tick, renA']).2 = [.ok, .noop, .ok] := by decide

/-- BEFORE c3d511b: the id hashes the CONCATENATION of search and replacement, so `ab→c` and `a→bc` in one second
    collide, and the second had already edited the tree when it found out. -/
theorem concat_collision_before_fix :
    (run .beforeFixes ops (start [(b!"g.txt", b!"ab a\n")]) [.rename b!"ab" b!"c", .rename b!"a" b!"bc"]).2 = [.ok, .failed] ∧
    (run .beforeFixes ops (start [(b!"g.txt", b!"ab a\n")]) [.rename b!"ab" b!"c", .rename b!"a" b!"bc"]).1.tree
      = [(b!"g.txt", b!"c bc\n")] := by decide

/-- NOW: they still collide (the hash input is unchanged), but the second command is refused untouched. -/
theorem concat_collision_now_rejected :
    (run .withoutPrevalidation ops (start [(b!"g.txt", b!"ab a\n")]) [.rename b!"ab" b!"c", .rename b!"a" b!"bc"]).2 = [.ok, .rejected] ∧
    (run .withoutPrevalidation ops (start [(b!"g.txt", b!"ab a\n")]) [.rename b!"ab" b!"c", .rename b!"a" b!"bc"]).1.tree
      = [(b!"g.txt", b!"c a\n")] := by decide

/-- BEFORE 07a4584: rename, undo, redo, redo — the second redo was attempted again because `redo_renaming` only looked
    for a revert entry; with a replacement that contains the search term the stored plan still validated, so it was
    applied a second time and recorded as a second redo. -/
theorem redo_twice_before_fix :
    (run .beforeFixes ops (start t0) [renA', .tick, .undo .latest, .tick, .redo .latest, .tick, .redo .latest]).2
      = [.ok, .noop, .ok, .noop, .ok, .noop, .ok] ∧
    (run .beforeFixes ops (start t0) [renA', .tick, .undo .latest, .tick, .redo .latest, .tick, .redo .latest]).1.entries.length = 4 ∧
    get (run .beforeFixes ops (start t0) [renA', .tick, .undo .latest, .tick, .redo .latest, .tick, .redo .latest]).1.tree b!"f1.txt"
      = some b!"foo_bar_bar_bar one\n" := by decide

/-- NOW: the second redo is rejected, the tree stays as the first redo left it; undoing the redo entry and redoing
    THAT still works (the chain `X, redo-X-…, redo-redo-X-…-…`). -/
theorem redo_twice_now_rejected :
    (run .withoutPrevalidation ops (start t0) [renA', .tick, .undo .latest, .tick, .redo .latest, .tick, .redo .latest]).2
      = [.ok, .noop, .ok, .noop, .ok, .noop, .rejected] ∧
    get (run .withoutPrevalidation ops (start t0) [renA', .tick, .undo .latest, .tick, .redo .latest, .tick, .redo .latest]).1.tree b!"f1.txt"
      = some b!"foo_bar_bar one\n" ∧
    (run .withoutPrevalidation ops (start t0) [renA', .tick, .undo .latest, .tick, .redo .latest, .tick, .undo .latest, .tick,
      .redo .latest, .tick, .redo .latest]).2
      = [.ok, .noop, .ok, .noop, .ok, .noop, .ok, .noop, .ok, .noop, .rejected] := by decide

/-- BEFORE both: two redos of one id within a second — the plan was applied, then `add_entry` rejected
    `redo-<id>-<sec>`. -/
theorem redo_id_collision_before_fix :
    (run .beforeFixes ops (start t0) [renA', .tick, .undo .latest, .tick, .redo .latest, .redo .latest]).2
      = [.ok, .noop, .ok, .noop, .ok, .failed] ∧
    get (run .beforeFixes ops (start t0) [renA', .tick, .undo .latest, .tick, .redo .latest, .redo .latest]).1.tree b!"f1.txt"
      = some b!"foo_bar_bar_bar one\n" := by decide

/-- NOW: rejected, tree unchanged. -/
theorem redo_id_collision_now_rejected :
    (run .withoutPrevalidation ops (start t0) [renA', .tick, .undo .latest, .tick, .redo .latest, .redo .latest]).2
      = [.ok, .noop, .ok, .noop, .ok, .rejected] ∧
    get (run .withoutPrevalidation ops (start t0) [renA', .tick, .undo .latest, .tick, .redo .latest, .redo .latest]).1.tree b!"f1.txt"
      = some b!"foo_bar_bar one\n" := by decide

/-- Each repair is needed on its own: the early id check alone does not stop a repeated redo in another second … -/
theorem early_check_alone_keeps_redo_twice :
    (run { Cfg.beforeFixes with earlyDupCheck := true } ops (start t0)
      [renA', .tick, .undo .latest, .tick, .redo .latest, .tick, .redo .latest]).2
      = [.ok, .noop, .ok, .noop, .ok, .noop, .ok] := by decide

/-- … and "redo only once" alone does not stop the same-second rename. -/
theorem redo_once_alone_keeps_same_second :
    (run { Cfg.beforeFixes with redoOnce := true } ops (start t0) [renA', renA']).2 = [.ok, .failed] := by decide

-- the directory instance (workspace W5 of the check) ---------------------------------------------------------------

/-- a directory whose name contains the term, holding a file that is edited but not renamed, next to a top-level edited
    file that sorts before it -/
def t5 : HistoryTree.Tree :=
  [(b!"a.txt", b!"foo_bar top\n"), (b!"foo_bar_dir/inner.txt", b!"one foo_bar x\n"), (b!"z.txt", b!"alpha z\n")]

def renS : C := .rename b!"one" b!"three"

/-- A edits both files and renames the directory; undo brings everything back, directory included. -/
theorem dir_rename_undo_roundtrip :
    (run .full HistoryTreeDir.ops (HistoryTreeDir.start t5) [renA]).1.tree
      = [(b!"a.txt", b!"baz_qux top\n"), (b!"baz_qux_dir/inner.txt", b!"one baz_qux x\n"), (b!"z.txt", b!"alpha z\n")] ∧
    (run .full HistoryTreeDir.ops (HistoryTreeDir.start t5) [renA, .tick, .undo .latest]).2 = [.ok, .noop, .ok] ∧
    (run .full HistoryTreeDir.ops (HistoryTreeDir.start t5) [renA, .tick, .undo .latest]).1.tree = HistoryTree.normalize t5 := by
  decide

/-- A, undo, then S shifts A's match in the in-directory file: the redo of A is refused with nothing touched.  Without
    the hunk-by-hunk pre-validation (e.g. a pre-check that only compares the checksums the undo recorded, which do not
    cover the in-directory file: seeded/C10d) the top-level file is re-edited before the in-directory file fails. -/
theorem dir_stale_redo_refused :
    (run .full HistoryTreeDir.ops (HistoryTreeDir.start t5) [renA, .tick, .undo .latest, .tick, renS, .tick, .redo (.id idA)]).2
      = [.ok, .noop, .ok, .noop, .ok, .noop, .rejected] ∧
    (run .full HistoryTreeDir.ops (HistoryTreeDir.start t5) [renA, .tick, .undo .latest, .tick, renS, .tick, .redo (.id idA)]).1.tree
      = [(b!"a.txt", b!"foo_bar top\n"), (b!"foo_bar_dir/inner.txt", b!"three foo_bar x\n"), (b!"z.txt", b!"alpha z\n")] ∧
    (run { Cfg.full with redoPrevalidate := false } HistoryTreeDir.ops (HistoryTreeDir.start t5)
      [renA, .tick, .undo .latest, .tick, renS, .tick, .redo (.id idA)]).2
      = [.ok, .noop, .ok, .noop, .ok, .noop, .failed] ∧
    (run { Cfg.full with redoPrevalidate := false } HistoryTreeDir.ops (HistoryTreeDir.start t5)
      [renA, .tick, .undo .latest, .tick, renS, .tick, .redo (.id idA)]).1.tree
      = [(b!"a.txt", b!"baz_qux top\n"), (b!"foo_bar_dir/inner.txt", b!"three foo_bar x\n"), (b!"z.txt", b!"alpha z\n")] := by
  decide

/-- an undo of A while a later S still holds the in-directory file is refused as well, and works once S is undone -/
theorem dir_undo_older_refused :
    (run .full HistoryTreeDir.ops (HistoryTreeDir.start t5) [renA, .tick, renS, .tick, .undo (.id idA), .undo .latest, .tick, .undo (.id idA)]).2
      = [.ok, .noop, .ok, .noop, .rejected, .ok, .noop, .ok] ∧
    (run .full HistoryTreeDir.ops (HistoryTreeDir.start t5) [renA, .tick, renS, .tick, .undo (.id idA), .undo .latest, .tick, .undo (.id idA)]).1.tree
      = HistoryTree.normalize t5 := by
  decide

-- the refinement on the concrete tree side ---------------------------------------------------------------------------

/-- The flat-file tree side satisfies the hypothesis of the refinement theorem … -/
theorem roundtrip_concrete : RoundTrip HistoryTree.ops := HistoryTree.roundTrip

/-- … so for it the refinement holds outright for every guarded sequence. -/
theorem refines_spec_concrete (cfg : Cfg) (hE : cfg.earlyDupCheck = true) (hR : cfg.redoOnce = true)
    (hRI : cfg.revertIdOfRoot = false) (t : HistoryTree.Tree) (clock : Nat) (cs : List C)
    (hG : Guarded cfg ops (init t clock) [] cs = true) : AllConform cfg ops (init t clock) [] cs :=
  refines_spec_partial cfg hE hR hRI ops HistoryTree.roundTrip t clock cs hG

/-- … in particular for the code as it is. -/
theorem refines_spec_current (t : HistoryTree.Tree) (clock : Nat) (cs : List C)
    (hG : Guarded .current ops (init t clock) [] cs = true) : AllConform .current ops (init t clock) [] cs := by
  rw [current_shape] at hG ⊢
  exact refines_spec_concrete .full rfl rfl rfl t clock cs hG

/-- … and for the code as it is an undo or a redo that does not succeed changes nothing, after any command sequence
    from an empty history and under any clock. -/
theorem undo_redo_atomic_current (t : HistoryTree.Tree) (clock : Nat) (cs : List C) (tg : Target HistoryTree.H) :
    ((step .current ops (run .current ops (init t clock) cs).1 (.undo tg)).2 ≠ .ok →
      (step .current ops (run .current ops (init t clock) cs).1 (.undo tg)).1 = (run .current ops (init t clock) cs).1) ∧
    ((step .current ops (run .current ops (init t clock) cs).1 (.redo tg)).2 ≠ .ok →
      (step .current ops (run .current ops (init t clock) cs).1 (.redo tg)).1 = (run .current ops (init t clock) cs).1) := by
  rw [current_shape]
  exact ⟨undo_atomic_all_runs .full rfl rfl ops t clock cs tg, redo_atomic .full rfl rfl ops _ tg⟩

/-- A seeded variant (seeded/C10c): the revert id built on the ROOT plan id.  rename, undo, redo, undo latest within ONE
    second: the last undo addresses `redo-X-<sec>`, restores the tree, and computes `revert-X-<sec>` — which the first undo
    already took: exit ≠ 0 after the tree was changed, no entry.  With the id built on the entry id all four succeed. -/
theorem revert_id_of_root_collides :
    (run { Cfg.full with revertIdOfRoot := true } ops (start t0) [renA', .undo .latest, .redo .latest, .undo .latest]).2
      = [.ok, .ok, .ok, .failed] ∧
    (run { Cfg.full with revertIdOfRoot := true } ops (start t0) [renA', .undo .latest, .redo .latest, .undo .latest]).1.tree
      = HistoryTree.normalize t0 ∧
    (run { Cfg.full with revertIdOfRoot := true } ops (start t0) [renA', .undo .latest, .redo .latest, .undo .latest]).1.entries.length = 3 ∧
    (run .full ops (start t0) [renA', .undo .latest, .redo .latest, .undo .latest]).2 = [.ok, .ok, .ok, .ok] := by decide

/-- Non-vacuity of the guard: renames of three different plans, undo and redo by `latest` and by id, one second apart
    and within one second, repeated redos, duplicates — all inside `G10` … -/
example : Guarded .withoutPrevalidation ops (start t0) []
    [renA, renA, .tick, renB, .tick, .undo .latest, .tick, .redo .latest, .redo .latest, .tick, .redo .latest, .tick,
     .undo .latest, .tick, .undo (.id idA), .tick, .redo (.id idA), .tick, .redo (.id idA),
     .redo (.id (.plan (b!"nope", 7))), .undo (.id (.plan (b!"nope", 7))), renA', renB] = true := by decide

/-- … the sequences of the repaired defects are now inside it … -/
example : Guarded .withoutPrevalidation ops (start t0) [] [renA', renA'] = true ∧
    Guarded .withoutPrevalidation ops (start t0) [] [renA', .tick, .undo .latest, .tick, .redo .latest, .tick, .redo .latest, .redo .latest] = true := by
  decide

/-- … while the two remaining witnesses leave it exactly at the offending command. -/
example : Guarded .withoutPrevalidation ops (start t0) [] [renA, .tick, renB, .tick, .undo (.id idA)] = false ∧
    Guarded .withoutPrevalidation ops (start t0) [] [renA, .tick, renB, .tick] = true := by decide
example : Guarded .withoutPrevalidation ops (start t0) [] [renB, .tick, .undo .latest, .tick, renA', .tick, .redo (.id idB)] = false ∧
    Guarded .withoutPrevalidation ops (start t0) [] [renB, .tick, .undo .latest, .tick, renA', .tick] = true := by decide

/-- the same guard statements hold with the pre-validations: the guard does not depend on them -/
example : Guarded .full ops (start t0) [] [renA, .tick, renB, .tick, .undo (.id idA)] = false ∧
    Guarded .full ops (start t0) [] [renA, renA, .tick, renB, .tick, .undo .latest, .tick, .redo .latest, .redo .latest] = true := by
  decide

/-- Without the pre-validations the full statement is false: the undo-older witness is a counterexample for the
    flat-file tree side. -/
theorem C10_full_false_without_prevalidation : ¬ C10_full .withoutPrevalidation := by
  intro h
  have h2 := h HistoryTree.Tree HistoryTree.Plan HistoryTree.Backup HistoryTree.H ops HistoryTree.roundTrip
    (HistoryTree.normalize t0) 0 [renA, .tick, renB, .tick, .undo (.id idA)]
  have hc := h2.2.2.2.2.1
  revert hc
  unfold Conforms
  intro hh
  rcases hh with ⟨hok, _⟩ | ⟨_, htree, _⟩
  · revert hok; decide
  · revert htree; decide

/-- Non-vacuity of the eligibility theorems: undo and redo do succeed in the model, and are refused when they should. -/
example : (step .withoutPrevalidation ops (run .withoutPrevalidation ops (start t0) [renA, .tick]).1 (.undo .latest)).2 = .ok := by decide
example : (step .withoutPrevalidation ops (run .withoutPrevalidation ops (start t0) [renA, .tick, .undo .latest, .tick]).1 (.redo .latest)).2 = .ok := by decide
example : (step .withoutPrevalidation ops (run .withoutPrevalidation ops (start t0) [renA]).1 (.redo .latest)).2 = .rejected := by decide
example : hasRedoOf (run .withoutPrevalidation ops (start t0) [renA, .tick, .undo .latest, .tick, .redo .latest]).1.entries idA = true := by decide

end witnesses

end C10
