import RModel.Props.C01
import RModel.Props.C08
import RModel.Props.C03
import RModel.Props.C15
import RModel.Lemmas.ExactPass
/-
  Cross-model composition theorems: the rename PLANNER (`RenamePlan.planRenames`, rename.rs), APPLY (`Apply.applyPlan`,
  apply.rs) and UNDO (`Undo.applyUndo`, undo.rs) are three hand-written models, each tied to the code by its own
  correspondence stream.  The theorems here chain them, so that the guards of the apply / undo theorems
  (`LastOnly`, `DistinctSources`, `KindsOk`, `DestFree`) are no longer hypotheses about a plan but CONSEQUENCES of
  "the planner produced it and apply accepted it":

    plan (C08)  ──accepted──▶  apply (C02/C05): refuses up front, tree untouched   (no third case)
                                               or moves every node to `finalPath`
                                 └─ ok ──▶  undo (C01): the tree is literally the one before apply

  Checked by `checks/c01.py`, `checks/c05.py` and `checks/c08.py` (`ctx.prove("RModel.Props.Compose")`).
-/
namespace Compose
open Fs Apply RenamePlan Undo

/-- what the planner needs to be well defined on a tree (C08's hypotheses, bundled) -/
structure PlannerOk (T : Tables) (o : Opts) (vmap : List VEntry) (t : Tree) (roots : List Path) : Prop where
  treeWF : C02ren.TreeWF t
  vals : C08.GoodVals vmap
  slashFree : ∀ e ∈ t, ∀ c ∈ e.1, (47 : UInt8) ∉ c
  noGit : C08.NoGitRoots roots

/-- PLAN ∘ APPLY: for every tree, every list of search roots, every variant table and EVERY list of content hunks, a
    rename plan the planner accepts is either refused by `apply_plan` before anything is touched (a destination exists
    on disk), or — content phase permitting — carried out completely: every node sits at `finalPath`.  There is no
    outcome in which some renames are done and others are not, or in which a node is overwritten. -/
theorem planned_refuses_or_moves (T : Tables) (o : Opts) (vmap : List VEntry) (t : Tree) (roots : List Path)
    (rs : List Ren) (hunks : List Hunk) (hp : PlannerOk T o vmap t roots)
    (hacc : planRenames T o vmap t roots = .ok rs)
    (hc : (contentPhase hunks t (sortedFiles hunks)).1 = .ok) :
    let p : Plan := ⟨hunks, rs⟩
    (((applyPlan t p).outcome = .destExists ∨ (applyPlan t p).outcome = .sharedDest) ∧ (applyPlan t p).tree = t) ∨
    ((applyPlan t p).outcome = .ok ∧
      (applyPlan t p).tree = C02ren.moveAll rs (contentPhase hunks t (sortedFiles hunks)).2) ∨
    (applyPlan t p).outcome = .backupFailed ∨ (∃ e, (applyPlan t p).outcome = .rollbackFailed e) := by
  obtain ⟨h1, h2, h4, _⟩ := C08.accepted_guards T o vmap t roots rs hp.treeWF hp.vals hp.slashFree hp.noGit hacc
  exact C02ren.applyPlan_refuses_or_moves t ⟨hunks, rs⟩ h1 h2 hp.treeWF h4 hc

/-- a planner-made plan is never refused for a SHARED destination: the planner's own conflict filter has removed those
    (so the refusal of repo commit 01297aa only ever fires for the literal/regex planner of `replace` and for
    hand-edited plan files) -/
theorem planned_never_shares_destination (T : Tables) (o : Opts) (vmap : List VEntry) (t : Tree) (roots : List Path)
    (rs : List Ren) (hunks : List Hunk) (hp : PlannerOk T o vmap t roots)
    (hacc : planRenames T o vmap t roots = .ok rs) :
    (applyPlan t ⟨hunks, rs⟩).outcome ≠ .sharedDest := by
  obtain ⟨h1, h2, h4, hsd⟩ := C08.accepted_guards T o vmap t roots rs hp.treeWF hp.vals hp.slashFree hp.noGit hacc
  intro hout
  cases hpf : preflight t [] rs with
  | none =>
    -- passed the loop: the outcome comes from `applyCore`, which never answers `sharedDest`
    rw [RenamePhase.applyPlan_pass (t := t) (p := ⟨hunks, rs⟩) hpf] at hout
    exact applyCore_ne_sharedDest t ⟨hunks, rs⟩ hout
  | some o' =>
    rw [RenamePhase.applyPlan_preflight_refusal t ⟨hunks, rs⟩ hpf] at hout
    simp only at hout
    subst hout
    -- the loop answered `sharedDest`: two renames it did not skip share a destination and differ in source
    exact preflight_sharedDest_absurd h1.toLemma hsd hpf
where
  applyCore_ne_sharedDest (t : Tree) (p : Plan) : (applyCore t p).outcome ≠ .sharedDest := by
    unfold applyCore
    cases hcp : contentPhase p.hunks t (sortedFiles p.hunks) with
    | mk o t1 =>
      cases o with
      | ok =>
        simp only
        cases hr : (renamePhase t1 [] (sortRens p.rens)).outcome with
        | ok =>
          simp only
          unfold backupPhase
          split
          · rw [hr]; intro h; cases h
          · split
            · split <;> (intro h; cases h)
            · intro h; cases h
        | sharedDest => exact absurd hr (renamePhase_ne_sharedDest _ _ _)
        | _ => simp only; rw [hr]; intro h; cases h
      | sharedDest => exact absurd hcp (contentPhase_ne_sharedDest _ _ _)
      | _ => simp only; intro h; cases h
  renamePhase_ne_sharedDest : ∀ (rs : List Ren) (t : Tree) (perf : List (Path × Path)),
      (renamePhase t perf rs).outcome ≠ .sharedDest := by
    intro rs
    induction rs with
    | nil => intro t perf h; simp [renamePhase] at h
    | cons r rs ih =>
      intro t perf h
      unfold renamePhase at h
      simp only at h
      split at h
      · exact ih _ _ h
      · split at h <;> cases h
  contentPhase_ne_sharedDest : ∀ (hs : List Hunk) (fs : List Path) (t : Tree) {t1 : Tree},
      contentPhase hs t fs ≠ (.sharedDest, t1) := by
    intro hs fs
    induction fs with
    | nil => intro t t1 h; simp [contentPhase] at h
    | cons f fs ih =>
      intro t t1 h
      unfold contentPhase at h
      split at h
      · split at h
        · cases h
        · split at h
          · exact ih _ h
          · cases h
          · cases h
      · cases h
  preflight_sharedDest_absurd {t : Tree} {rs : List Ren} (hlo : RenamePhase.LastOnly rs)
      (hsd : C02ren.SiblingDestsDistinct rs) (h : preflight t [] rs = some .sharedDest) : False := by
    -- generalised over the list of renames already passed: they are a prefix of the plan
    have key : ∀ (todo seen : List Ren), (∀ x ∈ seen, x ∈ rs) → (∀ x ∈ todo, x ∈ rs) →
        preflight t seen todo = some .sharedDest → False := by
      intro todo
      induction todo with
      | nil => intro seen _ _ h; simp [preflight] at h
      | cons r todo ih =>
        intro seen hs ht h
        have hr : r ∈ rs := ht r List.mem_cons_self
        have ht' : ∀ x ∈ todo, x ∈ rs := fun x hx => ht x (List.mem_cons_of_mem _ hx)
        unfold preflight at h
        split at h
        · exact ih seen hs ht' h
        · split at h
          · rename_i hshare
            unfold sharesDest at hshare
            rw [Bool.and_eq_true] at hshare
            obtain ⟨s, hsm, hcond⟩ := List.any_eq_true.mp hshare.2
            simp only [Bool.and_eq_true, beq_iff_eq, bne_iff_ne, ne_eq] at hcond
            obtain ⟨hnp, hpne⟩ := hcond
            have hs' : s ∈ rs := hs s hsm
            obtain ⟨_, hs2, hs3⟩ := hlo s hs'
            obtain ⟨_, hr2, hr3⟩ := hlo r hr
            have hdl : s.path.dropLast = r.path.dropLast := by rw [← hs3, ← hr3, hnp]
            exact hsd r hr s hs' hpne hdl (by rw [hnp])
          · split at h
            · cases h
            · exact ih (r :: seen)
                (fun x hx => by rcases List.mem_cons.mp hx with rfl | hx; exact hr; exact hs x hx) ht' h
    exact key rs [] (fun _ hx => by cases hx) (fun _ hx => hx) h

/-- PLAN ∘ APPLY ∘ UNDO = ID.  For every tree, roots, variant table, content hunks and every diff library satisfying
    `C01.Contract`: if the planner accepts and apply succeeds, then undo succeeds and the tree afterwards is literally
    the tree before — every path, byte, mode and link target.  No guard on the plan is left: `LastOnly`,
    `DistinctSources`, `KindsOk` come from the planner theorem (`C08.accepted_guards`), `DestFree` from the success of
    apply (`C02ren.destFree_iff_preflight_loop`), key-uniqueness of the edited files from `PathOrder.sortedFiles_nodup`. -/
theorem planned_apply_undo_roundtrip (cfg : Undo.Cfg) (hcfg : C01.Contract cfg)
    (T : Tables) (o : Opts) (vmap : List VEntry) (t : Tree) (roots : List Path)
    (rs : List Ren) (hunks : List Hunk) (hp : PlannerOk T o vmap t roots)
    (hacc : planRenames T o vmap t roots = .ok rs)
    (hok : (applyPlan t ⟨hunks, rs⟩).outcome = .ok) :
    ∃ u, applyUndo cfg t ⟨hunks, rs⟩ = (.ok, some u) ∧ u.outcome = .ok ∧ u.tree = t := by
  obtain ⟨h1, h2, h4, _⟩ := C08.accepted_guards T o vmap t roots rs hp.treeWF hp.vals hp.slashFree hp.noGit hacc
  exact C01.undo_apply_id_of_ok cfg hcfg t ⟨hunks, rs⟩ h1 h2 hp.treeWF h4 hok

/-- non-vacuity: C08's example tree and plan (nested renamed directories, a renamed symlink, files in four styles)
    satisfy every hypothesis (file-name coercion ON, real tables: its safety is a theorem, `C08.coerceSafe_of_goodVals`),
    and apply succeeds -/
example : PlannerOk C08.T0 C08.o0 C08.vm0 C08.exTree [[b!"proj"]] ∧
    planRenames C08.T0 C08.o0 C08.vm0 C08.exTree [[b!"proj"]] = .ok C08.exPlan ∧
    (applyPlan C08.exTree ⟨[], C08.exPlan⟩).outcome = .ok := by
  refine ⟨⟨by decide +kernel, by decide +kernel, by decide +kernel, by decide +kernel⟩,
    by decide +kernel, by decide +kernel⟩

/-- … so the round trip theorem applies to it, for every diff library satisfying the contract -/
example (cfg : Undo.Cfg) (hcfg : C01.Contract cfg) :
    ∃ u, applyUndo cfg C08.exTree ⟨[], C08.exPlan⟩ = (.ok, some u) ∧ u.outcome = .ok ∧ u.tree = C08.exTree :=
  planned_apply_undo_roundtrip cfg hcfg C08.T0 C08.o0 C08.vm0 C08.exTree [[b!"proj"]]
    C08.exPlan [] ⟨by decide +kernel, by decide +kernel, by decide +kernel, by decide +kernel⟩
    (by decide +kernel) (by decide +kernel)

-- the CONTENT planner chained with apply --------------------------------------------------------------------------------------

/-- the hunks the content planner emits for one file: one per match of `findMatches`, with any replacement texts -/
def hunksOf (f : Path) (repl : Matcher.Match → Bytes) (ms : List Matcher.Match) : List Hunk :=
  (C03.toEdits repl ms).map (fun e => { file := f, before := e.before, after := e.after, start := e.start, stop := e.stop })

theorem editsFor_hunksOf (f : Path) (repl : Matcher.Match → Bytes) (ms : List Matcher.Match) :
    editsFor (hunksOf f repl ms) f = C03.toEdits repl ms := by
  unfold editsFor hunksOf
  rw [List.filter_eq_self.mpr (by
    intro h hm
    obtain ⟨e, _, rfl⟩ := List.mem_map.mp hm
    simp)]
  rw [List.map_map]
  conv => rhs; rw [← List.map_id (C03.toEdits repl ms)]
  apply List.map_congr_left
  intro e _
  rfl

/-- SCAN ∘ APPLY for contents (C03 + C02).  A file `f` with valid UTF-8 bytes `c`; the matches of ANY non-empty list of
    ASCII variants in it (leftmost-longest, boundary-checked: `Matcher.findMatches`); ANY replacement text per match; ANY
    renames of the usual shape next to it (the file itself, its directory, other nodes).  If `applyPlan` reports success,
    the file — at the place its renames take it to — holds exactly the left-to-right substitution of the matches:
    every match replaced, every other byte kept, its mode kept.  Nothing is assumed about the hunks: their consistency is
    `C03.findMatches_Consistent`. -/
theorem scanned_file_applied (t : Tree) (rs : List Ren) (f : Path) (c : Bytes) (m : Nat)
    (vs : List Bytes) (repl : Matcher.Match → Bytes)
    (hne : vs ≠ []) (hc : Utf8.valid c = true) (hascii : ∀ v ∈ vs, ∀ b ∈ v, b.toNat < 128)
    (hvalid : ∀ v ∈ vs, Utf8.valid v = true)
    (hrepl : ∀ mt b, (repl mt).head? = some b → Edits.isCont b = false)
    (hms : Matcher.findMatches vs c ≠ [])
    (h1 : C02ren.LastOnly rs) (h2 : C02ren.DistinctSources rs) (h3 : C02ren.TreeWF t) (h4 : C02ren.KindsOk t rs)
    (hl : lookup t f = some (.file c m))
    (hok : (applyPlan t ⟨hunksOf f repl (Matcher.findMatches vs c), rs⟩).outcome = .ok) :
    lookup (applyPlan t ⟨hunksOf f repl (Matcher.findMatches vs c), rs⟩).tree (C02ren.finalPath rs f) =
      some (.file (Edits.spec c 0 (C03.toEdits repl (Matcher.findMatches vs c))) m) := by
  have hcons := (C03.findMatches_Consistent vs c hne hc hascii hvalid repl hrepl).1
  have hf : f ∈ sortedFiles (hunksOf f repl (Matcher.findMatches vs c)) := by
    obtain ⟨m0, ms, hm⟩ := List.exists_cons_of_ne_nil hms
    have : ({ file := f, before := m0.text, after := repl m0, start := m0.start, stop := m0.stop } : Hunk) ∈
        hunksOf f repl (Matcher.findMatches vs c) := by
      rw [hm]; simp [hunksOf, C03.toEdits]
    exact PathOrder.file_mem_sortedFiles this
  have := C02ren.apply_exact_content t ⟨hunksOf f repl (Matcher.findMatches vs c), rs⟩ h1 h2 h3 h4 hok f c m hf hl
    (by rw [editsFor_hunksOf]; exact hcons)
  rw [editsFor_hunksOf] at this
  exact this

/-- non-vacuity: `x foo_bar y / FooBar` with the variants `foo_bar`, `FooBar`, inside a directory that is renamed -/
example :
    let t : Tree := [([b!"foo_bar"], .dir 493), ([b!"foo_bar", b!"a.txt"], .file b!"x foo_bar y\nFooBar\n" 420)]
    let vs : List Bytes := [b!"foo_bar", b!"FooBar"]
    let repl : Matcher.Match → Bytes := fun mt => if mt.text == b!"foo_bar" then b!"baz_qux" else b!"BazQux"
    let rs : List Ren := [⟨[b!"foo_bar"], [b!"baz_qux"], .dir⟩]
    Matcher.findMatches vs b!"x foo_bar y\nFooBar\n" ≠ [] ∧
    (applyPlan t ⟨hunksOf [b!"foo_bar", b!"a.txt"] repl (Matcher.findMatches vs b!"x foo_bar y\nFooBar\n"), rs⟩).outcome = .ok ∧
    lookup (applyPlan t ⟨hunksOf [b!"foo_bar", b!"a.txt"] repl (Matcher.findMatches vs b!"x foo_bar y\nFooBar\n"), rs⟩).tree
      [b!"baz_qux", b!"a.txt"] = some (.file b!"x baz_qux y\nBazQux\n" 420) := by decide +kernel

-- the PREVIEW chained with apply ------------------------------------------------------------------------------------------------

/-- PREVIEW ∘ APPLY (C15 + C02).  C15's `diff_plus_line_eq_applied` speaks about `Edits.spec`, the left-to-right splice;
    `C02ren.apply_exact_content` says that this splice is what the WHOLE apply model (pre-flight, backups, content phase,
    rename phase) leaves on disk.  Chained: for a planned file `A ++ L ++ B` (A complete lines, L one line) whose edits are
    the edits before the line, the hunks `hs` the diff shows for the line, and the edits after it, a successful apply puts
    the file — at the place its renames take it to, mode kept — in a state whose line `nlCount A + 1` is EXACTLY the text on
    the `+` side of the `@@ line n @@` block, and the `-` side (`lineBefore`) is line n of the file as it was. -/
theorem preview_plus_line_is_line_after_apply (t : Tree) (p : Plan) (f : Path) (m : Nat)
    (A L B : Bytes) (EA EB : List Edits.Edit) (hs : List Hunks.Hunk)
    (h1 : C02ren.LastOnly p.rens) (h2 : C02ren.DistinctSources p.rens) (h3 : C02ren.TreeWF t) (h4 : C02ren.KindsOk t p.rens)
    (hok : (applyPlan t p).outcome = .ok)
    (hf : f ∈ sortedFiles p.hunks) (hl : lookup t f = some (.file (A ++ (L ++ B)) m))
    (hedits : editsFor p.hunks f = EA ++ Hunks.shift A.length (hs.map Hunks.toEdit ++ Hunks.shift L.length EB))
    (hcons : Edits.Consistent (A ++ (L ++ B)) 0 (editsFor p.hunks f))
    (hAend : A = [] ∨ ∃ A0, A = A0 ++ [10])
    (hLline : ∃ L0, L = L0 ++ [10] ∧ Matcher.nlCount L0 = 0)
    (hnil : hs ≠ []) (hne : ∀ h ∈ hs, h.content ≠ [])
    (hlb : ∀ h ∈ hs, h.lineBefore = L)
    (hla : ∀ h ∈ hs, h.lineAfter = L.take h.byteOffset ++ h.replace ++ L.drop (h.byteOffset + h.content.length))
    (hA : Edits.Consistent A 0 EA) (hL : Edits.Consistent L 0 (hs.map Hunks.toEdit))
    (hnlA : ∀ e ∈ EA, Matcher.nlCount e.before = 0 ∧ Matcher.nlCount e.after = 0 ∧ e.start < e.stop)
    (hnlL : ∀ h ∈ hs, Matcher.nlCount h.content = 0 ∧ Matcher.nlCount h.replace = 0) :
    ∃ plus c', Hunks.diffAfterText hs = some plus ∧
      lookup (applyPlan t p).tree (C02ren.finalPath p.rens f) = some (.file c' m) ∧
      Hunks.lineOf (A ++ (L ++ B)) (Matcher.nlCount A + 1) = some L ∧
      Hunks.lineOf c' (Matcher.nlCount A + 1) = some plus := by
  obtain ⟨plus, hplus, hold, hnew⟩ :=
    C15.diff_plus_line_eq_applied A L B EA EB hs hAend hLline hnil hne hlb hla hA hL hnlA hnlL
  have happ := C02ren.apply_exact_content t p h1 h2 h3 h4 hok f _ m hf hl hcons
  rw [hedits] at happ
  exact ⟨plus, _, hplus, happ, hold, hnew⟩

/-- non-vacuity: the second line of a three-line file inside a directory that is renamed; hunks on lines 1 and 2 -/
example :
    let A := b!"a foo\n"; let L := b!"é foo, foo;\r\n"; let B := b!"tail\n"
    let f : Path := [b!"foo_dir", b!"a.txt"]
    let t : Tree := [([b!"foo_dir"], .dir 493), (f, .file (A ++ (L ++ B)) 420)]
    let mk := fun (c : Nat) =>
      ({ line := 2, byteOffset := c, charOffset := 0, start := 0, stop := 0, content := b!"foo", replace := b!"quux",
         lineBefore := L, lineAfter := L.take c ++ b!"quux" ++ L.drop (c + 3) } : Hunks.Hunk)
    let EA : List Edits.Edit := [{ before := b!"foo", after := b!"quux", start := 2, stop := 5 }]
    let es := EA ++ Hunks.shift A.length ([mk 3, mk 8].map Hunks.toEdit ++ Hunks.shift L.length [])
    let p : Plan := ⟨es.map (fun e => { file := f, before := e.before, after := e.after, start := e.start, stop := e.stop }),
                     [⟨[b!"foo_dir"], [b!"quux_dir"], .dir⟩]⟩
    editsFor p.hunks f = es ∧ (applyPlan t p).outcome = .ok ∧
    Hunks.diffAfterText [mk 3, mk 8] = some b!"é quux, quux;\r\n" ∧
    lookup (applyPlan t p).tree [b!"quux_dir", b!"a.txt"] = some (.file b!"a quux\né quux, quux;\r\ntail\n" 420) ∧
    Hunks.lineOf b!"a quux\né quux, quux;\r\ntail\n" 2 = some b!"é quux, quux;\r\n" := by decide +kernel

-- the two hand-written models of `pattern.rs` are one function ----------------------------------------------------------------

/-- INTERNAL CONSISTENCY.  `pattern.rs` (`build_pattern`, `find_matches`, `is_boundary`) is modelled twice by hand:
    `Matcher.findMatches` for C03 / C14 / C15 (whole files) and `LinePipeline.exactMatches` for C06 / C07 (one line, the keys
    of the variant table), each compared with the real code on its own request stream.  For every content and every
    non-empty list of non-empty keys they report THE SAME SPANS — although they order equal-length alternatives differently
    (irrelevant: two different keys that match at one position are prefixes of one another, hence of different length, which
    is also why leftmost-first over the length-sorted alternation is leftmost-longest). -/
theorem exact_pass_models_agree (content : Bytes) (ks : List Bytes) (hks : ks ≠ []) (hne : ∀ k ∈ ks, k ≠ []) :
    (LinePipeline.exactMatches content ks).map (fun m => (m.1, m.1 + m.2.length)) =
      (Matcher.findMatches ks content).map (fun m => (m.start, m.stop)) :=
  ExactPass.exactMatches_eq_findMatches content ks hks hne

/-- non-vacuity, and the tie order really differs: `foo_bar` / `FOO_BAR` have equal length -/
example :
    LinePipeline.sortKeys [b!"foo_bar", b!"FOO_BAR", b!"FooBar", b!"fooBar"] ≠
      Matcher.orderAlts [b!"foo_bar", b!"FOO_BAR", b!"FooBar", b!"fooBar"] ∧
    (LinePipeline.exactMatches b!"x foo-bar(foo_bar) FooBar_y" [b!"foo_bar", b!"foo-bar", b!"FooBar"]).map
      (fun m => (m.1, m.1 + m.2.length)) = [(2, 9), (10, 17), (19, 25)] ∧
    (Matcher.findMatches [b!"foo_bar", b!"foo-bar", b!"FooBar"] b!"x foo-bar(foo_bar) FooBar_y").map
      (fun m => (m.start, m.stop)) = [(2, 9), (10, 17), (19, 25)] := by decide +kernel

end Compose
