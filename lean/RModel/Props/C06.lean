import RModel.Base.Lit
import RModel.Model.LinePipeline
import RModel.Gen.Acronyms
import RModel.Gen.Styles
import RModel.Gen.LineTables
import RModel.Lemmas.CaseModelAcr
import RModel.Lemmas.LineCompose
import RModel.Lemmas.LineEnv
import RModel.Lemmas.Resolver
/-
  C06 — Every case style of the term is found and rewritten in the same style.   (property theorems only)

  Model: `RModel/Model/LinePipeline.lean` (one line: variant map, exact pass, boundary test, replacement decision,
  first-letter fix-up, edit application; coercion beyond its first exit, the context heuristics of the resolver and the
  compound pass are parameters `Env` with explicit contracts).  Tables (`Style::constraints`, `DEFAULT_PRECEDENCE`, the
  default style lists, regex meta characters) are regenerated from the source on every run (`Gen/LineTables.lean`).

  Vocabulary:  `Words ws` every word ≥ 2 lower-case ASCII letters;  `Neutral A ws` no acronym interference (C18);
  `V12` the twelve boundary-visible styles;  `NeutralDelim d` no byte of `d` is an ASCII letter/digit or `-`/`_` (non-ASCII characters included)
  (so `""`, spaces, quotes, brackets, `/`, `::`, `.`, `,`, line ends);  `profileOf st` the separator/case profile of a
  multi-word rendering in style `st`, `styleWordBad st` its word bit (some word is not capital + non-capitals);
  `keyUnambiguousByTable st` = at most one style of the generated constraint table
  admits that profile.
-/
namespace C06
open B CaseModel LinePipeline

def A : Acr := acrOf Gen.defaultAcronyms

theorem acrOk_default : AcrOk A := acrOk_of_acrsAlnum (by decide +kernel)
theorem acrStable_default : AcrStable A := acrStable_acrOf _

/-- the executable instance of the parameters (what the driver uses): no context heuristic, coercion only through its
    first exit, no compound hunk -/
def env0 : Env :=
  { heur := fun _ => none
    coerce := fun ctx old _ => if coerceGuard ctx old then none else some [0]
    compound := fun _ => [] }

theorem env0_ok : env0.HeurOk ∧ env0.CoerceOk :=
  ⟨fun _ _ h => by simp [env0] at h, fun ctx old _ h => by simp [env0, h]⟩

/-- what the CLI runs: atomic configuration present (variant table from `case_model.rs`), plural variants off -/
def cfg0 (opts : StyleOpts) (search replace : Bytes) : Cfg :=
  { A := A, env := env0, opts := opts, plurals := false, sing := fun _ => none, plur := fun _ => none,
    search := search, replace := replace, cliPath := true }

/-- the same call through the core API without atomic configuration (the scanner's own variant loop) -/
def cfgApi (opts : StyleOpts) (search replace : Bytes) : Cfg :=
  { cfg0 opts search replace with cliPath := false }

-- ══ clause 3: ambiguous occurrences ═══════════════════════════════════════════════════════════════════════════

/-- whatever the language / file / cross-file heuristics answer (as long as they pick from the list they are given), the
    style used for an ambiguous match is one of the styles compatible with the matched text -/
theorem ambiguous_choice_compatible {A : Acr} {heur : List Style → Option Style} {matched : Bytes} (repl : Bytes)
    (rp : List Style) (hamb : isAmbiguous A matched Gen.allStyles = true) (hh : ∀ l s, heur l = some s → s ∈ l) :
    resolve A heur matched repl rp ∈ filterCompatible A matched Gen.allStyles :=
  resolve_mem repl rp hamb hh

/-- EVERY style compatible with a text renders every replacement with the first-letter case of the text
    (finite check style × constraint class against the generated table, lifted to all texts by `can_match_style`) -/
theorem compatible_keeps_first_letter {A : Acr} {c d : UInt8} {cs t : Bytes} {ts : List Bytes} {st : Style}
    {styles : List Style} (h : st ∈ filterCompatible A (c :: cs) styles) (hc : isAlpha c = true)
    (hd : isAlpha d = true) :
    ∃ e r, toStyle A ((d :: t) :: ts) st = e :: r ∧ isUpper e = isUpper c :=
  canMatch_keeps_first_letter (mem_filterCompatible.mp h).2 hc hd

/-- … and an all-upper-case text (two leading capitals, not an acronym run) only admits styles that render without
    lower-case letters -/
theorem compatible_keeps_all_upper {A : Acr} {c c' : UInt8} {cs : Bytes} {st : Style} {styles : List Style}
    (toks : List Bytes) (h : st ∈ filterCompatible A (c :: c' :: cs) styles) (hc : isUpper c = true)
    (hc' : isUpper c' = true) (hcu : hasConsecutiveUpper A (c :: c' :: cs) = true) :
    hasLower (toStyle A toks st) = false :=
  canMatch_keeps_all_upper toks (mem_filterCompatible.mp h).2 hc hc' hcu

/-- the clause of the property: when the replacement text comes from the ambiguity branch of `generate_hunks`, it starts
    with an upper-case letter iff the match does -/
theorem ambiguous_keeps_case {A : Acr} {env : Env} {vm : SMap} {repl r cs t : Bytes} {c d : UInt8} {ts : List Bytes}
    (hh : env.HeurOk) (hb : baseReplacement A env vm (c :: cs) repl = some (.ambiguity, r))
    (hc : isAlpha c = true) (hp : parse A repl = (d :: t) :: ts) (hd : isAlpha d = true) :
    ∃ e r', r = e :: r' ∧ isUpper e = isUpper c := by
  unfold baseReplacement at hb
  split at hb
  · rename_i hamb
    simp only [Option.some.injEq, Prod.mk.injEq, true_and] at hb
    have hm := resolve_mem (heur := env.heur) repl (filterCompatible A repl Gen.allStyles) hamb hh
    obtain ⟨e, r', he, hu⟩ := compatible_keeps_first_letter (t := t) (ts := ts) hm hc hd
    exact ⟨e, r', by rw [← hb, hp, he], hu⟩
  · cases hg : vm.get (c :: cs) with
    | none => rw [hg] at hb; exact absurd hb (by simp)
    | some v => rw [hg] at hb; simp at hb

theorem ambiguous_keeps_all_upper {A : Acr} {env : Env} {vm : SMap} {repl r cs : Bytes} {c c' : UInt8}
    (hh : env.HeurOk) (hb : baseReplacement A env vm (c :: c' :: cs) repl = some (.ambiguity, r))
    (hc : isUpper c = true) (hc' : isUpper c' = true) (hcu : hasConsecutiveUpper A (c :: c' :: cs) = true) :
    hasLower r = false := by
  unfold baseReplacement at hb
  split at hb
  · rename_i hamb
    simp only [Option.some.injEq, Prod.mk.injEq, true_and] at hb
    have hm := resolve_mem (heur := env.heur) repl (filterCompatible A repl Gen.allStyles) hamb hh
    rw [← hb]
    exact compatible_keeps_all_upper _ hm hc hc' hcu
  · cases hg : vm.get (c :: c' :: cs) with
    | none => rw [hg] at hb; exact absurd hb (by simp)
    | some v => rw [hg] at hb; simp at hb

/-- non-vacuity: `FOOBAR` (upper-flat occurrence of foo_bar, enabled with --include-styles upper-flat) is ambiguous, goes
    through the ambiguity branch and stays all upper case; `Foo` keeps its capital -/
example : baseReplacement A env0 [] b!"FOOBAR" b!"baz_qux" = some (.ambiguity, b!"BAZ_QUX") ∧
    hasConsecutiveUpper A b!"FOOBAR" = true ∧
    baseReplacement A env0 [] b!"Foo" b!"baz_qux" = some (.ambiguity, b!"BazQux") := by decide +kernel

/-- the all-upper hypothesis is needed: an upper-case acronym is also PascalCase-compatible -/
theorem all_upper_needs_no_acronym :
    hasConsecutiveUpper A b!"API" = false ∧ Style.pascal ∈ filterCompatible A b!"API" Gen.allStyles := by
  decide +kernel

-- ══ clause 1: pieces ═══════════════════════════════════════════════════════════════════════════════════════════

/-- at most one style of the generated constraint table admits the profile and the word bit of a multi-word rendering in
    style `st` (word bit: some word is not "capital followed by non-capitals") -/
def keyUnambiguousByTable (st : Style) : Bool :=
  decide ((Gen.allStyles.filter (nec (profileOf st) (styleWordBad st))).length ≤ 1)

/-- with the Title row repaired (70c1048: Title = `TitleWordsPattern`, Sentence = `TitlePattern`) no boundary-visible style
    is left out: the key of every one of the twelve is unambiguous by the table -/
theorem unambiguous_styles_all : ∀ st ∈ V12, keyUnambiguousByTable st = true := by decide

/-- before the repair Title and Sentence shared the row `(TitlePattern, ' ')`: on that row the Sentence rendering "Foo bar"
    is admitted by BOTH styles (kernel-evaluated on the explicitly old row), which made it "ambiguous" and let the
    resolver's precedence pick Title — the finding `sentence_rendered_as_title`, fixed by 70c1048 -/
theorem C06_before_fix_shared_row :
    (checkCase A b!"Foo bar" .titlePattern && checkSep b!"Foo bar" (some 32)) = true ∧
    caseNec (profileOf .sentence) (styleWordBad .sentence) .titlePattern = true ∧
    Gen.defaultPrecedence.find? (fun s => [Style.title, .sentence].contains s) = some .title ∧
    toStyle A [b!"baz", b!"qux"] .title = b!"Baz Qux" ∧
    -- the repaired row rejects it
    checkCase A b!"Foo bar" .titleWordsPattern = false ∧
    caseNec (profileOf .sentence) (styleWordBad .sentence) .titleWordsPattern = false := by decide +kernel

/-- the key is unambiguous, so `generate_hunks` takes the variant-map entry -/
theorem variant_key_unambiguous {A : Acr} {ws : List Bytes} {st : Style} (h2 : 2 ≤ ws.length) (hw : Words ws)
    (hst : st ∈ V12) (ht : keyUnambiguousByTable st = true) :
    isAmbiguous A (toStyle A ws st) Gen.allStyles = false := by
  have hp := render_profile A h2 hw hst
  have hle := filterCompatible_length_le (A := A) hp (render_wordBad A h2 hw hst) Gen.allStyles
  simp only [keyUnambiguousByTable, decide_eq_true_eq] at ht
  simp only [isAmbiguous, decide_eq_false_iff_not]
  omega

example : isAmbiguous A (toStyle A [b!"foo", b!"bar"] .train) Gen.allStyles = false :=
  variant_key_unambiguous (by decide) (by decide) (by decide) (by decide)

/-- the boundary test holds between neutral delimiters -/
theorem boundary_holds_neutral_delims {d₁ x d₂ : Bytes} (h1 : NeutralDelim d₁) (h2 : NeutralDelim d₂) :
    isBoundary (d₁ ++ x ++ d₂) d₁.length (d₁.length + x.length) = true :=
  isBoundary_neutral h1 h2

example : NeutralDelim b!"::" ∧ NeutralDelim b!" (\"'[/.," ∧ NeutralDelim b!")]\n" ∧ ¬ NeutralDelim b!"-" ∧
    ¬ NeutralDelim b!"x " := by decide

/-- non-ASCII delimiters are neutral too: typographic quotes U+201C / U+201D, guillemets, CJK corner brackets, an em dash,
    a byte-order mark, and control bytes; the text after the occurrence must merely start a character -/
example : NeutralDelim [0xE2, 0x80, 0x9C] ∧ NeutralDelim [0xE2, 0x80, 0x9D] ∧ CharStart [0xE2, 0x80, 0x9D] ∧
    NeutralDelim [0xC2, 0xAB] ∧ CharStart [0xC2, 0xBB] ∧ NeutralDelim [0xE3, 0x80, 0x8C] ∧ CharStart [0xE3, 0x80, 0x8D] ∧
    NeutralDelim [0xE2, 0x80, 0x94] ∧ NeutralDelim [0xEF, 0xBB, 0xBF] ∧ NeutralDelim [0x01, 0x7F] ∧
    CharStart [] ∧ ¬ CharStart [0x80, 0x9D] := by decide

/-- the immediate identifier context of the occurrence is the occurrence, so coercion returns `None` -/
theorem coercion_none_on_exact_context {env : Env} (hc : env.CoerceOk) {d₁ x d₂ r : Bytes} (h1 : NeutralDelim d₁)
    (h2 : NeutralDelim d₂) (hx : x.head? ≠ some 95) :
    env.coerce (immediateContext (d₁ ++ x ++ d₂) d₁.length (d₁.length + x.length)) x r = none := by
  rw [immediateContext_neutral h1 h2]
  apply hc
  have : stripPrefix x = x := by
    unfold stripPrefix
    split
    · exact absurd rfl hx
    · exact absurd rfl hx
    · rfl
  simp [coerceGuard, this]

/-- the first-letter fix-up changes nothing when both texts are renderings in the same style -/
theorem first_letter_fixup_noop_same_style {A : Acr} {c d : UInt8} {w v : Bytes} {ws vs : List Bytes} (st : Style)
    (hc : isAlpha c = true) (hd : isAlpha d = true) :
    fixFirst (toStyle A ((c :: w) :: ws) st) (toStyle A ((d :: v) :: vs) st) = toStyle A ((d :: v) :: vs) st :=
  fixFirst_same_style st hc hd

/-- it is needed when the styles differ (the `exact entry` of the scanner's default map): `FOO_BAR` ↦ `baz-qux` -/
example : fixFirst b!"FOO_BAR" b!"baz-qux" = b!"Baz-qux" := by decide

/-- the regex pass (leftmost-first alternation over the keys ordered as `build_pattern` orders them) finds exactly the
    occurrence, when every key starts and ends with a letter -/
theorem exact_pass_finds_occurrence {ks : List Bytes} {d₁ x d₂ : Bytes} (hx : x ∈ ks) (hk : ∀ k ∈ ks, Ends k)
    (h1 : NeutralDelim d₁) (h2 : NeutralDelim d₂) :
    exactMatches (d₁ ++ x ++ d₂) ks = [(d₁.length, x)] := by
  have hne : x ≠ [] := by obtain ⟨⟨c, cs, h, _⟩, _⟩ := hk x hx; rw [h]; simp
  unfold exactMatches
  rw [findIter_occurrence hx hne (noStart_neutral hk h1) (noStart_neutral hk h2)
    (fun k hkm hp hlt => no_extension (hk k hkm) h2 hp hlt)]
  simp only [List.filter_cons, isBoundary_neutral h1 h2, if_true, List.filter_nil]

-- ══ clause 1: the composed theorem ════════════════════════════════════════════════════════════════════════

/-- the guard of the composed theorem (all decidable):
    * the style list is not empty (`build_styles_list` returned `Some`; `--exclude-styles` of every default returns `None`)
    * the exact pass is not skipped (search typed without separator AND exactly one style)
    * the occurrence style is enabled, boundary-visible and its key unambiguous by the constraint table
    * plural variants off (`--no-plural-variants`; with them the pluralizer is a further parameter, checked differentially) -/
structure Guard (cfg : Cfg) (styles : List Style) (st : Style) : Prop where
  some_styles : buildStylesList cfg.opts = some styles
  not_skipped : skipExact cfg.A cfg.search (stylesSlice cfg.opts) = false
  enabled : st ∈ styles
  visible : st ∈ V12
  unambiguous : keyUnambiguousByTable st = true
  no_plurals : cfg.plurals = false
  coerce_ok : cfg.env.CoerceOk

/-- the pipeline on `d₁ ++ x ++ d₂` for ANY variant map whose keys start and end with a letter, which has the key
    `x = render st ws_s` and returns `render st ws_r` for it -/
theorem same_style_of_map {cfg : Cfg} {ws_s ws_r : List Bytes} {st : Style} {d₁ d₂ : Bytes}
    (h2 : 2 ≤ ws_s.length) (hws : Words ws_s) (hwr : Words ws_r) (hrne : ws_r ≠ [])
    (hskip : skipExact cfg.A cfg.search (stylesSlice cfg.opts) = false) (hvis : st ∈ V12)
    (hun : keyUnambiguousByTable st = true) (hco : cfg.env.CoerceOk)
    (hxk : toStyle cfg.A ws_s st ∈ cfg.vmap.keys) (hends : ∀ k ∈ cfg.vmap.keys, Ends k)
    (hget : cfg.vmap.get (toStyle cfg.A ws_s st) = some (toStyle cfg.A ws_r st))
    (h1 : NeutralDelim d₁) (hd2 : NeutralDelim d₂) (hcs : CharStart d₂)
    (hcomp : cfg.env.compound (d₁ ++ toStyle cfg.A ws_s st ++ d₂) = []) :
    rewriteLine cfg (d₁ ++ toStyle cfg.A ws_s st ++ d₂) = some (d₁ ++ toStyle cfg.A ws_r st ++ d₂) := by
  have hsne : ws_s ≠ [] := ne_nil_of_two h2
  -- the exact pass
  have hexact := exact_pass_finds_occurrence hxk hends h1 hd2
  -- the replacement decision
  obtain ⟨⟨c, cs, hxc, hca⟩, _⟩ := render_ends cfg.A hsne hws st
  obtain ⟨⟨c', cs', hrc, hca'⟩, _⟩ := render_ends cfg.A hrne hwr st
  have hhead : ∀ z ∈ d₁, (toStyle cfg.A ws_s st).head? ≠ some z := by
    intro z hz hh
    rw [hxc] at hh
    simp only [List.head?_cons, Option.some.injEq] at hh
    subst hh
    have := h1 _ hz
    rw [alpha_not_neutral hca] at this
    exact absurd this (by decide)
  have h95 : (toStyle cfg.A ws_s st).head? ≠ some 95 := by
    rw [hxc]; intro hh
    simp only [List.head?_cons, Option.some.injEq] at hh
    subst hh; exact absurd hca (by decide)
  have hfix : fixFirst (toStyle cfg.A ws_s st) (toStyle cfg.A ws_r st) = toStyle cfg.A ws_r st := by
    obtain ⟨w, ws', rfl⟩ := List.exists_cons_of_ne_nil hsne
    obtain ⟨v, vs', rfl⟩ := List.exists_cons_of_ne_nil hrne
    obtain ⟨a, w', rfl⟩ := List.exists_cons_of_ne_nil (hws.lowerWords w (List.mem_cons_self ..)).1
    obtain ⟨b, v', rfl⟩ := List.exists_cons_of_ne_nil (hwr.lowerWords v (List.mem_cons_self ..)).1
    exact fixFirst_same_style st
      (lower_alpha ((hws _ (List.mem_cons_self ..)).2 a (List.mem_cons_self ..)))
      (lower_alpha ((hwr _ (List.mem_cons_self ..)).2 b (List.mem_cons_self ..)))
  have hrepl : hunkReplacement cfg.A cfg.env cfg.vmap (d₁ ++ toStyle cfg.A ws_s st ++ d₂) d₁.length (toStyle cfg.A ws_s st)
      cfg.replace = some (toStyle cfg.A ws_r st) := by
    unfold hunkReplacement baseReplacement
    rw [variant_key_unambiguous h2 hws hvis hun]
    simp only [Bool.false_eq_true, ↓reduceIte, hget, Option.map_some]
    rw [contextPos_occurrence (by rw [hxc]; simp) hhead]
    simp only []
    rw [coercion_none_on_exact_context hco h1 hd2 h95, hfix]
  -- assembling
  unfold rewriteLine lineHunks
  simp only [hskip, Bool.false_eq_true, ↓reduceIte, hexact, exactHunks, hrepl, hcomp, List.map_nil,
    List.append_nil, List.mergeSort_singleton]
  rw [applyEdits_occurrence ⟨c, cs, hxc, hca⟩ (fun b hb => by
    rw [hrc] at hb
    simp only [List.head?_cons, Option.some.injEq] at hb
    subst hb; exact alpha_lt hca') hcs]


theorem same_style_partial {cfg : Cfg} (hA : AcrOk cfg.A) (hS : AcrStable cfg.A) {ws_s ws_r : List Bytes}
    {sst rst st : Style} {styles : List Style} {d₁ d₂ : Bytes}
    (h2 : 2 ≤ ws_s.length) (hws : Words ws_s) (hwr : Words ws_r) (hrne : ws_r ≠ [])
    (hNs : Neutral cfg.A ws_s) (hNr : Neutral cfg.A ws_r) (hsst : sst ∈ V12) (hrst : rst ∈ V12)
    (hUs : sst ∈ upperStyles → UpperSafe cfg.A ws_s) (hUr : rst ∈ upperStyles → UpperSafe cfg.A ws_r)
    (hsearch : cfg.search = toStyle cfg.A ws_s sst) (hreplace : cfg.replace = toStyle cfg.A ws_r rst)
    (g : Guard cfg styles st) (h1 : NeutralDelim d₁) (hd2 : NeutralDelim d₂) (hcs : CharStart d₂)
    (hcomp : cfg.env.compound (d₁ ++ toStyle cfg.A ws_s st ++ d₂) = []) :
    rewriteLine cfg (d₁ ++ toStyle cfg.A ws_s st ++ d₂) = some (d₁ ++ toStyle cfg.A ws_r st ++ d₂) := by
  have hsne : ws_s ≠ [] := ne_nil_of_two h2
  by_cases hpath : cfg.cliPath = true
  · -- the CLI's table (case_model.rs)
    have hm := cli_map_words hA hS h2 hws hwr hNs hNr hsst hrst hUs hUr styles cfg.sing cfg.plur g.enabled g.visible
    have hvm : cfg.vmap = cliVariantMap cfg.A (some styles) false cfg.sing cfg.plur (toStyle cfg.A ws_s sst)
        (toStyle cfg.A ws_r rst) := by
      simp only [Cfg.vmap, hpath, ↓reduceIte, g.some_styles, g.no_plurals, hsearch, hreplace]
    rw [← hvm] at hm
    exact same_style_of_map h2 hws hwr hrne g.not_skipped g.visible g.unambiguous g.coerce_ok hm.2.1
      (fun k hk => by obtain ⟨st', rfl⟩ := hm.1 k hk; exact render_ends cfg.A hsne hws st') hm.2.2 h1 hd2 hcs hcomp
  · -- the scanner's own table (core API without atomic configuration)
    have hpath' : cfg.cliPath = false := by simpa using hpath
    -- the variant map
    have hins : variantInserts cfg.A (some styles) false cfg.sing cfg.plur cfg.search cfg.replace =
        styles.map (fun st' => (toStyle cfg.A ws_s st', some st', toStyle cfg.A ws_r st')) := by
      rw [hsearch, hreplace]
      exact variantInserts_words hA hS hws hwr hNs hNr hsst hrst hUs hUr styles _ _
    have hvm : cfg.vmap = (styles.map (fun st' => (toStyle cfg.A ws_s st', some st', toStyle cfg.A ws_r st'))).foldl
        (fun (m : SMap) e => SMap.insert m e.1 e.2.1 e.2.2) ([] : SMap) := by
      simp only [Cfg.vmap, hpath', Bool.false_eq_true, ↓reduceIte, scanVariantMap, g.some_styles, g.no_plurals, hins]
    have hkeys : ∀ k, k ∈ cfg.vmap.keys ↔ ∃ st' ∈ styles, k = toStyle cfg.A ws_s st' := by
      intro k
      rw [mem_keys, hvm, keys_foldl]
      simp only [List.map_nil, List.not_mem_nil, false_or, List.mem_map]
      constructor
      · rintro ⟨e, ⟨st', hst', rfl⟩, rfl⟩; exact ⟨st', hst', rfl⟩
      · rintro ⟨st', hst', rfl⟩; exact ⟨_, ⟨st', hst', rfl⟩, rfl⟩
    have hxk : toStyle cfg.A ws_s st ∈ cfg.vmap.keys := (hkeys _).mpr ⟨st, g.enabled, rfl⟩
    have hends : ∀ k ∈ cfg.vmap.keys, Ends k := by
      intro k hk
      obtain ⟨st', _, rfl⟩ := (hkeys k).mp hk
      exact render_ends cfg.A hsne hws st'
    have hget : cfg.vmap.get (toStyle cfg.A ws_s st) = some (toStyle cfg.A ws_r st) := by
      apply get_of_entries
      · rw [hvm, entries_foldl]
        simp only [SMap.entries, List.lookup, Option.getD_none, List.nil_append, entriesOf, ne_eq, List.map_eq_nil_iff,
          List.filter_eq_nil_iff, List.mem_map]
        intro hall
        exact hall _ ⟨st, g.enabled, rfl⟩ (by simp)
      · intro e he
        rw [hvm, entries_foldl] at he
        simp only [SMap.entries, List.lookup, Option.getD_none, List.nil_append, entriesOf, List.mem_map,
          List.mem_filter, beq_iff_eq] at he
        obtain ⟨e', ⟨⟨st', _, rfl⟩, hk⟩, rfl⟩ := he
        have := toStyle_inj cfg.A h2 hws g.visible hk.symm
        subst this
        rfl
    exact same_style_of_map h2 hws hwr hrne g.not_skipped g.visible g.unambiguous g.coerce_ok hxk hends hget h1 hd2 hcs hcomp

/-- the row of the search term AS TYPED is the same-style row, for ANY style the replacement was typed in (in particular
    another style of the same separator family: `alpha_bravo → CHARLIE_DELTA` maps `alpha_bravo` to `charlie_delta`).
    The CLI always passes an explicit style list, so the "exact casing" entry of `generate_variant_map_internal`
    (`styles = None` only; C18 finding `exact_entry_override`) never takes part. -/
theorem typed_row_same_style {A : Acr} (hA : AcrOk A) (hS : AcrStable A) {ws_s ws_r : List Bytes} {sst rst : Style}
    (h2 : 2 ≤ ws_s.length) (hws : Words ws_s) (hwr : Words ws_r) (hNs : Neutral A ws_s) (hNr : Neutral A ws_r)
    (hsst : sst ∈ V12) (hrst : rst ∈ V12)
    (hUs : sst ∈ upperStyles → UpperSafe A ws_s) (hUr : rst ∈ upperStyles → UpperSafe A ws_r)
    (styles : List Style) (sing plur : Bytes → Option Bytes) (hen : sst ∈ styles) :
    (cliVariantMap A (some styles) false sing plur (toStyle A ws_s sst) (toStyle A ws_r rst)).get (toStyle A ws_s sst) =
      some (toStyle A ws_r sst) :=
  (cli_map_words hA hS h2 hws hwr hNs hNr hsst hrst hUs hUr styles sing plur hen hsst).2.2

/-- … kernel-evaluated on the four separator families, on both variant-table paths (CLI / core API) -/
theorem typed_row_same_style_families :
    rewriteLine (cfg0 {} b!"alpha_gamma" b!"TIGER_LEMON") b!"alpha_gamma\n" = some b!"tiger_lemon\n" ∧
    rewriteLine (cfg0 {} b!"ALPHA_GAMMA" b!"tiger_lemon") b!"ALPHA_GAMMA\n" = some b!"TIGER_LEMON\n" ∧
    rewriteLine (cfg0 {} b!"alphaGamma" b!"TigerLemon") b!"alphaGamma\n" = some b!"tigerLemon\n" ∧
    rewriteLine (cfg0 {} b!"alpha-gamma" b!"Tiger-Lemon") b!"alpha-gamma\n" = some b!"tiger-lemon\n" ∧
    rewriteLine (cfg0 {} b!"Alpha Gamma" b!"tiger lemon") b!"Alpha Gamma\n" = some b!"Tiger Lemon\n" ∧
    rewriteLine (cfgApi {} b!"alpha_gamma" b!"TIGER_LEMON") b!"alpha_gamma\n" = some b!"tiger_lemon\n" ∧
    rewriteLine (cfgApi {} b!"Alpha Gamma" b!"tiger lemon") b!"Alpha Gamma\n" = some b!"Tiger Lemon\n" := by
  decide +kernel

/-- non-vacuity of the guard: the default option set, Train-Case occurrence -/
example : Guard (cfg0 {} b!"foo_bar" b!"baz_qux") Gen.defaultStyles .train :=
  ⟨by decide, by decide, by decide, by decide, by decide, rfl, env0_ok.2⟩

/-- the theorem instantiated (default acronym set, vocabulary words): every delimiter pair at once -/
example {d₁ d₂ : Bytes} (h1 : NeutralDelim d₁) (h2 : NeutralDelim d₂) (hc : CharStart d₂) :
    rewriteLine (cfg0 {} b!"foo_bar" b!"baz_qux") (d₁ ++ b!"Foo-Bar" ++ d₂) = some (d₁ ++ b!"Baz-Qux" ++ d₂) :=
  same_style_partial (cfg := cfg0 {} b!"foo_bar" b!"baz_qux") (ws_s := [b!"foo", b!"bar"]) (ws_r := [b!"baz", b!"qux"])
    (sst := .snake) (rst := .snake) (st := .train) (styles := Gen.defaultStyles)
    acrOk_default acrStable_default (by decide) (by decide) (by decide) (by decide) (by decide +kernel)
    (by decide +kernel) (by decide) (by decide) (fun h => absurd h (by decide)) (fun h => absurd h (by decide))
    (by decide +kernel) (by decide +kernel)
    ⟨by decide, by decide, by decide, by decide, by decide, rfl, env0_ok.2⟩ h1 h2 hc rfl

/-- … between typographic quotes: `“Foo Bar”` becomes `“Baz Qux”` (a space-separated style next to non-ASCII bytes:
    the third disjunct of `is_boundary`'s space branch) -/
example : rewriteLine (cfg0 {} b!"foo_bar" b!"baz_qux") ([0xE2, 0x80, 0x9C] ++ b!"Foo Bar" ++ [0xE2, 0x80, 0x9D, 10]) =
    some ([0xE2, 0x80, 0x9C] ++ b!"Baz Qux" ++ [0xE2, 0x80, 0x9D, 10]) :=
  same_style_partial (cfg := cfg0 {} b!"foo_bar" b!"baz_qux") (ws_s := [b!"foo", b!"bar"]) (ws_r := [b!"baz", b!"qux"])
    (sst := .snake) (rst := .snake) (st := .title) (styles := Gen.defaultStyles)
    acrOk_default acrStable_default (by decide) (by decide) (by decide) (by decide) (by decide +kernel)
    (by decide +kernel) (by decide) (by decide) (fun h => absurd h (by decide)) (fun h => absurd h (by decide))
    (by decide +kernel) (by decide +kernel)
    ⟨by decide, by decide, by decide, by decide, by decide, rfl, env0_ok.2⟩ (by decide) (by decide) (by decide) rfl

/-- the repaired clause: a Sentence-case occurrence of a term of two or more words is rewritten in Sentence case -/
theorem sentence_rewritten_in_sentence_case {cfg : Cfg} (hA : AcrOk cfg.A) (hS : AcrStable cfg.A)
    {ws_s ws_r : List Bytes} {sst rst : Style} {styles : List Style} {d₁ d₂ : Bytes}
    (h2 : 2 ≤ ws_s.length) (hws : Words ws_s) (hwr : Words ws_r) (hrne : ws_r ≠ [])
    (hNs : Neutral cfg.A ws_s) (hNr : Neutral cfg.A ws_r) (hsst : sst ∈ V12) (hrst : rst ∈ V12)
    (hUs : sst ∈ upperStyles → UpperSafe cfg.A ws_s) (hUr : rst ∈ upperStyles → UpperSafe cfg.A ws_r)
    (hsearch : cfg.search = toStyle cfg.A ws_s sst) (hreplace : cfg.replace = toStyle cfg.A ws_r rst)
    (hstyles : buildStylesList cfg.opts = some styles) (hskip : skipExact cfg.A cfg.search (stylesSlice cfg.opts) = false)
    (hen : Style.sentence ∈ styles) (hpl : cfg.plurals = false) (hco : cfg.env.CoerceOk)
    (h1 : NeutralDelim d₁) (hd2 : NeutralDelim d₂) (hcs : CharStart d₂)
    (hcomp : cfg.env.compound (d₁ ++ toStyle cfg.A ws_s .sentence ++ d₂) = []) :
    rewriteLine cfg (d₁ ++ toStyle cfg.A ws_s .sentence ++ d₂) = some (d₁ ++ toStyle cfg.A ws_r .sentence ++ d₂) :=
  same_style_partial hA hS h2 hws hwr hrne hNs hNr hsst hrst hUs hUr hsearch hreplace
    ⟨hstyles, hskip, hen, by decide, by decide, hpl, hco⟩ h1 hd2 hcs hcomp

/-- … instantiated: default options, `foo_bar → baz_qux`, every pair of neutral delimiters -/
example {d₁ d₂ : Bytes} (h1 : NeutralDelim d₁) (h2 : NeutralDelim d₂) (hc : CharStart d₂) :
    rewriteLine (cfg0 {} b!"foo_bar" b!"baz_qux") (d₁ ++ b!"Foo bar" ++ d₂) = some (d₁ ++ b!"Baz qux" ++ d₂) :=
  sentence_rewritten_in_sentence_case (cfg := cfg0 {} b!"foo_bar" b!"baz_qux") (ws_s := [b!"foo", b!"bar"])
    (ws_r := [b!"baz", b!"qux"]) (sst := .snake) (rst := .snake) (styles := Gen.defaultStyles)
    acrOk_default acrStable_default (by decide) (by decide) (by decide) (by decide) (by decide +kernel)
    (by decide +kernel) (by decide) (by decide) (fun h => absurd h (by decide)) (fun h => absurd h (by decide))
    (by decide +kernel) (by decide +kernel) (by decide) (by decide) (by decide) rfl env0_ok.2 h1 h2 hc rfl

/-- the property at full strength (still false: the two remaining findings, see the witnesses) -/
def same_style_full : Prop :=
  ∀ (opts : StyleOpts) (ws_s ws_r : List Bytes) (sst rst st : Style) (d₁ d₂ : Bytes),
    2 ≤ ws_s.length → Words ws_s → Words ws_r → ws_r ≠ [] → Neutral A ws_s → Neutral A ws_r →
    UpperSafe A ws_s → UpperSafe A ws_r → sst ∈ V12 → rst ∈ V12 → st ∈ V12 →
    NeutralDelim d₁ → NeutralDelim d₂ → CharStart d₂ →
    rewriteLine (cfg0 opts (toStyle A ws_s sst) (toStyle A ws_r rst)) (d₁ ++ toStyle A ws_s st ++ d₂) =
      some (if (Gen.defaultStyles.filter (fun s => !opts.excl.contains s) ++ opts.incl ++ opts.only).contains st &&
               (opts.only.isEmpty || opts.only.contains st)
            then d₁ ++ toStyle A ws_r st ++ d₂ else d₁ ++ toStyle A ws_s st ++ d₂)

-- ══ clause 2: disabled styles ═════════════════════════════════════════════════════════════════════════════════

/-- a line in which no key of the variant map occurs is left untouched (given that the compound pass adds nothing) -/
theorem no_key_no_change {cfg : Cfg} {line : Bytes}
    (hno : ∀ i, i < line.length → firstAlt (sortKeys cfg.vmap.keys) (line.drop i) = none)
    (hcomp : cfg.env.compound line = []) : rewriteLine cfg line = some line := by
  unfold rewriteLine lineHunks
  have : exactMatches line cfg.vmap.keys = [] := by
    unfold exactMatches; rw [findIter_nil_of_none line 0 hno]; rfl
  simp only [this, ite_self, exactHunks, hcomp, List.map_nil, List.append_nil, List.mergeSort_nil]
  rfl

/-- an occurrence in a disabled style stays, provided no enabled rendering occurs in the line (`hno`, decidable; the
    oracle exercises it on every disabled case) -/
theorem disabled_untouched {cfg : Cfg} {ws_s : List Bytes} {st : Style} {d₁ d₂ : Bytes}
    (hno : ∀ i, i < (d₁ ++ toStyle cfg.A ws_s st ++ d₂).length →
      firstAlt (sortKeys cfg.vmap.keys) ((d₁ ++ toStyle cfg.A ws_s st ++ d₂).drop i) = none)
    (hcomp : cfg.env.compound (d₁ ++ toStyle cfg.A ws_s st ++ d₂) = []) :
    rewriteLine cfg (d₁ ++ toStyle cfg.A ws_s st ++ d₂) = some (d₁ ++ toStyle cfg.A ws_s st ++ d₂) :=
  no_key_no_change hno hcomp

/-- non-vacuity: `--only-styles snake`, kebab occurrence in parentheses -/
example : rewriteLine (cfg0 { only := [.snake] } b!"foo_bar" b!"baz_qux") (b!"(" ++ toStyle A [b!"foo", b!"bar"] .kebab ++ b!")\n")
    = some b!"(foo-bar)\n" :=
  disabled_untouched (cfg := cfg0 { only := [.snake] } b!"foo_bar" b!"baz_qux") (by decide +kernel) rfl

/-- the compound pass leaves an identifier alone whose tokens are the search term's tokens (first exit of
    `find_compound_variants`): the tokens of any rendering are the words, up to case -/
theorem compound_skips_the_term_itself {A : Acr} (hA : AcrOk A) (hS : AcrStable A) {ws : List Bytes} {st sst : Style}
    (hw : Words ws) (hN : Neutral A ws) (hst : st ∈ V12) (hsst : sst ∈ V12) :
    (parse A (toStyle A ws st)).map lower = (parse A (toStyle A ws sst)).map lower := by
  rw [parse_rendWords hA hS hw hN hst, parse_rendWords hA hS hw hN hsst,
    map_lower_rendWords hw.lowerWords, map_lower_rendWords hw.lowerWords]

-- ══ witnesses (kernel-evaluated; replayed on the real code by checks/c06.py) ═══════════════════════════

/-- repaired (was finding `sentence_rendered_as_title`): "Foo bar" is compatible with Sentence only, the map entry is used -/
theorem C06_sentence_repaired :
    filterCompatible A b!"Foo bar" Gen.allStyles = [.sentence] ∧
    filterCompatible A b!"Foo Bar" Gen.allStyles = [.title] ∧
    filterCompatible A b!"Foo" Gen.allStyles = [.pascal, .train, .title, .sentence] ∧
    rewriteLine (cfg0 {} b!"foo_bar" b!"baz_qux") b!"\"Foo bar\"\n" = some b!"\"Baz qux\"\n" := by decide +kernel

-- ── `exclude_all_reenables_defaults`: repaired ──

/-- repaired (was finding `exclude_all_reenables_defaults`): excluding every default style reaches the scanner as the empty
    list, no variant is generated and the excluded snake_case occurrence stays -/
theorem C06_exclude_all_repaired :
    buildStylesList { excl := Gen.defaultStyles } = some [] ∧
    (cfg0 { excl := Gen.defaultStyles } b!"foo_bar" b!"baz_qux").vmap = [] ∧
    rewriteLine (cfg0 { excl := Gen.defaultStyles } b!"foo_bar" b!"baz_qux") b!"foo_bar\n" = some b!"foo_bar\n" := by
  decide +kernel

-- ── (stable) ─────────────────────────────────────────────────────────────────────────────────────────────────

/-- … and also when the replacement itself was typed in Sentence case (held before the repair too) -/
theorem C06_sentence_typed :
    rewriteLine (cfg0 {} b!"foo_bar" b!"Baz qux") b!"Foo bar\n" = some b!"Baz qux\n" := by decide +kernel

-- ── finding `single_style_separatorless_search_unmatched` (witness + refutation; both go when it is repaired) ──────

/-- repaired (was finding `single_style_separatorless_search_unmatched`): a term typed `fooBar` tokenizes to two words, so
    the exact pass runs with a single enabled style too; a true one-word term still takes the compound-only path -/
theorem C06_single_style_repaired :
    skipExact A b!"fooBar" (stylesSlice { only := [.camel] }) = false ∧
    skipExact A b!"foo" (stylesSlice { only := [.camel] }) = true ∧
    rewriteLine (cfg0 { only := [.camel] } b!"fooBar" b!"bazQux") b!"fooBar\n" = some b!"bazQux\n" ∧
    rewriteLine (cfg0 { only := [.snake] } b!"fooBar" b!"bazQux") b!"foo_bar\n" = some b!"baz_qux\n" := by
  decide +kernel

-- ══ WP-LINE: the COMPOSED model — real coercion decision, real compound pass (Model/LineEnv.lean) ══════════════════
--
-- `envReal c` instantiates the parameters `coerce` and `compound` of `Env` with the models of the real code
-- (`RenamePlan.applyCoercion` + `apply_coercion_to_variant`; `Compound.findAll` / `findCompound` / overlap resolution);
-- `rewriteLineReal c` is the pipeline the driver op `rewriteline` runs.  The theorems below are the clause-1 theorems
-- WITHOUT the hypotheses `CoerceOk` and `compound … = []`: both are proved for the real environment, for EVERY pair of
-- neutral delimiters (`.`, white space, non-ASCII bytes included — no further guard was needed).

/-- `Guard` without the contract of the coercion parameter -/
structure GuardReal (cfg : Cfg) (styles : List Style) (st : Style) : Prop where
  some_styles : buildStylesList cfg.opts = some styles
  not_skipped : skipExact cfg.A cfg.search (stylesSlice cfg.opts) = false
  enabled : st ∈ styles
  visible : st ∈ V12
  unambiguous : keyUnambiguousByTable st = true
  no_plurals : cfg.plurals = false

/-- the real coercion decision returns `None` when the immediate context is the match itself — no hypothesis -/
theorem envReal_coerceOk (c : Cfg) : (envReal c).CoerceOk := LinePipeline.envReal_coerceOk c

/-- non-vacuity, and the other side: the contract says nothing when the context is larger — there the real decision acts
    (`x_FOO_BAR` is snake_case with a capital run: the replacement is re-rendered in snake_case) -/
example : coerceGuard b!"foo_bar" b!"foo_bar" = true ∧ coerceGuard b!"__Foo_Bar" b!"foo_bar" = true ∧
    coerceReal coerceTables b!"foo_bar" b!"foo_bar" b!"baz_qux" = none ∧
    coerceGuard b!"x_FOO_BAR" b!"FOO_BAR" = false ∧
    coerceReal coerceTables b!"x_FOO_BAR" b!"FOO_BAR" b!"BAZ_QUX" = some b!"baz_qux" ∧
    coerceReal coerceTables b!"my-FOO_BAR" b!"FOO_BAR" b!"BAZ_QUX" = none := by decide +kernel

/-- the facts about the variant table of a term pair typed in boundary-visible styles that the one-line theorems use
    (both table paths): the rendering in an enabled visible style is a key, every key starts and ends with a letter, and
    the key maps to the replacement in the same style -/
theorem vmap_facts {cfg : Cfg} (hA : AcrOk cfg.A) (hS : AcrStable cfg.A) {ws_s ws_r : List Bytes}
    {sst rst st : Style} {styles : List Style}
    (h2 : 2 ≤ ws_s.length) (hws : Words ws_s) (hwr : Words ws_r)
    (hNs : Neutral cfg.A ws_s) (hNr : Neutral cfg.A ws_r) (hsst : sst ∈ V12) (hrst : rst ∈ V12)
    (hUs : sst ∈ upperStyles → UpperSafe cfg.A ws_s) (hUr : rst ∈ upperStyles → UpperSafe cfg.A ws_r)
    (hsearch : cfg.search = toStyle cfg.A ws_s sst) (hreplace : cfg.replace = toStyle cfg.A ws_r rst)
    (g : GuardReal cfg styles st) :
    toStyle cfg.A ws_s st ∈ cfg.vmap.keys ∧ (∀ k ∈ cfg.vmap.keys, Ends k) ∧
      cfg.vmap.get (toStyle cfg.A ws_s st) = some (toStyle cfg.A ws_r st) := by
  have hsne : ws_s ≠ [] := ne_nil_of_two h2
  by_cases hpath : cfg.cliPath = true
  · have hm := cli_map_words hA hS h2 hws hwr hNs hNr hsst hrst hUs hUr styles cfg.sing cfg.plur g.enabled g.visible
    have hvm : cfg.vmap = cliVariantMap cfg.A (some styles) false cfg.sing cfg.plur (toStyle cfg.A ws_s sst)
        (toStyle cfg.A ws_r rst) := by
      simp only [Cfg.vmap, hpath, ↓reduceIte, g.some_styles, g.no_plurals, hsearch, hreplace]
    rw [← hvm] at hm
    exact ⟨hm.2.1, fun k hk => by obtain ⟨st', rfl⟩ := hm.1 k hk; exact render_ends cfg.A hsne hws st', hm.2.2⟩
  · have hpath' : cfg.cliPath = false := by simpa using hpath
    have hins : variantInserts cfg.A (some styles) false cfg.sing cfg.plur cfg.search cfg.replace =
        styles.map (fun st' => (toStyle cfg.A ws_s st', some st', toStyle cfg.A ws_r st')) := by
      rw [hsearch, hreplace]
      exact variantInserts_words hA hS hws hwr hNs hNr hsst hrst hUs hUr styles _ _
    have hvm : cfg.vmap = (styles.map (fun st' => (toStyle cfg.A ws_s st', some st', toStyle cfg.A ws_r st'))).foldl
        (fun (m : SMap) e => SMap.insert m e.1 e.2.1 e.2.2) ([] : SMap) := by
      simp only [Cfg.vmap, hpath', Bool.false_eq_true, ↓reduceIte, scanVariantMap, g.some_styles, g.no_plurals, hins]
    have hkeys : ∀ k, k ∈ cfg.vmap.keys ↔ ∃ st' ∈ styles, k = toStyle cfg.A ws_s st' := by
      intro k
      rw [mem_keys, hvm, keys_foldl]
      simp only [List.map_nil, List.not_mem_nil, false_or, List.mem_map]
      constructor
      · rintro ⟨e, ⟨st', hst', rfl⟩, rfl⟩; exact ⟨st', hst', rfl⟩
      · rintro ⟨st', hst', rfl⟩; exact ⟨_, ⟨st', hst', rfl⟩, rfl⟩
    refine ⟨(hkeys _).mpr ⟨st, g.enabled, rfl⟩, ?_, ?_⟩
    · intro k hk
      obtain ⟨st', _, rfl⟩ := (hkeys k).mp hk
      exact render_ends cfg.A hsne hws st'
    · apply get_of_entries
      · rw [hvm, entries_foldl]
        simp only [SMap.entries, List.lookup, Option.getD_none, List.nil_append, entriesOf, ne_eq, List.map_eq_nil_iff,
          List.filter_eq_nil_iff, List.mem_map]
        intro hall
        exact hall _ ⟨st, g.enabled, rfl⟩ (by simp)
      · intro e he
        rw [hvm, entries_foldl] at he
        simp only [SMap.entries, List.lookup, Option.getD_none, List.nil_append, entriesOf, List.mem_map,
          List.mem_filter, beq_iff_eq] at he
        obtain ⟨e', ⟨⟨st', _, rfl⟩, hk⟩, rfl⟩ := he
        have := toStyle_inj cfg.A h2 hws g.visible hk.symm
        subst this
        rfl

/-- on `d₁ ++ x ++ d₂` — ANY neutral delimiters, `x` a key of a variant map whose keys start and end with a letter —
    the real compound pass contributes no hunk: every identifier the extractor finds on the line (both alternatives of its
    regex, Title-case words spanning spaces, dot splitting) lies inside the exact match, so `find_compound_variants` is
    never asked, and the overlap resolution has a single candidate -/
theorem envReal_compound_nil {c : Cfg} {d₁ x d₂ v : Bytes}
    (hskip : skipExact c.A c.search (stylesSlice c.opts) = false)
    (hx : x ∈ c.vmap.keys) (hk : ∀ k ∈ c.vmap.keys, Ends k) (hget : c.vmap.get x = some v)
    (h1 : NeutralDelim d₁) (h2 : NeutralDelim d₂) : (envReal c).compound (d₁ ++ x ++ d₂) = [] :=
  LinePipeline.envReal_compound_nil hskip hx hk hget h1 h2

/-- … for the rendering of the search words in an enabled boundary-visible style -/
theorem envReal_compound_nil_rendered {c : Cfg} (hA : AcrOk c.A) (hS : AcrStable c.A) {ws_s ws_r : List Bytes}
    {sst rst st : Style} {styles : List Style} {d₁ d₂ : Bytes}
    (h2 : 2 ≤ ws_s.length) (hws : Words ws_s) (hwr : Words ws_r)
    (hNs : Neutral c.A ws_s) (hNr : Neutral c.A ws_r) (hsst : sst ∈ V12) (hrst : rst ∈ V12)
    (hUs : sst ∈ upperStyles → UpperSafe c.A ws_s) (hUr : rst ∈ upperStyles → UpperSafe c.A ws_r)
    (hsearch : c.search = toStyle c.A ws_s sst) (hreplace : c.replace = toStyle c.A ws_r rst)
    (g : GuardReal c styles st) (h1 : NeutralDelim d₁) (hd2 : NeutralDelim d₂) :
    (envReal c).compound (d₁ ++ toStyle c.A ws_s st ++ d₂) = [] := by
  obtain ⟨hx, hk, hget⟩ := vmap_facts hA hS h2 hws hwr hNs hNr hsst hrst hUs hUr hsearch hreplace g
  exact envReal_compound_nil g.not_skipped hx hk hget h1 hd2

/-- non-vacuity, with delimiters that are identifier bytes of the extractor's regex (`.`) and Title-case words across
    spaces: `..Foo Bar. ` under the default options (Title enabled) -/
example : (envReal (cfg0 {} b!"foo_bar" b!"baz_qux")).compound (b!".." ++ b!"Foo Bar" ++ b!". \n") = [] :=
  envReal_compound_nil_rendered (c := cfg0 {} b!"foo_bar" b!"baz_qux") (ws_s := [b!"foo", b!"bar"])
    (ws_r := [b!"baz", b!"qux"]) (sst := .snake) (rst := .snake) (st := .title) (styles := Gen.defaultStyles)
    acrOk_default acrStable_default (by decide) (by decide) (by decide) (by decide +kernel)
    (by decide +kernel) (by decide) (by decide) (fun h => absurd h (by decide)) (fun h => absurd h (by decide))
    (by decide +kernel) (by decide +kernel)
    ⟨by decide, by decide, by decide, by decide, by decide, rfl⟩ (by decide) (by decide)

/-- … and the pass is NOT silent once a delimiter is an identifier byte (`_`, `-`, a letter): these are the lines of the
    differential family `busy lines` -/
theorem compound_pass_not_silent :
    (envReal (cfg0 {} b!"foo_bar" b!"baz_qux")).compound b!"my_foo_bar_item\n" =
      [(0, 15, b!"my_foo_bar_item", b!"my_baz_qux_item")] ∧
    (envReal (cfg0 {} b!"foo_bar" b!"baz_qux")).compound b!"cfg.getFooBar(x)\n" =
      [(4, 13, b!"getFooBar", b!"getBazQux")] := by decide +kernel

/-- clause 1 for the REAL environment: `same_style_partial` with `cfg.env = envReal c`, without `CoerceOk` and without the
    hypothesis on the compound pass -/
theorem same_style_real {c : Cfg} (hA : AcrOk c.A) (hS : AcrStable c.A) {ws_s ws_r : List Bytes}
    {sst rst st : Style} {styles : List Style} {d₁ d₂ : Bytes}
    (h2 : 2 ≤ ws_s.length) (hws : Words ws_s) (hwr : Words ws_r) (hrne : ws_r ≠ [])
    (hNs : Neutral c.A ws_s) (hNr : Neutral c.A ws_r) (hsst : sst ∈ V12) (hrst : rst ∈ V12)
    (hUs : sst ∈ upperStyles → UpperSafe c.A ws_s) (hUr : rst ∈ upperStyles → UpperSafe c.A ws_r)
    (hsearch : c.search = toStyle c.A ws_s sst) (hreplace : c.replace = toStyle c.A ws_r rst)
    (g : GuardReal c styles st) (h1 : NeutralDelim d₁) (hd2 : NeutralDelim d₂) (hcs : CharStart d₂) :
    rewriteLine (cfgReal c) (d₁ ++ toStyle c.A ws_s st ++ d₂) = some (d₁ ++ toStyle c.A ws_r st ++ d₂) := by
  obtain ⟨hx, hk, hget⟩ := vmap_facts hA hS h2 hws hwr hNs hNr hsst hrst hUs hUr hsearch hreplace g
  exact same_style_partial (cfg := cfgReal c) hA hS h2 hws hwr hrne hNs hNr hsst hrst hUs hUr hsearch hreplace
    ⟨g.some_styles, g.not_skipped, g.enabled, g.visible, g.unambiguous, g.no_plurals, envReal_coerceOk c⟩ h1 hd2 hcs
    (envReal_compound_nil g.not_skipped hx hk hget h1 hd2)

/-- … and for the pipeline the driver runs (pre-filter, overlap resolution that may drop exact matches): on such a line it
    IS `rewriteLine (cfgReal c)` -/
theorem same_style_composed {c : Cfg} (hA : AcrOk c.A) (hS : AcrStable c.A) {ws_s ws_r : List Bytes}
    {sst rst st : Style} {styles : List Style} {d₁ d₂ : Bytes}
    (h2 : 2 ≤ ws_s.length) (hws : Words ws_s) (hwr : Words ws_r) (hrne : ws_r ≠ [])
    (hNs : Neutral c.A ws_s) (hNr : Neutral c.A ws_r) (hsst : sst ∈ V12) (hrst : rst ∈ V12)
    (hUs : sst ∈ upperStyles → UpperSafe c.A ws_s) (hUr : rst ∈ upperStyles → UpperSafe c.A ws_r)
    (hsearch : c.search = toStyle c.A ws_s sst) (hreplace : c.replace = toStyle c.A ws_r rst)
    (g : GuardReal c styles st) (h1 : NeutralDelim d₁) (hd2 : NeutralDelim d₂) (hcs : CharStart d₂) :
    rewriteLineReal c (d₁ ++ toStyle c.A ws_s st ++ d₂) = some (d₁ ++ toStyle c.A ws_r st ++ d₂) := by
  obtain ⟨hx, hk, hget⟩ := vmap_facts hA hS h2 hws hwr hNs hNr hsst hrst hUs hUr hsearch hreplace g
  rw [rewriteLineReal_occurrence g.not_skipped hx hk hget h1 hd2]
  exact same_style_real hA hS h2 hws hwr hrne hNs hNr hsst hrst hUs hUr hsearch hreplace g h1 hd2 hcs

/-- non-vacuity of the guard -/
example : GuardReal (cfg0 {} b!"foo_bar" b!"baz_qux") Gen.defaultStyles .train :=
  ⟨by decide, by decide, by decide, by decide, by decide, rfl⟩

/-- instantiated: default options, Train-Case occurrence, every delimiter pair at once, composed model -/
example {d₁ d₂ : Bytes} (h1 : NeutralDelim d₁) (h2 : NeutralDelim d₂) (hc : CharStart d₂) :
    rewriteLineReal (cfg0 {} b!"foo_bar" b!"baz_qux") (d₁ ++ b!"Foo-Bar" ++ d₂) = some (d₁ ++ b!"Baz-Qux" ++ d₂) :=
  same_style_composed (c := cfg0 {} b!"foo_bar" b!"baz_qux") (ws_s := [b!"foo", b!"bar"]) (ws_r := [b!"baz", b!"qux"])
    (sst := .snake) (rst := .snake) (st := .train) (styles := Gen.defaultStyles)
    acrOk_default acrStable_default (by decide) (by decide) (by decide) (by decide) (by decide +kernel)
    (by decide +kernel) (by decide) (by decide) (fun h => absurd h (by decide)) (fun h => absurd h (by decide))
    (by decide +kernel) (by decide +kernel)
    ⟨by decide, by decide, by decide, by decide, by decide, rfl⟩ h1 h2 hc

/-- the Sentence corollary for the real environment -/
theorem sentence_rewritten_in_sentence_case_real {c : Cfg} (hA : AcrOk c.A) (hS : AcrStable c.A)
    {ws_s ws_r : List Bytes} {sst rst : Style} {styles : List Style} {d₁ d₂ : Bytes}
    (h2 : 2 ≤ ws_s.length) (hws : Words ws_s) (hwr : Words ws_r) (hrne : ws_r ≠ [])
    (hNs : Neutral c.A ws_s) (hNr : Neutral c.A ws_r) (hsst : sst ∈ V12) (hrst : rst ∈ V12)
    (hUs : sst ∈ upperStyles → UpperSafe c.A ws_s) (hUr : rst ∈ upperStyles → UpperSafe c.A ws_r)
    (hsearch : c.search = toStyle c.A ws_s sst) (hreplace : c.replace = toStyle c.A ws_r rst)
    (hstyles : buildStylesList c.opts = some styles) (hskip : skipExact c.A c.search (stylesSlice c.opts) = false)
    (hen : Style.sentence ∈ styles) (hpl : c.plurals = false)
    (h1 : NeutralDelim d₁) (hd2 : NeutralDelim d₂) (hcs : CharStart d₂) :
    rewriteLineReal c (d₁ ++ toStyle c.A ws_s .sentence ++ d₂) = some (d₁ ++ toStyle c.A ws_r .sentence ++ d₂) :=
  same_style_composed hA hS h2 hws hwr hrne hNs hNr hsst hrst hUs hUr hsearch hreplace
    ⟨hstyles, hskip, hen, by decide, by decide, hpl⟩ h1 hd2 hcs

/-- … instantiated: default options, `foo_bar → baz_qux`, every pair of neutral delimiters, composed model -/
example {d₁ d₂ : Bytes} (h1 : NeutralDelim d₁) (h2 : NeutralDelim d₂) (hc : CharStart d₂) :
    rewriteLineReal (cfg0 {} b!"foo_bar" b!"baz_qux") (d₁ ++ b!"Foo bar" ++ d₂) = some (d₁ ++ b!"Baz qux" ++ d₂) :=
  sentence_rewritten_in_sentence_case_real (c := cfg0 {} b!"foo_bar" b!"baz_qux") (ws_s := [b!"foo", b!"bar"])
    (ws_r := [b!"baz", b!"qux"]) (sst := .snake) (rst := .snake) (styles := Gen.defaultStyles)
    acrOk_default acrStable_default (by decide) (by decide) (by decide) (by decide) (by decide +kernel)
    (by decide +kernel) (by decide) (by decide) (fun h => absurd h (by decide)) (fun h => absurd h (by decide))
    (by decide +kernel) (by decide +kernel) (by decide) (by decide) (by decide) rfl h1 h2 hc

/-- clause 2 for the composed model, kernel-evaluated: with `--only-styles snake` neither the kebab-case occurrence nor the
    camelCase identifier that embeds the term is touched (the compound matcher refuses a style that is not enabled) -/
theorem disabled_untouched_real :
    rewriteLineReal (cfg0 { only := [.snake] } b!"foo_bar" b!"baz_qux") b!"(foo-bar) myFooBarItem\n" =
      some b!"(foo-bar) myFooBarItem\n" := by decide +kernel

/-- why `rewriteLineReal` is not simply `rewriteLine (cfgReal c)`: the overlap resolution DROPS the exact match `foo_bar`
    inside `my_foo_bar_item` in favour of the compound match; `Env.compound` can only add hunks, so `lineHunks (cfgReal c)`
    = hunks of ALL exact matches + `compound` still carries the hunk of the exact match at 3..10 next to the compound hunk
    0..15, while `lineHunksReal` (exact branch on `keptExact` only) has the one hunk the real plan has -/
theorem dropped_exact_match_needs_composed_pipeline :
    exactMatches b!"my_foo_bar_item\n" (cfgReal (cfg0 {} b!"foo_bar" b!"baz_qux")).vmap.keys = [(3, b!"foo_bar")] ∧
    (cfgReal (cfg0 {} b!"foo_bar" b!"baz_qux")).env.compound b!"my_foo_bar_item\n" =
      [(0, 15, b!"my_foo_bar_item", b!"my_baz_qux_item")] ∧
    keptExact (cfg0 {} b!"foo_bar" b!"baz_qux") b!"my_foo_bar_item\n" = [] ∧
    (lineHunksReal (cfg0 {} b!"foo_bar" b!"baz_qux") b!"my_foo_bar_item\n").map
      (·.map (fun e => (e.start, e.stop))) = some [(0, 15)] ∧
    rewriteLineReal (cfg0 {} b!"foo_bar" b!"baz_qux") b!"my_foo_bar_item\n" = some b!"my_baz_qux_item\n" ∧
    rewriteLineReal (cfg0 {} b!"foo_bar" b!"baz_qux") b!"(foo_bar) cfg.fooBar.my-foo-bar FOO_BAR_X\n" =
      some b!"(baz_qux) cfg.bazQux.my-baz-qux BAZ_QUX_X\n" := by decide +kernel

-- ── the VALIDATED domain of the delimiters ─────────────────────────────────────────────────────────────────────────
/-  `NeutralDelim` is a statement about BYTES: no byte of the delimiter is an ASCII letter, digit, `-` or `_`.  The model's
    `immediateContext` (and its boundary test) treat every byte >= 0x80 as a non-word byte, whereas
    `scanner.rs::extract_immediate_context` asks `char::is_alphanumeric` of the DECODED character: for a non-ASCII LETTER or
    digit directly next to the occurrence (`éFOO_BAR`, `ßFOO_BAR`) the code extends the context over it and coerces, the
    model does not (reproduced; `日FOO_BAR` agrees by accident).  A letter is not a delimiter, so this lies outside C06's
    quantifier — but it also lies inside `NeutralDelim`.  The property theorems below therefore restrict the delimiters to
    the alphabet on which model and code are compared on every run: ASCII neutral bytes and whole characters of
    `validatedPunct` (exactly the non-ASCII delimiters of `checks/c06.py::DELIMS`). -/

/-- UTF-8 encodings of U+201C U+201D U+2018 U+2019 U+00AB U+00BB U+300C U+300D U+2014 U+2026 U+FEFF U+2122 -/
def validatedPunct : List Bytes :=
  [[0xE2, 0x80, 0x9C], [0xE2, 0x80, 0x9D], [0xE2, 0x80, 0x98], [0xE2, 0x80, 0x99], [0xC2, 0xAB], [0xC2, 0xBB],
   [0xE3, 0x80, 0x8C], [0xE3, 0x80, 0x8D], [0xE2, 0x80, 0x94], [0xE2, 0x80, 0xA6], [0xEF, 0xBB, 0xBF], [0xE2, 0x84, 0xA2]]

def neutralTextAux : Nat → Bytes → Bool
  | _, [] => true
  | 0, _ => false
  | n + 1, c :: cs =>
    if decide (c.toNat < 128) then neutralByte c && neutralTextAux n cs
    else match validatedPunct.find? (fun p => p.isPrefixOf (c :: cs)) with
      | some p => neutralTextAux n ((c :: cs).drop p.length)
      | none => false

/-- the delimiter is a sequence of ASCII neutral bytes and whole validated punctuation characters -/
def NeutralText (d : Bytes) : Prop := neutralTextAux d.length d = true

instance (d : Bytes) : Decidable (NeutralText d) := by unfold NeutralText; infer_instance

def punctOk (p : Bytes) : Bool :=
  p.all neutralByte && (match p with | c :: _ => !Edits.isCont c | [] => false)

theorem validatedPunct_ok : validatedPunct.all punctOk = true := by decide

theorem validatedPunct_facts : ∀ p ∈ validatedPunct,
    (∀ b ∈ p, neutralByte b = true) ∧ (∃ c cs, p = c :: cs ∧ Edits.isCont c = false) := by
  intro p hp
  have h := List.all_eq_true.mp validatedPunct_ok p hp
  unfold punctOk at h
  rw [Bool.and_eq_true] at h
  refine ⟨fun b hb => List.all_eq_true.mp h.1 b hb, ?_⟩
  cases p with
  | nil => simp at h
  | cons c cs => exact ⟨c, cs, rfl, by simpa using h.2⟩

theorem neutralTextAux_sound : ∀ (n : Nat) (d : Bytes), neutralTextAux n d = true → NeutralDelim d ∧ CharStart d := by
  intro n
  induction n with
  | zero =>
    intro d h
    cases d with
    | nil => exact ⟨fun _ hc => (by cases hc), fun _ hz => (by cases hz)⟩
    | cons c cs => simp [neutralTextAux] at h
  | succ n ih =>
    intro d h
    cases d with
    | nil => exact ⟨fun _ hc => (by cases hc), fun _ hz => (by cases hz)⟩
    | cons c cs =>
      unfold neutralTextAux at h
      split at h
      · rename_i hlt
        rw [Bool.and_eq_true] at h
        obtain ⟨hn, hd⟩ := ih cs h.2
        refine ⟨fun x hx => ?_, fun z hz => ?_⟩
        · rcases List.mem_cons.mp hx with rfl | hx
          · exact h.1
          · exact hn x hx
        · simp only [List.head?_cons, Option.some.injEq] at hz
          subst hz
          simp only [Edits.isCont, Bool.and_eq_false_iff, decide_eq_false_iff_not]
          left; simp only [decide_eq_true_eq] at hlt; omega
      · split at h
        · rename_i p hf
          have hm := List.mem_of_find?_eq_some hf
          have hp : p.isPrefixOf (c :: cs) = true := by simpa using List.find?_some hf
          obtain ⟨hb, c', cs', hpc, hcont⟩ := validatedPunct_facts p hm
          rw [List.isPrefixOf_iff_prefix] at hp
          obtain ⟨rest, hrest⟩ := hp
          have hdrop : (c :: cs).drop p.length = rest := by rw [← hrest, List.drop_left']; rfl
          rw [hdrop] at h
          obtain ⟨hn, _⟩ := ih rest h
          refine ⟨fun x hx => ?_, fun z hz => ?_⟩
          · rw [← hrest] at hx
            rcases List.mem_append.mp hx with hx | hx
            · exact hb x hx
            · exact hn x hx
          · rw [← hrest, hpc] at hz
            simp only [List.cons_append, List.head?_cons, Option.some.injEq] at hz
            subst hz; exact hcont
        · cases h

theorem NeutralText.sound {d : Bytes} (h : NeutralText d) : NeutralDelim d ∧ CharStart d :=
  neutralTextAux_sound d.length d h

/-- C06, clause 1, on the validated domain, for the COMPOSED model (real coercion decision, real compound pass, overlap
    resolution; only the resolver heuristics are a parameter, and they are not consulted for an unambiguous key): a standalone
    occurrence in an enabled boundary-visible style between validated delimiters is rewritten in the same style. -/
theorem same_style_validated {c : Cfg} (hA : AcrOk c.A) (hS : AcrStable c.A) {ws_s ws_r : List Bytes}
    {sst rst st : Style} {styles : List Style} {d₁ d₂ : Bytes}
    (h2 : 2 ≤ ws_s.length) (hws : Words ws_s) (hwr : Words ws_r) (hrne : ws_r ≠ [])
    (hNs : Neutral c.A ws_s) (hNr : Neutral c.A ws_r) (hsst : sst ∈ V12) (hrst : rst ∈ V12)
    (hUs : sst ∈ upperStyles → UpperSafe c.A ws_s) (hUr : rst ∈ upperStyles → UpperSafe c.A ws_r)
    (hsearch : c.search = toStyle c.A ws_s sst) (hreplace : c.replace = toStyle c.A ws_r rst)
    (g : GuardReal c styles st) (h1 : NeutralText d₁) (hd2 : NeutralText d₂) :
    rewriteLineReal c (d₁ ++ toStyle c.A ws_s st ++ d₂) = some (d₁ ++ toStyle c.A ws_r st ++ d₂) :=
  same_style_composed hA hS h2 hws hwr hrne hNs hNr hsst hrst hUs hUr hsearch hreplace g h1.sound.1 hd2.sound.1 hd2.sound.2

/-- non-vacuity: ASCII and validated non-ASCII delimiters mixed; a letter or a lone continuation byte is not in the domain -/
example : NeutralText b!" (\"" ∧ NeutralText ([0xE2, 0x80, 0x9C] ++ b!" ") ∧ NeutralText ([0xE2, 0x80, 0x9D] ++ b!".\n") ∧
    NeutralText [0xEF, 0xBB, 0xBF, 0xC2, 0xAB] ∧ NeutralText [] ∧
    ¬ NeutralText [0xC3, 0xA9] ∧ ¬ NeutralText [0x80] ∧ ¬ NeutralText b!"x" := by decide +kernel

/-- WHERE MODEL AND CODE PART (outside the validated domain, inside `NeutralDelim`): the model keeps `éFOO_BAR` in its style;
    the real code answers `éBaz_qux` (its context extraction counts `é` as a letter).  Recorded so that nobody mistakes the
    byte-level theorems for statements about letters. -/
theorem model_is_byte_level_outside_the_validated_domain :
    NeutralDelim [0xC3, 0xA9] ∧ ¬ NeutralText [0xC3, 0xA9] ∧
    rewriteLineReal (cfg0 {} b!"foo_bar" b!"baz_qux") ([0xC3, 0xA9] ++ b!"FOO_BAR" ++ b!"\n") =
      some ([0xC3, 0xA9] ++ b!"BAZ_QUX" ++ b!"\n") := by decide +kernel

-- ── `coercion_context_of_first_occurrence` (found by this composed model, repaired in repo commit 9271db5) ─────────

/-- the clause at full strength for a line with SEVERAL occurrences: a standalone occurrence is rewritten in its own style
    whatever precedes its left delimiter on the line.  Not proved (the compound pass and the overlap resolution on the rest
    of the line are arbitrary); the input that REFUTED it until 9271db5 is the theorem below. -/
def every_occurrence_full : Prop :=
  ∀ (p d₁ d₂ : Bytes), d₁ ≠ [] → NeutralDelim d₁ → NeutralDelim d₂ → CharStart d₂ →
    ∃ p', rewriteLineReal (cfg0 {} b!"foo_bar" b!"baz_qux") (p ++ d₁ ++ b!"FOO_BAR" ++ d₂) =
      some (p' ++ d₁ ++ b!"BAZ_QUX" ++ d₂)

/-- REPAIRED (9271db5; the flag is read from the source).  `generate_hunks` used to look for the match text with
    `line_string.find(&content)` — the FIRST place in the line where that text occurs, not the column of the match — and took
    the "immediate context" for coercion there: in `x_FOO_BAR FOO_BAR` the second, standalone `FOO_BAR` was coerced with the
    context `x_FOO_BAR` (snake_case by `coercion::detect_style`), rendered `baz_qux`, capitalised by the first-letter fix-up:
    `Baz_qux`.  Now the context is taken at the match's own column and the occurrence keeps its style. -/
theorem coercion_context_at_the_match_now :
    Gen.coercionContextAtColumn = true ∧
    rewriteLineReal (cfg0 {} b!"foo_bar" b!"baz_qux") b!"x_FOO_BAR FOO_BAR\n" = some b!"x_Baz_Qux BAZ_QUX\n" ∧
    contextPos b!"x_FOO_BAR FOO_BAR\n" 10 b!"FOO_BAR" = some 10 ∧
    immediateContext b!"x_FOO_BAR FOO_BAR\n" 10 17 = b!"FOO_BAR" ∧
    -- what the old lookup looked at
    findSub b!"x_FOO_BAR FOO_BAR\n" b!"FOO_BAR" = some 2 ∧
    immediateContext b!"x_FOO_BAR FOO_BAR\n" 2 9 = b!"x_FOO_BAR" ∧
    -- the refuting instance of `every_occurrence_full` is an instance of it now
    (∃ p', rewriteLineReal (cfg0 {} b!"foo_bar" b!"baz_qux") (b!"x_FOO_BAR" ++ b!" " ++ b!"FOO_BAR" ++ b!"\n") =
      some (p' ++ b!" " ++ b!"BAZ_QUX" ++ b!"\n")) :=
  ⟨by decide, by decide +kernel, by decide +kernel, by decide +kernel, by decide +kernel, by decide +kernel,
   ⟨b!"x_Baz_Qux", by decide +kernel⟩⟩

-- ══════════════════════════════════════════════════════════════════════════════════════════════════════════════════════
-- WP-RESOLVER — clause 3 with the resolver's REAL context heuristics (Model/Resolver.lean, Lemmas/Resolver.lean):
-- the last parameter of the one-line pipeline, `Env.heur`, instantiated with the model of levels 1–3 of
-- `AmbiguityResolver::resolve_with_styles` (all twelve language modules PARSED from the source, the file-context analyzer for EVERY iteration order
-- of its `HashMap`, the cross-file level that `project_root: None` switches off).  No `HeurOk` hypothesis is left.
-- ══════════════════════════════════════════════════════════════════════════════════════════════════════════════════════

/-- the environment of a match at byte column `pos` of `line` in the file `path` with `content`: real coercion decision, real
    compound pass, real context heuristics (`ord` = the iteration order of the analyzer's `HashMap`, arbitrary) -/
def envCtx (c : Cfg) (ord : List Style) (path content line : Bytes) (pos : Nat) : Env :=
  { envReal c with heur := Resolver.heurReal c.A ord path content line pos }

/-- every `return Some(Style::X)` of every language module (`languages/*.rs`, parsed into `Gen.languageRules` by
    translate/languagerules.py) sits below a condition with the conjunct `possible_styles.contains(&Style::X)` — checked by
    evaluation on the generated decision trees; `Resolver.Block.eval_mem` turns it into "answers only possible styles" -/
theorem language_rules_guarded : Resolver.RulesGuarded := by decide

/-- all twelve modules are there, under the names the extension table uses -/
theorem language_rules_complete :
    Gen.languageRules.map (·.1) = [b!"ruby", b!"python", b!"javascript", b!"go", b!"rust", b!"java", b!"c_cpp", b!"css",
      b!"html", b!"shell", b!"yaml", b!"config"] ∧
    Gen.languageExtensions.all (fun row => (Gen.languageRules.lookup row.2).isSome) = true := by decide

/-- `heurReal_ok`: whatever the language / file-context heuristics return, for whatever file, line, column and hash order,
    is a member of the list they are given -/
theorem heurReal_ok (A : Acr) (ord : List Style) (path content line : Bytes) (pos : Nat) :
    ∀ l s, Resolver.heurReal A ord path content line pos l = some s → s ∈ l :=
  Resolver.heurReal_ok language_rules_guarded A ord path content line pos

theorem envCtx_ok (c : Cfg) (ord : List Style) (path content line : Bytes) (pos : Nat) :
    (envCtx c ord path content line pos).HeurOk ∧ (envCtx c ord path content line pos).CoerceOk :=
  ⟨Resolver.heurReal_ok language_rules_guarded c.A ord path content line pos, LinePipeline.envReal_coerceOk c⟩

/-- what the source says about the cross-file level (translate/resolvershape.py): every `AmbiguityContext` the scanner and
    the path renamer build has `project_root: None`, `try_cross_file_context` starts with `context.project_root.as_ref()?`,
    and the levels are asked in the order language, file, cross, fallback -/
theorem cross_file_level_unreachable :
    Gen.projectRootAlwaysNone = true ∧ Gen.crossFileNeedsProjectRoot = true ∧
    Gen.resolverLevelOrder = [b!"language", b!"file", b!"cross", b!"fallback"] := by decide

/-- the two places that build an `AmbiguityContext` and the model's two contexts have the same shape: the scanner fills
    path, content, line and column, the path renamer nothing (read from the source) -/
theorem context_sites :
    Gen.ambiguityContextSites =
      [(b!"rename.rs", Resolver.pathCtx.shape), (b!"scanner.rs", (Resolver.hunkCtx [] [] [] 0).shape)] := by decide

/-- for a path component every level is silent: there the resolver IS its fallback chain (`heur := fun _ => none`, what the
    `resolve` correspondence runs), whatever the cross-file analyzer does -/
theorem path_component_context_silent (A : Acr) (ord : List Style)
    (cross : Bytes → Bytes → Bytes → List Style → Option Style) (matched repl : Bytes) (rp : List Style) :
    (Resolver.resolveWhy A ord cross Resolver.pathCtx matched repl rp).2 = resolve A (fun _ => none) matched repl rp := by
  rw [Resolver.resolveWhy_style, Resolver.heurCtx_pathCtx]

/-- the assumption of the one-line correspondence (`rewriteline`: a file `a.txt` of one line) as a theorem: no language
    module for the extension and fewer than 50 counted identifiers ⇒ the environment with the real heuristics is the
    environment `envReal` the composed theorems of clause 1 are about -/
theorem envCtx_eq_envReal {c : Cfg} (ord : List Style) {path content : Bytes} (line : Bytes) (pos : Nat)
    (hheur : c.env.heur = fun _ => none)
    (hext : (Resolver.extension path).bind Resolver.rulesOfExt = none)
    (hfew : (Resolver.styleTags c.A content).length < Resolver.minIdentifiers) :
    envCtx c ord path content line pos = envReal c := by
  simp only [envCtx, Resolver.heurReal_silent ord line pos hext hfew, envReal, hheur]

/-- non-vacuity: `a.txt` holding the line `see FOOBAR, fooBar and foo_bar here` -/
example : (Resolver.extension b!"a.txt").bind Resolver.rulesOfExt = none ∧
    (Resolver.styleTags A b!"see FOOBAR, fooBar and foo_bar here\n").length < Resolver.minIdentifiers ∧
    (cfg0 {} b!"foo_bar" b!"baz_qux").env.heur = (fun _ => none) := by
  refine ⟨by decide +kernel, by decide +kernel, rfl⟩

/-- … hence, on the contexts `generate_hunks` builds, `resolve_with_styles` is `LinePipeline.resolve` with
    `heur := heurReal …` WHATEVER the cross-file analyzer does (no contract asked of it) -/
theorem resolver_on_scanner_context (A : Acr) (ord : List Style)
    (cross : Bytes → Bytes → Bytes → List Style → Option Style) (path content line : Bytes) (pos : Nat)
    (matched repl : Bytes) (rp : List Style) :
    (Resolver.resolveWhy A ord cross (Resolver.hunkCtx path content line pos) matched repl rp).2 =
      resolve A (Resolver.heurReal A ord path content line pos) matched repl rp := by
  rw [Resolver.resolveWhy_style, Resolver.heurReal_eq_heurCtx]

/-- the style chosen for an ambiguous match under the real heuristics is compatible with the match -/
theorem ambiguous_choice_compatible_real {A : Acr} (ord : List Style) (path content line : Bytes) (pos : Nat)
    {matched : Bytes} (repl : Bytes) (rp : List Style) (hamb : isAmbiguous A matched Gen.allStyles = true) :
    resolve A (Resolver.heurReal A ord path content line pos) matched repl rp ∈ filterCompatible A matched Gen.allStyles :=
  ambiguous_choice_compatible repl rp hamb (Resolver.heurReal_ok language_rules_guarded A ord path content line pos)

/-- CLAUSE 3 with the real heuristics: the text the ambiguity branch of `generate_hunks` produces starts with an upper-case
    letter iff the match does — in every file, on every line, at every column, for every hash order -/
theorem ambiguous_keeps_case_real {c : Cfg} {ord : List Style} {path content line : Bytes} {pos : Nat} {vm : SMap}
    {repl r cs t : Bytes} {a d : UInt8} {ts : List Bytes}
    (hb : baseReplacement c.A (envCtx c ord path content line pos) vm (a :: cs) repl = some (.ambiguity, r))
    (ha : isAlpha a = true) (hp : parse c.A repl = (d :: t) :: ts) (hd : isAlpha d = true) :
    ∃ e r', r = e :: r' ∧ isUpper e = isUpper a :=
  ambiguous_keeps_case (envCtx_ok c ord path content line pos).1 hb ha hp hd

/-- … and an all-upper-case match (two leading capitals, not an acronym run) stays without lower-case letters -/
theorem ambiguous_keeps_all_upper_real {c : Cfg} {ord : List Style} {path content line : Bytes} {pos : Nat} {vm : SMap}
    {repl r cs : Bytes} {a a' : UInt8}
    (hb : baseReplacement c.A (envCtx c ord path content line pos) vm (a :: a' :: cs) repl = some (.ambiguity, r))
    (ha : isUpper a = true) (ha' : isUpper a' = true) (hcu : hasConsecutiveUpper c.A (a :: a' :: cs) = true) :
    hasLower r = false :=
  ambiguous_keeps_all_upper (envCtx_ok c ord path content line pos).1 hb ha ha' hcu

/-- non-vacuity, and the heuristics DO act: in `lib.rs` after `fn ` the occurrence `foo` of a term renamed to `bazQux` is
    written `baz_qux` (language level: Rust functions are snake_case) where the fallback chain alone writes `bazQux`;
    after `struct ` the language level has no possible style to offer and the fallback answers; `FOO` after `const ` becomes
    `BAZ_QUX`; in a Ruby file `class Foo` becomes `class BazQux` -/
example :
    baseReplacement A (envCtx (cfg0 {} b!"foo" b!"bazQux") [] b!"src/lib.rs" b!"fn foo() {}\n" b!"fn foo() {}\n" 3) []
      b!"foo" b!"bazQux" = some (.ambiguity, b!"baz_qux") ∧
    baseReplacement A env0 [] b!"foo" b!"bazQux" = some (.ambiguity, b!"bazQux") ∧
    baseReplacement A (envCtx (cfg0 {} b!"foo" b!"bazQux") [] b!"src/lib.rs" b!"struct foo;\n" b!"struct foo;\n" 7) []
      b!"foo" b!"bazQux" = some (.ambiguity, b!"bazQux") ∧
    baseReplacement A (envCtx (cfg0 {} b!"foo" b!"bazQux") [] b!"src/lib.rs" b!"const FOO: u8 = 1;\n" b!"const FOO: u8 = 1;\n" 6) []
      b!"FOO" b!"bazQux" = some (.ambiguity, b!"BAZ_QUX") ∧
    baseReplacement A (envCtx (cfg0 {} b!"foo" b!"baz_qux") [] b!"app/models/foo.rb" b!"class Foo\n" b!"class Foo\n" 6) []
      b!"Foo" b!"baz_qux" = some (.ambiguity, b!"BazQux") := by decide +kernel

/-- the language level on its own: extension lookup (`Path::extension`: last dot of the file name, dot files and names
    without a dot have none, case sensitive), `trim`, the branch order of a module (`trait ` anywhere wins over a trailing
    `fn`), the vacuous "all caps" test of the Python module on an empty context -/
example :
    Resolver.extension b!"a/b.d/mod.rs" = some b!"rs" ∧ Resolver.extension b!".bashrc" = none ∧
    Resolver.extension b!"dir.rs/Makefile" = none ∧ Resolver.extension b!"x.tar.gz" = some b!"gz" ∧
    Resolver.rulesOfExt b!"tsx" = some Gen.javascriptRules ∧ Resolver.rulesOfExt b!"RS" = none ∧
    Resolver.rulesOfExt b!"env" = some Gen.configRules ∧
    Resolver.langSuggest b!"m.rs" b!"  pub trait T { fn " [.snake, .pascal] = some .pascal ∧
    Resolver.langSuggest b!"m.rs" b!"\tpub fn " [.snake, .pascal] = some .snake ∧
    Resolver.langSuggest b!"m.rs" b!"pub fn " [.camel, .pascal] = none ∧
    Resolver.langSuggest b!"m.py" b!"" [.snake, .screamingSnake] = some .screamingSnake ∧
    Resolver.langSuggest b!"m.js" b!"const MAX_" [.camel, .screamingSnake] = some .screamingSnake ∧
    Resolver.langSuggest b!"m.css" b!".btn." [.snake] = none ∧
    Resolver.langSuggest b!"m.txt" b!"fn " [.snake] = none := by decide +kernel

/-- the identifier extractor of the file-context level: strings in the three kinds of quotes and `//` comments are skipped,
    numbers and one-letter names dropped, ambiguous single words not counted -/
example :
    Resolver.extractIdentifiers b!"let user_name = getUser(x, 42); // not_me\n\"nor_me\" MAX_SIZE 'a_b' `c_d` e-f" =
      [b!"let", b!"user_name", b!"getUser", b!"MAX_SIZE", b!"e-f"] ∧
    Resolver.styleTags A b!"let user_name = getUser(x, 42); // not_me\n\"nor_me\" MAX_SIZE 'a_b' `c_d` e-f" =
      [.snake, .camel, .screamingSnake, .kebab] := by decide +kernel

/-- FINDING (outside the text of C06: both answers keep the case), kernel-evaluated on the counts: with as many snake_case as
    camelCase identifiers in the file (`n` = the threshold each, so that both gates are passed), `FileContextAnalyzer::
    suggest_style` answers Camel or Snake for the ambiguous `foo` depending on the iteration order of its `HashMap<Style, usize>`
    (`RandomState`: different from map to map) — the same plan request renders `foo` as `bazQux` in one run and `baz_qux` in the
    next (corpus/C06/file_context_tie_hash_order.json).  `fileChoices` is the set of both. -/
theorem file_context_tie_depends_on_hash_order :
    let n := Resolver.minIdentifiers
    let tags := List.replicate n Style.snake ++ List.replicate n Style.camel
    let possible := [Style.snake, .kebab, .camel, .dot, .lowerFlat, .lowerSentence]
    Resolver.fileSuggestTags [.snake, .camel] tags possible = some .camel ∧
    Resolver.fileSuggestTags [.camel, .snake] tags possible = some .snake ∧
    Resolver.fileChoicesTags tags possible = [.snake, .camel] ∧
    -- one identifier more of either style and the order is irrelevant
    Resolver.fileChoicesTags (Style.snake :: tags) possible = [.snake] ∧
    -- a dominant style the match cannot be written in is passed over for the best possible one
    Resolver.fileChoicesTags (List.replicate (4 * n) Style.pascal ++ List.replicate 7 Style.kebab ++ List.replicate 9 Style.camel)
      possible = [.camel] := by decide +kernel

/-- REPAIRED (repo commit 40204b5; the flag is read from `file_context.rs`): the code no longer walks its `HashMap` but
    `Style::all_styles()`, i.e. the model's order parameter is the empty list (`keysOf [] tags` = the counted styles in
    canonical order) in EVERY run: the tie of the theorem above is resolved the same way every time (the last maximum in
    canonical order: camelCase), and the plan is a function of the tree again.  This was a C14 matter (determinism); it did not
    touch clause 3 of C06, both answers keep the case of the match. -/
theorem file_context_order_is_canonical_now :
    Gen.fileContextCanonicalOrder = true ∧
    (let n := Resolver.minIdentifiers
     let tags := List.replicate n Style.snake ++ List.replicate n Style.camel
     Resolver.fileSuggestTags [] tags [Style.snake, .kebab, .camel, .dot, .lowerFlat, .lowerSentence] = some .camel) := by
  decide +kernel

/-- the two gates of the file-context level, for whatever constants the source has: fewer counted identifiers than the
    threshold, or no style that reaches the medium-confidence ratio ⇒ the level is silent for every hash order -/
theorem file_context_gates (ord tags possible : List Style)
    (h : tags.length < Resolver.minIdentifiers ∨
      ∀ s, Resolver.mediumDen * tags.count s < Resolver.mediumNum * tags.length) :
    Resolver.fileSuggestTags ord tags possible = none := by
  cases hs : Resolver.fileSuggestTags ord tags possible with
  | none => rfl
  | some s =>
    exfalso
    have hm := Resolver.fileSuggestTags_mem_choices hs
    unfold Resolver.fileChoicesTags at hm
    simp only [] at hm
    split at hm
    · cases hm
    · rename_i hg
      rcases h with h | h
      · simp [h] at hg
      · have : Gen.allStyles.all
            (fun s => decide (Resolver.mediumDen * tags.count s < Resolver.mediumNum * tags.length)) = true := by
          rw [List.all_eq_true]; intro t _; simpa using h t
        simp [this] at hg

/-- every answer of the file-context level, for every hash order, is among `fileChoices`; and whether the level answers at
    all does not depend on the order -/
theorem file_context_answers (A : Acr) (ord : List Style) (content : Bytes) (possible : List Style) :
    (∀ s, Resolver.fileSuggest A ord content possible = some s → s ∈ Resolver.fileChoices A content possible) ∧
    (Resolver.fileSuggest A ord content possible = none → Resolver.fileChoices A content possible = []) :=
  ⟨fun _ h => Resolver.fileSuggest_mem_choices h, Resolver.fileSuggest_none⟩


end C06
