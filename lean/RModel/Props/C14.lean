import RModel.Model.Scan
import RModel.Gen.ScanShape
import RModel.Lemmas.SortPerm
import RModel.Lemmas.Scan
/-
  C14 — Planning and previewing are read-only and deterministic.

  Determinism (Part A of `Model/Scan.lean`):
  * `order_independent`: for EVERY permutation `files'` of the file list the plan's match list is identical —
    whatever order the walker or the worker threads deliver the files in — provided the order on files is a total
    order (`FileOrder`, the contract of `PathBuf::cmp`) and the sort key (file, line, byte_offset) identifies a
    hunk (`KeyInjective`; C03's `sort_key_unique` discharges it for the real per-file planner).
  * `stats_order_independent`, `matches_by_variant_order_independent`, `total_matches_is_length`.
  * `scan_shape`: the sort key and the ordered collect as they stand in scanner.rs (generated facts).
  * the rename list (`plan.paths`): its comparator is NOT total (`rename_order_ties`: equal-depth directories), so the
    list is determined only together with its input order (`rename_sort_depends_on_input_order`); what holds is
    `rename_ties_keep_walk_order` (stable sort), `rename_files_sorted`, `rename_dedup_keeps_order`, given the generated
    facts `rename_list_shape` (stable sort, lists appended in root order, `retain` de-duplication, no pass through a
    hash container).

  Read-only (Part B; the programs are generated from the gate table `Gen/DryRunGates.lean`):
  * `plan_dry_run_gates`, `replace_dry_run_gates`, `rename_dry_run_gates`, `search_is_dry_run`, `plan_gates`,
    `probe_is_transient`: the extracted facts, by name (a write statement that moves in front of its dry-run gate, or
    a new ungated one, breaks them).
  * `readonly`: whatever the command, every path of the user's tree is exactly as it was.
  * `readonly_full`: every dry run of every command — plan --dry-run, search, rename --dry-run, replace --dry-run —
    leaves the tree *identical* and writes only the transient probe, when auto-init adds nothing in that run;
    `C14_full_holds`: with the one-time ignore-file addition, only the ignore file differs and every write is permitted.
  * `plan_writes_permitted`: a non-dry `plan` writes only `.renamify/`, the transient lock (and its temp file), the plan
    file and the probe.  `autoinit_once`: the ignore-file program runs only in the run that has `autoInit`.
  * `rename_dryrun_writes_nothing` / `before_fix_rename_dryrun_creates_renamify`: the defect repaired by 055e350, as
    a fact about the model instantiated with the old gate table.
-/

namespace C14
open Scan SortPerm

-- Part A: determinism --------------------------------------------------------------------------------

variable {F : Type} [DecidableEq F]

/-- **The plan does not depend on the order in which files are scanned.**  For every permutation `files'` of
    `files` (any walker order, any assignment to worker threads, any completion order) the sorted match list is
    the same list. -/
theorem order_independent {fle : F → F → Bool} (ord : FileOrder fle) (scanFile : F → List (Hunk F))
    (files files' : List F) (hp : files'.Perm files) (hk : KeyInjective (allHunks scanFile files)) :
    scanRepository fle scanFile files' = scanRepository fle scanFile files := by
  unfold scanRepository
  apply sortBy_perm_invariant (hunkLe_preorder ord)
  · exact hp.flatMap_right scanFile
  · intro a b ha hb hab hba
    obtain ⟨h1, h2, h3⟩ := hunkLe_antisymm_key ord a b hab hba
    exact hk a ha b hb h1 h2 h3

/-- the result is sorted by the key and is a permutation of all hunks found -/
theorem scan_sorted_perm {fle : F → F → Bool} (ord : FileOrder fle) (scanFile : F → List (Hunk F)) (files : List F) :
    (scanRepository fle scanFile files).Pairwise (fun a b => hunkLe fle a b = true) ∧
    (scanRepository fle scanFile files).Perm (allHunks scanFile files) :=
  ⟨sortBy_sorted (hunkLe_preorder ord) _, sortBy_perm _ _⟩

omit [DecidableEq F] in
/-- `files_scanned`, `total_matches`, `files_with_matches` do not depend on the file order -/
theorem stats_order_independent (scanned : F → Bool) (scanFile : F → List (Hunk F)) (files files' : List F)
    (hp : files'.Perm files) : stats scanned scanFile files' = stats scanned scanFile files := by
  unfold stats
  rw [hp.countP_eq, hp.countP_eq, (hp.map _).sum_nat]

omit [DecidableEq F] in
/-- every entry of `matches_by_variant` is independent of the file order (the map is compared as a map) -/
theorem matches_by_variant_order_independent (scanFile : F → List (Hunk F)) (files files' : List F)
    (hp : files'.Perm files) (v : Nat) :
    matchesByVariant scanFile files' v = matchesByVariant scanFile files v := by
  unfold matchesByVariant
  exact (hp.map _).sum_nat

/-- `stats.total_matches` is the length of the match list -/
theorem total_matches_is_length {fle : F → F → Bool} (scanned : F → Bool) (scanFile : F → List (Hunk F)) (files : List F) :
    (stats scanned scanFile files).totalMatches = (scanRepository fle scanFile files).length := by
  unfold stats scanRepository allHunks
  rw [(sortBy_perm _ _).length_eq, length_flatMap_sum]

/-- The shape the model assumes, read from scanner.rs on every run: the global sort is the stable `sort_by` on
    (file, line, byte_offset) — the key of `hunkLe` — and the per-file outcomes are collected in input order
    (`par_iter().map().collect()` into a Vec, no `for_each` / Mutex / channel sink). -/
theorem scan_shape :
    Gen.ScanShape.sortKey = [.file, .line, .byteOffset] ∧ Gen.ScanShape.sortIsStable = true ∧
    Gen.ScanShape.collectIsOrdered = true ∧ Gen.ScanShape.unorderedSinks = 0 ∧ Gen.ScanShape.perFilePresort = true := by
  decide

-- the rename list ------------------------------------------------------------------------------------

/-- How `plan.paths` is put together, read from rename.rs / scanner.rs on every run: stable per-root sort whose
    comparator ties on equal-depth directories and orders files by path, per-root lists appended in root order,
    de-duplication by an order-preserving `retain`, and NO pass of the list through a hash container (which would hand
    the tied directories to the sort in per-process hash order). -/
theorem rename_list_shape :
    Gen.ScanShape.renameSortIsStable = true ∧ Gen.ScanShape.renameOrderTiesOnEqualDepthDirs = true ∧
    Gen.ScanShape.renameFilesByPath = true ∧ Gen.ScanShape.renamesConcatInRootOrder = true ∧
    Gen.ScanShape.renameDedupIsRetain = true ∧ Gen.ScanShape.renameListHashOrderedPasses = 0 := by decide

/-- the planner's order on renames is NOT a total order: two different directories of equal depth are `≤` each
    other — so, unlike the match list, the sorted rename list is determined only together with the order of its input -/
theorem rename_order_ties :
    ∃ a b : RenameItem, a ≠ b ∧ renLe a b = true ∧ renLe b a = true :=
  ⟨⟨true, 2, 0⟩, ⟨true, 2, 1⟩, by decide, by decide, by decide⟩

/-- … and it does depend on it: the same two renames in the other input order come out in the other order (what an
    unordered container between walk and sort would do from one process to the next) -/
theorem rename_sort_depends_on_input_order :
    sortBy renLe [⟨true, 2, 0⟩, ⟨true, 2, 1⟩] ≠ sortBy renLe [⟨true, 2, 1⟩, ⟨true, 2, 0⟩] := by decide

/-- **Ties keep walk order.**  For every input list and every depth `d`, the directories of depth `d` appear in the
    sorted list in exactly the order in which the walker delivered them (the sort is stable). -/
theorem rename_ties_keep_walk_order (l : List RenameItem) (d : Nat) :
    (sortBy renLe l).filter (fun r => r.isDir && r.depth == d) = l.filter (fun r => r.isDir && r.depth == d) := by
  apply sortBy_filter_class
  intro a b ha hb
  simp only [Bool.and_eq_true, beq_iff_eq] at ha hb
  simp [renLe, ha.1, hb.1, ha.2, hb.2]

/-- files, whose comparator is total (by path), come out sorted whatever the input order: for them the order is
    independent of the walk -/
theorem rename_files_sorted (l : List RenameItem) :
    ((sortBy renLe l).filter (fun r => !r.isDir)).Pairwise (fun a b => a.path ≤ b.path) := by
  have ord : TotalPreorder renLe := by
    constructor
    · intro a b
      cases ha : a.isDir <;> cases hb : b.isDir <;> simp [renLe, ha, hb] <;> omega
    · intro a b c
      cases ha : a.isDir <;> cases hb : b.isDir <;> cases hc : c.isDir <;> simp [renLe, ha, hb, hc] <;> omega
  have hs := sortBy_sorted ord l
  have hf := hs.filter (fun r => !r.isDir)
  refine hf.imp_of_mem ?_
  intro a b ha hb hab
  simp only [List.mem_filter, Bool.not_eq_true'] at ha hb
  simpa [renLe, ha.2, hb.2] using hab

/-- the de-duplication across roots never reorders: `plan.paths` is a sublist of the concatenation of the sorted
    per-root lists, so it is a function of the roots' order and each root's walk order and nothing else -/
theorem rename_dedup_keeps_order (perRootWalk : List (List RenameItem)) :
    (planRenames perRootWalk).Sublist ((perRootWalk.map (sortBy renLe)).flatten) :=
  dedupAux_sublist _ _ []

example : planRenames [[⟨false, 2, 7⟩, ⟨true, 1, 3⟩, ⟨true, 1, 2⟩], [⟨true, 1, 2⟩, ⟨true, 2, 9⟩]] =
    [⟨true, 1, 3⟩, ⟨true, 1, 2⟩, ⟨false, 2, 7⟩, ⟨true, 2, 9⟩] := by decide

-- a concrete instance: files are numbers, ordered by ≤ ---------------------------------------------------

theorem natOrder : FileOrder (fun a b : Nat => decide (a ≤ b)) :=
  ⟨fun a b => by simp only [decide_eq_true_eq]; omega,
   fun a b c => by simp only [decide_eq_true_eq]; omega,
   fun a b => by simp only [decide_eq_true_eq]; omega⟩

def demoScan : Nat → List (Hunk Nat)
  | 0 => [⟨0, 3, 4, 1, 0⟩, ⟨0, 1, 7, 0, 0⟩, ⟨0, 1, 2, 1, 0⟩]
  | 1 => []
  | 2 => [⟨2, 1, 0, 0, 5⟩]
  | n => [⟨n, 9, 9, 2, 0⟩]

example : scanRepository (fun a b => decide (a ≤ b)) demoScan [2, 0, 1] =
    scanRepository (fun a b => decide (a ≤ b)) demoScan [0, 1, 2] := by decide

example : (scanRepository (fun a b => decide (a ≤ b)) demoScan [2, 0, 1]).map (fun h => (h.file, h.line, h.byteOffset)) =
    [(0, 1, 2), (0, 1, 7), (0, 3, 4), (2, 1, 0)] := by decide

/-- non-vacuity of `order_independent`: the demo scanner satisfies both hypotheses on [0,1,2] -/
example : KeyInjective (allHunks demoScan [0, 1, 2]) := by
  intro a ha b hb
  simp only [allHunks, List.flatMap_cons, List.flatMap_nil, demoScan, List.append_nil, List.nil_append,
    List.cons_append, List.mem_cons, List.not_mem_nil, or_false] at ha hb
  rcases ha with rfl | rfl | rfl | rfl <;> rcases hb with rfl | rfl | rfl | rfl <;> simp

/-- without key injectivity the conclusion can fail: two different hunks with one key keep their input order -/
theorem key_injectivity_needed :
    let sf : Nat → List (Hunk Nat) := fun n => [⟨0, 1, 1, 0, n⟩]
    scanRepository (fun a b => decide (a ≤ b)) sf [1, 2] ≠ scanRepository (fun a b => decide (a ≤ b)) sf [2, 1] := by
  decide

-- Part B: read-only ------------------------------------------------------------------------------------

open Gen.DryRunGates in
/-- plan_operation: every writing statement is skipped by a dry run -/
theorem plan_dry_run_gates : ∀ k, runsK .plan true k = false := by
  intro k; cases k <;> decide

open Gen.DryRunGates in
/-- `search` is `plan` with dry_run = true, whatever flag is passed -/
theorem search_is_dry_run : ∀ d k, runsK .search d k = false := by
  intro d k; cases d <;> cases k <;> decide

open Gen.DryRunGates in
/-- handle_replace: a dry run skips every writing statement — the lock (taken since 451dd24) included; it never writes
    a plan file -/
theorem replace_dry_run_gates : (∀ k, runsK .replace true k = false) ∧ (∀ d, runsK .replace d .planWrite = false) ∧
    runsK .replace false .lock = true := by
  refine ⟨?_, ?_, by decide⟩
  · intro k; cases k <;> decide
  · intro d; cases d <;> decide

/-- the lock file is published complete: temp file, link, unlink (35d666f) -/
theorem lock_publish_shape : Gen.DryRunGates.lockPublish = .tmpLink := by decide

open Gen.DryRunGates in
/-- rename_operation: a dry run skips every writing statement — the lock included (since 055e350) -/
theorem rename_dry_run_gates : ∀ k, runsK .rename true k = false := by
  intro k; cases k <;> decide

open Gen.DryRunGates in
/-- a non-dry `plan` takes the lock and writes the plan, nothing else -/
theorem plan_gates : runsK .plan false .lock = true ∧ runsK .plan false .planWrite = true ∧
    runsK .plan false .apply = false ∧ runsK .plan false .other = false := by decide

/-- the probe of detect_case_insensitive_fs is an RAII TempDir called from the rename planner -/
theorem probe_is_transient : Gen.DryRunGates.probeIsRaii = true ∧ Gen.DryRunGates.probeOnlyFromRenamePlanner = true ∧
    Gen.DryRunGates.searchPassesDryRunTrue = true := by decide

/-- the effective dry-run flag of a configuration -/
def isDry (c : Cfg) : Prop := c.dryRun = true ∨ c.cmd = .search

/-- the program of any dry run without auto-init is the probe block or nothing -/
theorem dry_program (c : Cfg) (hd : isDry c) (hai : c.autoInit = false) :
    program c = (if c.probe && c.cmd != .replace then probeBlock else []) := by
  obtain ⟨cmd, dry, ex, ai, pr⟩ := c
  simp only at hai
  subst hai
  have hl : runsKG Gen.DryRunGates.gates cmd dry .lock = false := by
    cases cmd with
    | plan => rcases hd with h | h <;> simp at h; subst h; exact plan_dry_run_gates _
    | search => exact search_is_dry_run _ _
    | rename => rcases hd with h | h <;> simp at h; subst h; exact rename_dry_run_gates _
    | replace => rcases hd with h | h <;> simp at h; subst h; exact replace_dry_run_gates.1 _
  have hw : runsKG Gen.DryRunGates.gates cmd dry .planWrite = false := by
    cases cmd with
    | plan => rcases hd with h | h <;> simp at h; subst h; exact plan_dry_run_gates _
    | search => exact search_is_dry_run _ _
    | rename => rcases hd with h | h <;> simp at h; subst h; exact rename_dry_run_gates _
    | replace => exact replace_dry_run_gates.2.1 _
  simp [program, programG, programGP, hl, hw, probeBlock]

/-- **Read-only.**  Every dry run — plan --dry-run, search, rename --dry-run, replace --dry-run — in which auto-init
    adds nothing: the tree after the run is the tree before it, and every path the run writes is the transient probe. -/
theorem readonly_full (c : Cfg) (hd : isDry c) (hai : c.autoInit = false) (t : T)
    (h1 : t .probeDir = none) (h2 : t .probeFile = none) :
    exec t (program c) = t ∧ ∀ op ∈ program c, ∀ p ∈ written op, p ∈ permitted c := by
  rw [dry_program c hd hai]
  constructor
  · split
    · exact probe_block_identity t h1 h2
    · rfl
  · intro op hop p hp
    split at hop
    · simp only [probeBlock, List.mem_cons, List.not_mem_nil, or_false] at hop
      rcases hop with rfl | rfl | rfl | rfl | rfl <;>
        simp only [written, List.mem_cons, List.not_mem_nil, or_false] at hp <;> subst hp <;> simp [permitted]
    · simp at hop

example : isDry ⟨.rename, true, false, false, true⟩ := Or.inl rfl

/-- every dry run, auto-init or not, writes only permitted paths -/
theorem dry_writes_permitted (c : Cfg) (hd : isDry c) : ∀ op ∈ program c, ∀ p ∈ written op, p ∈ permitted c := by
  obtain ⟨cmd, dry, ex, ai, pr⟩ := c
  cases cmd <;> cases dry <;> cases ex <;> cases ai <;> cases pr <;>
    first
      | decide
      | (exfalso; rcases hd with h | h <;> simp at h)

/-- C14's read-only half at full strength: every dry run of every command, with or without the one-time ignore-file
    addition: only permitted writes; every path but the ignore file exactly as before; and the whole tree identical
    when auto-init adds nothing in this run. -/
def C14_full : Prop :=
  ∀ (c : Cfg) (t : T), isDry c → t .probeDir = none → t .probeFile = none → t .ignoreTmp = none →
    (∀ op ∈ program c, ∀ p ∈ written op, p ∈ permitted c) ∧
    (∀ q, q ≠ .ignoreFile → exec t (program c) q = t q) ∧
    (c.autoInit = false → exec t (program c) = t)

theorem C14_full_holds : C14_full := by
  intro c t hd h1 h2 h3
  refine ⟨dry_writes_permitted c hd, ?_, fun hai => (readonly_full c hd hai t h1 h2).1⟩
  obtain ⟨cmd, d, ex, ai, pr⟩ := c
  cases ai with
  | false =>
    intro q _
    rw [(readonly_full ⟨cmd, d, ex, false, pr⟩ hd rfl t h1 h2).1]
  | true =>
    intro q hq
    rw [program_autoinit, exec_append]
    have hd' : isDry ⟨cmd, d, ex, false, pr⟩ := hd
    have f1 : exec t ignoreBlock .probeDir = none := by
      rw [ignore_block_frame t h3 _ (by decide)]; exact h1
    have f2 : exec t ignoreBlock .probeFile = none := by
      rw [ignore_block_frame t h3 _ (by decide)]; exact h2
    rw [(readonly_full ⟨cmd, d, ex, false, pr⟩ hd' rfl (exec t ignoreBlock) f1 f2).1]
    exact ignore_block_frame t h3 q hq

def renameDry : Cfg := ⟨.rename, true, false, false, true⟩
def emptyTree : T := fun _ => none

/-- `rename --dry-run` today: the probe and nothing else -/
theorem rename_dryrun_writes_nothing :
    program renameDry = probeBlock ∧ exec emptyTree (program renameDry) .renamifyDir = none := by decide

/-- **Before 055e350.**  With the gate table as it was (lock taken before the dry-run gate, lock file created with O_EXCL) `rename --dry-run`
    created `.renamify/` (which stayed) and the lock file (removed again); neither is a permitted write of a dry run. -/
theorem before_fix_rename_dryrun_creates_renamify :
    FsOp.mkdir .renamifyDir ∈ programGP oldRenameGates .createNew renameDry ∧ FsOp.openw .lock ∈ programGP oldRenameGates .createNew renameDry ∧
    P.renamifyDir ∉ permitted renameDry ∧ P.lock ∉ permitted renameDry ∧
    exec emptyTree (programGP oldRenameGates .createNew renameDry) .renamifyDir = some .dir ∧
    exec emptyTree (programGP oldRenameGates .createNew renameDry) .lock = none := by
  refine ⟨by decide, by decide, by decide, by decide, by decide, by decide⟩

/-- every program writes only these paths -/
theorem program_writes (c : Cfg) : ∀ op ∈ program c, ∀ p ∈ written op,
    p = .probeDir ∨ p = .probeFile ∨ p = .renamifyDir ∨ p = .lock ∨ p = .lockTmp ∨ p = .planFile ∨ p = .ignoreTmp ∨ p = .ignoreFile := by
  obtain ⟨cmd, dry, ex, ai, pr⟩ := c
  cases cmd <;> cases dry <;> cases ex <;> cases ai <;> cases pr <;> decide

/-- **Read-only.**  Whatever the command (plan, search, rename, replace), dry run or not, auto-init or not: every path
    of the user's tree (`user n`: anything but `.renamify/…`, the probe, the ignore file and its temp file) is
    exactly as before.  In particular every `--dry-run` and every `search` has net effect identity on the user
    tree. -/
theorem readonly (c : Cfg) (t : T) (n : Nat) : exec t (program c) (.user n) = t (.user n) := by
  apply exec_frame
  intro op hop hmem
  have := program_writes c op hop (.user n) hmem
  simp at this

/-- A non-dry `plan` writes only permitted paths, and outside `.renamify/` (fresh probe) nothing changes. -/
theorem plan_writes_permitted (ex ai pr : Bool) :
    ∀ op ∈ program ⟨.plan, false, ex, ai, pr⟩, ∀ p ∈ written op, p ∈ permitted ⟨.plan, false, ex, ai, pr⟩ := by
  cases ex <;> cases ai <;> cases pr <;> decide

/-- the ignore-file steps occur only in a run that has `autoInit`; the run that has it moves the temp file onto the
    ignore file and leaves no temp file -/
theorem autoinit_once (cmd : Cmd) (d ex pr : Bool) :
    (∀ op ∈ program ⟨cmd, d, ex, false, pr⟩, P.ignoreFile ∉ written op ∧ P.ignoreTmp ∉ written op) ∧
    exec emptyTree (program ⟨cmd, d, ex, true, pr⟩) .ignoreTmp = none ∧
    exec emptyTree (program ⟨cmd, d, ex, true, pr⟩) .ignoreFile = some (.file 1) := by
  cases cmd <;> cases d <;> cases ex <;> cases pr <;> decide

end C14
