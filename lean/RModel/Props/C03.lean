import RModel.Base.Lit
import RModel.Model.Matcher
import RModel.Model.Hunks
import RModel.Model.Edits
import RModel.Gen.ReplaceOffsets
import RModel.Lemmas.Edits
import RModel.Lemmas.Matcher
import RModel.Lemmas.Utf8
import RModel.Lemmas.Literal
import RModel.Lemmas.Lines
import RModel.Lemmas.MatchEdits
import RModel.Lemmas.Roots
/-
  C03 — Every plan is internally consistent with the files it describes.   (property theorems only)
-/
namespace C03
open Matcher

/-- Every match the case-aware matcher returns (all byte strings, all non-empty variant lists):
    non-empty, in range, its span holds the bytes of a variant, `text` is the lossy decoding of the span,
    `variant` is that variant, `line`/`column` are the newline count / distance from the last newline. -/
theorem findMatches_consistent (vs : List Bytes) (c : Bytes) (hne : vs ≠ []) :
    ∀ m ∈ findMatches vs c,
      m.start < m.stop ∧ m.stop ≤ c.length ∧
      (c.take m.stop).drop m.start ∈ vs ∧
      m.text = Utf8.lossy ((c.take m.stop).drop m.start) ∧
      m.variant = (c.take m.stop).drop m.start ∧
      m.line = 1 + ((c.take m.start).filter (fun b => b.toNat == 10)).length ∧
      m.column = m.start - lineStart c m.start := by
  intro m hm
  have he : vs.isEmpty = false := by cases vs <;> simp_all
  simp only [findMatches, he, Bool.false_eq_true, if_false, List.mem_map, List.mem_filter] at hm
  obtain ⟨se, ⟨hse, _⟩, rfl⟩ := hm
  obtain ⟨h1, h2, h3⟩ := scan_spec vs c se hse
  have hnil : (c.take se.2).drop se.1 ≠ [] := by
    intro h
    have := congrArg List.length h
    simp at this
    omega
  refine ⟨h1, h2, h3, rfl, ?_, ?_, rfl⟩
  · simp only [mkMatch, identifyVariant_self h3 hnil, Option.getD_some]
  · simp only [mkMatch, lineNo]; omega

/-- with variants that are valid UTF-8 (every Rust `String` is) the recorded text is exactly the file's bytes -/
theorem findMatches_text (vs : List Bytes) (c : Bytes) (hne : vs ≠ [])
    (hv : ∀ v ∈ vs, Utf8.valid v = true) :
    ∀ m ∈ findMatches vs c, (c.take m.stop).drop m.start = m.text ∧ m.text ∈ vs ∧ m.variant = m.text := by
  intro m hm
  obtain ⟨_, _, h3, h4, h5, _⟩ := findMatches_consistent vs c hne m hm
  rw [lossy_of_valid (hv _ h3)] at h4
  exact ⟨h4.symm, h4 ▸ h3, h5.trans h4.symm⟩

/-- matches come in ascending order and are pairwise disjoint -/
theorem findMatches_sorted (vs : List Bytes) (c : Bytes) :
    (findMatches vs c).Pairwise (fun a b => a.stop ≤ b.start) := by
  unfold findMatches
  split
  · split <;> simp
  · refine List.pairwise_map.mpr ?_
    exact (scan_pairwise _ _ _ _).sublist List.filter_sublist

/-- `leftmost_longest`: the alternation sorted by ESCAPED length (stable, descending) picks, at every
    position, the longest variant that matches there — unconditionally: escaping never shrinks a byte, so a
    proper prefix always has a strictly smaller escaped length.  (There is no variant set for which
    leftmost-first and leftmost-longest differ; this justifies the matcher model of DESIGN.md.) -/
theorem leftmost_longest (vs : List Bytes) (s a : Bytes) (h : firstAlt (orderAlts vs) s = some a)
    (v : Bytes) (hv : v ∈ vs) (hne : v ≠ []) (hp : v <+: s) : v.length ≤ a.length :=
  firstAlt_longest h hv hne hp

example : firstAlt (orderAlts [b!"a.b", b!"a.bcd", b!"a."]) b!"a.bcd!" = some b!"a.bcd" := by decide

/-- non-vacuity / shape of the result on a two-line input with a rejected (but consuming) candidate -/
example : findMatches [b!"foo", b!"foo_bar"] b!"xfoo foo_bar\n\tfoo" =
    [{ start := 5, stop := 12, line := 1, column := 5, variant := b!"foo_bar", text := b!"foo_bar" },
     { start := 14, stop := 17, line := 2, column := 1, variant := b!"foo", text := b!"foo" }] := by decide

/-- Character boundaries.  Proved for ASCII variants (what the case-aware planner generates: the variant table
    is rendered from ASCII alphanumeric tokens and the separators `_ - . space`) inside content that is valid
    UTF-8: the span starts with an ASCII byte, and the byte after an ASCII byte always starts a character.
    (For arbitrary valid-UTF-8 variants the statement is also true, but its proof needs the full
    self-synchronisation argument of UTF-8; not done here.) -/
theorem findMatches_boundaries (vs : List Bytes) (c : Bytes) (hne : vs ≠ [])
    (hc : Utf8.valid c = true) (hascii : ∀ v ∈ vs, ∀ b ∈ v, b.toNat < 128) :
    ∀ m ∈ findMatches vs c,
      Edits.isCharBoundary c m.start = true ∧ Edits.isCharBoundary c m.stop = true := by
  intro m hm
  obtain ⟨h1, h2, h3, _⟩ := findMatches_consistent vs c hne m hm
  have hget : ∀ k, k < m.stop - m.start → ((c.take m.stop).drop m.start)[k]? = c[m.start + k]? := by
    intro k hk
    rw [List.getElem?_drop, List.getElem?_take]
    simp [show m.start + k < m.stop by omega]
  have hasc : ∀ k, k < m.stop - m.start → ∃ b, c[m.start + k]? = some b ∧ b.toNat < 128 := by
    intro k hk
    have hlt : m.start + k < c.length := by omega
    refine ⟨c[m.start + k], by simp [hlt], ?_⟩
    apply hascii _ h3
    have : ((c.take m.stop).drop m.start)[k]? = some c[m.start + k] := by rw [hget k hk]; simp [hlt]
    exact List.mem_of_getElem? this
  constructor
  · unfold Edits.isCharBoundary
    split
    · rfl
    · obtain ⟨b, hb, hlt⟩ := hasc 0 (by omega)
      simp only [Nat.add_zero] at hb
      rw [hb]
      simp [Edits.isCont]; omega
  · unfold Edits.isCharBoundary
    split
    · rfl
    · cases hs : c[m.stop]? with
      | none =>
        have : c.length ≤ m.stop := List.getElem?_eq_none_iff.mp hs
        simp; omega
      | some b =>
        obtain ⟨a, ha, hlt⟩ := hasc (m.stop - m.start - 1) (by omega)
        have e1 : m.start + (m.stop - m.start - 1) = m.stop - 1 := by omega
        rw [e1] at ha
        have hb' : c[(m.stop - 1) + 1]? = some b := by rw [show m.stop - 1 + 1 = m.stop by omega]; exact hs
        have := Utf8.valid_after_ascii hc (m.stop - 1) a b ha hlt hb'
        simp [this]

/-- `findMatches_Consistent` — the link from C03 to C02: the matches of a file, turned into edits with any
    replacement strings (a Rust `String` never starts with a continuation byte), satisfy the guard of the apply
    loop; hence apply succeeds and produces the left-to-right substitution. -/
theorem findMatches_Consistent (vs : List Bytes) (c : Bytes) (hne : vs ≠ [])
    (hc : Utf8.valid c = true) (hascii : ∀ v ∈ vs, ∀ b ∈ v, b.toNat < 128)
    (hvalid : ∀ v ∈ vs, Utf8.valid v = true)
    (repl : Match → Bytes) (hrepl : ∀ m b, (repl m).head? = some b → Edits.isCont b = false) :
    Edits.Consistent c 0 (toEdits repl (findMatches vs c)) ∧
    Edits.applyEdits c (toEdits repl (findMatches vs c)) = .ok (Edits.spec c 0 (toEdits repl (findMatches vs c))) := by
  have hcons : Edits.Consistent c 0 (toEdits repl (findMatches vs c)) := by
    apply consistent_of_sorted c repl _ 0 (Nat.zero_le _) (fun _ _ => Nat.zero_le _) (findMatches_sorted vs c)
    intro m hm
    obtain ⟨h1, h2, _⟩ := findMatches_consistent vs c hne m hm
    obtain ⟨b1, b2⟩ := findMatches_boundaries vs c hne hc hascii m hm
    obtain ⟨t1, _⟩ := findMatches_text vs c hne hvalid m hm
    exact ⟨by omega, h2, b1, b2, t1, hrepl m⟩
  exact ⟨hcons, Edits.applyEdits_eq_spec c _ hcons⟩

/-- non-vacuity of the hypotheses: valid multi-byte content, ASCII variants, two matches -/
example : Utf8.valid b!"é fooBar → foo_bar" = true ∧
    (findMatches [b!"foo_bar", b!"fooBar"] b!"é fooBar → foo_bar").map (fun m => (m.start, m.stop)) = [(3, 9), (14, 21)] := by
  decide

/-- `sort_key_unique`: (line, column) — hence the plan's sort key (file, line, byte_offset) — identifies a match of a
    file: two matches with the same line and column are the same match.  (Needed by C14: sorting by that key gives an
    order that does not depend on the order in which files or matches were produced.) -/
theorem sort_key_unique (vs : List Bytes) (c : Bytes) (hne : vs ≠ []) :
    ∀ m1 ∈ findMatches vs c, ∀ m2 ∈ findMatches vs c,
      m1.line = m2.line → m1.column = m2.column → m1 = m2 := by
  intro m1 h1 m2 h2 hl hc
  obtain ⟨a1, a2, _, _, _, a6, a7⟩ := findMatches_consistent vs c hne m1 h1
  obtain ⟨b1, b2, _, _, _, b6, b7⟩ := findMatches_consistent vs c hne m2 h2
  have hln : lineNo c m1.start = lineNo c m2.start := by
    simp only [lineNo]; omega
  have hls : lineStart c m1.start = lineStart c m2.start := by
    rcases Nat.le_total m1.start m2.start with h | h
    · exact lineStart_eq_of_lineNo_eq c _ _ h (by omega) hln
    · exact (lineStart_eq_of_lineNo_eq c _ _ h (by omega) hln.symm).symm
  have l1 := lineStart_le c m1.start (by omega)
  have l2 := lineStart_le c m2.start (by omega)
  have hstart : m1.start = m2.start := by omega
  exact starts_injective _ (findMatches_sorted vs c)
    (fun m hm => (findMatches_consistent vs c hne m hm).1) m1 h1 m2 h2 hstart

/-- `line_geometry`: the `line`-th element of `lines_with_terminator` (what `generate_hunks` indexes) is the line that
    starts at `start − column`, and it contains the match at `column` whenever the matched text has no newline
    (variants never do). -/
theorem line_geometry (vs : List Bytes) (c : Bytes) (hne : vs ≠ []) :
    ∀ m ∈ findMatches vs c,
      m.start - m.column = lineStart c m.start ∧
      Hunks.lineOf c m.line = some (Hunks.takeLine (c.drop (m.start - m.column))) ∧
      ((∀ b ∈ (c.take m.stop).drop m.start, (b.toNat != 10) = true) →
        ((Hunks.takeLine (c.drop (m.start - m.column))).drop m.column).take (m.stop - m.start)
          = (c.take m.stop).drop m.start) := by
  intro m hm
  obtain ⟨a1, a2, _, _, _, a6, a7⟩ := findMatches_consistent vs c hne m hm
  have hle := lineStart_le c m.start (by omega)
  have hcol : m.start - m.column = lineStart c m.start := by omega
  refine ⟨hcol, ?_, ?_⟩
  · rw [hcol]
    unfold Hunks.lineOf
    have : m.line - 1 = nlCount (c.take m.start) := by rw [a6]; simp [nlCount]
    rw [this]
    exact Hunks.lineOf_at c.length c m.start (Nat.le_refl _) (by omega)
  · intro hnl
    rw [hcol]
    have hseg : ∀ b ∈ (c.take m.start).drop (lineStart c m.start), (b.toNat != 10) = true := by
      have := noNl_tail_run (c.take m.start)
      simpa [lineStart] using this
    have e1 : ∀ ls, ls ≤ m.start → c.drop ls
        = (c.take m.start).drop ls ++ ((c.take m.stop).drop m.start ++ c.drop m.stop) := by
      intro ls hls
      have h1 : c.drop m.start = (c.take m.stop).drop m.start ++ c.drop m.stop := by
        conv => lhs; rw [← List.take_append_drop m.stop c]
        rw [List.drop_append_of_le_length (by simp; omega)]
      conv => lhs; rw [← List.take_append_drop m.start c]
      rw [List.drop_append_of_le_length (by simp; omega), h1]
    rw [e1 _ hle, Hunks.takeLine_append_noNl _ _ hseg, Hunks.takeLine_append_noNl _ _ hnl]
    have hlen : ((c.take m.start).drop (lineStart c m.start)).length = m.column := by
      simp only [List.length_drop, List.length_take]; omega
    rw [List.drop_append_of_le_length (by omega), ← hlen, List.drop_length, List.nil_append]
    have hl2 : ((c.take m.stop).drop m.start).length = m.stop - m.start := by
      simp only [List.length_drop, List.length_take]; omega
    rw [← hl2, List.take_left']
    rfl

/-- `multi_root`: with the de-duplication of walker entries by real location (4d2e5a7), a plan over any list of search
    roots — nested, repeated, in any order — names every reached file once: the planned entries have pairwise distinct
    locations, and every location the walker reached is planned. -/
theorem multi_root_files_once {α} (entries : List (Bytes × α)) :
    (Hunks.dedupEntries entries).Pairwise (fun a b => a.1 ≠ b.1) ∧
    (∀ e ∈ Hunks.dedupEntries entries, e ∈ entries) ∧
    (∀ e ∈ entries, ∃ e' ∈ Hunks.dedupEntries entries, e'.1 = e.1) :=
  ⟨Hunks.dedupAux_pairwise [] entries, fun e he => (Hunks.dedupAux_mem [] entries e he).1,
   fun e he => Hunks.dedupAux_complete [] entries e he (by simp)⟩

/-- … hence no duplicate hunks: (file, line, column) identifies a hunk of the whole plan, across roots. -/
theorem multi_root_sort_key_unique (vs : List Bytes) (hne : vs ≠ []) (entries : List (Bytes × Bytes)) :
    ∀ x ∈ Hunks.planRoots vs entries, ∀ y ∈ Hunks.planRoots vs entries,
      x.1 = y.1 → x.2.line = y.2.line → x.2.column = y.2.column → x = y := by
  intro x hx y hy hf hl hc
  simp only [Hunks.planRoots, List.mem_flatMap, List.mem_map] at hx hy
  obtain ⟨e1, he1, m1, hm1, rfl⟩ := hx
  obtain ⟨e2, he2, m2, hm2, rfl⟩ := hy
  have hee : e1 = e2 := Hunks.eq_of_key_eq (Hunks.dedupAux_pairwise [] entries) e1 he1 e2 he2 hf
  subst hee
  have := sort_key_unique vs e1.2 hne m1 hm1 m2 hm2 hl hc
  rw [this]

/-- before 4d2e5a7 (no de-duplication) a file reachable from two roots was planned twice: kernel-evaluated on the
    entries the walker yields for `. sub` -/
theorem C03_beforefix_overlapping_roots_duplicate_hunks :
    let entries := [(b!"/w/sub/b.txt", b!"x foo_bar y\n"), (b!"/w/sub/b.txt", b!"x foo_bar y\n")]
    (Hunks.planRootsNoDedup [b!"foo_bar"] entries).map (fun x => (x.2.start, x.2.stop)) = [(2, 9), (2, 9)] ∧
    (Hunks.planRoots [b!"foo_bar"] entries).map (fun x => (x.2.start, x.2.stop)) = [(2, 9)] := by decide

-- statistics -----------------------------------------------------------------------------------
open Hunks

/-- `stats_sum`: the per-variant counters add up to the number of hunks listed, and the total over all files
    is the sum of the per-file counts -/
theorem stats_sum (variantsOfHunks : List Bytes) : totalOf (byVariant variantsOfHunks) = variantsOfHunks.length := by
  unfold byVariant
  rw [totalOf_foldl]
  simp [totalOf]

theorem stats_total (perFile : List (List Hunk)) :
    perFile.flatten.length = (perFile.map List.length).sum := List.length_flatten

-- literal planner ------------------------------------------------------------------------------

/-- Full statement for the literal planner: every hunk's recorded text is what the (lossily decoded) file holds at
    the recorded offsets.  False before d278bf5 (`C03_beforefix_replace_line2`), a theorem since (below). -/
def planLiteral_consistent_full : Prop :=
  ∀ (file pat repl : Bytes), pat ≠ [] →
    ∀ h ∈ planLiteral Gen.replaceOffsetsFileRelative file pat repl,
      ((Utf8.lossy file).take h.stop).drop h.start = h.content

/-- what the literal planner guarantees whatever the flag: the pattern stands in the (lossily decoded) text at
    line offset + column; `start` includes the line offset iff the planner adds it; on line 1 the offset is 0 -/
theorem planLiteral_spec (fr : Bool) (file pat repl : Bytes) (hpat : pat ≠ []) :
    ∀ h ∈ planLiteral fr file pat repl, ∃ off,
      ((Utf8.lossy file).take (off + h.byteOffset + pat.length)).drop (off + h.byteOffset) = pat ∧
      h.start = (if fr then off else 0) + h.byteOffset ∧ h.stop = h.start + pat.length ∧ h.content = pat ∧
      (h.line = 1 → off = 0) := by
  intro h hh
  obtain ⟨off, h1, h2, h3, h4, h5⟩ :=
    literalLines_spec fr pat repl (Utf8.lossy file) hpat (strLines (Utf8.lossy file)) 1 (strLines_spec _) h hh
  refine ⟨off, slice_of_prefix_drop h1, h2, h3, h4, ?_⟩
  intro hl
  obtain ⟨l, rest, hr⟩ := h5 hl
  exact strLinesFrom_head _ 0 off l rest hr

/-- `planLiteral_consistent_partial`: whatever the planner does with offsets, every hunk ON LINE 1 records the text
    that stands at its offsets (the line offset is 0 there).  Hunks on later lines are right only by coincidence
    (`C03_beforefix_replace_line2`). -/
theorem planLiteral_consistent_partial (fr : Bool) (file pat repl : Bytes) (hpat : pat ≠ []) :
    ∀ h ∈ planLiteral fr file pat repl, h.line = 1 →
      ((Utf8.lossy file).take h.stop).drop h.start = h.content := by
  intro h hh hl
  obtain ⟨off, h1, h2, h3, h4, h5⟩ := planLiteral_spec fr file pat repl hpat h hh
  have h0 := h5 hl
  subst h0
  rw [h3, h2, h4]
  cases fr <;> simpa using h1

/-- `planLiteral_consistent` for a planner that adds the line offset (the proposed fix): every hunk, on every line -/
theorem planLiteral_consistent_fileRelative (file pat repl : Bytes) (hpat : pat ≠ []) :
    ∀ h ∈ planLiteral true file pat repl, ((Utf8.lossy file).take h.stop).drop h.start = h.content := by
  intro h hh
  obtain ⟨off, h1, h2, h3, h4, _⟩ := planLiteral_spec true file pat repl hpat h hh
  rw [h3, h2, h4]
  simpa using h1

/-- The theorem about the code AS IT IS, selected by the flag that translate/replace_offsets.py extracts from
    scanner.rs: with the fix in the tree this is full consistency, without it the line-1 guard remains. -/
theorem planLiteral_consistent_current (file pat repl : Bytes) (hpat : pat ≠ []) :
    ∀ h ∈ planLiteral Gen.replaceOffsetsFileRelative file pat repl,
      (Gen.replaceOffsetsFileRelative = true ∨ h.line = 1) →
      ((Utf8.lossy file).take h.stop).drop h.start = h.content := by
  intro h hh hg
  rcases hg with hg | hg
  · rw [hg] at hh
    exact planLiteral_consistent_fileRelative file pat repl hpat h hh
  · exact planLiteral_consistent_partial _ file pat repl hpat h hh hg

/-- `planLiteral_consistent`: the full statement holds for the planner AS IT IS NOW.  `Gen.replaceOffsetsFileRelative` is
    regenerated from scanner.rs by translate/replace_offsets.py on every run; should `process_file_content` stop adding the
    line offset, the flag flips to `false`, `decide` fails here and the check reports the broken proof. -/
theorem planLiteral_consistent : planLiteral_consistent_full := by
  intro file pat repl hpat h hh
  exact planLiteral_consistent_current file pat repl hpat h hh (Or.inl (by decide))

/-- `planLiteral_consistent_bytes` — the shape of seeded/_fixes/c03_replace_skip_non_utf8.diff: a planner that adds the line
    offset and leaves files that are not valid UTF-8 out of the plan is consistent with the BYTES ON DISK for EVERY file
    (no valid-UTF-8 guard: such a file is provably absent from the plan). -/
theorem planLiteral_consistent_bytes (file pat repl : Bytes) (hpat : pat ≠ []) :
    ∀ h ∈ planLiteralS true true file pat repl, (file.take h.stop).drop h.start = h.content := by
  intro h hh
  unfold planLiteralS at hh
  by_cases hv : Utf8.valid file = true
  · simp only [hv, Bool.not_true, Bool.and_false, Bool.false_eq_true, if_false] at hh
    have := planLiteral_consistent_fileRelative file pat repl hpat h hh
    rwa [lossy_of_valid hv] at this
  · have hv' : Utf8.valid file = false := by simpa using hv
    simp [hv'] at hh

theorem planLiteral_skips_invalid (fr : Bool) (file pat repl : Bytes) (hv : Utf8.valid file = false) :
    planLiteralS fr true file pat repl = [] := by
  simp [planLiteralS, hv]

/-- The same for the planner AS IT IS, whatever the two generated flags say: consistent with the bytes on disk when it adds
    line offsets and either skips non-UTF-8 files (`Gen.replaceSkipsInvalidUtf8`, false today: finding replace_lossy_offsets)
    or the file is valid UTF-8.  Once the skip is in the tree the second hypothesis is discharged by `decide` for every file. -/
theorem planLiteral_bytes_current (file pat repl : Bytes) (hpat : pat ≠ []) :
    ∀ h ∈ planLiteralS Gen.replaceOffsetsFileRelative Gen.replaceSkipsInvalidUtf8 file pat repl,
      Gen.replaceOffsetsFileRelative = true →
      (Gen.replaceSkipsInvalidUtf8 = true ∨ Utf8.valid file = true) →
      (file.take h.stop).drop h.start = h.content := by
  intro h hh hfr hs
  rw [hfr] at hh
  rcases hs with hs | hv
  · rw [hs] at hh
    exact planLiteral_consistent_bytes file pat repl hpat h hh
  · have hh' : h ∈ planLiteral true file pat repl := by
      unfold planLiteralS at hh
      simpa [hv] using hh
    have := planLiteral_consistent_fileRelative file pat repl hpat h hh'
    rwa [lossy_of_valid hv] at this

/-- for a file that is valid UTF-8 the text searched IS the file -/
theorem planLiteral_valid_file (file : Bytes) (hv : Utf8.valid file = true) : Utf8.lossy file = file :=
  lossy_of_valid hv

/-- The defect repaired by d278bf5, kernel-evaluated on the planner WITHOUT the line offset: `renamify replace --no-regex foo bar` on "first line\nsecond foo line":
    the hunk on line 2 records 7..10, where the file reads "ine"; the text is at 18..21. -/
theorem C03_beforefix_replace_line2 :
    planLiteral false b!"first line\nsecond foo line" b!"foo" b!"bar" =
      [{ line := 2, byteOffset := 7, charOffset := 7, start := 7, stop := 10, content := b!"foo", replace := b!"bar",
         lineBefore := b!"second foo line", lineAfter := b!"second bar line" }] ∧
    (b!"first line\nsecond foo line".take 10).drop 7 = b!"ine" ∧
    (b!"first line\nsecond foo line".take 21).drop 18 = b!"foo" := by decide

/-- the line-1 guard of `planLiteral_consistent_partial` was necessary before the fix -/
theorem C03_beforefix_replace_line_relative_offsets :
    ∃ h ∈ planLiteral false b!"first line\nsecond foo line" b!"foo" b!"bar",
      ((Utf8.lossy b!"first line\nsecond foo line").take h.stop).drop h.start ≠ h.content := by decide

/-- with file-relative offsets the same input is consistent -/
theorem C03_fixed_replace_line2 :
    (planLiteral true b!"first line\nsecond foo line" b!"foo" b!"bar").map (fun h => (h.start, h.stop)) = [(18, 21)] := by
  decide

/-- offsets index the lossily decoded text: in a file that is not valid UTF-8 they are shifted -/
theorem C03_witness_replace_lossy :
    (planLiteral true [0xFF, 32, 102, 111, 111, 10] b!"foo" b!"bar").map (fun h => (h.start, h.stop)) = [(4, 7)] ∧
    (([0xFF, 32, 102, 111, 111, 10] : Bytes).take 5).drop 2 = b!"foo" := by decide

/-- non-vacuity of the literal-planner theorems: a hunk on line 1 (guard holds) and one on line 2 -/
example : (planLiteral false b!"a foo\nfoo" b!"foo" b!"x").map (fun h => (h.line, h.start, h.stop)) = [(1, 2, 5), (2, 0, 3)] := by decide

/-- non-vacuity of `line_geometry` / `sort_key_unique`: two matches with the same column on different lines -/
example : (findMatches [b!"foo"] b!"x foo\ny foo\r\n").map (fun m => (m.line, m.column, m.start)) = [(1, 2, 2), (2, 2, 8)] ∧
    Hunks.lineOf b!"x foo\ny foo\r\n" 2 = some b!"y foo\r\n" := by decide

theorem C03_witness_replace_lossy_offsets :
    ∃ h ∈ planLiteral true [0xFF, 32, 102, 111, 111, 10] b!"foo" b!"bar",
      (([0xFF, 32, 102, 111, 111, 10] : Bytes).take h.stop).drop h.start ≠ h.content := by decide

/-- Line context on a line that is not valid UTF-8 in front of the match (`foo_bar \xff foo_bar z`, second match): the raw
    column 10 falls inside U+FFFD of the decoded line, the `find` fallback replaces the FIRST occurrence, and `char_offset`
    counts 9 characters instead of 10.  Exactly what the real planner records (finding invalid_utf8_line_context). -/
theorem C03_witness_invalid_utf8_line_context :
    let c : Bytes := b!"foo_bar " ++ [0xFF] ++ b!" foo_bar z\n"
    Hunks.hunkGeomAt c 10 17 b!"foo_bar" b!"baz" =
      .ok { line := 1, byteOffset := 10, charOffset := 9, start := 10, stop := 17, content := b!"foo_bar", replace := b!"baz",
            lineBefore := b!"foo_bar \ufffd foo_bar z\n", lineAfter := b!"baz \ufffd foo_bar z\n" } .fallback := by decide

/-- before ac203f2 the planner panicked there (`line_string[match_col..]`, C16) -/
theorem C03_beforefix_invalid_utf8_panics :
    let c : Bytes := b!"foo_bar " ++ [0xFF] ++ b!" foo_bar z\n"
    Hunks.hunkGeomAtOld c 10 17 b!"foo_bar" b!"baz" = .panic := by decide

/-- the repaired shape leaves that file out of the plan -/
theorem C03_fixed_replace_lossy_offsets :
    planLiteralS true true [0xFF, 32, 102, 111, 111, 10] b!"foo" b!"bar" = [] ∧
    (planLiteralS true false [0xFF, 32, 102, 111, 111, 10] b!"foo" b!"bar").map (fun h => (h.start, h.stop)) = [(4, 7)] := by decide

/-- the repaired shape of `generate_hunks` (text before / after the match decoded separately) on the witness of
    invalid_utf8_line_context: the SECOND occurrence is replaced and `char_offset` is 10 -/
theorem C03_fixed_invalid_utf8_line_context :
    let c : Bytes := b!"foo_bar " ++ [0xFF] ++ b!" foo_bar z\n"
    Hunks.hunkGeomAtG true true c 10 17 b!"foo_bar" b!"baz" =
      .ok { line := 1, byteOffset := 10, charOffset := 10, start := 10, stop := 17, content := b!"foo_bar", replace := b!"baz",
            lineBefore := b!"foo_bar \ufffd foo_bar z\n", lineAfter := b!"foo_bar \ufffd baz z\n" } .splice := by decide

end C03
