import RModel.Base.Lit
import RModel.Model.Fs
import RModel.Model.Apply
import RModel.Lemmas.RenamePhase
import RModel.Props.C02ren
/-
  C05 — Renaming never overwrites or loses existing files.   (property theorems only)

  Proved: (1) `occupied_refused` — for every tree and plan, if any planned destination already exists the
  whole apply is refused by the pre-flight with the tree untouched (this became true with the repo commit
  "fix: refuse to apply when a rename destination already exists"); (2) whenever the destination of a rename
  is free, rename(2) as used by `perform_rename` keeps every node — for all trees and paths — and so does the
  whole rename phase along any execution whose destinations are free; (3) why the pre-flight is needed: the
  rename phase alone silently replaces an occupant (kernel-evaluated witnesses; these were the findings
  before the fix).
-/
namespace C05
open Fs Apply

/-- the multiset of nodes (content+mode / dir mode / link target), in list order -/
def nodes (t : Tree) : List Node := t.map (·.2)

/-- A rename onto a free destination keeps every node of the tree: nothing is overwritten or lost. -/
theorem rename_free_keeps_nodes (t t' : Tree) (a b : Path)
    (h : rename t a b = .ok t') (hfree : lookup t b = none) : nodes t' = nodes t := by
  unfold rename at h
  cases hla : lookup t a with
  | none => simp [hla] at h
  | some na =>
    simp only [hla] at h
    cases hp : parentOk t b with
    | error e => simp [hp] at h
    | ok u =>
      simp only [hp] at h
      by_cases hab : (a == b) = true
      · simp only [hab, if_true] at h
        cases h; rfl
      · simp only [hab, Bool.false_eq_true, if_false] at h
        by_cases hpre : pre a b = true
        · simp [hpre] at h
        · simp only [hpre, Bool.false_eq_true, if_false, hfree] at h
          cases h
          simp [nodes, List.map_map, Function.comp_def]

/-- An occupied destination always loses a node or is refused: the tree that comes out of a
    successful rename onto an existing path has strictly fewer nodes. -/
theorem rename_occupied_loses (t t' : Tree) (a b : Path) (nb : Node)
    (h : rename t a b = .ok t') (hab : (a == b) = false) (hocc : lookup t b = some nb) :
    t'.length < t.length := by
  unfold rename at h
  cases hla : lookup t a with
  | none => simp [hla] at h
  | some na =>
    simp only [hla] at h
    cases hp : parentOk t b with
    | error e => simp [hp] at h
    | ok u =>
      simp only [hp, hab, Bool.false_eq_true, if_false] at h
      by_cases hpre : pre a b = true
      · simp [hpre] at h
      · simp only [hpre, Bool.false_eq_true, if_false, hocc] at h
        have hlt : (removeKey t b).length < t.length := by
          unfold removeKey
          unfold lookup at hocc
          cases hf : t.find? (fun e => e.1 == b) with
          | none => simp [hf] at hocc
          | some e =>
            have hmem := List.mem_of_find?_eq_some hf
            have hpb := List.find?_some hf
            apply List.length_filter_lt_length_iff_exists.mpr
            exact ⟨e, hmem, by simpa using hpb⟩
        cases na <;> cases nb <;> simp only at h
        all_goals first
          | (cases h; simpa using hlt)
          | (split at h <;> first | (cases h; simpa using hlt) | (cases h))
          | (cases h)

/-- every destination is free at the moment its rename executes (follows the execution) -/
def allFree : Tree → List (Path × Path) → List Ren → Bool
  | _, _, [] => true
  | t, perf, r :: rs =>
    let af := rebase perf r.path
    let at' := rebase perf r.newPath
    (lookup t at').isNone &&
    match renameTS t af (trailingSlash perf r.path) at' (trailingSlash perf r.newPath) with
    | .ok t' => allFree t' (perf ++ [(r.path, at')]) rs
    | .error _ => true

/-- Rename phase: along an execution whose destinations are all free, a successful run keeps every
    node — any number of renames, any nesting. -/
theorem renamePhase_free_keeps_nodes (t : Tree) (perf : List (Path × Path)) (rs : List Ren)
    (hfree : allFree t perf rs = true) (hok : (renamePhase t perf rs).outcome = .ok) :
    nodes (renamePhase t perf rs).tree = nodes t := by
  induction rs generalizing t perf with
  | nil => simp [renamePhase]
  | cons r rs ih =>
    unfold allFree at hfree
    simp only [Bool.and_eq_true, Option.isNone_iff_eq_none] at hfree
    obtain ⟨hnone, hrest⟩ := hfree
    unfold renamePhase at hok ⊢
    cases hr : renameTS t (rebase perf r.path) (trailingSlash perf r.path) (rebase perf r.newPath)
        (trailingSlash perf r.newPath) with
    | error e =>
      simp only [hr] at hok
      split at hok <;> simp at hok
    | ok t' =>
      simp only [hr] at hok hrest ⊢
      rw [ih t' _ hrest hok]
      unfold renameTS at hr
      split at hr
      · cases hr
      · exact rename_free_keeps_nodes t t' _ _ hr hnone

/-- C05, refusal clause, at full strength for the whole command: any occupied destination ⇒ refused before
    anything is changed, for every tree and every plan (any number of edits and renames). -/
theorem occupied_refused (t : Tree) (p : Plan)
    (h : ∃ r ∈ p.rens, r.newPath ≠ [] ∧ r.newPath ≠ r.path ∧ (lookup t r.newPath).isSome = true) :
    ((applyPlan t p).outcome = .destExists ∨ (applyPlan t p).outcome = .sharedDest) ∧ (applyPlan t p).tree = t := by
  obtain ⟨r, hr, hne, hnp, hex⟩ := h
  have hpf : preflightOk t p.rens = false := by
    unfold preflightOk
    rw [List.all_eq_false]
    refine ⟨r, hr, ?_⟩
    have h1 : r.newPath.isEmpty = false := by
      cases hnp' : r.newPath with
      | nil => exact absurd hnp' hne
      | cons _ _ => rfl
    have h2 : (r.newPath == r.path) = false := beq_false_of_ne hnp
    have h3 : (lookup t r.newPath).isNone = false := by
      cases hl : lookup t r.newPath with
      | none => rw [hl] at hex; simp at hex
      | some _ => rfl
    simp [h1, h2, h3]
  exact RenamePhase.applyPlan_refused t p hpf

/-- C05 "several sources mapping to one destination": two renames of one plan with the same destination and
    different sources (neither an identity rename) ⇒ refused before anything is changed, for every tree and every
    plan.  (Repo commit 01297aa; `replace 'foo\d' bar` used to turn `foo1.txt` and `foo2.txt` into one `bar.txt`.) -/
theorem shared_destination_refused (t : Tree) (p : Plan)
    (h : ∃ r ∈ p.rens, ∃ r' ∈ p.rens, r.newPath = r'.newPath ∧ r.path ≠ r'.path ∧
      r.newPath ≠ [] ∧ r.newPath ≠ r.path ∧ r'.newPath ≠ r'.path) :
    ((applyPlan t p).outcome = .destExists ∨ (applyPlan t p).outcome = .sharedDest) ∧ (applyPlan t p).tree = t := by
  obtain ⟨r, hr, r', hr', he, hne, hn0, hid, hid'⟩ := h
  cases hp : preflight t [] p.rens with
  | some o =>
    rw [RenamePhase.applyPlan_preflight_refusal t p hp]
    rcases RenamePhase.preflight_some _ _ hp with rfl | rfl
    · exact ⟨Or.inr rfl, rfl⟩
    · exact ⟨Or.inl rfl, rfl⟩
  | none =>
    exfalso
    have hpw := (RenamePhase.distinct_of_preflight_none (by decide) p.rens [] hp).2
    have hskip : ∀ x : Ren, x.newPath ≠ [] → x.newPath ≠ x.path → skipRen x = false := by
      intro x h0 h1
      unfold skipRen
      have : x.newPath.isEmpty = false := by
        cases hx : x.newPath with
        | nil => exact absurd hx h0
        | cons _ _ => rfl
      rw [this, Bool.false_or]
      exact beq_false_of_ne h1
    have hrr : r ≠ r' := fun h => hne (by rw [h])
    exact hne (RenamePhase.pairwise_forall_of_symm
      (R := fun a b : Ren => skipRen a = false → skipRen b = false → a.newPath = b.newPath → a.path = b.path)
      (fun a b h hb ha he => (h ha hb he.symm).symm) hpw r hr r' hr' hrr
      (hskip r hn0 hid) (hskip r' (he ▸ hn0) hid') he)

/-- C05 "all chains where one rename's destination is another rename's source" — chains AND cycles (a swap `ab <-> ba`, a
    rotation): when the sources exist, a plan in which some rename's destination is the source of another rename is refused
    before anything is changed.  (There is no order in which plain rename(2) calls carry out a cycle without losing a node;
    for an open chain there is one, but `apply_plan` does not look for it — it refuses: seed C05e allowed chains through and
    lost files on cycles.) -/
theorem chain_or_cycle_refused (t : Tree) (p : Plan) (h4 : C02ren.KindsOk t p.rens)
    (h : ∃ r ∈ p.rens, ∃ r' ∈ p.rens, r.newPath = r'.path ∧ r.newPath ≠ [] ∧ r.newPath ≠ r.path) :
    ((applyPlan t p).outcome = .destExists ∨ (applyPlan t p).outcome = .sharedDest) ∧ (applyPlan t p).tree = t := by
  obtain ⟨r, hr, r', hr', he, hne, hnp⟩ := h
  exact occupied_refused t p ⟨r, hr, hne, hnp, by rw [he]; exact (h4 r' hr').1⟩

/-- non-vacuity: the swap is refused, both files untouched; the rename phase on its own would lose one -/
example :
    let t : Tree := [([b!"ab.txt"], .file b!"A" 420), ([b!"ba.txt"], .file b!"B" 420)]
    let rs : List Ren := [⟨[b!"ab.txt"], [b!"ba.txt"], .file⟩, ⟨[b!"ba.txt"], [b!"ab.txt"], .file⟩]
    C02ren.KindsOk t rs ∧ (applyPlan t ⟨[], rs⟩).outcome = .destExists ∧ (applyPlan t ⟨[], rs⟩).tree = t ∧
    (renamePhase t [] (sortRens rs)).tree.length = 1 := by decide

/-- C05, second sentence, with NO hypothesis about destinations: "every file present before a successful apply is still
    present afterwards, at its old path or its planned new path".  For every tree and every plan whose renames change
    only the last component of distinct existing sources: if apply reports success, the tree is `moveAll` of the tree
    the content phase left — the same number of nodes, every node with its kind, mode and link target, the node
    originally at `q` now at `finalPath p.rens q` (its own rename and those of its ancestors), and a path without a
    renamed prefix where it was.  Nothing is overwritten, merged or dropped.  (The destination guard `DestFree` of the
    composition theorems is not assumed: success implies it, by `C02ren.destFree_iff_preflight_loop`.) -/
theorem successful_apply_keeps_every_node (t : Tree) (p : Plan) (h1 : C02ren.LastOnly p.rens)
    (h2 : C02ren.DistinctSources p.rens) (h3 : C02ren.TreeWF t) (h4 : C02ren.KindsOk t p.rens)
    (hok : (applyPlan t p).outcome = .ok) :
    ∃ t1, contentPhase p.hunks t (sortedFiles p.hunks) = (.ok, t1) ∧
      (applyPlan t p).tree = C02ren.moveAll p.rens t1 ∧
      t1.map (·.1) = t.map (·.1) ∧
      (applyPlan t p).tree.map (·.2) = t1.map (·.2) ∧
      (applyPlan t p).tree.length = t.length ∧
      (∀ q, (∀ r ∈ p.rens, pre r.path q = false) → C02ren.finalPath p.rens q = q) := by
  -- the loop passed, or the outcome would be a refusal
  have hp : preflight t [] p.rens = none := by
    cases hp : preflight t [] p.rens with
    | none => rfl
    | some o =>
      rw [RenamePhase.applyPlan_preflight_refusal t p hp] at hok
      rcases RenamePhase.preflight_some _ _ hp with rfl | rfl <;> cases hok
  have h5 := (C02ren.destFree_iff_preflight_loop t p.rens h1 h3 h4).2 hp
  -- the content phase succeeded, or its outcome would be the outcome
  cases hcp : contentPhase p.hunks t (sortedFiles p.hunks) with
  | mk o t1 =>
    have ho : o = .ok := by
      cases o with
      | ok => rfl
      | _ =>
        rw [RenamePhase.applyPlan_pass hp] at hok
        unfold applyCore at hok
        rw [hcp] at hok
        cases hok
    subst ho
    have hc : (contentPhase p.hunks t (sortedFiles p.hunks)).1 = .ok := by rw [hcp]
    have hmv := C02ren.applyPlan_moves t p h1 h2 h3 h4 h5 hc
    rw [hcp] at hmv
    have htree : (applyPlan t p).tree = C02ren.moveAll p.rens t1 := by
      rcases hmv with h | h | ⟨e, h⟩
      · exact h.2
      · rw [hok] at h; cases h
      · rw [hok] at h; cases h
    have hs := RenamePhase.sameShape_contentPhase p.hunks (sortedFiles p.hunks) t
    rw [hcp] at hs
    refine ⟨t1, rfl, htree, hs.1, ?_, ?_, fun q hq => C02ren.nothing_else_moves p.rens q hq⟩
    · rw [htree]; exact C02ren.nodes_preserved p.rens t1
    · rw [htree]
      have := congrArg List.length hs.1
      simp only [List.length_map] at this
      simp only [C02ren.moveAll, List.length_map]
      exact this

/-- non-vacuity: the `foo\d -> bar` scenario is refused as a shared destination, tree untouched -/
example : (applyPlan [([b!"foo1.txt"], .file b!"A" 420), ([b!"foo2.txt"], .file b!"B" 420)]
    { hunks := [], rens := [{ path := [b!"foo1.txt"], newPath := [b!"bar.txt"], kind := .file },
                            { path := [b!"foo2.txt"], newPath := [b!"bar.txt"], kind := .file }] }).outcome
    = .sharedDest := by decide

/-- non-vacuity: the occupied-file scenario is refused, tree untouched -/
example : (applyPlan [([b!"foo_bar.txt"], .file b!"new\n" 420), ([b!"baz_qux.txt"], .file b!"precious\n" 420)]
    { hunks := [], rens := [{ path := [b!"foo_bar.txt"], newPath := [b!"baz_qux.txt"], kind := .file }] }).outcome
    = .destExists := by decide

/-- The same statement for the rename phase ALONE is false — which is why the pre-flight exists
    (this was the behaviour of the whole command before the fix). -/
def renamePhaseAlone_refuses : Prop :=
  ∀ (t : Tree) (rs : List Ren), (∃ r ∈ rs, (lookup t r.newPath).isSome ∧ ¬ (∃ r' ∈ rs, r'.path = r.newPath)) →
    (renamePhase t [] (sortRens rs)).outcome ≠ .ok ∧ (renamePhase t [] (sortRens rs)).tree = t

def occupiedTree : Tree :=
  [([b!"foo_bar.txt"], .file b!"new\n" 420), ([b!"baz_qux.txt"], .file b!"precious\n" 420)]

/-- Without the pre-flight the occupant is silently replaced, outcome ok (finding before the fix). -/
theorem renamePhaseAlone_witness_occupied :
    let r := renamePhase occupiedTree [] (sortRens [{ path := [b!"foo_bar.txt"], newPath := [b!"baz_qux.txt"], kind := .file }])
    r.outcome = .ok ∧ r.tree = [([b!"baz_qux.txt"], .file b!"new\n" 420)] := by decide

theorem renamePhaseAlone_refuses_is_false : ¬ renamePhaseAlone_refuses := by
  intro h
  have := h occupiedTree [{ path := [b!"foo_bar.txt"], newPath := [b!"baz_qux.txt"], kind := .file }]
    ⟨_, List.mem_singleton.mpr rfl, by decide, by decide⟩
  exact absurd this.1 (by decide)

def chainTree : Tree :=
  [([b!"foo.txt"], .file b!"one\n" 420), ([b!"foo_bar.txt"], .file b!"two\n" 420)]

/-- Without the pre-flight, chain shape (replacement contains the term: foo -> foo_bar): `foo.txt` lands on the
    still-present `foo_bar.txt` when it is processed first. -/
theorem renamePhaseAlone_witness_chain :
    let r := renamePhase chainTree [] (sortRens
      [{ path := [b!"foo.txt"], newPath := [b!"foo_bar.txt"], kind := .file },
       { path := [b!"foo_bar.txt"], newPath := [b!"foo_bar_bar.txt"], kind := .file }])
    r.outcome = .ok ∧ nodes r.tree = [.file b!"one\n" 420] := by decide

/-- non-vacuity of `renamePhase_free_keeps_nodes`: a nested plan with free destinations -/
example : allFree [([b!"foo_bar"], .dir 493), ([b!"foo_bar", b!"foo_bar.txt"], .file b!"x" 420)] []
    (sortRens [{ path := [b!"foo_bar", b!"foo_bar.txt"], newPath := [b!"foo_bar", b!"baz_qux.txt"], kind := .file },
               { path := [b!"foo_bar"], newPath := [b!"baz_qux"], kind := .dir }]) = true := by decide

end C05
