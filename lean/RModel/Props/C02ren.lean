import RModel.Base.Lit
import RModel.Model.Fs
import RModel.Model.Apply
import RModel.Lemmas.RenamePhase
import RModel.Lemmas.ContentPhase
import RModel.Lemmas.Edits
/-
  C02ren — nested renames compose   (C02 clause "moving each planned path to its new location …
  files inside renamed directories that are themselves renamed, several nesting levels", and
  C08 "nested renames compose").   Property theorems only; lemmas are in `Lemmas/RenamePhase.lean`.

  Reference semantics: `finalPath rs q` replaces, in the original path `q`, every component whose
  original prefix is the source of a planned rename by the planned new last component; `moveAll`
  applies it to every key of the tree and touches nothing else.

  Proved (any depth, any number of renames):
   * `exec_eq_finalPath`   path algebra: the sequence of substitutions STEP 3 really executes
                           (sorted order, re-basing on `renames_performed`) equals `finalPath`;
   * `sortRens_*`          the sorting facts that are used;
   * `renamePhase_ok`      tree level: STEP 3 succeeds and yields literally `moveAll rs t`;
   * corollaries           nothing else moves, nodes are preserved, depth is preserved, every
                           original node is found at its final path.
  The guards are decidable.  `DestFree` (tree level) and `Fresh`/`NoChain`/`DistinctDests` (path level)
  are shown necessary by kernel-evaluated witnesses; two of them (`witness_chain_overwrites`,
  `witness_chain_rebased_destination`) were replayed on the real binary (2026-09-29) with exactly the
  outcome the model predicts, on the binary built before the fix "refuse to apply when a rename
  destination already exists"; after it `apply_plan` refuses such plans up front (`preflightOk`), and
  `destFree_iff_preflight` shows that the pre-flight check is exactly the tree half of `DestFree`;
  the other half (`SiblingDestsDistinct`) is the planner's several-to-one conflict filter.
  Identity renames (`a → a`) are allowed by the guards and handled.  The key-distinctness part of
  `TreeWF` is not used by the proofs (kept because it is part of what a tree is).
-/
namespace C02ren
open Fs Apply

-- reference semantics ------------------------------------------------------------------------------

/-- new last component planned for the node originally at `p`, if any -/
def newName (rs : List Ren) (p : Path) : Option Bytes :=
  (rs.find? (fun r => r.path == p)).bind (fun r => r.newPath.getLast?)

/-- `go pre rest`: rewrite the components `rest` found below the original prefix `pre` -/
def finalPath.go (rs : List Ren) : Path → Path → Path
  | _, [] => []
  | pre, c :: rest => (newName rs (pre ++ [c])).getD c :: finalPath.go rs (pre ++ [c]) rest

/-- final location of the node originally at `q`: every component whose original prefix is the
    source of a planned rename is replaced -/
def finalPath (rs : List Ren) (q : Path) : Path := finalPath.go rs [] q

def moveAll (rs : List Ren) (t : Tree) : Tree := t.map (fun e => (finalPath rs e.1, e.2))

/-- what the sequence of `subst`s executed by `renamePhase` does to an original path `q`
    (`performed` threaded exactly as `renamePhase` does, errors ignored) -/
def execPath.go : List (Path × Path) → List Ren → Path → Path
  | _, [], q => q
  | perf, r :: rs, q =>
    let af := rebase perf r.path
    let at' := rebase perf r.newPath
    execPath.go (perf ++ [(r.path, at')]) rs (subst af at' q)

def execPath (rs : List Ren) (q : Path) : Path := execPath.go [] rs q

-- guards (all decidable) ----------------------------------------------------------------------------

/-- only the last component changes, and the new one is not empty:
    `r.newPath = r.path.dropLast ++ [c]`, `c ≠ []` (see `lastOnly_iff`) -/
def LastOnly (rs : List Ren) : Prop :=
  ∀ r ∈ rs, r.path ≠ [] ∧ r.newPath ≠ [] ∧ r.newPath.dropLast = r.path.dropLast ∧
    r.newPath.getLast? ≠ some []

/-- sources are pairwise distinct -/
def DistinctSources (rs : List Ren) : Prop := rs.Pairwise (fun a b => a.path ≠ b.path)

def isDirNode : Option Node → Bool
  | some (.dir _) => true
  | _ => false

/-- keys distinct, root is not a key, every key's parent is a directory key -/
def TreeWF (t : Tree) : Prop :=
  t.Pairwise (fun a b => a.1 ≠ b.1) ∧ (∀ e ∈ t, e.1 ≠ []) ∧
  (∀ e ∈ t, e.1.dropLast ≠ [] → isDirNode (lookup t e.1.dropLast) = true)

/-- every source exists and is tagged `dir` exactly when it is a directory -/
def KindsOk (t : Tree) (rs : List Ren) : Prop :=
  ∀ r ∈ rs, (lookup t r.path).isSome = true ∧ (r.kind = .dir ↔ isDirNode (lookup t r.path) = true)

/-- destinations are free and pairwise distinct: no other sibling of a source carries its new
    name, and no other renamed sibling is given the same new name -/
def DestFree (t : Tree) (rs : List Ren) : Prop :=
  ∀ r ∈ rs,
    (∀ e ∈ t, e.1 ≠ r.path → e.1.dropLast = r.path.dropLast → e.1.getLast? ≠ r.newPath.getLast?) ∧
    (∀ r' ∈ rs, r'.path ≠ r.path → r'.path.dropLast = r.path.dropLast →
      r'.newPath.getLast? ≠ r.newPath.getLast?)

-- path-level guards (no tree): what `DestFree`/`KindsOk`/`TreeWF` provide, stated on paths only

/-- file-kind sources are not proper prefixes of any source -/
def FileLeaf (rs : List Ren) : Prop :=
  ∀ f ∈ rs, f.kind = .file → ∀ r ∈ rs, pre f.path r.path = true → f.path = r.path

/-- two renames with the same destination have the same source -/
def DistinctDests (rs : List Ren) : Prop :=
  ∀ r ∈ rs, ∀ r' ∈ rs, r.newPath = r'.newPath → r.path = r'.path

/-- no planned destination is a prefix of `q` (an identity rename `a → a` is harmless) -/
def Fresh (rs : List Ren) (q : Path) : Prop :=
  ∀ r ∈ rs, pre r.newPath q = true → r.newPath = r.path

/-- no chains: no planned destination is (a prefix of) a source -/
def NoChain (rs : List Ren) : Prop := ∀ x ∈ rs, Fresh rs x.path

instance (rs : List Ren) : Decidable (LastOnly rs) := by unfold LastOnly; infer_instance
instance (rs : List Ren) : Decidable (DistinctSources rs) := by unfold DistinctSources; infer_instance
instance (t : Tree) : Decidable (TreeWF t) := by unfold TreeWF; infer_instance
instance (t : Tree) (rs : List Ren) : Decidable (KindsOk t rs) := by unfold KindsOk; infer_instance
instance (t : Tree) (rs : List Ren) : Decidable (DestFree t rs) := by unfold DestFree; infer_instance
instance (rs : List Ren) : Decidable (FileLeaf rs) := by unfold FileLeaf; infer_instance
instance (rs : List Ren) : Decidable (DistinctDests rs) := by unfold DistinctDests; infer_instance
instance (rs : List Ren) (q : Path) : Decidable (Fresh rs q) := by unfold Fresh; infer_instance
instance (rs : List Ren) : Decidable (NoChain rs) := by unfold NoChain; infer_instance

/-- `LastOnly` says what it is meant to say -/
theorem lastOnly_iff (rs : List Ren) :
    LastOnly rs ↔ ∀ r ∈ rs, r.path ≠ [] ∧ ∃ c, c ≠ [] ∧ r.newPath = r.path.dropLast ++ [c] := by
  constructor
  · intro h r hr
    obtain ⟨h1, h2, h3, h4⟩ := h r hr
    refine ⟨h1, r.newPath.getLast h2, ?_, ?_⟩
    · intro h0; apply h4; rw [List.getLast?_eq_some_getLast h2, h0]
    · rw [← h3]; exact (List.dropLast_concat_getLast h2).symm
  · intro h r hr
    obtain ⟨h1, c, hc, hn⟩ := h r hr
    refine ⟨h1, by rw [hn]; simp, by rw [hn]; simp, ?_⟩
    rw [hn, List.getLast?_concat]
    intro h0; exact hc (Option.some.inj h0)

-- bridges to the lemma file (same definitions, other namespace) --------------------------------------

theorem newName_eq (rs : List Ren) (p : Path) : newName rs p = RenamePhase.newName rs p := rfl

theorem go_eq (rs : List Ren) (p q : Path) : finalPath.go rs p q = RenamePhase.go rs p q := by
  induction q generalizing p with
  | nil => rfl
  | cons c q ih => simp only [finalPath.go, RenamePhase.go, ih, newName_eq]

theorem finalPath_eq (rs : List Ren) (q : Path) : finalPath rs q = RenamePhase.finalPath rs q :=
  go_eq rs [] q

theorem moveAll_eq (rs : List Ren) (t : Tree) : moveAll rs t = RenamePhase.moveAll rs t := by
  simp only [moveAll, RenamePhase.moveAll, finalPath_eq]

theorem execGo_eq (perf : List (Path × Path)) (rs : List Ren) (q : Path) :
    execPath.go perf rs q = RenamePhase.execAux perf rs q := by
  induction rs generalizing perf q with
  | nil => rfl
  | cons r rs ih => simp only [execPath.go, RenamePhase.execAux, ih]

theorem isDirNode_eq (o : Option Node) : isDirNode o = RenamePhase.isDirNode o := by
  cases o with
  | none => rfl
  | some n => cases n <;> rfl

theorem LastOnly.toLemma {rs : List Ren} (h : LastOnly rs) : RenamePhase.LastOnly rs :=
  fun r hr => ⟨(h r hr).1, (h r hr).2.1, (h r hr).2.2.1⟩

theorem TreeWF.toLemma {t : Tree} (h : TreeWF t) : RenamePhase.GTreeWF t := by
  simpa only [TreeWF, RenamePhase.GTreeWF, isDirNode_eq] using h

theorem KindsOk.toLemma {t : Tree} {rs : List Ren} (h : KindsOk t rs) : RenamePhase.GKindsOk t rs := by
  simpa only [KindsOk, RenamePhase.GKindsOk, isDirNode_eq] using h

-- 1. path algebra ---------------------------------------------------------------------------------------

/-- PATH ALGEBRA.  For every original path `q`, whatever its depth and however many renames:
    running the substitutions of STEP 3 in the STEP 3 order, each re-based on the renames performed
    so far, moves `q` to `finalPath rs q`. -/
theorem exec_eq_finalPath (rs : List Ren) (h1 : LastOnly rs) (h2 : DistinctSources rs)
    (h3 : FileLeaf rs) (h4 : DistinctDests rs) (h5 : NoChain rs) (q : Path) (h6 : Fresh rs q) :
    execPath (sortRens rs) q = finalPath rs q := by
  rw [finalPath_eq]
  exact (execGo_eq [] (sortRens rs) q).trans
    (RenamePhase.execPath_sortRens rs h2 h3 h1.toLemma h4 h5 q h6)

/-- The same for any processing order in which no source comes after a source it is a prefix of
    (so the theorem does not depend on stability or on how ties are broken). -/
theorem exec_eq_finalPath_anyOrder (L : List Ren)
    (hord : L.Pairwise (fun x y => pre y.path x.path = false)) (h1 : LastOnly L)
    (h4 : DistinctDests L) (h5 : NoChain L) (q : Path) (h6 : Fresh L q) :
    execPath L q = finalPath L q := by
  rw [finalPath_eq]
  exact (execGo_eq [] L q).trans (RenamePhase.execPath_eq L hord h1.toLemma h4 h5 q h6)

/-- `Fresh rs q` cannot be dropped: `x/a → x/b`, `x/a/f → x/a/g`, and the unrelated path `x/b/f`
    (not below any source) is moved, because the re-based source of the second rename is `x/b/f`. -/
theorem exec_needs_fresh_witness :
    let rs : List Ren :=
      [⟨[b!"x", b!"a"], [b!"x", b!"b"], .dir⟩, ⟨[b!"x", b!"a", b!"f"], [b!"x", b!"a", b!"g"], .file⟩]
    LastOnly rs ∧ DistinctSources rs ∧ FileLeaf rs ∧ DistinctDests rs ∧ NoChain rs ∧
    finalPath rs [b!"x", b!"b", b!"f"] = [b!"x", b!"b", b!"f"] ∧
    execPath (sortRens rs) [b!"x", b!"b", b!"f"] = [b!"x", b!"b", b!"g"] := by decide

/-- `NoChain` cannot be dropped: `a → b`, `b → c` (same depth, plan order kept): the node
    originally at `a/f` ends below `c`, not below `b`. -/
theorem exec_needs_noChain_witness :
    let rs : List Ren := [⟨[b!"a"], [b!"b"], .dir⟩, ⟨[b!"b"], [b!"c"], .dir⟩]
    LastOnly rs ∧ DistinctSources rs ∧ FileLeaf rs ∧ DistinctDests rs ∧ Fresh rs [b!"a", b!"f"] ∧
    finalPath rs [b!"a", b!"f"] = [b!"b", b!"f"] ∧
    execPath (sortRens rs) [b!"a", b!"f"] = [b!"c", b!"f"] := by decide

/-- `DistinctDests` cannot be dropped: `a → c`, `b → c`, `a/f → a/g`: the node originally at `b/f`
    is renamed by the rename planned for `a/f`. -/
theorem exec_needs_distinctDests_witness :
    let rs : List Ren := [⟨[b!"a"], [b!"c"], .dir⟩, ⟨[b!"b"], [b!"c"], .dir⟩,
      ⟨[b!"a", b!"f"], [b!"a", b!"g"], .file⟩]
    LastOnly rs ∧ DistinctSources rs ∧ FileLeaf rs ∧ NoChain rs ∧ Fresh rs [b!"b", b!"f"] ∧
    finalPath rs [b!"b", b!"f"] = [b!"c", b!"f"] ∧
    execPath (sortRens rs) [b!"b", b!"f"] = [b!"c", b!"g"] := by decide

-- 2. sorting facts ----------------------------------------------------------------------------------------

/-- `sortRens` only reorders the plan -/
theorem sortRens_perm (rs : List Ren) : List.Perm (sortRens rs) rs := RenamePhase.sortRens_perm rs

/-- directories precede files; directories in non-decreasing, files in non-increasing depth -/
theorem sortRens_shape (rs : List Ren) :
    ∃ ds fs, sortRens rs = ds ++ fs ∧
      (∀ r ∈ ds, r.kind = .dir) ∧ (∀ r ∈ fs, r.kind = .file) ∧
      ds.Pairwise (fun a b => depth a.path ≤ depth b.path) ∧
      fs.Pairwise (fun a b => depth b.path ≤ depth a.path) :=
  ⟨RenamePhase.dirPart rs, RenamePhase.filePart rs, rfl,
    fun _ h => (RenamePhase.mem_dirPart.1 h).2, fun _ h => (RenamePhase.mem_filePart.1 h).2,
    RenamePhase.dirPart_sorted rs, RenamePhase.filePart_sorted rs⟩

/-- what the proofs use: in the STEP 3 order no source comes after a source it is a prefix of -/
theorem sortRens_prefix_order (rs : List Ren) (h2 : DistinctSources rs) (h3 : FileLeaf rs) :
    (sortRens rs).Pairwise (fun x y => pre y.path x.path = false) :=
  RenamePhase.sortRens_ord rs h2 h3

-- 3. tree level ---------------------------------------------------------------------------------------------

/-- TREE LEVEL.  Under the five guards STEP 3 succeeds and the tree is literally `moveAll rs t`
    (same list order, same nodes); the recorded `renames_performed` are (source, final path). -/
theorem renamePhase_ok (t : Tree) (rs : List Ren) (h1 : LastOnly rs) (h2 : DistinctSources rs)
    (h3 : TreeWF t) (h4 : KindsOk t rs) (h5 : DestFree t rs) :
    (renamePhase t [] (sortRens rs)).outcome = .ok ∧
    (renamePhase t [] (sortRens rs)).tree = moveAll rs t ∧
    (renamePhase t [] (sortRens rs)).performed =
      (sortRens rs).map (fun r => (r.path, finalPath rs r.path)) := by
  rw [RenamePhase.renamePhase_sortRens t rs h1.toLemma h2 h3.toLemma h4.toLemma h5, moveAll_eq]
  refine ⟨rfl, rfl, ?_⟩
  simp only [finalPath_eq]

/-- `NoChain` need not be assumed at tree level: the tree guards imply it (a chained destination
    would be an existing sibling) -/
theorem noChain_of_guards (t : Tree) (rs : List Ren) (h1 : LastOnly rs) (h3 : TreeWF t)
    (h4 : KindsOk t rs) (h5 : DestFree t rs) : NoChain rs :=
  (RenamePhase.treeOk_of_guards h3.toLemma h1.toLemma h4.toLemma h5).freshSrc

/-- the second half of `DestFree`: renamed siblings get different new names.  This is what the
    planner's several-to-one conflict filter provides. -/
def SiblingDestsDistinct (rs : List Ren) : Prop :=
  ∀ r ∈ rs, ∀ r' ∈ rs, r'.path ≠ r.path → r'.path.dropLast = r.path.dropLast →
    r'.newPath.getLast? ≠ r.newPath.getLast?

instance (rs : List Ren) : Decidable (SiblingDestsDistinct rs) := by
  unfold SiblingDestsDistinct; infer_instance

/-- `DestFree` = the pre-flight check of `apply_plan` (no planned destination exists on disk)
    + distinct destinations among renamed siblings -/
theorem destFree_iff_preflight (t : Tree) (rs : List Ren) (h1 : LastOnly rs) (h3 : TreeWF t) :
    DestFree t rs ↔ (preflightOk t rs = true ∧ SiblingDestsDistinct rs) := by
  constructor
  · intro h5
    exact ⟨RenamePhase.preflight_of_fresh (RenamePhase.fresh_keys h3.toLemma h1.toLemma h5),
      fun r hr => (h5 r hr).2⟩
  · intro ⟨h, h'⟩
    exact RenamePhase.destFree_of_preflight h1.toLemma h h'

/-- The whole of `applyPlan`.  The pre-flight check passes, the content phase changes no key and no
    node kind, so the guards survive it: when STEP 2 succeeds, the tree it leaves is moved by
    `moveAll`, and the only thing that can still go wrong is STEP 4 (reading the edited files back
    for the undo patches). -/
theorem applyPlan_moves (t : Tree) (p : Plan) (h1 : LastOnly p.rens) (h2 : DistinctSources p.rens)
    (h3 : TreeWF t) (h4 : KindsOk t p.rens) (h5 : DestFree t p.rens)
    (hc : (contentPhase p.hunks t (sortedFiles p.hunks)).1 = .ok) :
    ((applyPlan t p).outcome = .ok ∧
      (applyPlan t p).tree = moveAll p.rens (contentPhase p.hunks t (sortedFiles p.hunks)).2) ∨
    (applyPlan t p).outcome = .backupFailed ∨ (∃ e, (applyPlan t p).outcome = .rollbackFailed e) := by
  rw [moveAll_eq]
  exact RenamePhase.applyPlan_moves t p h1.toLemma h2 h3.toLemma h4.toLemma h5 hc

/-- When every edited file can be read back where STEP 4 looks for it (it is valid UTF-8 at its recorded
    location), `applyPlan` succeeds and the tree is exactly `moveAll` of what the content phase left.
    (Since repo commit 6667a82 a STEP 4 failure rolls the renames back instead of leaving them in place, which is
    why the failing case no longer says anything about the tree here: that is C04's subject.) -/
theorem applyPlan_moves_ok (t : Tree) (p : Plan) (h1 : LastOnly p.rens) (h2 : DistinctSources p.rens)
    (h3 : TreeWF t) (h4 : KindsOk t p.rens) (h5 : DestFree t p.rens)
    (hc : (contentPhase p.hunks t (sortedFiles p.hunks)).1 = .ok)
    (hread : (sortedFiles p.hunks).all (fun f =>
        readable (renamePhase (contentPhase p.hunks t (sortedFiles p.hunks)).2 [] (sortRens p.rens)).tree
          (currentPath (renamePhase (contentPhase p.hunks t (sortedFiles p.hunks)).2 [] (sortRens p.rens)).performed f))
        = true) :
    (applyPlan t p).outcome = .ok ∧
      (applyPlan t p).tree = moveAll p.rens (contentPhase p.hunks t (sortedFiles p.hunks)).2 := by
  rw [moveAll_eq]
  exact RenamePhase.applyPlan_moves_ok t p h1.toLemma h2 h3.toLemma h4.toLemma h5 hc hread

/-- … and when a planned destination exists, nothing is touched at all.  Together with
    `applyPlan_moves` and `destFree_iff_preflight`: under `LastOnly`, `DistinctSources`, `TreeWF`,
    `KindsOk` and `SiblingDestsDistinct`, `applyPlan` either refuses up front or (content phase
    permitting) moves every node to `finalPath`. -/
theorem applyPlan_refused (t : Tree) (p : Plan) (h : preflightOk t p.rens = false) :
    ((applyPlan t p).outcome = .destExists ∨ (applyPlan t p).outcome = .sharedDest) ∧ (applyPlan t p).tree = t :=
  RenamePhase.applyPlan_refused t p h

/-- the source says today that the pre-flight loop has the shared-destination test (repo commit 01297aa) -/
theorem sharedDestRefused_now : ExecFlags.sharedDestRefused = true := by decide

/-- Since 01297aa the pre-flight loop of `apply_plan` (skip test, shared-destination test, exists test, in plan
    order) is EXACTLY `DestFree`: both halves, not only the tree half as in `destFree_iff_preflight`. -/
theorem destFree_iff_preflight_loop (t : Tree) (rs : List Ren) (h1 : LastOnly rs) (h3 : TreeWF t)
    (h4 : KindsOk t rs) : DestFree t rs ↔ preflight t [] rs = none :=
  RenamePhase.destFree_iff_preflight_loop sharedDestRefused_now h1.toLemma h3.toLemma h4.toLemma

/-- Hence a DICHOTOMY with no hypothesis about destinations at all: for every tree and every plan whose renames
    change only the last component of distinct existing sources, `applyPlan` either refuses up front with the
    tree untouched, or (content phase and read-back permitting) moves every node to `finalPath` — there is no
    third case in which a rename is half-done or a node is overwritten. -/
theorem applyPlan_refuses_or_moves (t : Tree) (p : Plan) (h1 : LastOnly p.rens) (h2 : DistinctSources p.rens)
    (h3 : TreeWF t) (h4 : KindsOk t p.rens)
    (hc : (contentPhase p.hunks t (sortedFiles p.hunks)).1 = .ok) :
    (((applyPlan t p).outcome = .destExists ∨ (applyPlan t p).outcome = .sharedDest) ∧ (applyPlan t p).tree = t) ∨
    ((applyPlan t p).outcome = .ok ∧
      (applyPlan t p).tree = moveAll p.rens (contentPhase p.hunks t (sortedFiles p.hunks)).2) ∨
    (applyPlan t p).outcome = .backupFailed ∨ (∃ e, (applyPlan t p).outcome = .rollbackFailed e) := by
  cases hp : preflight t [] p.rens with
  | some o =>
    refine Or.inl ?_
    rw [RenamePhase.applyPlan_preflight_refusal t p hp]
    rcases RenamePhase.preflight_some _ _ hp with rfl | rfl
    · exact ⟨Or.inr rfl, rfl⟩
    · exact ⟨Or.inl rfl, rfl⟩
  | none =>
    exact Or.inr (applyPlan_moves t p h1 h2 h3 h4 ((destFree_iff_preflight_loop t p.rens h1 h3 h4).2 hp) hc)

/-- the case 01297aa was made for: `foo1.txt` and `foo2.txt` both planned onto `bar.txt` (what
    `replace 'foo\d' bar` plans).  Before it the second rename replaced the first file; now the plan is refused and
    the tree is untouched.  The rename phase on its own still loses a node. -/
theorem witness_shared_destination :
    let t : Tree := [([b!"foo1.txt"], .file b!"A" 420), ([b!"foo2.txt"], .file b!"B" 420)]
    let rs : List Ren := [⟨[b!"foo1.txt"], [b!"bar.txt"], .file⟩, ⟨[b!"foo2.txt"], [b!"bar.txt"], .file⟩]
    LastOnly rs ∧ DistinctSources rs ∧ TreeWF t ∧ KindsOk t rs ∧ preflightOk t rs = true ∧ ¬ DestFree t rs ∧
    (renamePhase t [] (sortRens rs)).outcome = .ok ∧
    (renamePhase t [] (sortRens rs)).tree = [([b!"bar.txt"], .file b!"B" 420)] ∧
    (applyPlan t ⟨[], rs⟩).outcome = .sharedDest ∧ (applyPlan t ⟨[], rs⟩).tree = t := by decide

/-- STEP 4 (`generate_reverse_patches`) looks for every path at its final location -/
theorem currentPath_after (t : Tree) (rs : List Ren) (h1 : LastOnly rs) (h2 : DistinctSources rs)
    (h3 : TreeWF t) (h4 : KindsOk t rs) (h5 : DestFree t rs) (f : Path) :
    currentPath (renamePhase t [] (sortRens rs)).performed f = finalPath rs f := by
  rw [(renamePhase_ok t rs h1 h2 h3 h4 h5).2.2]
  simp only [finalPath_eq]
  exact RenamePhase.currentPath_sortRens rs h2
    (RenamePhase.fileLeaf_of_guards h3.toLemma h1.toLemma h4.toLemma) f

-- 4. corollaries --------------------------------------------------------------------------------------------

/-- a path with no renamed prefix keeps its place -/
theorem nothing_else_moves (rs : List Ren) (q : Path) (h : ∀ r ∈ rs, pre r.path q = false) :
    finalPath rs q = q := by
  rw [finalPath_eq]; exact RenamePhase.finalPath_eq_self rs q h

/-- the rename phase changes no content, mode or link target, and neither drops nor adds a node -/
theorem nodes_preserved (rs : List Ren) (t : Tree) : (moveAll rs t).map (·.2) = t.map (·.2) := by
  rw [moveAll_eq]; exact RenamePhase.moveAll_nodes rs t

/-- depth is preserved -/
theorem finalPath_length (rs : List Ren) (q : Path) : (finalPath rs q).length = q.length := by
  rw [finalPath_eq]; exact RenamePhase.finalPath_length rs q

/-- a planned source ends at: final path of its parent, then its planned new name -/
theorem finalPath_source (rs : List Ren) (h1 : LastOnly rs) (h2 : DistinctSources rs) (r : Ren)
    (hr : r ∈ rs) :
    ∃ c, r.newPath = r.path.dropLast ++ [c] ∧
      finalPath rs r.path = finalPath rs r.path.dropLast ++ [c] := by
  simp only [finalPath_eq]; exact RenamePhase.finalPath_source h1.toLemma h2 hr

/-- after the phase every original node is found at its final path (no two keys collide) -/
theorem lookup_after (t : Tree) (rs : List Ren) (h1 : LastOnly rs) (h3 : TreeWF t)
    (h5 : DestFree t rs) (e : Path × Node) (he : e ∈ t) :
    lookup (moveAll rs t) (finalPath rs e.1) = lookup t e.1 := by
  rw [moveAll_eq, finalPath_eq]; exact RenamePhase.lookup_moveAll h1.toLemma h3.toLemma h5 he

-- 5. non-vacuity and necessity witnesses (kernel-evaluated) -------------------------------------------------

/-- `foo_bar/foo_bar/foo_bar.txt` with all three levels renamed, an un-renamed sibling file, a renamed
    symlink and an unrelated file -/
def exTree : Tree :=
  [([b!"foo_bar"], .dir 493),
   ([b!"foo_bar", b!"foo_bar"], .dir 493),
   ([b!"foo_bar", b!"foo_bar", b!"foo_bar.txt"], .file b!"hello foo_bar" 420),
   ([b!"foo_bar", b!"foo_bar", b!"other.txt"], .file b!"x" 420),
   ([b!"foo_bar", b!"foo_bar_link"], .link b!"foo_bar/foo_bar.txt"),
   ([b!"README"], .file b!"r" 420)]

/-- the plan in the planner's own order (directories deepest first, then files by path) -/
def exRens : List Ren :=
  [⟨[b!"foo_bar", b!"foo_bar"], [b!"foo_bar", b!"baz_qux"], .dir⟩,
   ⟨[b!"foo_bar"], [b!"baz_qux"], .dir⟩,
   ⟨[b!"foo_bar", b!"foo_bar", b!"foo_bar.txt"], [b!"foo_bar", b!"foo_bar", b!"baz_qux.txt"], .file⟩,
   ⟨[b!"foo_bar", b!"foo_bar_link"], [b!"foo_bar", b!"baz_qux_link"], .file⟩]

/-- the guards are satisfiable … -/
example : LastOnly exRens ∧ DistinctSources exRens ∧ TreeWF exTree ∧ KindsOk exTree exRens ∧
    DestFree exTree exRens := by decide

example : preflightOk exTree exRens = true ∧ SiblingDestsDistinct exRens := by decide

/-- … `moveAll` is what one expects … -/
example : moveAll exRens exTree =
  [([b!"baz_qux"], .dir 493),
   ([b!"baz_qux", b!"baz_qux"], .dir 493),
   ([b!"baz_qux", b!"baz_qux", b!"baz_qux.txt"], .file b!"hello foo_bar" 420),
   ([b!"baz_qux", b!"baz_qux", b!"other.txt"], .file b!"x" 420),
   ([b!"baz_qux", b!"baz_qux_link"], .link b!"foo_bar/foo_bar.txt"),
   ([b!"README"], .file b!"r" 420)] := by decide

/-- … and the model of STEP 3 evaluates to it (independently of `renamePhase_ok`). -/
example : (renamePhase exTree [] (sortRens exRens)).outcome = .ok ∧
    (renamePhase exTree [] (sortRens exRens)).tree = moveAll exRens exTree := by decide

/-- `applyPlan_moves` is not vacuous: a plan that edits the innermost file and renames all levels -/
example :
    let p : Plan := { hunks := [{ file := [b!"foo_bar", b!"foo_bar", b!"foo_bar.txt"],
                                  before := b!"foo_bar", after := b!"baz_qux", start := 6, stop := 13 }],
                      rens := exRens }
    (contentPhase p.hunks exTree (sortedFiles p.hunks)).1 = .ok ∧
    (applyPlan exTree p).outcome = .ok ∧
    lookup (applyPlan exTree p).tree [b!"baz_qux", b!"baz_qux", b!"baz_qux.txt"]
      = some (.file b!"hello baz_qux" 420) := by decide

/-- the path-level guards hold on the example as well -/
example : FileLeaf exRens ∧ DistinctDests exRens ∧ NoChain exRens ∧
    (∀ e ∈ exTree, Fresh exRens e.1) := by decide

/-- a variant of the STEP 3 order: directories deepest first (the order the *planner* stores) -/
def sortRensBad (rs : List Ren) : List Ren :=
  sortBy (fun a b => decide (depth b.path ≤ depth a.path)) (rs.filter (fun r => r.kind == .dir)) ++
  sortBy (fun a b => decide (depth b.path ≤ depth a.path)) (rs.filter (fun r => r.kind == .file))

/-- Why the order matters: with directories processed deepest first and the same re-basing, the
    file's source is re-based on the *outer* rename only (`baz_qux/foo_bar/foo_bar.txt`, last match
    wins), which does not exist: the phase fails and rolls everything back. -/
theorem witness_shallow_last :
    (renamePhase exTree [] (sortRensBad exRens)).outcome = .renameFailed .ENOENT ∧
    (renamePhase exTree [] (sortRensBad exRens)).tree = exTree ∧
    execPath (sortRensBad exRens) [b!"foo_bar", b!"foo_bar", b!"foo_bar.txt"]
      = [b!"baz_qux", b!"baz_qux", b!"foo_bar.txt"] ∧
    finalPath exRens [b!"foo_bar", b!"foo_bar", b!"foo_bar.txt"]
      = [b!"baz_qux", b!"baz_qux", b!"baz_qux.txt"] := by decide

/-- `DestFree` is needed (1): a chain `foo → foofoo`, `foofoo → foofoofoofoo` in plan order
    (what `renamify rename foo foofoo` plans for the files `foo` and `foofoo`): STEP 3 on its own
    reports success, but the original `foofoo` has been overwritten — one node is lost (observed on
    the binary before the pre-flight check was added); with the pre-flight check `applyPlan` refuses. -/
theorem witness_chain_overwrites :
    let t : Tree := [([b!"foo"], .file b!"A" 420), ([b!"foofoo"], .file b!"B" 420)]
    let rs : List Ren := [⟨[b!"foo"], [b!"foofoo"], .file⟩, ⟨[b!"foofoo"], [b!"foofoofoofoo"], .file⟩]
    LastOnly rs ∧ DistinctSources rs ∧ TreeWF t ∧ KindsOk t rs ∧ ¬ DestFree t rs ∧
    (renamePhase t [] (sortRens rs)).outcome = .ok ∧
    (renamePhase t [] (sortRens rs)).tree = [([b!"foofoofoofoo"], .file b!"A" 420)] ∧
    moveAll rs t = [([b!"foofoo"], .file b!"A" 420), ([b!"foofoofoofoo"], .file b!"B" 420)] ∧
    (applyPlan t ⟨[], rs⟩).outcome = .destExists ∧ (applyPlan t ⟨[], rs⟩).tree = t := by decide

/-- `DestFree` is needed (2): the same chain in the *safe* sequential order `xa → a`, then
    `xxa → xa` (what `renamify rename xa a` plans for the files `xa`, `xxa`): the destination `xa`
    of the second rename is itself re-based on the first one and becomes `a/` — `ENOTDIR`,
    everything is rolled back, although executing the plan as written would have worked (observed
    on the binary before the pre-flight check was added; now `applyPlan` refuses up front). -/
theorem witness_chain_rebased_destination :
    let t : Tree := [([b!"xa"], .file b!"B" 420), ([b!"xxa"], .file b!"A" 420)]
    let rs : List Ren := [⟨[b!"xa"], [b!"a"], .file⟩, ⟨[b!"xxa"], [b!"xa"], .file⟩]
    LastOnly rs ∧ DistinctSources rs ∧ TreeWF t ∧ KindsOk t rs ∧ ¬ DestFree t rs ∧
    (renamePhase t [] (sortRens rs)).outcome = .renameFailed .ENOTDIR ∧
    (renamePhase t [] (sortRens rs)).tree = t ∧
    moveAll rs t = [([b!"a"], .file b!"B" 420), ([b!"xa"], .file b!"A" 420)] ∧
    (applyPlan t ⟨[], rs⟩).outcome = .destExists := by decide

/-- the same for directories: `b → c` then `a → b`; the second destination is re-based to `c/`,
    which is a non-empty directory by then -/
theorem witness_chain_rebased_destination_dir :
    let t : Tree := [([b!"a"], .dir 493), ([b!"a", b!"x"], .file b!"A" 420),
                     ([b!"b"], .dir 493), ([b!"b", b!"y"], .file b!"B" 420)]
    let rs : List Ren := [⟨[b!"b"], [b!"c"], .dir⟩, ⟨[b!"a"], [b!"b"], .dir⟩]
    LastOnly rs ∧ DistinctSources rs ∧ TreeWF t ∧ KindsOk t rs ∧ ¬ DestFree t rs ∧
    (renamePhase t [] (sortRens rs)).outcome = .renameFailed .ENOTEMPTY ∧
    (renamePhase t [] (sortRens rs)).tree = t := by decide

/-- the hypothesis of `nothing_else_moves` is satisfiable -/
example : ∀ r ∈ exRens, pre r.path [b!"README"] = false := by decide

/-- an identity rename is harmless (the guards do not exclude it) -/
example :
    let t : Tree := [([b!"a"], .dir 493), ([b!"a", b!"x"], .file b!"A" 420)]
    let rs : List Ren := [⟨[b!"a"], [b!"a"], .dir⟩, ⟨[b!"a", b!"x"], [b!"a", b!"y"], .file⟩]
    LastOnly rs ∧ DistinctSources rs ∧ TreeWF t ∧ KindsOk t rs ∧ DestFree t rs ∧
    (renamePhase t [] (sortRens rs)).tree = [([b!"a"], .dir 493), ([b!"a", b!"y"], .file b!"A" 420)] := by
  decide

-- 6. the whole of apply as one equation ----------------------------------------------------------------------------

/-- APPLY, EXACTLY (C02 at full strength on the tree model).  For every tree and every plan whose renames change only the
    last component of distinct existing sources — any number of hunks in any number of files, any nesting of renamed
    directories — if `applyPlan` reports success then

        (applyPlan t p).tree  =  moveAll p.rens (editAll p.hunks files t)

    i.e. the ORIGINAL tree with (1) every planned file's bytes replaced by `applyEdits` of its original bytes and with its
    old mode, every other node (directories, symlinks, files without hunks) untouched, and then (2) every key rewritten by
    `finalPath` (its own rename and those of its ancestors) — as two `List.map`s over the tree, so nothing is added, dropped,
    merged or reordered.  No hypothesis about destinations (success implies `DestFree`, 9.5b) and none about the files of
    the plan (`sortedFiles_nodup`). -/
theorem apply_exact (t : Tree) (p : Plan) (h1 : LastOnly p.rens) (h2 : DistinctSources p.rens)
    (h3 : TreeWF t) (h4 : KindsOk t p.rens) (hok : (applyPlan t p).outcome = .ok) :
    (applyPlan t p).tree = moveAll p.rens (ContentPhase.editAll p.hunks (sortedFiles p.hunks) t) := by
  have hp : preflight t [] p.rens = none := by
    cases hp : preflight t [] p.rens with
    | none => rfl
    | some o =>
      rw [RenamePhase.applyPlan_preflight_refusal t p hp] at hok
      rcases RenamePhase.preflight_some _ _ hp with rfl | rfl <;> cases hok
  have h5 := (destFree_iff_preflight_loop t p.rens h1 h3 h4).2 hp
  cases hcp : contentPhase p.hunks t (sortedFiles p.hunks) with
  | mk o t1 =>
    have ho : o = .ok := by
      cases o with
      | ok => rfl
      | _ =>
        rw [RenamePhase.applyPlan_pass hp] at hok
        unfold applyCore at hok
        rw [hcp] at hok
        cases hok
    subst ho
    have hc : (contentPhase p.hunks t (sortedFiles p.hunks)).1 = .ok := by rw [hcp]
    have hmv := applyPlan_moves t p h1 h2 h3 h4 h5 hc
    rw [hcp] at hmv
    have htree : (applyPlan t p).tree = moveAll p.rens t1 := by
      rcases hmv with h | h | ⟨e, h⟩
      · exact h.2
      · rw [hok] at h; cases h
      · rw [hok] at h; cases h
    rw [htree, ContentPhase.contentPhase_plan_exact p.hunks t t1 h3.1 hcp]

/-- … and the bytes are the ones the plan describes: for a planned file whose hunks are consistent with its bytes
    (ascending, disjoint, in range, on character boundaries, recorded text = text at the span — what `C03.findMatches_Consistent`
    proves of every plan the planner emits), the content after apply is the left-to-right splice `Edits.spec`. -/
theorem apply_exact_content (t : Tree) (p : Plan) (h1 : LastOnly p.rens) (h2 : DistinctSources p.rens)
    (h3 : TreeWF t) (h4 : KindsOk t p.rens) (hok : (applyPlan t p).outcome = .ok)
    (f : Path) (c : Bytes) (m : Nat) (hf : f ∈ sortedFiles p.hunks) (hl : lookup t f = some (.file c m))
    (hcons : Edits.Consistent c 0 (editsFor p.hunks f)) :
    lookup (applyPlan t p).tree (finalPath p.rens f) = some (.file (Edits.spec c 0 (editsFor p.hunks f)) m) := by
  have hp : preflight t [] p.rens = none := by
    cases hp : preflight t [] p.rens with
    | none => rfl
    | some o =>
      rw [RenamePhase.applyPlan_preflight_refusal t p hp] at hok
      rcases RenamePhase.preflight_some _ _ hp with rfl | rfl <;> cases hok
  have h5 := (destFree_iff_preflight_loop t p.rens h1 h3 h4).2 hp
  rw [apply_exact t p h1 h2 h3 h4 hok]
  -- the edited tree has the same shape, so the lookup theorem of the rename phase applies to it
  have hkeys : (ContentPhase.editAll p.hunks (sortedFiles p.hunks) t).map (·.1) = t.map (·.1) := by
    simp [ContentPhase.editAll, List.map_map, Function.comp_def]
  have hlk : lookup (ContentPhase.editAll p.hunks (sortedFiles p.hunks) t) f =
      some (.file (Edits.spec c 0 (editsFor p.hunks f)) m) := by
    unfold ContentPhase.editAll
    rw [RenamePhase.lookup_map_node (fun k n => ContentPhase.editNode p.hunks (sortedFiles p.hunks) k n), hl]
    simp only [Option.map_some, ContentPhase.editNode, hf, ↓reduceIte, Edits.applyEdits_eq_spec c _ hcons]
  obtain ⟨e, he, hek⟩ := RenamePhase.mem_of_lookup_some hlk
  have hshape : RenamePhase.SameShape t (ContentPhase.editAll p.hunks (sortedFiles p.hunks) t) := by
    refine ⟨hkeys, fun q => ?_⟩
    unfold ContentPhase.editAll
    rw [RenamePhase.lookup_map_node (fun k n => ContentPhase.editNode p.hunks (sortedFiles p.hunks) k n)]
    cases lookup t q with
    | none => exact ⟨rfl, rfl⟩
    | some n =>
      refine ⟨?_, rfl⟩
      simp only [Option.map_some, ContentPhase.editNode]
      split
      · cases n with
        | file c0 m0 => simp only []; split <;> rfl
        | dir _ => rfl
        | link _ => rfl
      · rfl
  have h3' : TreeWF (ContentPhase.editAll p.hunks (sortedFiles p.hunks) t) := by
    have := (h3.toLemma).sameShape hshape
    simpa only [TreeWF, RenamePhase.GTreeWF, isDirNode_eq] using this
  have h5' : DestFree (ContentPhase.editAll p.hunks (sortedFiles p.hunks) t) p.rens :=
    (RenamePhase.GDestFree.sameShape h5 hshape)
  have := lookup_after _ p.rens h1 h3' h5' e he
  rw [hek] at this
  rw [this]
  exact hlk

/-- non-vacuity of `apply_exact` / `apply_exact_content`: an edited file inside a renamed directory, a renamed file -/
example :
    let t : Tree := [([b!"foo_bar"], .dir 493), ([b!"foo_bar", b!"a.txt"], .file b!"x foo_bar y\n" 420),
                     ([b!"foo_bar.txt"], .file b!"z" 384)]
    let p : Plan := { hunks := [⟨[b!"foo_bar", b!"a.txt"], b!"foo_bar", b!"baz_qux", 2, 9⟩],
                      rens := [⟨[b!"foo_bar"], [b!"baz_qux"], .dir⟩, ⟨[b!"foo_bar.txt"], [b!"baz_qux.txt"], .file⟩] }
    LastOnly p.rens ∧ DistinctSources p.rens ∧ TreeWF t ∧ KindsOk t p.rens ∧ (applyPlan t p).outcome = .ok ∧
    Edits.Consistent b!"x foo_bar y\n" 0 (editsFor p.hunks [b!"foo_bar", b!"a.txt"]) ∧
    (applyPlan t p).tree = [([b!"baz_qux"], .dir 493), ([b!"baz_qux", b!"a.txt"], .file b!"x baz_qux y\n" 420),
                            ([b!"baz_qux.txt"], .file b!"z" 384)] := by decide +kernel

end C02ren
