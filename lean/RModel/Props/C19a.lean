import RModel.Model.Output
/-
  C19, part a: the decidable guards of the partial theorems, and the conformance group (cheap).
  The parts C19a … C19g exist only so that the kernel evaluations of the big tables run in parallel; every theorem is
  restated with its full statement in Props/C19.lean, which is the file to read.
-/
namespace C19
open Output

/-! ### guards (decidable, per row) -/

/-- `replace` leaves through its early return before printing anything: `--output json --quiet` -/
def replaceJsonQuiet (r : Row) : Bool := r.cmd == .replace && r.json && r.quiet

/-- `replace` is asked to apply (`-y`, no `--dry-run`, something to do) but returns early: `--output json` -/
def replaceEarlyReturn (r : Row) : Bool :=
  r.cmd == .replace && r.yes && !r.dryRun && !r.planEmpty && r.json

/-- (command, scenario) pairs whose emitted document is not a member of the declared type -/
def shapeMismatch (cmd : Cmd) (_noMatches _noRenames : Bool) : Bool :=
  cmd == .history || cmd == .status

namespace Part

theorem conforms_bindings_partial :
    (Cmd.all.all fun c => (docScenarios c).all fun s => shapeMismatch c s.1 s.2 || conformsCmd c s.1 s.2) = true := by
  decide +kernel

example : (Cmd.all.filter fun c => !(expectedTypes c).isEmpty && !shapeMismatch c false false).length ≥ 6 := by decide +kernel

theorem replace_prints_a_plan :
    emittedDoc .replace = some (.pretty n!"Plan")
    ∧ conformsGen { replaceEmpty := false, noMatches := false, noRenames := false } (.ref n!"Plan") (.ref n!"Plan") = true := by
  decide +kernel

theorem search_mode_members_optional :
    pres3 { replaceEmpty := true, noMatches := false, noRenames := false } n!"replace" .ifNonEmpty = .absent
    ∧ conformsGen { replaceEmpty := true, noMatches := false, noRenames := true } (.ref n!"MatchHunk") (.ref n!"MatchHunk") = true
    ∧ conformsGen { replaceEmpty := true, noMatches := true, noRenames := false } (.ref n!"Rename") (.ref n!"Rename") = true
    ∧ replaceEmptyOf .search = true
    ∧ ((docScenarios .search).all fun s => conformsCmd .search s.1 s.2) = true := by decide +kernel

theorem plan_member_null_only_if_unserialisable :
    conformsCmdIn .search { docCtxOf .search false false with serFails := true } = false
    ∧ conformsCmdIn .plan { docCtxOf .plan false false with serFails := true } = false
    ∧ conformsCmdIn .rename { docCtxOf .rename false false with serFails := true } = true
    ∧ conformsGen { replaceEmpty := false, noMatches := false, noRenames := false, serFails := true }
        (.ref n!"Plan") (.fallible (.ref n!"Plan")) = false
    ∧ conformsGen { replaceEmpty := false, noMatches := false, noRenames := false }
        (.ref n!"Plan") (.fallible (.ref n!"Plan")) = true := by decide +kernel

theorem C19_witness_history_shape_mismatch :
    conformsCmd .history false false = false
    ∧ (expectedTypes .history).map (·.1) = [n!"vscode.history"]
    ∧ conformsGen { replaceEmpty := false, noMatches := false, noRenames := false } (.arr (.ref n!"HistoryEntry")) (.arr (.ref n!"HistoryItem")) = false := by
  decide +kernel

theorem C19_witness_status_shape_mismatch :
    conformsCmd .status false false = false
    ∧ (expectedTypes .status).map (·.1) = [n!"vscode.status"]
    ∧ conformsGen { replaceEmpty := false, noMatches := false, noRenames := false } (.ref n!"HistoryEntry") .str = false
    ∧ conformsGen { replaceEmpty := false, noMatches := false, noRenames := false } (.ref n!"HistoryEntry") .null = false := by decide +kernel

theorem exit_code_discipline :
    Gen.exitOk = 0 ∧ Gen.exitOkInterrupted.all (· != 0) = true ∧ Gen.okArmStdoutSites = 0
    ∧ errCodes.all (· != 0) = true ∧ Gen.errArmStdoutSites = 0 ∧ Gen.errArmStderrSites ≥ 1
    ∧ Gen.preDispatchExits.all (fun e => e.2.1 != n!"0") = true
    ∧ Gen.initHelperStdoutSites.all (fun e => e.2 == 0) = true := by decide +kernel

theorem core_sites_as_modelled : Gen.coreStdoutSites = assumedCoreSites := by decide +kernel

end Part
end C19
