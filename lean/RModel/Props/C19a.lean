import RModel.Model.Output
/-
  C19, part a: the one remaining guard, the conformance group and the facts about main.rs (cheap).
  The parts C19a … C19g exist only so that the kernel evaluations of the big tables run in parallel; every theorem is
  restated with its full statement in Props/C19.lean, which is the file to read.
-/
namespace C19
open Output

/-- (command) whose emitted document is not a member of the type the VS Code wrapper declares: `history` unless
    cliService.history unwraps `entries`, `status` unless the wrapper's `Status` is the real StatusResult — both flags are
    read from the TypeScript sources by translate/bindings.py, false at HEAD, true once c19_vscode_history_status_shapes.diff
    has landed -/
def shapeMismatch (cmd : Cmd) : Bool :=
  (cmd == .history && !Gen.vscodeHistoryUnwrapsEntries) || (cmd == .status && !Gen.vscodeStatusDeclaresPendingPlan)

namespace Part

theorem conforms_bindings_partial :
    (Cmd.all.all fun c => (docScenarios c).all fun s => shapeMismatch c || conformsCmd c s.1 s.2) = true := by decide +kernel

example : (Cmd.all.filter fun c => !(expectedTypes c).isEmpty && !shapeMismatch c).length ≥ 6 := by decide +kernel

theorem replace_documents :
    emittedDoc .replace = some (.jsonOf n!"RenameResult")
    ∧ check { plainRow .replace with dryRun := true } (fun o => o.stdout == [.pretty n!"Plan"]) = true
    ∧ check { plainRow .replace with yes := false } (fun o => o.stdout == [.pretty n!"Plan"]) = true
    ∧ conformsGen { replaceEmpty := false, noMatches := false, noRenames := false } (.ref n!"Plan") (.ref n!"Plan") = true := by
  decide +kernel

theorem search_mode_members_optional :
    pres3 { replaceEmpty := true, noMatches := false, noRenames := false } n!"replace" .ifNonEmpty = .absent
    ∧ conformsGen { replaceEmpty := true, noMatches := false, noRenames := true } (.ref n!"MatchHunk") (.ref n!"MatchHunk") = true
    ∧ conformsGen { replaceEmpty := true, noMatches := true, noRenames := false } (.ref n!"Rename") (.ref n!"Rename") = true
    ∧ replaceEmptyOf .search = true
    ∧ ((docScenarios .search).all fun s => conformsCmd .search s.1 s.2) = true := by decide +kernel

theorem plan_member_null_only_if_unserialisable :
    conformsCmdIn .search { docCtxOf .search false false with serFails := true } = false
    ∧ conformsCmdIn .plan { docCtxOf .plan false false with serFails := true } = false
    ∧ conformsCmdIn .rename { docCtxOf .rename false false with serFails := true } = true
    ∧ conformsGen { replaceEmpty := false, noMatches := false, noRenames := false, serFails := true }
        (.ref n!"Plan") (.fallible (.ref n!"Plan")) = false
    ∧ conformsGen { replaceEmpty := false, noMatches := false, noRenames := false }
        (.ref n!"Plan") (.fallible (.ref n!"Plan")) = true := by decide +kernel

theorem history_conforms_iff_wrapper_unwraps_entries :
    conformsCmd .history false false = Gen.vscodeHistoryUnwrapsEntries
    ∧ (expectedTypes .history).map (·.1) = [n!"vscode.history"]
    ∧ conformsGen { replaceEmpty := false, noMatches := false, noRenames := false }
        (.arr (.ref n!"HistoryEntry")) (.arr (.ref n!"HistoryItem")) = false
    ∧ conformsGen { replaceEmpty := false, noMatches := false, noRenames := false }
        (.obj [(n!"entries", false, .arr (.ref n!"HistoryEntry"))]) (.obj [(n!"entries", .always, .arr (.ref n!"HistoryItem"))]) = false := by
  decide +kernel

theorem status_conforms_iff_wrapper_declares_status_result :
    conformsCmd .status false false = Gen.vscodeStatusDeclaresPendingPlan
    ∧ (expectedTypes .status).map (·.1) = [n!"vscode.status"]
    ∧ conformsGen { replaceEmpty := false, noMatches := false, noRenames := false } (.ref n!"HistoryEntry") .str = false
    ∧ conformsGen { replaceEmpty := false, noMatches := false, noRenames := false } (.ref n!"HistoryEntry") .null = false := by
  decide +kernel

theorem exit_code_discipline :
    Gen.exitOk = 0 ∧ Gen.exitOkInterrupted.all (· != 0) = true ∧ Gen.okArmStdoutSites = 0
    ∧ errCodes.all (· != 0) = true ∧ Gen.errArmStdoutSites = 0 ∧ Gen.errArmStderrSites ≥ 1
    ∧ Gen.errArmJsonDoc = true ∧ Gen.clapErrorJsonDoc = true
    ∧ (match docShape errorDoc with
       | some (.obj fs) => fs.map (·.1) == [n!"success", n!"error"]
       | _ => false) = true
    ∧ Gen.preDispatchExits.all (fun e => e.2.1 != n!"0") = true
    ∧ Gen.preDispatchExits.all (fun e => e.2.1 == n!"130" || e.2.2.2) = true
    ∧ Gen.initHelperStdoutSites.all (fun e => e.2 == 0) = true := by decide +kernel

theorem no_child_inherits_stdout :
    (Gen.childProcessSites.all fun c => c.2.2.2.1 == n!"output" || c.2.2.2.2) = true
    ∧ Gen.unpairedErrorDocCalls = [] := by decide +kernel

theorem core_sites_as_modelled :
    (Gen.coreStdoutSites.all fun s => knownCoreSites.contains s) = true
    ∧ (Gen.coreStdoutSites.any fun s => s.2.1 == n!"get_user_confirmation") = false := by decide +kernel

end Part
end C19
