import RModel.Base.Lit
import RModel.Model.Scope
import RModel.Model.Apply
import RModel.Gen.Walker
import RModel.Lemmas.Scope
import RModel.Lemmas.ApplyFrame
/-
  C09 — Out-of-scope files are never planned or modified.   (property theorems only)

  `Gen.pipeline` is the configuration REGENERATED from lib.rs / scanner.rs / content_inspector on every run, the
  `Gen.doc*` tables are regenerated from filtering.mdx and README.md.  Every theorem below is about that data, so a
  changed arm, flag, file name, comparison or table is re-checked by the kernel.

  Full statement (`C09_full`, a `def`, not a theorem): every clause of the property for every level, request and entry.
  Three clauses are false on the pinned tree; each has the shape
      flag = true → clause            (proved for all inputs, holds as soon as the code is repaired)
      flag = true ∨ witness = true    (closed by kernel evaluation of the generated data: today the right disjunct)
  with the flag defined over the generated tables:
      Gen.filtersRenamifyDir            `.renamify` is rejected by the name filter of every arm
      rgignoreCellsAgree                `.rgignore` is registered exactly at the documented levels
      !Gen.simplePlanFollowsSymlinks    the `replace` planner tests the lstat type
-/
namespace C09
open Scope

abbrev P : Pipeline := Gen.pipeline

/-- no planner can look at entry `e` -/
def outOfScope (r : Request) (e : Entry) : Prop :=
  inScope P r e = false ∧ inScopeSimple P r e = false ∧ renameCandidate P r e = false

theorem outOfScope_of_not_walked (r : Request) (e : Entry)
    (h : walked (P.cfgFor r) r.site e.path = false) : outOfScope r e := by
  unfold outOfScope inScope inScopeSimple renameCandidate
  simp [h]

-- .git --------------------------------------------------------------------------------------------------------

/-- Any level (0–3, higher ones, the legacy flag), any ignore oracle, glob set and tree: an entry with a component
    named `.git` at any depth is never scanned and never proposed for renaming. -/
theorem git_never (r : Request) (e : Entry) (h : gitName ∈ e.path) : outOfScope r e := by
  apply outOfScope_of_not_walked
  apply walked_false_of_filtered _ _ _ gitName h
  exact cfg_all Gen.walker (fun c => c.filtered.contains gitName) (by decide) _

-- .renamify -----------------------------------------------------------------------------------------------------

/-- the same for renamify's own directory — as soon as every arm's name filter rejects `.renamify` -/
theorem renamify_never (hfix : Gen.filtersRenamifyDir = true) (r : Request) (e : Entry) (h : renamifyName ∈ e.path) :
    outOfScope r e := by
  apply outOfScope_of_not_walked
  apply walked_false_of_filtered _ _ _ renamifyName h
  exact cfg_all Gen.walker (fun c => c.filtered.contains renamifyName) hfix _

/-- a request with no ignore files and no globs on the tree  `.renamify/plans/x.json`  -/
def bareRequest (level : Nat) : Request :=
  { level := level, gm := Glob.matchesD, globs := { includes := [], excludes := [] },
    site := { gitAt := fun _ => false, ancGit := false, ign := fun _ _ => false, ignAbove := fun _ _ => false,
              ty := fun p => if p.length < 3 then .dir else .file } }

def statePlan : Entry := { path := [renamifyName, b!"plans", b!"x.json"], ftype := .file, content := b!"{\"search\": \"foo_bar\"}" }

/-- today (right disjunct, by evaluation): at every level 0–3 a stored plan below `.renamify` is in scope of the content
    planners and a rename candidate -/
theorem renamify_never_or_witness :
    Gen.filtersRenamifyDir = true ∨
    ([0, 1, 2, 3].all (fun l => inScope P (bareRequest l) statePlan && inScopeSimple P (bareRequest l) statePlan &&
        renameCandidate P (bareRequest l) statePlan)) = true := by decide

/-- non-vacuity of `git_never` / `renamify_never`: the same entry under another name is in scope, under `.git` it is not -/
example : inScope P (bareRequest 0) { statePlan with path := [b!"state", b!"plans", b!"x.json"] } = true := by decide
example : inScope P (bareRequest 2) { statePlan with path := [gitName, b!"plans", b!"x.json"] } = false := by decide
example : renameCandidate P (bareRequest 3) { statePlan with path := [b!"a", gitName, b!"x.json"] } = false := by decide

-- ignore files: code vs documentation ----------------------------------------------------------------------------------

/-- is an ignore file of kind `k` consulted at level `l` -/
def codeHonours (k : IgnKind) (l : Nat) (inGit : Bool) : Bool := honoured (Gen.walker.cfg l) inGit k

/-- the documented table: filtering.mdx where it speaks, README.md otherwise -/
def doc (k : IgnKind) (l : Nat) : Option Bool := (Gen.docMdx k l).orElse (fun _ => Gen.docReadme k l)

/-- the two documents never contradict each other on an ignore-file cell -/
theorem docs_agree : ∀ l, l ≤ 3 → ∀ k, Gen.docMdx k l = none ∨ Gen.docReadme k l = none ∨ Gen.docMdx k l = Gen.docReadme k l := by
  apply forall_le3 <;> intro k <;> cases k <;> decide

/-- 12 of the 16 cells: `.gitignore`, `.ignore`, `.rnignore` are honoured exactly at the documented levels, inside and
    outside a git repository -/
theorem ignore_files_by_level_partial : ∀ l, l ≤ 3 → ∀ k inGit, k ≠ .rgignore → k ≠ .gitExclude →
    doc k l = some (codeHonours k l inGit) := by
  apply forall_le3 <;> intro k inGit h1 h2 <;> cases k <;> cases inGit <;> first | contradiction | decide

/-- `.git/info/exclude` (exists only inside a repository) -/
theorem git_exclude_by_level : ∀ l, l ≤ 3 → doc .gitExclude l = some (codeHonours .gitExclude l true) := by
  apply forall_le3 <;> decide

/-- the four `.rgignore` cells -/
def rgignoreCellsAgree : Bool := [0, 1, 2, 3].all (fun l => doc .rgignore l == some (codeHonours .rgignore l false))

theorem rgignore_inGit_irrelevant (l : Nat) (inGit : Bool) : codeHonours .rgignore l inGit = codeHonours .rgignore l false := rfl

theorem ignore_files_by_level_rgignore (hfix : rgignoreCellsAgree = true) : ∀ l, l ≤ 3 → ∀ inGit,
    doc .rgignore l = some (codeHonours .rgignore l inGit) := by
  unfold rgignoreCellsAgree at hfix
  simp only [List.all_cons, List.all_nil, Bool.and_true, Bool.and_eq_true, beq_iff_eq] at hfix
  obtain ⟨h0, h1, h2, h3⟩ := hfix
  apply forall_le3 <;> intro inGit <;> rw [rgignore_inGit_irrelevant] <;> assumption

/-- today: documented as honoured at levels 0 and 1, consulted at neither -/
theorem rgignore_cells_or_witness :
    rgignoreCellsAgree = true ∨
    (doc .rgignore 0 = some true ∧ codeHonours .rgignore 0 true = false ∧
     doc .rgignore 1 = some true ∧ codeHonours .rgignore 1 true = false) := by decide

/-- all 16 cells, given the flag -/
theorem ignore_files_by_level (hfix : rgignoreCellsAgree = true) : ∀ l, l ≤ 3 → ∀ k, k ≠ .gitExclude → ∀ inGit,
    doc k l = some (codeHonours k l inGit) := by
  intro l hl k hk inGit
  by_cases h : k = .rgignore
  · rw [h]; exact ignore_files_by_level_rgignore hfix l hl inGit
  · exact ignore_files_by_level_partial l hl k inGit h hk

/-- What a cell means for the pipeline: an honoured ignore file that matches the entry or any ancestor directory
    (`a ++ [n]` is a non-empty prefix of the path) puts the entry out of scope of all three planners. -/
theorem ignored_out_of_scope (r : Request) (e : Entry) (k : IgnKind) (a : RelPath) (n : Name) (b : RelPath)
    (hp : e.path = a ++ n :: b) (hk : honoured (P.cfgFor r) (inGitAt (P.cfgFor r) r.site a) k = true)
    (hi : r.site.ign k (a ++ [n]) = true ∨ ((P.cfgFor r).parents = true ∧ r.site.ignAbove k (a ++ [n]) = true)) :
    outOfScope r e := by
  apply outOfScope_of_not_walked
  rw [hp]
  exact walked_false_of_ignored _ _ a n b k hk hi

/-- a request whose only ignore rule is: kind `k` names `vendor` -/
def vendorRequest (k : IgnKind) (level : Nat) : Request :=
  { bareRequest level with site := { (bareRequest level).site with ign := fun k' p => k' == k && p == [b!"vendor"] } }

/-- the same rule, but the ignore file lives in an ancestor of the scan root (e.g. `renamify plan … src` with the
    `.rnignore` in the project root) -/
def vendorAboveRequest (k : IgnKind) (level : Nat) : Request :=
  { bareRequest level with site := { (bareRequest level).site with ignAbove := fun k' p => k' == k && p == [b!"vendor"] } }

def vendored : Entry := { path := [b!"vendor", b!"lib", b!"foo_bar.rs"], ftype := .file, content := b!"foo_bar" }

/-- non-vacuity + the level table by evaluation on an entry two levels below the ignored directory -/
example : [0, 1, 2, 3].map (fun l => inScope P (vendorRequest .rnignore l) vendored) = [false, false, true, true] := by decide
example : [0, 1, 2, 3].map (fun l => inScope P (vendorRequest .gitignore l) vendored) = [false, true, true, true] := by decide
example : [0, 1, 2, 3].map (fun l => inScope P (vendorRequest .ignore l) vendored) = [false, false, true, true] := by decide
/-- the legacy flag `respect_gitignore = false` at level 0 behaves as `-u` -/
example : inScope P { vendorRequest .gitignore 0 with respectGitignore := false } vendored = true := by decide

/-- Ignore files in ancestors of the scan root: `parents(…)` is switched on exactly at the levels at which the documents
    say that some ignore file is honoured — so `-u` on a sub-directory still sees the project's `.ignore`/`.rnignore`. -/
theorem parents_matches_docs : ∀ l, l ≤ 3 →
    (Gen.walker.cfg l).parents = [IgnKind.gitignore, .ignore, .rgignore, .rnignore].any (fun k => doc k l == some true) := by
  apply forall_le3 <;> decide

/-- … and then an honoured ancestor ignore file matching the entry or one of its ancestors below the root puts the
    entry out of scope (instance of `ignored_out_of_scope`) -/
theorem ancestor_ignored_out_of_scope (r : Request) (e : Entry) (k : IgnKind) (a : RelPath) (n : Name) (b : RelPath)
    (hp : e.path = a ++ n :: b) (hpar : (P.cfgFor r).parents = true)
    (hk : honoured (P.cfgFor r) (inGitAt (P.cfgFor r) r.site a) k = true) (hi : r.site.ignAbove k (a ++ [n]) = true) :
    outOfScope r e :=
  ignored_out_of_scope r e k a n b hp hk (Or.inr ⟨hpar, hi⟩)

example : [0, 1, 2, 3].map (fun l => inScope P (vendorAboveRequest .rnignore l) vendored) = [false, false, true, true] := by decide
example : [0, 1, 2, 3].map (fun l => inScope P (vendorAboveRequest .ignore l) vendored) = [false, false, true, true] := by decide
example : [0, 1, 2, 3].map (fun l => inScope P (vendorAboveRequest .gitignore l) vendored) = [false, true, true, true] := by decide
/-- `.git/info/exclude` of a repository whose `.git` is in an ANCESTOR of the root: consulted at level 0 only (the ignore
    crate tracks ancestor repositories only while git_ignore is on) — outside the property's list of ignore files -/
example : [0, 1, 2].map (fun l => inScope P { vendorAboveRequest .gitExclude l with
    site := { (vendorAboveRequest .gitExclude l).site with ancGit := true } } vendored) = [false, true, true] := by decide

/-- today: a directory named in `.rgignore` stays in scope at levels 0 and 1 -/
theorem rgignore_pipeline_or_witness :
    rgignoreCellsAgree = true ∨
    [0, 1].map (fun l => inScope P (vendorRequest .rgignore l) vendored) = [true, true] := by decide

/-- hidden entries are walked at every level, as filtering.mdx says (README.md says otherwise for the default level;
    the property does not list hidden files as out of scope) -/
theorem hidden_matches_filtering_mdx : ∀ l, l ≤ 3 → Gen.docHiddenIncludedMdx[l]? = some (!(Gen.walker.cfg l).hidden) := by
  apply forall_le3 <;> decide

-- binary files ----------------------------------------------------------------------------------------------------------

theorem binaryAsText_iff (l : Nat) : Gen.binaryAsText l = true ↔ 3 ≤ l := by
  simp [Gen.binaryAsText]

/-- Below level 3 a file with a NUL byte in its first 1024 bytes (and no byte-order mark in front, which
    content_inspector reads as UTF-16/32 text) is never scanned, whatever the walker, ignore files and globs say. -/
theorem binary_below_3 (r : Request) (e : Entry) (hl : r.level < 3)
    (hbom : Gen.byteOrderMarks.any (fun m => m.isPrefixOf e.content) = false)
    (hnul : B.contains (e.content.take 1024) 0 = true) :
    inScope P r e = false ∧ inScopeSimple P r e = false := by
  have hb : isBinary P.S e.content = true := isBinary_of_nul _ _ hbom hnul
  have ht : P.binaryAsText r.level = false := by
    cases h : P.binaryAsText r.level with
    | false => rfl
    | true => have := (binaryAsText_iff r.level).mp h; omega
  unfold inScope inScopeSimple
  simp [hb, ht]

/-- From level 3 on the sniff plays no role. -/
theorem binary_at_3 (r : Request) (e : Entry) (hl : 3 ≤ r.level) :
    inScope P r e = (walked (P.cfgFor r) r.site e.path && isFileFor P.scanFollows e && globsOk P.G r.gm r.globs e.path) := by
  have ht : P.binaryAsText r.level = true := (binaryAsText_iff r.level).mpr hl
  unfold inScope
  simp [ht]

/-- The `replace` planner at level ≥ 3: the sniff plays no role either, but a file that is not valid UTF-8 is still left
    out when `process_file_content` refuses it (`Gen.replaceSkipsInvalidUtf8`; apply reads files as `String` and could
    never edit it). -/
theorem binary_at_3_simple (r : Request) (e : Entry) (hl : 3 ≤ r.level) :
    inScopeSimple P r e = (walked (P.cfgFor r) r.site e.path && globsOk P.G r.gm r.globs (simpleGlobPath P r e) &&
      isFileFor P.simpleFollows e && (!Gen.replaceSkipsInvalidUtf8 || Utf8.valid e.content)) := by
  have ht : P.binaryAsText r.level = true := (binaryAsText_iff r.level).mpr hl
  have hs : P.simpleSkipsInvalidUtf8 = Gen.replaceSkipsInvalidUtf8 := rfl
  unfold inScopeSimple
  simp [ht, hs]

/-- `replace`, every level: a file that is not valid UTF-8 is never planned — once the planner refuses such files -/
theorem simple_invalid_utf8_never (hfix : Gen.replaceSkipsInvalidUtf8 = true) (r : Request) (e : Entry)
    (hv : Utf8.valid e.content = false) : inScopeSimple P r e = false := by
  have hs : P.simpleSkipsInvalidUtf8 = true := hfix
  unfold inScopeSimple
  simp [hs, hv]

/-- "binary by sniffing" and "not valid UTF-8" are different notions: `caf\xE9 foo_bar` has no NUL, BOM or magic number -/
def latin1Entry : Entry := { path := [b!"latin1.txt"], ftype := .file, content := b!"caf" ++ [233] ++ b!" foo_bar" }
/-- … valid UTF-8 with a NUL byte: binary for the sniff only -/
def nulEntry : Entry := { path := [b!"nul.txt"], ftype := .file, content := b!"foo_bar" ++ [0] ++ b!"x" }

example : isBinary P.S latin1Entry.content = false ∧ Utf8.valid latin1Entry.content = false := by decide
example : isBinary P.S nulEntry.content = true ∧ Utf8.valid nulEntry.content = true := by decide
/-- `plan`/`rename` scan the Latin-1 file at every level (they work on bytes) -/
example : [0, 1, 2, 3].map (fun l => inScope P (bareRequest l) latin1Entry) = [true, true, true, true] := by decide
/-- both shapes of the `replace` planner, decided by the generated flag: it skips the Latin-1 file at every level and
    takes the NUL file at level 3 only — or (lossy decoding) it takes the Latin-1 file at every level -/
theorem simple_invalid_utf8_both_shapes :
    (Gen.replaceSkipsInvalidUtf8 = true ∧
      [0, 1, 2, 3].map (fun l => inScopeSimple P (bareRequest l) latin1Entry) = [false, false, false, false] ∧
      [0, 1, 2, 3].map (fun l => inScopeSimple P (bareRequest l) nulEntry) = [false, false, false, true]) ∨
    (Gen.replaceSkipsInvalidUtf8 = false ∧
      [0, 1, 2, 3].map (fun l => inScopeSimple P (bareRequest l) latin1Entry) = [true, true, true, true]) := by decide

/-- the documented binary column -/
theorem binary_matches_docs : ∀ l, l ≤ 3 →
    Gen.docBinarySkippedMdx[l]? = some (!Gen.binaryAsText l) ∧ Gen.docBinarySkippedReadme[l]? = some (!Gen.binaryAsText l) := by
  apply forall_le3 <;> decide

def binEntry : Entry := { path := [b!"a.bin"], ftype := .file, content := b!"foo_bar" ++ [0] ++ b!"x" }
/-- non-vacuity: the same file is skipped at 0–2 and scanned at 3; the NUL-free prefix is scanned everywhere;
    `%PDF` and `\x89PNG` headers count as binary; a UTF-16 BOM in front makes NUL bytes acceptable -/
example : [0, 1, 2, 3].map (fun l => inScope P (bareRequest l) { binEntry with path := [b!"a.bin"] }) = [false, false, false, true] := by decide
example : inScope P (bareRequest 0) { binEntry with content := b!"foo_bar" } = true := by decide
example : isBinary P.S b!"%PDF-1.4 foo_bar" = true ∧ isBinary P.S ([137] ++ b!"PNG") = true := by decide
example : isBinary P.S ([255, 254] ++ b!"f" ++ [0] ++ b!"o" ++ [0]) = false := by decide

-- symlinks ------------------------------------------------------------------------------------------------------------------

/-- `plan`/`rename`/`search`: a symlink is never scanned (the test is on the lstat type) -/
theorem symlinks_not_scanned (r : Request) (e : Entry) (h : e.ftype = .symlink) : inScope P r e = false := by
  unfold inScope isFileFor
  simp [h, P, Gen.pipeline, Gen.scanFollowsSymlinks]

/-- nothing below a symlinked directory is reached by any planner: `follow_links` is never switched on -/
theorem symlinks_not_followed (r : Request) (e : Entry) (a : RelPath) (n : Name) (b : RelPath)
    (hp : e.path = a ++ n :: b) (hb : b ≠ []) (ht : r.site.ty (a ++ [n]) = .symlink) : outOfScope r e := by
  apply outOfScope_of_not_walked
  rw [hp]
  apply walked_false_below_symlink _ _ a n b hb _ ht
  have := cfg_all Gen.walker (fun c => !c.followLinks) (by decide) (P.W.effectiveLevel r.respectGitignore r.level)
  have h2 : (Gen.walker.cfg (P.W.effectiveLevel r.respectGitignore r.level)).followLinks = false := by simpa using this
  exact h2

/-- the `replace` planner: same, once it tests the lstat type -/
theorem simple_symlinks_not_scanned (hfix : Gen.simplePlanFollowsSymlinks = false) (r : Request) (e : Entry)
    (h : e.ftype = .symlink) : inScopeSimple P r e = false := by
  unfold inScopeSimple isFileFor
  simp [h, P, Gen.pipeline, hfix]

def linkEntry : Entry := { path := [b!"link.txt"], ftype := .symlink, linkToFile := true, content := b!"foo_bar" }

/-- today: `create_simple_plan` uses `Path::is_file`, which follows the link -/
theorem simple_symlinks_or_witness :
    Gen.simplePlanFollowsSymlinks = false ∨
    (inScopeSimple P { bareRequest 0 with site := { (bareRequest 0).site with ty := fun _ => .symlink } } linkEntry = true ∧
     inScope P { bareRequest 0 with site := { (bareRequest 0).site with ty := fun _ => .symlink } } linkEntry = false) := by decide

-- include / exclude globs ------------------------------------------------------------------------------------------------------

/-- The `replace` planner hands the path relative to its FIRST search path to the glob sets; for the first (or only)
    path that is the entry's own relative path — the hypothesis `hs` of the three theorems below. -/
theorem simpleGlobPath_first (r : Request) (e : Entry) (h : r.firstRoot = true) : simpleGlobPath P r e = e.path := by
  simp [simpleGlobPath, h]

theorem simpleGlobPath_fixed (hfix : Gen.simpleGlobsFirstRootOnly = false) (r : Request) (e : Entry) :
    simpleGlobPath P r e = e.path := by
  simp [simpleGlobPath, P, Gen.pipeline, hfix]

/-- today: under a second search path `--exclude vendor` does not stop `replace` from planning `vendor/lib/foo_bar.rs`
    (the glob sees the absolute path), while `plan` leaves it out -/
def secondPathRequest : Request :=
  { bareRequest 0 with
    globs := { includes := [], excludes := [b!"vendor"] }
    firstRoot := false
    absPrefix := [[], b!"home", b!"sub"] }

theorem C09_witness_replace_globs_first_path_only :
    Gen.simpleGlobsFirstRootOnly = false ∨
    (inScopeSimple P secondPathRequest vendored = true ∧ inScope P secondPathRequest vendored = false) := by decide

/-- an entry matched by an `--exclude` pattern is out of scope of all planners -/
theorem excluded_glob_out (r : Request) (e : Entry) (pat : Bytes) (hs : simpleGlobPath P r e = e.path)
    (hm : pat ∈ r.globs.excludes) (hg : r.gm pat (joinPath e.path) = true) : outOfScope r e := by
  have hne : r.globs.excludes.isEmpty = false := by cases h : r.globs.excludes <;> simp_all
  have : globsOk P.G r.gm r.globs e.path = false := by
    unfold globsOk
    have : (expandPatterns P.G.expands P.G.plain r.globs.excludes).any (fun p => r.gm p (joinPath e.path)) = true := by
      rw [List.any_eq_true]
      refine ⟨pat, ?_, hg⟩
      unfold expandPatterns
      rw [List.mem_flatMap]
      exact ⟨pat, hm, by split <;> simp⟩
    simp [this, hne]
  unfold outOfScope inScope inScopeSimple renameCandidate
  simp [this, hs]

/-- `build_globset`'s directory rule: `--exclude vendor` (or `vendor/`) also excludes what `vendor/**` matches -/
theorem excluded_dir_contents_out (r : Request) (e : Entry) (pat : Bytes) (hs : simpleGlobPath P r e = e.path)
    (hm : pat ∈ r.globs.excludes)
    (hd : looksLikeDir Gen.globPlainChars pat = true) (hg : r.gm (recursivePattern pat) (joinPath e.path) = true) :
    outOfScope r e := by
  have hne : r.globs.excludes.isEmpty = false := by cases h : r.globs.excludes <;> simp_all
  have : globsOk P.G r.gm r.globs e.path = false := by
    unfold globsOk
    have : (expandPatterns P.G.expands P.G.plain r.globs.excludes).any (fun p => r.gm p (joinPath e.path)) = true := by
      rw [List.any_eq_true]
      refine ⟨recursivePattern pat, ?_, hg⟩
      unfold expandPatterns
      rw [List.mem_flatMap]
      refine ⟨pat, hm, ?_⟩
      have : (P.G.expands && looksLikeDir P.G.plain pat) = true := by
        simp [P, Gen.pipeline, Gen.globCfg, Gen.globExpands, hd]
      rw [if_pos this]; simp
    simp [this, hne]
  unfold outOfScope inScope inScopeSimple renameCandidate
  simp [this, hs]

/-- with `--include`, an entry no (expanded) include pattern matches is out of scope -/
theorem not_included_out (r : Request) (e : Entry) (hs : simpleGlobPath P r e = e.path) (hne : r.globs.includes ≠ [])
    (hno : ∀ pat ∈ expandPatterns P.G.expands P.G.plain r.globs.includes, r.gm pat (joinPath e.path) = false) :
    outOfScope r e := by
  have h1 : r.globs.includes.isEmpty = false := by cases h : r.globs.includes <;> simp_all
  have h2 : (expandPatterns P.G.expands P.G.plain r.globs.includes).any (fun p => r.gm p (joinPath e.path)) = false := by
    rw [List.any_eq_false]; intro p hp; simp [hno p hp]
  have : globsOk P.G r.gm r.globs e.path = false := by unfold globsOk; simp [h1, h2]
  unfold outOfScope inScope inScopeSimple renameCandidate
  simp [this, hs]

/-- non-vacuity with the concrete matcher: `vendor` excludes `vendor/lib/foo_bar.rs`, `vend` does not;
    `**/*.md` includes only markdown -/
example : inScope P { bareRequest 0 with globs := { includes := [], excludes := [b!"vendor"] } } vendored = false := by decide
example : inScope P { bareRequest 0 with globs := { includes := [], excludes := [b!"vend"] } } vendored = true := by decide
example : inScope P { bareRequest 0 with globs := { includes := [b!"**/*.md"], excludes := [] } } vendored = false := by decide
example : inScope P { bareRequest 0 with globs := { includes := [b!"**/*.rs"], excludes := [] } } vendored = true := by decide
example : expandPatterns true Gen.globPlainChars [b!"vendor", b!"docs/", b!"*.md", b!"a.txt"] =
    [b!"vendor", b!"vendor/**", b!"docs/", b!"docs/**", b!"*.md", b!"a.txt"] := by decide

-- --exclude-match / --exclude-matching-lines ------------------------------------------------------------------------------------

/-- no hunk for a match whose variant (the whole compound identifier for compound matches) or text is listed -/
theorem excluded_match_no_hunk (excl : List Bytes) (lineRe : Option (Bytes → Bool)) (ms : List Match) (m : Match)
    (h : m ∈ keptMatches Gen.exclCfg excl lineRe ms) : m.variant ∉ excl ∧ m.text ∉ excl := by
  unfold keptMatches at h
  have := (List.mem_filter.mp h).2
  simp [excludedMatch, Gen.exclCfg, Gen.excludeComparesVariant, Gen.excludeComparesText] at this
  exact ⟨this.1.1, this.1.2⟩

/-- no hunk on a line the user's regex matches -/
theorem excluded_lines_no_hunk (excl : List Bytes) (re : Bytes → Bool) (ms : List Match) (m : Match)
    (h : m ∈ keptMatches Gen.exclCfg excl (some re) ms) : re m.line = false := by
  unfold keptMatches at h
  have := (List.mem_filter.mp h).2
  simp at this
  exact this.2

/-- … and nothing else is dropped -/
theorem unexcluded_kept (excl : List Bytes) (lineRe : Option (Bytes → Bool)) (ms : List Match) (m : Match) (hm : m ∈ ms)
    (h1 : m.variant ∉ excl) (h2 : m.text ∉ excl) (h3 : ∀ re, lineRe = some re → re m.line = false) :
    m ∈ keptMatches Gen.exclCfg excl lineRe ms := by
  unfold keptMatches
  apply List.mem_filter.mpr
  refine ⟨hm, ?_⟩
  cases lineRe with
  | none => simp [excludedMatch, h1, h2]
  | some re => simp [excludedMatch, h1, h2, h3 re rfl]

example : keptMatches Gen.exclCfg [b!"bazFooQux"] (some (fun l => b!"//".isPrefixOf l))
    [{ variant := b!"bazFooQux", text := b!"bazBarQux", line := b!"let bazFooQux = 1;" },
     { variant := b!"foo", text := b!"foo", line := b!"// foo" },
     { variant := b!"foo", text := b!"foo", line := b!"let foo = 2;" }]
    = [{ variant := b!"foo", text := b!"foo", line := b!"let foo = 2;" }] := by decide

-- apply ---------------------------------------------------------------------------------------------------------------------------

/-- `apply` (model of apply.rs, compared with the real `apply_plan` by C02's correspondence): for every tree and every
    plan, a path that is not a file with hunks and does not lie at or below the source or destination of a planned
    rename has the same node afterwards — whatever the outcome (success, mismatch, failed rename + rollback). So a
    file that the planner kept out of the plan is not modified. -/
theorem apply_touches_only_planned (t : Fs.Tree) (p : Apply.Plan) (q : Path) (h : ApplyFrame.planned p q = false) :
    Fs.lookup (Apply.applyPlan t p).tree q = Fs.lookup t q :=
  ApplyFrame.applyPlan_frame t p q h

/-- non-vacuity: a plan that edits `a.txt` and renames `foo` → `bar`; `.git/config` and the symlink `ln` are not planned
    and keep their nodes, `a.txt` changes -/
def demoTree : Fs.Tree :=
  [([b!"a.txt"], .file b!"foo" 420), ([b!".git"], .dir 493), ([b!".git", b!"config"], .file b!"foo" 420),
   ([b!"foo"], .dir 493), ([b!"foo", b!"x"], .file b!"1" 420), ([b!"ln"], .link b!"a.txt")]
def demoPlan : Apply.Plan :=
  { hunks := [{ file := [b!"a.txt"], before := b!"foo", after := b!"bar", start := 0, stop := 3 }],
    rens := [{ path := [b!"foo"], newPath := [b!"bar"], kind := .dir }] }
example : ApplyFrame.planned demoPlan [b!".git", b!"config"] = false ∧ ApplyFrame.planned demoPlan [b!"ln"] = false := by decide
example : (Apply.applyPlan demoTree demoPlan).outcome = .ok ∧
    Fs.lookup (Apply.applyPlan demoTree demoPlan).tree [b!"a.txt"] = some (.file b!"bar" 420) ∧
    Fs.lookup (Apply.applyPlan demoTree demoPlan).tree [b!"bar", b!"x"] = some (.file b!"1" 420) ∧
    Fs.lookup (Apply.applyPlan demoTree demoPlan).tree [b!".git", b!"config"] = some (.file b!"foo" 420) := by decide

-- witnesses of the listed findings, under the names KNOWN_FINDINGS.txt uses ------------------------------------------------------------

theorem C09_witness_renamify_dir_scanned :
    Gen.filtersRenamifyDir = true ∨
    ([0, 1, 2, 3].all (fun l => inScope P (bareRequest l) statePlan && inScopeSimple P (bareRequest l) statePlan &&
        renameCandidate P (bareRequest l) statePlan)) = true := renamify_never_or_witness

theorem C09_witness_rgignore_not_honoured :
    rgignoreCellsAgree = true ∨
    [0, 1].map (fun l => inScope P (vendorRequest .rgignore l) vendored) = [true, true] := rgignore_pipeline_or_witness

theorem C09_witness_replace_follows_symlinks :
    Gen.simplePlanFollowsSymlinks = false ∨
    (inScopeSimple P { bareRequest 0 with site := { (bareRequest 0).site with ty := fun _ => .symlink } } linkEntry = true ∧
     inScope P { bareRequest 0 with site := { (bareRequest 0).site with ty := fun _ => .symlink } } linkEntry = false) := simple_symlinks_or_witness

/-- the rename planners never look at content: a binary file whose name carries the term is a rename candidate at every
    level although its content is out of scope below level 3 (strict reading of the property text: a finding) -/
theorem C09_witness_binary_file_renamed :
    [0, 1, 2].all (fun l =>
      renameCandidate P (bareRequest l) { path := [b!"foo_bar_logo.png"], ftype := .file, content := [137] ++ b!"PNG" ++ [0] } &&
      !(inScope P (bareRequest l) { path := [b!"foo_bar_logo.png"], ftype := .file, content := [137] ++ b!"PNG" ++ [0] })) = true := by
  decide

-- the full statement ------------------------------------------------------------------------------------------------------------------

/-- C09 at full strength over the model. The first three conjuncts are what is false on the pinned tree. -/
def C09_full : Prop :=
  (∀ r e, renamifyName ∈ e.path → outOfScope r e) ∧
  (∀ l, l ≤ 3 → ∀ k, k ≠ .gitExclude → ∀ inGit, doc k l = some (codeHonours k l inGit)) ∧
  (∀ r e, e.ftype = .symlink → inScopeSimple P r e = false) ∧
  (∀ r e, gitName ∈ e.path → outOfScope r e) ∧
  (∀ r e, e.ftype = .symlink → inScope P r e = false)

/-- the three flags together give the full statement -/
theorem C09_full_of_flags (h1 : Gen.filtersRenamifyDir = true) (h2 : rgignoreCellsAgree = true)
    (h3 : Gen.simplePlanFollowsSymlinks = false) : C09_full :=
  ⟨renamify_never h1, ignore_files_by_level h2, simple_symlinks_not_scanned h3, git_never, symlinks_not_scanned⟩

end C09
