import RModel.Props.C12
/-
  C12 — the table-level defects of the PINNED tree (before the repo commits 451dd24, 35d666f, d33e63d, 469c078),
  kept as theorems over explicit old-style constants, not over the regenerated `Gen.LockUsers`: they document
  what the repairs changed and compile whatever the source looks like.  The statements about TODAY's source
  live in `Props/C12.lean` (`all_mutators_lock`, `lockers_exactly`, `drop_is_content_checked`, …); a repaired
  defect that comes back flips one of those.
-/
namespace C12
open Gen.LockUsers

/-- the lock-user table of the pinned tree (`translate/lock_users.py` on commit fa72c86) -/
def oldTable : List Row := [
  ⟨.init, false, false, false, false⟩,
  ⟨.search, true, true, true, true⟩,
  ⟨.rename, true, false, true, true⟩,
  ⟨.replace, false, false, false, false⟩,
  ⟨.plan, true, true, true, true⟩,
  ⟨.apply, false, false, false, false⟩,
  ⟨.undo, false, false, false, false⟩,
  ⟨.redo, false, false, false, false⟩,
  ⟨.status, false, false, false, false⟩,
  ⟨.history, false, false, false, false⟩,
  ⟨.version, false, false, false, false⟩,
  ⟨.testLock, true, false, true, true⟩
]

def locksIn (t : List Row) (c : Command) : Bool := t.any (fun r => r.cmd == c && r.locks)

/-- `locksIn` on the regenerated table is `Gen.LockUsers.locks` -/
theorem locksIn_table (c : Command) : locksIn table c = locks c := rfl

theorem lockers_exactly_old :
    (oldTable.filter (·.locks)).map (·.cmd) = [.search, .rename, .plan, .testLock] := by decide

theorem C12_witness_unlocked_apply_old : locksIn oldTable .apply = false := by decide
theorem C12_witness_unlocked_undo_old : locksIn oldTable .undo = false := by decide
theorem C12_witness_unlocked_redo_old : locksIn oldTable .redo = false := by decide
theorem C12_witness_unlocked_replace_old : locksIn oldTable .replace = false := by decide

/-- `C12_all_mutators_lock` was false on the pinned tree -/
theorem C12_all_mutators_lock_false_old : ¬ ∀ c ∈ mutating, locksIn oldTable c = true := by decide

/-- the pinned `lock.rs`: no unparsable file is ever removed, the lock file is created empty and written
    afterwards, Drop does not look at the content, the age is a plain subtraction — the model variant of
    `C12_witness_malformed_blocks`, `C12_witness_drop_removes_foreign`, `C12_witness_future_ts_panics` -/
def oldAbandon : Lock.Abandon := .none
def oldPublishByLink : Bool := false
def oldDropChecks : Bool := false
def oldAgeSaturates : Bool := false

theorem old_acquire_shape :
    Lock.expectedAcquireShape oldAbandon oldPublishByLink false =
      [.exists, .fileOpen, .readToString, .removeFile, .removeFile, .createDirAll,
       .openOptionsNew, .optWrite, .optCreateNew, .optOpen, .writeAll, .removeFile] ∧
    Lock.expectedDropShape oldDropChecks = [.exists, .removeFile] := by decide

/-- the model states of the witnesses in `Props/C12.lean` are the old variant: `base` builds them with these flags -/
theorem witnesses_use_old_variant (n now : Nat) (d e : Bool) :
    (Lock.initAbsent n now d e).abandon = oldAbandon ∧ (Lock.initAbsent n now d e).atomicPublish = oldPublishByLink ∧
    (Lock.initAbsent n now d e).dropChecks = oldDropChecks ∧ (Lock.initAbsent n now d e).saturating = oldAgeSaturates :=
  ⟨rfl, rfl, rfl, rfl⟩

end C12
