import RModel.Props.C12
/-
  C12 — the table-dependent witnesses of known defects (kept apart from `Props/C12.lean` on purpose:
  these theorems say what is WRONG in today's source, so a repair in /repo makes them fail; the check
  then records "finding no longer reproduces" instead of a broken proof).
-/
namespace C12
open Gen.LockUsers

/-- exactly these commands reach `LockFile::acquire` (`search` = `plan` with `dry_run = true`, for which
    the guard `if dry_run { None }` skips the lock) -/
theorem lockers_exactly :
    (table.filter (·.locks)).map (·.cmd) = [.search, .rename, .plan, .testLock] ∧
    (table.filter (·.unlessDryRun)).map (·.cmd) = [.search, .rename, .plan] := by decide

theorem C12_witness_unlocked_apply : locks .apply = false := by decide
theorem C12_witness_unlocked_undo : locks .undo = false := by decide
theorem C12_witness_unlocked_redo : locks .redo = false := by decide
theorem C12_witness_unlocked_replace : locks .replace = false := by decide

/-- today's source never removes an unparsable lock file (`malformed_blocks`) and creates its lock file
    empty before writing it (`create_new` … `write_all`) -/
theorem C12_witness_malformed_in_source : abandonPolicy = .none ∧ publishByLink = false := by decide

/-- today's Drop (and `release_held_locks`) do not look at the content of the file they remove
    (`drop_removes_foreign`) -/
theorem C12_witness_drop_unchecked_in_source : dropChecksContent = false := by decide

/-- no command calls the content-checked `release()`: what runs at the end of a command is `Drop`, the
    unconditional unlink modelled by `Lock.step` at `dropUnlink` (see `C12_witness_drop_removes_foreign`) -/
theorem C12_witness_release_never_called : releaseCallSites = 0 := by decide

/-- `C12_all_mutators_lock` is false today -/
theorem C12_all_mutators_lock_false : ¬ C12_all_mutators_lock := by
  intro h
  have h1 := h .apply (by decide)
  have h2 := h .undo (by decide)
  have h3 := h .redo (by decide)
  have h4 := h .replace (by decide)
  revert h1 h2 h3 h4
  decide

end C12
