import RModel.Props.C19a
/- C19, part c (kernel evaluation of one slice of the table; statements restated in Props/C19.lean) -/
namespace C19.Part
open Output C19

theorem only_json_on_stdout :
    (jsonRows.all fun r => check r fun o => o.stdout.all Payload.isJson) = true := by decide +kernel

theorem error_rows_print_the_error_document :
    (jsonRows.all fun r => check r fun o =>
      !o.failed || (o.stdout == [errorDoc] && oneDocument o && decide (o.stderrSites ≥ 1) && !o.exitZero)) = true
    ∧ ((Cmd.all.filter (· != .version)).all fun c => jsonRows.any fun r => r.cmd == c && check r (·.failed)) = true := by
  decide +kernel

theorem error_document_undo :
    outcome { cmd := .undo, json := true, quiet := false, dryRun := false, yes := false, preview := false, noRegex := false,
              commit := false, planEmpty := false, failAt := some 0 }
      = some { stdout := [errorDoc], stderrSites := 1, exitZero := false, performed := [], failed := true } := by decide +kernel

end C19.Part
