import RModel.Base.Lit
import RModel.Model.Exec
import RModel.Lemmas.Exec
import RModel.Lemmas.ExecRollback
/-
  C04 — A failed apply changes nothing.   (property theorems only; model: RModel/Model/Exec.lean)

  Every statement below that mentions a state `s : St` holds for EVERY injection spec `s.inj`
  (`fail k errno`, `crashBefore k`, `crashAfter k`, `crashMid k`, for every k and errno) and every counter value
  `s.n`, because `St` is universally quantified; the proofs are structural inductions over the programs
  (`ExecL.Safe`), not enumerations.

  The property at full strength (`C04_full`) is FALSE for the code as it is; the witnesses below are the listed
  findings, each kernel-evaluated on a concrete scenario and replayed on the real binary by checks/c04.py.
-/
namespace C04
open Fs Apply Exec ExecL

/-- the part of `apply_plan` that touches the user's tree -/
def core (cfg : Cfg) (plan : Plan) : M (List (Path × Path)) := do
  contentLoop cfg plan.hunks (sortedFiles plan.hunks)
  renameLoop cfg [] (sortRens plan.rens)

/-- the decidable-by-running guard of `success_complete`: unique keys, no stale temp names, and every rename of the
    rename phase finds its destination free (what the pre-flight establishes, C05) -/
structure G04 (t0 : Tree) (plan : Plan) : Prop where
  nodup : NodupKeys t0
  fresh : ∀ f ∈ sortedFiles plan.hunks, lookup t0 (tmpPath f) = none
  free : ∀ t1, contentPhase plan.hunks t0 (sortedFiles plan.hunks) = (.ok, t1) → FreeAlong t1 [] (sortRens plan.rens)

/-- success_complete (tree part): with no fault injected, whenever content + rename phase end normally the tree is
    EXACTLY the one `Apply.applyPlan`'s two phases compute (the object of C02/C02ren), and the recorded renames agree -/
theorem success_complete (cfg : Cfg) (plan : Plan) (t0 : Tree) (g : G04 t0 plan) (s : St)
    (hinj : s.inj = .none) (ht : s.t = t0) (perf : List (Path × Path)) (s' : St)
    (hrun : core cfg plan s = .ok perf s') :
    ∃ t1, contentPhase plan.hunks t0 (sortedFiles plan.hunks) = (.ok, t1) ∧
      renamePhase t1 [] (sortRens plan.rens) = { outcome := .ok, tree := s'.t, performed := perf } := by
  have h1 : Safe0 (fun t => t = t0) (contentLoop cfg plan.hunks (sortedFiles plan.hunks))
      (fun _ t => contentPhase plan.hunks t0 (sortedFiles plan.hunks) = (.ok, t)) :=
    safe0_contentLoop ExecFlags.tempRemovedOnFailure cfg plan.hunks (sortedFiles plan.hunks) t0 g.nodup g.fresh
  have h : Safe0 (fun t => t = t0) (core cfg plan)
      (fun perf t => ∃ t1, contentPhase plan.hunks t0 (sortedFiles plan.hunks) = (.ok, t1) ∧
        renamePhase t1 [] (sortRens plan.rens) = { outcome := .ok, tree := t, performed := perf }) := by
    unfold core
    refine safe0_bind h1 (fun _ => ?_)
    intro s1 hi hp
    have h2 := safe0_renameLoop ExecFlags.rollbackRealPairs cfg (sortRens plan.rens) [] [] s1.t (g.free _ hp) s1 hi rfl
    change Sat0 _ (renameLoop cfg [] (sortRens plan.rens) s1) at h2
    cases hx : renameLoop cfg [] (sortRens plan.rens) s1 with
    | ok a s2 => rw [hx] at h2; exact ⟨h2.1, s1.t, hp, h2.2⟩
    | err _ _ => trivial
    | crash _ => trivial
  have := h s hinj ht
  rw [hrun] at this
  exact this.2

/-- success_complete (record part): the bytes `History::save` writes parse back to the earlier entries plus exactly one -/
theorem success_records_one_entry (es : Bytes) (e : UInt8) : parseHist (encodeHist (es ++ [e])) = some (es ++ [e]) :=
  parseHist_encode _

/-- validation_first_file_clean: a stale or unreadable FIRST file stops the content phase with the tree untouched,
    under every fault/crash point (only log lines were issued) -/
theorem validation_first_file_clean (cfg : Cfg) (hs : List Hunk) (f : Path) (fs : List Path) (c : Bytes) (m : Nat)
    (e : Edits.Err) (t0 : Tree) (hl : lookup t0 f = some (.file c m))
    (hstale : Edits.applyEdits c (editsFor hs f) = .error e) (s : St) (ht : s.t = t0) :
    (contentLoop cfg hs (f :: fs) s).st.t = t0 ∧ outcome (contentLoop cfg hs (f :: fs) s) ≠ .ok := by
  have h : Safe (fun t => t = t0) (fun t => t = t0) (contentLoop cfg hs (f :: fs)) (fun _ _ => False) := by
    unfold contentLoop contentLoopF
    refine safe_bind safe_getTree (fun a => ?_)
    refine safe_assume (a = t0) (fun t h => h.1.trans h.2) (fun ha => ?_)
    subst ha
    refine safe_weaken (P := fun t => t = a) (Q := fun _ _ => False) ?_ (fun t h => h.2) (fun _ _ h => h)
    simp only [hl]
    by_cases hv : (!Utf8.valid c) = true
    · simp only [hv, if_true]; exact safe_throw _ (fun _ h => h)
    · simp only [hv, Bool.false_eq_true, if_false]
      have hed : Safe (fun t => t = a) (fun t => t = a)
          (editOneF ExecFlags.tempRemovedOnFailure cfg hs f c m) (fun _ _ => False) := by
        unfold editOneF
        rw [hstale]
        refine safe_bind (safe_logM cfg (fun _ h => h)) (fun _ => ?_)
        cases e <;> exact safe_throw _ (fun _ h => h)
      refine safe_bind (safe_tryCatch hed) (fun r => ?_)
      cases r with
      | none => exact fun s hp => absurd hp (fun h => h)
      | some e' =>
        refine safe_bind (safe_logM cfg (fun _ h => h)) (fun _ => ?_)
        refine safe_bind (safe_rollback_nil cfg) (fun _ => ?_)
        exact safe_throw _ (fun _ h => h)
  have := h s ht
  cases hx : contentLoop cfg hs (f :: fs) s with
  | ok a s' => rw [hx] at this; exact absurd this (fun h => h)
  | err e' s' =>
    rw [hx] at this
    refine ⟨this, ?_⟩
    cases e' <;> simp [outcome]
  | crash s' => rw [hx] at this; exact ⟨this, by simp [outcome]⟩

/-- preflight_changes_nothing (the command without a log file, `replace`): an occupied destination is refused before
    any call is issued -/
theorem preflight_changes_nothing (id : Bytes) (entry : UInt8) (plan : Plan) (s : St)
    (h : preflightOk s.t plan.rens = false) :
    applyPlanBody { log := none, id := id, entry := entry } plan s = .err .destExists s := by
  have hp : (preflight s.t [] plan.rens).isSome = true := by
    cases hp : preflight s.t [] plan.rens with
    | some o => rfl
    | none => rw [RenamePhase.preflightOk_of_none _ _ hp] at h; cases h
  simp [applyPlanBody, logM, logMF, bind, M.bind, pure, M.pure, getTree, hp, Exec.throw]

/-- … and so is ANY refusal of the pre-flight loop, the shared-destination one of repo commit 01297aa included: no call
    is issued, the state is the initial one -/
theorem preflight_refusal_changes_nothing (id : Bytes) (entry : UInt8) (plan : Plan) (s : St) (o : Apply.Outcome)
    (h : preflight s.t [] plan.rens = some o) :
    applyPlanBody { log := none, id := id, entry := entry } plan s = .err .destExists s := by
  simp [applyPlanBody, logM, logMF, bind, M.bind, pure, M.pure, getTree, h, Exec.throw]

/-- failure_reports_failure_partial: for EVERY fault index k and every I/O errno (other than the two that
    `create_dir_all` interprets), if the content phase and the rename phase end normally then the fault point has not
    been reached: an error injected at any call of these two phases — temp-file calls, renames, and log lines as long
    as `state.log(…)?` propagates their errors (`LogReports`: with the repair `logErrorsIgnored` a log line that
    cannot be written is deliberately NOT a failure) — is never swallowed into success.  (The swallowing sites lie outside: `C04_witness_history_write_swallowed`,
    `C04_witness_probe_left`, the lock release and the removal of plan.json.) -/
theorem failure_reports_failure_partial (cfg : Cfg) (plan : Plan) (k : Nat) (e : Errno) (s s' : St)
    (perf : List (Path × Path)) (hlog : LogReports cfg) (hinj : s.inj = .fail k e) (he1 : e ≠ .ENOENT) (he2 : e ≠ .EEXIST)
    (hn : s.n ≤ k) (hrun : core cfg plan s = .ok perf s') : s'.n ≤ k := by
  have h : Reports k (core cfg plan) := by
    unfold core
    exact reports_bind (reports_contentLoop k _ cfg hlog plan.hunks _) (fun _ => reports_renameLoop k _ cfg hlog _ _ _)
  exact (h s e perf s' hinj he1 he2 hn hrun).1

/-- late_refusal_changes_nothing: with the unconditional up-front guard (`applyPlanMF true`, repo commit c3d511b) a plan
    whose id is already recorded — applied, undone or redone, it does not matter — is refused before ANY call is issued:
    the state is returned as it was, for every plan, tree and injection spec -/
theorem late_refusal_changes_nothing (cfg : Cfg) (plan : Plan) (s : St) (hfresh : cfg.freshId = false)
    (hdup : (loadHist s.t).contains cfg.entry = true) : applyPlanMF true cfg plan s = .err .dupId s := by
  have hmem : cfg.entry ∈ loadHist s.t := by simpa using hdup
  simp [applyPlanMF, bind, M.bind, getTree, hfresh, hmem, Exec.throw]

/-- the structural tie: the model is built with the up-front guard because the source has it, unconditionally
    (`if History::load(renamify_dir)?.find_entry(&plan.id).is_some()` ahead of `ApplyState::new`, read by
    translate/execflags.py); a guard that is removed or made conditional breaks this theorem -/
theorem dup_id_guard_flag : ExecFlags.dupIdRefusedUpFront = true := by decide

/-- failure_reports_failure (call level): a failure injected at a call that is issued through `doOp` comes back as an
    error value; whether the PROGRAM then reports it depends on the call site — the swallowing sites are the witnesses
    `C04_witness_history_write_swallowed`, `C04_witness_probe_left`; for every other k the real binary is compared
    with the model by checks/c04.py -/
theorem failure_reports_failure_call (op : Op) (s : St) (e : Errno) (h : s.inj = .fail s.n e) :
    ∃ s', doOp op s = .err (.io e) s' ∧ s'.t = s.t := by
  unfold doOp
  rw [h]
  simp only [if_true]
  exact ⟨_, rfl, rfl⟩

/-- rollback_restores_paths: reverting the renames AS THEY WERE EXECUTED, in reverse order (what `rollback` does with
    the repair `rollbackRealPairs`), restores the tree EXACTLY — for every tree and every list of renames, nested
    directories included, under the decidable guard `RevAlong` (each rename went onto a free name with nothing below
    it; the source's parent is still there).  With the recorded (original-from, adjusted-to) pairs this is false for
    nested directories: `C04_witness_rollback_nested`. -/
theorem rollback_restores_paths (t tn : Tree) (l : List (Path × Path)) (hexec : execAll t l = some tn)
    (hg : RevAlong t l) : Apply.rollback tn l.reverse none = (t, none) :=
  rollback_restores l t tn hexec hg

/-- C04 restricted to the rename phase, at PROGRAM level, for the repaired code (`renameLoopF true`: rollback with the
    pairs as executed; `LogQuiet`: log errors ignored or no log file): for every plan, every tree and EVERY fault index k
    and errno, one injected failure anywhere in the rename phase — at any rename, at any log line — makes the phase either
    end normally or report the failure with the tree EXACTLY as it was when the phase started (nested directories
    included); it never crashes.  Guard `phaseOkB` (decidable by running): the fault-free phase succeeds, every rename
    goes onto a free name with nothing below it. -/
theorem rename_phase_failure_restores (cfg : Cfg) (hlq : LogQuiet cfg) (rs : List Ren) (t0 : Tree)
    (hg : phaseOkB t0 [] rs = true) (k : Nat) (e : Errno) (s : St) (hi : s.inj = .fail k e) (ht : s.t = t0) :
    match renameLoopF true cfg [] [] rs s with
    | .ok _ _ => True
    | .err _ s' => s'.t = t0
    | .crash _ => False := by
  have h := safeS_renameLoop k e cfg hlq t0 rs [] [] t0 rfl (by unfold RevAlong; rfl) hg s hi ht
  cases hx : renameLoopF true cfg [] [] rs s with
  | ok a s' => trivial
  | err f s' => rw [hx] at h; exact h.2.2
  | crash s' => rw [hx] at h; exact h

/-- a single rename onto a free name is undone exactly by the opposite rename -/
theorem rename_undone (t t' : Tree) (a b : Path) (h : Fs.rename t a b = .ok t') (hab : a ≠ b)
    (hfree : lookup t b = none) (hunder : ∀ e ∈ t, pre b e.1 = false) (hpar : parentOk t' a = .ok ()) :
    Fs.rename t' b a = .ok t :=
  rename_inverse h hab hfree hunder hpar

-- concrete scenarios (kernel evaluated) ----------------------------------------------------------------------------
-- The witnesses run the command BODIES (`bodyApply`, `bodyRename`: everything between taking and releasing the
-- workspace lock), so the call indices do not depend on how the lock is taken.

def meta0 : Tree :=
  [ ([dotR], .dir 0o755), (pHist, .file (encodeHist [entryOld]) 0o644), (pPlanJson, .file blob 0o644) ]
def tA : Tree := [ ([b!"a.txt"], .file b!"foo" 0o644), ([b!"b.txt"], .file b!"foo" 0o600) ] ++ meta0
def plA : Plan :=
  { hunks := [ { file := [b!"a.txt"], before := b!"foo", after := b!"bar", start := 0, stop := 3 },
               { file := [b!"b.txt"], before := b!"foo", after := b!"bar", start := 0, stop := 3 } ], rens := [] }
/-- the same tree after somebody edited `b.txt` behind the plan's back -/
def tAstale : Tree := [ ([b!"a.txt"], .file b!"foo" 0o644), ([b!"b.txt"], .file b!"xfoo" 0o600) ] ++ meta0
def tN : Tree :=
  [ ([b!"foo"], .dir 0o755), ([b!"foo", b!"foo"], .dir 0o755), ([b!"foo", b!"foo", b!"foo.txt"], .file b!"x" 0o644) ] ++ meta0
def plN : Plan :=
  { hunks := [], rens := [ { path := [b!"foo"], newPath := [b!"bar"], kind := .dir },
      { path := [b!"foo", b!"foo"], newPath := [b!"foo", b!"bar"], kind := .dir },
      { path := [b!"foo", b!"foo", b!"foo.txt"], newPath := [b!"foo", b!"foo", b!"bar.txt"], kind := .file } ] }

def fileAt (r : Res Unit) (p : Path) : Option Node := lookup r.st.t p

/-- the property at full strength: whenever a command does not report success, the user's tree and the history are
    exactly as before.  FALSE today (`C04_full_false`). -/
def C04_full : Prop :=
  ∀ (plan : Plan) (t : Tree) (inj : Inj), (∀ k, inj ≠ .crashBefore k ∧ inj ≠ .crashAfter k ∧ inj ≠ .crashMid k) →
    outcome (run (cmdApply plan) t inj) ≠ .ok →
      userTree (run (cmdApply plan) t inj).st.t = userTree t ∧ loadHist (run (cmdApply plan) t inj).st.t = loadHist t

set_option maxRecDepth 100000 in
/-- non-vacuity and the fault-free case: the whole command succeeds, the tree is the plan's, exactly one entry was
    appended, the plan is stored -/
theorem success_complete_example :
    outcome (run (bodyApply plA) tA .none) = .ok ∧
    userTree (run (bodyApply plA) tA .none).st.t = userTree (applyPlan tA plA).tree ∧
    loadHist (run (bodyApply plA) tA .none).st.t = [entryOld, entryApply] ∧
    fileAt (run (bodyApply plA) tA .none) (pStored idNew) = some (.file blob 0o644) := by decide +kernel

set_option maxRecDepth 100000 in
/-- finding content_not_rolled_back: the second file is stale; the command fails, `a.txt` stays rewritten, no entry -/
theorem C04_witness_content_not_rolled_back :
    outcome (run (bodyApply plA) tAstale .none) = .fail ∧
    fileAt (run (bodyApply plA) tAstale .none) [b!"a.txt"] = some (.file b!"bar" 0o644) ∧
    loadHist (run (bodyApply plA) tAstale .none).st.t = [entryOld] := by decide +kernel

set_option maxRecDepth 100000 in
/-- finding tmp_left_behind: `write a.PID.renamify.tmp` (call 6) fails; the empty temp file stays in the user's tree -/
theorem C04_witness_tmp_left : ExecFlags.tempRemovedOnFailure = false →
    outcome (run (bodyApply plA) tA (.fail 6 .EIO)) = .fail ∧
    fileAt (run (bodyApply plA) tA (.fail 6 .EIO)) (tmpPath [b!"a.txt"]) = some (.file [] 0o644) := by decide +kernel

set_option maxRecDepth 100000 in
/-- finding late_failure_no_rollback: `openw history.json` (call 29) fails; failure is reported with the whole plan
    applied and nothing recorded -/
theorem C04_witness_history_fail : ExecFlags.historyEntryIsCommitPoint = false →
    outcome (run (bodyApply plA) tA (.fail 29 .EIO)) = .fail ∧
    userTree (run (bodyApply plA) tA (.fail 29 .EIO)).st.t = userTree (applyPlan tA plA).tree ∧
    loadHist (run (bodyApply plA) tA (.fail 29 .EIO)).st.t = [entryOld] := by decide +kernel

set_option maxRecDepth 100000 in
/-- finding history_write_failure_swallowed: `write history.json` (call 30) fails; SUCCESS is reported, history.json is
    empty: the earlier entry is gone and the new one was never recorded -/
theorem C04_witness_history_write_swallowed : ExecFlags.atomicHistorySave = false →
    outcome (run (bodyApply plA) tA (.fail 30 .EIO)) = .ok ∧
    fileAt (run (bodyApply plA) tA (.fail 30 .EIO)) pHist = some (.file [] 0o644) ∧
    loadHist (run (bodyApply plA) tA (.fail 30 .EIO)).st.t = [] := by decide +kernel

set_option maxRecDepth 100000 in
/-- finding failure_after_history_recorded: `mkdir .renamify/plans` (call 31) fails after the entry was written -/
theorem C04_witness_failure_after_history : ExecFlags.atomicHistorySave = false →
    outcome (run (bodyApply plA) tA (.fail 31 .EIO)) = .fail ∧
    loadHist (run (bodyApply plA) tA (.fail 31 .EIO)).st.t = [entryOld, entryApply] := by decide +kernel

set_option maxRecDepth 100000 in
/-- finding rollback_nested_fails: the third rename (call 17) fails; rollback cannot move `bar/bar` back to `foo/foo`
    because `foo` does not exist yet, and the tree is left as `foo/bar/foo.txt` -/
theorem C04_witness_rollback_nested : ExecFlags.rollbackRealPairs = false →
    outcome (run (bodyApply plN) tN (.fail 17 .EIO)) = .fail ∧
    fileAt (run (bodyApply plN) tN (.fail 17 .EIO)) [b!"foo", b!"bar", b!"foo.txt"] = some (.file b!"x" 0o644) ∧
    fileAt (run (bodyApply plN) tN (.fail 17 .EIO)) [b!"foo", b!"foo", b!"foo.txt"] = none := by decide +kernel

set_option maxRecDepth 100000 in
/-- rollback_restores_paths (partial, non-nested instance): the SECOND rename (call 10) fails; the one rename done so
    far is reverted and every path is back -/
theorem rollback_restores_paths_example :
    outcome (run (bodyApply plN) tN (.fail 10 .EIO)) = .fail ∧
    userTree (run (bodyApply plN) tN (.fail 10 .EIO)).st.t = userTree tN := by decide +kernel

set_option maxRecDepth 100000 in
/-- finding log_failure_skips_rollback: the log line "Adjusted rename source" (call 7) fails; `foo` stays renamed -/
theorem C04_witness_log_skips_rollback : ExecFlags.logErrorsIgnored = false →
    outcome (run (bodyApply plN) tN (.fail 7 .EIO)) = .fail ∧
    fileAt (run (bodyApply plN) tN (.fail 7 .EIO)) [b!"bar", b!"foo", b!"foo.txt"] = some (.file b!"x" 0o644) := by
  decide +kernel

set_option maxRecDepth 100000 in
/-- finding probe_dir_left_behind: removing the case-probe file (call 3 of the body of `rename`) fails; success is reported and
    `.tmpRAND/test_case_a` stays in the user's tree -/
theorem C04_witness_probe_left : ExecFlags.probeCleanupRetried = false →
    outcome (run (bodyRename plA) (tA.take 2) (.fail 3 .EIO)) = .ok ∧
    fileAt (run (bodyRename plA) (tA.take 2) (.fail 3 .EIO)) pProbeFile = some (.file b!"test" 0o644) := by decide +kernel

/-- the stale scenario of the former finding `stale_panic`: `b.txt` was cut down to one byte behind the plan's back -/
def tAcut : Tree := [ ([b!"a.txt"], .file b!"foo" 0o644), ([b!"b.txt"], .file b!"f" 0o600) ] ++ meta0

/-- BEFORE repo commit 29e3f64 (unchecked slices, `Edits.applyEditsOld`): offsets past the end of the file panic
    (exit status 101; also C16) -/
theorem stale_offsets_panicked_before_29e3f64 :
    Edits.applyEditsOld b!"f" [{ before := b!"foo", after := b!"bar", start := 0, stop := 3 }] = .error .panic := by
  decide

/-- … and the code as it is reports the same stale plan as a content mismatch -/
theorem stale_offsets_mismatch_now :
    Edits.applyEdits b!"f" [{ before := b!"foo", after := b!"bar", start := 0, stop := 3 }] = .error .mismatch := by
  decide

set_option maxRecDepth 100000 in
/-- the whole command on that scenario: a reported failure, no panic (what remains is `content_not_rolled_back`:
    `a.txt`, processed before the stale `b.txt`, stays rewritten) -/
theorem stale_offsets_fail_cleanly_example :
    outcome (run (bodyApply plA) tAcut .none) = .fail ∧
    fileAt (run (bodyApply plA) tAcut .none) [b!"b.txt"] = some (.file b!"f" 0o600) ∧
    fileAt (run (bodyApply plA) tAcut .none) [b!"a.txt"] = some (.file b!"bar" 0o644) := by decide +kernel

/-- the edit loop as it is never panics, whatever the plan says (all contents, all edit lists) -/
theorem edits_never_panic (c : Bytes) (es : List Edits.Edit) : Edits.applyEdits c es ≠ .error .panic :=
  applyEdits_ne_panic c es

/-- the two tree phases never panic: under every fault and crash point, for every plan and tree, the content phase
    followed by the rename phase does not end in a panic (exit status 101) -/
theorem core_never_panics (cfg : Cfg) (plan : Plan) (s s' : St) : core cfg plan s ≠ .err .panic s' := by
  have h : NoPanic (core cfg plan) := by
    unfold core
    exact np_bind (np_contentLoop _ cfg plan.hunks _) (fun _ => np_renameLoop _ cfg _ _ _)
  exact h s s'

/-- the model's `applyEdits` is the checked variant exactly when the source checks its slices (flag read by
    translate/execflags.py from apply_content_edits_with_content) -/
theorem offsets_checked_flag : ExecFlags.offsetsChecked = true := by decide

set_option maxRecDepth 100000 in
/-- non-vacuity of `rollback_restores_paths` on the NESTED scenario: the three executed renames satisfy the guard, and
    the theorem's conclusion is the kernel-evaluated fact -/
theorem rollback_restores_paths_nested_example :
    RevAlong tN (execOf [] (sortRens plN.rens)) ∧
    (execAll tN (execOf [] (sortRens plN.rens))).isSome = true ∧
    execOf [] (sortRens plN.rens) =
      [ ([b!"foo"], [b!"bar"]), ([b!"bar", b!"foo"], [b!"bar", b!"bar"]),
        ([b!"bar", b!"bar", b!"foo.txt"], [b!"bar", b!"bar", b!"bar.txt"]) ] := by
  unfold RevAlong
  decide +kernel

set_option maxRecDepth 100000 in
/-- non-vacuity of `rename_phase_failure_restores`: the nested scenario satisfies its guard -/
theorem rename_phase_guard_nested_example : phaseOkB tN [] (sortRens plN.rens) = true := by decide +kernel

set_option maxRecDepth 100000 in
/-- finding failure_after_history_recorded at the code with the atomic history save but the old order (entry, then
    stored plan): `mkdir .renamify/plans` (call 32) fails after the entry was written -/
theorem C04_witness_failure_after_history_head :
    ExecFlags.atomicHistorySave = true → ExecFlags.historyEntryIsCommitPoint = false →
    outcome (run (bodyApply plA) tA (.fail 32 .EIO)) = .fail ∧
    loadHist (run (bodyApply plA) tA (.fail 32 .EIO)).st.t = [entryOld, entryApply] := by decide +kernel

-- the repairs (each conditional on the flag that translate/execflags.py reads from the repaired source) --------------

set_option maxRecDepth 100000 in
/-- repair `rollbackRealPairs`: the failing third rename of the nested scenario (call 17) is now rolled back completely -/
theorem rollback_nested_restores_now : ExecFlags.rollbackRealPairs = true →
    outcome (run (bodyApply plN) tN (.fail 17 .EIO)) = .fail ∧
    userTree (run (bodyApply plN) tN (.fail 17 .EIO)).st.t = userTree tN ∧
    loadHist (run (bodyApply plN) tN (.fail 17 .EIO)).st.t = [entryOld] := by decide +kernel

set_option maxRecDepth 100000 in
/-- repair `logErrorsIgnored`: a log line that cannot be written (call 7, "Adjusted rename source") is dropped; the
    command goes on and succeeds with the whole plan applied and recorded -/
theorem log_failure_is_no_failure_now : ExecFlags.logErrorsIgnored = true →
    outcome (run (bodyApply plN) tN (.fail 7 .EIO)) = .ok ∧
    userTree (run (bodyApply plN) tN (.fail 7 .EIO)).st.t = userTree (applyPlan tN plN).tree ∧
    loadHist (run (bodyApply plN) tN (.fail 7 .EIO)).st.t = [entryOld, entryApply] := by decide +kernel

set_option maxRecDepth 100000 in
/-- repair `historyEntryIsCommitPoint` (+ `rollbackRealPairs`): failures after the rename phase — creating the backup
    directory (call 22), writing the stored plan (call 29), publishing the history entry (call 34) — roll the three
    nested renames back, leave the history as it was and no stored plan behind -/
theorem late_failure_rolls_back_now :
    ExecFlags.historyEntryIsCommitPoint = true → ExecFlags.rollbackRealPairs = true → ExecFlags.atomicHistorySave = true →
    ∀ k ∈ [22, 29, 34],
      outcome (run (bodyApply plN) tN (.fail k .EIO)) = .fail ∧
      userTree (run (bodyApply plN) tN (.fail k .EIO)).st.t = userTree tN ∧
      loadHist (run (bodyApply plN) tN (.fail k .EIO)).st.t = [entryOld] ∧
      fileAt (run (bodyApply plN) tN (.fail k .EIO)) (pStored idNew) = none := by decide +kernel

set_option maxRecDepth 100000 in
/-- … and on that scenario EVERY single injected failure (calls 0–36) either is not a failure of the command (log
    lines, the removal of plan.json: success, everything applied and recorded) or leaves the user's tree and the
    history exactly as they were: `C04_full` holds on a plan without content edits -/
theorem C04_full_on_rename_only_scenario_now :
    ExecFlags.historyEntryIsCommitPoint = true → ExecFlags.rollbackRealPairs = true →
    ExecFlags.logErrorsIgnored = true → ExecFlags.atomicHistorySave = true →
    ∀ k ∈ List.range 37,
      (outcome (run (bodyApply plN) tN (.fail k .EIO)) = .ok ∧
        userTree (run (bodyApply plN) tN (.fail k .EIO)).st.t = userTree (applyPlan tN plN).tree ∧
        loadHist (run (bodyApply plN) tN (.fail k .EIO)).st.t = [entryOld, entryApply]) ∨
      (outcome (run (bodyApply plN) tN (.fail k .EIO)) = .fail ∧
        userTree (run (bodyApply plN) tN (.fail k .EIO)).st.t = userTree tN ∧
        loadHist (run (bodyApply plN) tN (.fail k .EIO)).st.t = [entryOld]) := by decide +kernel

set_option maxRecDepth 100000 in
/-- repair `probeCleanupRetried`: the failed removal of the probe file (call 3) is retried; nothing stays behind -/
theorem probe_cleanup_retried_now : ExecFlags.probeCleanupRetried = true →
    outcome (run (bodyRename plA) (tA.take 2) (.fail 3 .EIO)) = .ok ∧
    fileAt (run (bodyRename plA) (tA.take 2) (.fail 3 .EIO)) pProbeFile = none ∧
    fileAt (run (bodyRename plA) (tA.take 2) (.fail 3 .EIO)) pProbe = none := by decide +kernel

/-- the state after `plan; apply; undo`: the tree is back as planned, the history holds the entry and its revert -/
def tAundone : Tree :=
  [ ([b!"a.txt"], .file b!"foo" 0o644), ([b!"b.txt"], .file b!"foo" 0o600) ] ++
  [ ([dotR], .dir 0o755), (pHist, .file (encodeHist [entryOld, entryApply, entryUndo]) 0o644) ]

set_option maxRecDepth 100000 in
/-- WITHOUT the up-front guard (`applyPlanMF false`: the guard removed, or — for an undone entry — made conditional as
    in seeded/C04c) re-applying the stored plan of an undone operation edits both files and only then fails in
    `add_entry`: a failed apply that changed the tree, with no fault injected and no stale file -/
theorem late_dup_refusal_witness :
    outcome (applyPlanMF false { log := some (pLogFile idNew), id := idNew, entry := entryApply } plA
      { t := tAundone }) = .fail ∧
    lookup (applyPlanMF false { log := some (pLogFile idNew), id := idNew, entry := entryApply } plA
      { t := tAundone }).st.t [b!"a.txt"] = some (.file b!"bar" 0o644) ∧
    loadHist (applyPlanMF false { log := some (pLogFile idNew), id := idNew, entry := entryApply } plA
      { t := tAundone }).st.t = [entryOld, entryApply, entryUndo] := by decide +kernel

set_option maxRecDepth 100000 in
/-- … and with the guard the same command issues no call at all -/
theorem late_dup_refusal_example :
    outcome (run (bodyReapply plA) tAundone .none) = .fail ∧
    (run (bodyReapply plA) tAundone .none).st.t = tAundone ∧
    (run (bodyReapply plA) tAundone .none).st.trace = [] := by decide +kernel

set_option maxRecDepth 100000 in
/-- the tree-level model (`Apply.rollbackList`, used by C02/C01/C05) and this model agree on which pairs `rollback`
    walks: the executed pairs reconstructed from the recorded ones are the pairs the rename loop executed -/
theorem executed_pairs_agree_example :
    Apply.executedFrom [] (perfOf [] (sortRens plN.rens)) = execOf [] (sortRens plN.rens) := by decide +kernel

set_option maxRecDepth 100000 in
theorem C04_full_false : ¬ C04_full := by
  intro h
  have := h plA tAstale .none (by intro k; exact ⟨by simp, by simp, by simp⟩) (by decide +kernel)
  exact absurd this.1 (by decide +kernel)

-- non-vacuity of the guards
set_option maxRecDepth 100000 in
example : NodupKeys tA ∧ (∀ f ∈ sortedFiles plA.hunks, lookup tA (tmpPath f) = none) := by
  refine ⟨by unfold NodupKeys; decide +kernel, ?_⟩
  decide +kernel

end C04
