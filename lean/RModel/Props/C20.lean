import RModel.Lemmas.C20Base
import RModel.Lemmas.C20TableA
import RModel.Lemmas.C20TableB
import RModel.Lemmas.C20TableC
import RModel.Lemmas.C20Verdict
/-
  C20 — Every command line the wrappers build is accepted by the CLI.   (property theorems only)

  `Cli.accepts`        Lean model of clap's parser on the grammar generated from args.rs / types.rs
  `Wrap.build b v`     the argv builder `b` (generated from the TypeScript sources) applied to options `v`
  `Wrap.okFor g b v`   the argv is accepted AND the parse result is exactly what the option object calls for
                       (`Wrap.means`: the subcommand, positionals exactly the given terms and paths, every
                        pushed flag set, every pushed option holding exactly the given values, and
                        `Wrap.untouched`: every other argument of the subcommand and every global at its
                        default -- so a flag that the parser swallows as a path is a failure even though
                        clap exits 0)
  `Wrap.enumerate b`   every subset of the optional fields x representative values, plus hostile values
  `Wrap.knownBad`      every defect ever found: (wrapper, builder, field[, value]) combinations
  `live`               the slugs of the `knownBad` entries that reproduce on the CURRENT sources: generated
                       (`Gen/WrappersVerdict.lean`, translate/wrappers_verdict.py) and re-derived here by
                       kernel evaluation (`verdict_exact`).  The guard consists of those entries only, so
                       this file compiles unchanged before and after the wrappers are repaired:
                         before:  `live` has 21 entries, `C20_partial` is the guarded property, each
                                  `C20_witness_<slug>` exhibits its finding, `C20_full_false` refutes `C20_full`;
                         after:   `live = []`, the guard is empty, `C20_full_on_core` gives the property at
                                  full strength on the evaluated space, the witnesses hold vacuously
                                  (their entry is not in force).

  Full statement: `C20_full`.  Guarded statement over the whole enumerated space: `C20_guarded`.
  NOT proved here (either world): the step from the kernel-evaluated part `space b = Wrap.core live b` to
  the whole `Wrap.enumerate b` (~4·10^4 parses; hours in the kernel).  That part is *executed* on every run
  (compiled model, all cases, compared case by case with the real clap parser; checks/c20.py) and listed
  as an open statement in the evidence.  Missing lemma: independence of option segments,
      run args poss [] st (seg₁ ++ seg₂ ++ rest) = run args poss [] (feed (feed st seg₁) seg₂) rest
  with `feed` commuting for distinct non-conflicting arguments (reduces the 2^n subsets to n facts).
  Proved here by kernel evaluation (`decide +kernel`, no `native_decide`): on `space b` — for the small
  builders the whole enumerated space; for the large ones: nothing set, every field alone with each
  representative, every hostile value, the field combinations named in `knownBad`, and per value
  profile the two maximal combinations outside the guard — the guard is exact: outside it the command
  line is accepted with the intended meaning, inside it it is not.
-/
namespace C20
open Wrap Cli

/-- The property at full strength. -/
def C20_full : Prop :=
  ∀ b ∈ Gen.Wrappers.builders, ∀ v ∈ enumerate b, okFor G b v = true

/-- The property for every enumerated valuation outside the guard.  Executed exhaustively by the check
    on every run, not proved (see the header). -/
def C20_guarded : Prop :=
  ∀ b ∈ Gen.Wrappers.builders, ∀ v ∈ enumerate b, guard b v = false → okFor G b v = true

/-- the decision table over all builders, assembled from the three kernel-evaluated parts
    (`Lemmas/C20Table{A,B,C}.lean`) -/
theorem table : Gen.Wrappers.builders.all (fun b => (space b).all (rowOk b)) = true := by
  have hA := tableA
  have hB := tableB
  have hC := tableC
  unfold tableOn at hA hB hC
  rw [← List.take_append_drop cutA Gen.Wrappers.builders, List.all_append, hA, Bool.true_and,
      ← List.take_append_drop cutB (Gen.Wrappers.builders.drop cutA), List.all_append, hB, hC]
  rfl

/-- the generated verdict is what the model computes (`Lemmas/C20Verdict.lean`) -/
theorem verdict_exact : liveSlugsOf G Gen.Wrappers.builders = live := verdict_exact_lemma

/-- C20 on the kernel-evaluated part of the space: whatever stays outside the guard is accepted by the
    CLI's parser with the intended meaning. -/
theorem C20_partial :
    ∀ b ∈ Gen.Wrappers.builders, ∀ v ∈ space b, guard b v = false → okFor G b v = true := by
  intro b hb v hv hbad
  have h := List.all_eq_true.mp (List.all_eq_true.mp table b hb) v hv
  simp [rowOk, hbad] at h
  exact h

/-- The meaning clause spelled out: outside the guard the parser returns a result `p` in which every
    expectation derived from the option object holds and nothing else is set. -/
theorem C20_meaning :
    ∀ b ∈ Gen.Wrappers.builders, ∀ v ∈ space b, guard b v = false →
      ∃ p, accepts G (build b v) = .ok p ∧
        (intent b v).all (holds G p) = true ∧ untouched G p (intent b v) = true := by
  intro b hb v hv hg
  have h := C20_partial b hb v hv hg
  unfold okFor at h
  split at h
  · rename_i p hp
    exact ⟨p, hp, by simpa [means, Bool.and_eq_true] using h⟩
  · cases h

/-- The guard is exact there: every excluded valuation really fails (rejected, or accepted with another
    meaning), so it hides nothing that works. -/
theorem C20_knownBad_exact :
    ∀ b ∈ Gen.Wrappers.builders, ∀ v ∈ space b, guard b v = true → okFor G b v = false := by
  intro b hb v hv hbad
  have h := List.all_eq_true.mp (List.all_eq_true.mp table b hb) v hv
  simp [rowOk, hbad] at h
  exact h

/-- with no finding in force the guard is empty -/
theorem guard_empty (h : live = []) (b : Builder) (v : Valuation) : guard b v = false := by
  unfold guard usesBad liveBad
  rw [h]
  simp [anyIs]

/-- Once every finding is repaired (`live = []`, a generated fact re-derived by `verdict_exact`) the
    property holds at full strength on the evaluated space: every builder, every option valuation there,
    is accepted by the parser with the intended meaning. -/
theorem C20_full_on_core (h : live = []) :
    ∀ b ∈ Gen.Wrappers.builders, ∀ v ∈ space b, okFor G b v = true :=
  fun b hb v hv => C20_partial b hb v hv (guard_empty h b v)

-- witnesses: one per `knownBad` entry ----------------------------------------------------------
-- Each states, for an entry that is in force: (1) some valuation of the evaluated space makes the builder
-- produce exactly this argv and (2) what clap's parser (the model, compared with the real one on every
-- run) answers.  For an entry that is no longer in force the statement is vacuous.

/-- values an accepted command line gives to argument `id` of its subcommand -/
def parsedVals (argv : List Str) (id : Str) : Option Val :=
  match accepts G argv with
  | .ok p => lookup p.args id
  | .error _ => none

/-- `mcp-search-styles`: `renamify search old_name --styles snake` -/
theorem C20_witness_mcp_search_styles : inForce t!"mcp-search-styles" = true →
    (∃ v ∈ space Gen.Wrappers.mcp_buildSearchArgs, build Gen.Wrappers.mcp_buildSearchArgs v = [t!"search", t!"old_name", t!"--styles", t!"snake"]) ∧
    accepts G [t!"search", t!"old_name", t!"--styles", t!"snake"] = .error .unknownArgument := by decide +kernel

/-- `mcp-search-dry-run`: `renamify search old_name --dry-run` -/
theorem C20_witness_mcp_search_dry_run : inForce t!"mcp-search-dry-run" = true →
    (∃ v ∈ space Gen.Wrappers.mcp_buildSearchArgs, build Gen.Wrappers.mcp_buildSearchArgs v = [t!"search", t!"old_name", t!"--dry-run"]) ∧
    accepts G [t!"search", t!"old_name", t!"--dry-run"] = .error .unknownArgument := by decide +kernel

/-- `mcp-search-no-rename-files`: `renamify search old_name --no-rename-files` -/
theorem C20_witness_mcp_search_no_rename_files : inForce t!"mcp-search-no-rename-files" = true →
    (∃ v ∈ space Gen.Wrappers.mcp_buildSearchArgs, build Gen.Wrappers.mcp_buildSearchArgs v = [t!"search", t!"old_name", t!"--no-rename-files"]) ∧
    accepts G [t!"search", t!"old_name", t!"--no-rename-files"] = .error .unknownArgument := by decide +kernel

/-- `mcp-search-no-rename-dirs`: `renamify search old_name --no-rename-dirs` -/
theorem C20_witness_mcp_search_no_rename_dirs : inForce t!"mcp-search-no-rename-dirs" = true →
    (∃ v ∈ space Gen.Wrappers.mcp_buildSearchArgs, build Gen.Wrappers.mcp_buildSearchArgs v = [t!"search", t!"old_name", t!"--no-rename-dirs"]) ∧
    accepts G [t!"search", t!"old_name", t!"--no-rename-dirs"] = .error .unknownArgument := by decide +kernel

/-- `mcp-search-atomic-search`: `renamify search old_name --atomic-search` -/
theorem C20_witness_mcp_search_atomic_search : inForce t!"mcp-search-atomic-search" = true →
    (∃ v ∈ space Gen.Wrappers.mcp_buildSearchArgs, build Gen.Wrappers.mcp_buildSearchArgs v = [t!"search", t!"old_name", t!"--atomic-search"]) ∧
    accepts G [t!"search", t!"old_name", t!"--atomic-search"] = .error .unknownArgument := by decide +kernel

/-- `mcp-leading-hyphen`: `renamify search -x` -/
theorem C20_witness_mcp_leading_hyphen : inForce t!"mcp-leading-hyphen" = true →
    (∃ v ∈ space Gen.Wrappers.mcp_buildSearchArgs, build Gen.Wrappers.mcp_buildSearchArgs v = [t!"search", t!"-x"]) ∧
    accepts G [t!"search", t!"-x"] = .error .unknownArgument := by decide +kernel

/-- `mcp-search-includes-comma`: `renamify search old_name --include a,b` is accepted, but the single pattern arrives as two -/
theorem C20_witness_mcp_search_includes_comma : inForce t!"mcp-search-includes-comma" = true →
    (∃ v ∈ space Gen.Wrappers.mcp_buildSearchArgs, build Gen.Wrappers.mcp_buildSearchArgs v = [t!"search", t!"old_name", t!"--include", t!"a,b"] ∧ okFor G Gen.Wrappers.mcp_buildSearchArgs v = false) ∧
    parsedVals [t!"search", t!"old_name", t!"--include", t!"a,b"] t!"include" = some (.vals [t!"a", t!"b"]) := by decide +kernel

/-- `mcp-search-excludes-comma`: `renamify search old_name --exclude a,b` is accepted, but the single pattern arrives as two -/
theorem C20_witness_mcp_search_excludes_comma : inForce t!"mcp-search-excludes-comma" = true →
    (∃ v ∈ space Gen.Wrappers.mcp_buildSearchArgs, build Gen.Wrappers.mcp_buildSearchArgs v = [t!"search", t!"old_name", t!"--exclude", t!"a,b"] ∧ okFor G Gen.Wrappers.mcp_buildSearchArgs v = false) ∧
    parsedVals [t!"search", t!"old_name", t!"--exclude", t!"a,b"] t!"exclude" = some (.vals [t!"a", t!"b"]) := by decide +kernel

/-- `mcp-plan-styles`: `renamify plan old_name new_name --styles snake` -/
theorem C20_witness_mcp_plan_styles : inForce t!"mcp-plan-styles" = true →
    (∃ v ∈ space Gen.Wrappers.mcp_buildPlanArgs, build Gen.Wrappers.mcp_buildPlanArgs v = [t!"plan", t!"old_name", t!"new_name", t!"--styles", t!"snake"]) ∧
    accepts G [t!"plan", t!"old_name", t!"new_name", t!"--styles", t!"snake"] = .error .unknownArgument := by decide +kernel

/-- `mcp-plan-includes-comma`: `renamify plan old_name new_name --include a,b` is accepted, but the single pattern arrives as two -/
theorem C20_witness_mcp_plan_includes_comma : inForce t!"mcp-plan-includes-comma" = true →
    (∃ v ∈ space Gen.Wrappers.mcp_buildPlanArgs, build Gen.Wrappers.mcp_buildPlanArgs v = [t!"plan", t!"old_name", t!"new_name", t!"--include", t!"a,b"] ∧ okFor G Gen.Wrappers.mcp_buildPlanArgs v = false) ∧
    parsedVals [t!"plan", t!"old_name", t!"new_name", t!"--include", t!"a,b"] t!"include" = some (.vals [t!"a", t!"b"]) := by decide +kernel

/-- `mcp-plan-excludes-comma`: `renamify plan old_name new_name --exclude a,b` is accepted, but the single pattern arrives as two -/
theorem C20_witness_mcp_plan_excludes_comma : inForce t!"mcp-plan-excludes-comma" = true →
    (∃ v ∈ space Gen.Wrappers.mcp_buildPlanArgs, build Gen.Wrappers.mcp_buildPlanArgs v = [t!"plan", t!"old_name", t!"new_name", t!"--exclude", t!"a,b"] ∧ okFor G Gen.Wrappers.mcp_buildPlanArgs v = false) ∧
    parsedVals [t!"plan", t!"old_name", t!"new_name", t!"--exclude", t!"a,b"] t!"exclude" = some (.vals [t!"a", t!"b"]) := by decide +kernel

/-- `mcp-apply-plan`: `renamify apply --plan plans/p.json` -/
theorem C20_witness_mcp_apply_plan : inForce t!"mcp-apply-plan" = true →
    (∃ v ∈ space Gen.Wrappers.mcp_buildApplyArgs, build Gen.Wrappers.mcp_buildApplyArgs v = [t!"apply", t!"--plan", t!"plans/p.json"]) ∧
    accepts G [t!"apply", t!"--plan", t!"plans/p.json"] = .error .unknownArgument := by decide +kernel

/-- `mcp-preview-preview-only`: `renamify plan --preview-only` -/
theorem C20_witness_mcp_preview_preview_only : inForce t!"mcp-preview-preview-only" = true →
    (∃ v ∈ space Gen.Wrappers.mcp_buildPreviewArgs, build Gen.Wrappers.mcp_buildPreviewArgs v = [t!"plan", t!"--preview-only"]) ∧
    accepts G [t!"plan", t!"--preview-only"] = .error .unknownArgument := by decide +kernel

/-- `mcp-rename-preview-json`: `renamify rename old_name new_name --preview json --yes` -/
theorem C20_witness_mcp_rename_preview_json : inForce t!"mcp-rename-preview-json" = true →
    (∃ v ∈ space Gen.Wrappers.mcp_rename, build Gen.Wrappers.mcp_rename v = [t!"rename", t!"old_name", t!"new_name", t!"--preview", t!"json", t!"--yes"]) ∧
    accepts G [t!"rename", t!"old_name", t!"new_name", t!"--preview", t!"json", t!"--yes"] = .error .invalidValue := by decide +kernel

/-- `mcp-rename-only-with-exclude-styles`: `renamify rename old_name new_name --exclude-styles snake --only-styles snake --yes` -/
theorem C20_witness_mcp_rename_only_with_exclude_styles : inForce t!"mcp-rename-only-with-exclude-styles" = true →
    (∃ v ∈ space Gen.Wrappers.mcp_rename, build Gen.Wrappers.mcp_rename v = [t!"rename", t!"old_name", t!"new_name", t!"--exclude-styles", t!"snake", t!"--only-styles", t!"snake", t!"--yes"]) ∧
    accepts G [t!"rename", t!"old_name", t!"new_name", t!"--exclude-styles", t!"snake", t!"--only-styles", t!"snake", t!"--yes"] = .error .argumentConflict := by decide +kernel

/-- `mcp-rename-only-with-include-styles`: `renamify rename old_name new_name --include-styles snake --only-styles snake --yes` -/
theorem C20_witness_mcp_rename_only_with_include_styles : inForce t!"mcp-rename-only-with-include-styles" = true →
    (∃ v ∈ space Gen.Wrappers.mcp_rename, build Gen.Wrappers.mcp_rename v = [t!"rename", t!"old_name", t!"new_name", t!"--include-styles", t!"snake", t!"--only-styles", t!"snake", t!"--yes"]) ∧
    accepts G [t!"rename", t!"old_name", t!"new_name", t!"--include-styles", t!"snake", t!"--only-styles", t!"snake", t!"--yes"] = .error .argumentConflict := by decide +kernel

/-- `mcp-replace-preview-json`: `renamify replace old_name new_name --preview json --yes` -/
theorem C20_witness_mcp_replace_preview_json : inForce t!"mcp-replace-preview-json" = true →
    (∃ v ∈ space Gen.Wrappers.mcp_replace, build Gen.Wrappers.mcp_replace v = [t!"replace", t!"old_name", t!"new_name", t!"--preview", t!"json", t!"--yes"]) ∧
    accepts G [t!"replace", t!"old_name", t!"new_name", t!"--preview", t!"json", t!"--yes"] = .error .invalidValue := by decide +kernel

/-- `vscode-search-no-rename-paths`: `renamify search old_name --output json --no-rename-paths -u` -/
theorem C20_witness_vscode_search_no_rename_paths : inForce t!"vscode-search-no-rename-paths" = true →
    (∃ v ∈ space Gen.Wrappers.vscode_search, build Gen.Wrappers.vscode_search v = [t!"search", t!"old_name", t!"--output", t!"json", t!"--no-rename-paths", t!"-u"]) ∧
    accepts G [t!"search", t!"old_name", t!"--output", t!"json", t!"--no-rename-paths", t!"-u"] = .error .unknownArgument := by decide +kernel

/-- `vscode-search-atomic-search`: `renamify search old_name --output json --atomic-search -u` -/
theorem C20_witness_vscode_search_atomic_search : inForce t!"vscode-search-atomic-search" = true →
    (∃ v ∈ space Gen.Wrappers.vscode_search, build Gen.Wrappers.vscode_search v = [t!"search", t!"old_name", t!"--output", t!"json", t!"--atomic-search", t!"-u"]) ∧
    accepts G [t!"search", t!"old_name", t!"--output", t!"json", t!"--atomic-search", t!"-u"] = .error .unknownArgument := by decide +kernel

/-- `vscode-leading-hyphen`: `renamify search -x --output json -u` -/
theorem C20_witness_vscode_leading_hyphen : inForce t!"vscode-leading-hyphen" = true →
    (∃ v ∈ space Gen.Wrappers.vscode_search, build Gen.Wrappers.vscode_search v = [t!"search", t!"-x", t!"--output", t!"json", t!"-u"]) ∧
    accepts G [t!"search", t!"-x", t!"--output", t!"json", t!"-u"] = .error .unknownArgument := by decide +kernel

/-- `vscode-apply-id`: `renamify apply --output json --id abc123` -/
theorem C20_witness_vscode_apply_id : inForce t!"vscode-apply-id" = true →
    (∃ v ∈ space Gen.Wrappers.vscode_apply, build Gen.Wrappers.vscode_apply v = [t!"apply", t!"--output", t!"json", t!"--id", t!"abc123"]) ∧
    accepts G [t!"apply", t!"--output", t!"json", t!"--id", t!"abc123"] = .error .unknownArgument := by decide +kernel

/-- while the VS Code `apply --id` finding is in force the full-strength property is false -/
theorem C20_full_false : inForce t!"vscode-apply-id" = true → ¬ C20_full := by
  intro hl h
  have key : inForce t!"vscode-apply-id" = true →
      okFor G Gen.Wrappers.vscode_apply [.str t!"abc123"] = false := by decide +kernel
  have h1 := h Gen.Wrappers.vscode_apply (by decide +kernel) [.str t!"abc123"] (by decide +kernel)
  rw [key hl] at h1
  cases h1

-- non-vacuity ------------------------------------------------------------------------------------

/-- the guard is satisfiable by a non-trivial valuation: VS Code `rename` with every option that pushes
    something set at once (at least 14 tokens) stays outside the guard, and that command line is
    accepted with the intended meaning -/
example :
    let b := Gen.Wrappers.vscode_rename
    let v := greedy live b 0 (List.range b.fields.length)
    guard b v = false ∧ okFor G b v = true ∧ 14 ≤ (build b v).length := by decide +kernel

/-- the same for the MCP `plan` builder -/
example :
    let b := Gen.Wrappers.mcp_buildPlanArgs
    let v := greedy live b 0 (List.range b.fields.length)
    guard b v = false ∧ okFor G b v = true ∧ 14 ≤ (build b v).length := by decide +kernel

/-- the model is not vacuous about rejection either: `--` makes a leading-hyphen term acceptable -/
example : accepted G [t!"search", t!"--", t!"-x"] = true ∧ accepted G [t!"search", t!"-x"] = false := by decide +kernel

/-- every builder has cases in the evaluated space -/
example : Gen.Wrappers.builders.all (fun b => !(space b).isEmpty) = true := by decide +kernel

end C20
