import RModel.Base.Bytes
import RModel.Model.CliLit
import RModel.Model.Wrappers
import RModel.Model.WrappersKnown
import RModel.Gen.CliGrammar
import RModel.Gen.Wrappers
/-
  C20 — Every command line the wrappers build is accepted by the CLI.   (property theorems only)

  `Cli.accepts`        Lean model of clap's parser on the grammar generated from args.rs / types.rs
  `Wrap.build b v`     the argv builder `b` (generated from the TypeScript sources) applied to options `v`
  `Wrap.okFor g b v`   the argv is accepted AND the parse result has the meaning the pushes intend
                       (subcommand, positionals in order, every pushed flag set, every pushed option
                        holding exactly the pushed values)
  `Wrap.enumerate b`   every subset of the optional fields x representative values, plus hostile values
  `Wrap.knownBad`      the finite guard: (wrapper, builder, field[, value]) combinations rejected today

  Full statement (false today, kept visible): `C20_full`.
  Guarded statement over the whole enumerated space: `C20_guarded` — NOT proved here: evaluating
  ~4·10^4 parses in the kernel takes hours.  It is *executed* on every run instead (compiled model, all
  cases, compared case by case with the real clap parser; see checks/c20.py) and listed as an open
  statement in the evidence.  Missing lemma for a proof: independence of option segments,
      run args poss [] st (seg₁ ++ seg₂ ++ rest) = run args poss [] (feed (feed st seg₁) seg₂) rest
  with `feed` commuting for distinct non-conflicting arguments, which would reduce the 2^n subsets to n
  single-field facts.
  Proved here by kernel evaluation (`decide +kernel`, no `native_decide`): the guarded statement on
  `Wrap.core b` — for the 14 small builders the whole enumerated space, for the 6 large ones: nothing
  set, every field alone with each representative, every hostile value, and per value profile the two
  maximal combinations of fields outside `knownBad` — and its converse (the guard excludes nothing that
  works), plus one witness per `knownBad` entry.
-/
namespace C20
open Wrap Cli

abbrev G : Grammar := Gen.CliGrammar.grammar

/-- The property at full strength.  False today (`C20_full_false`). -/
def C20_full : Prop :=
  ∀ b ∈ Gen.Wrappers.builders, ∀ v ∈ enumerate b, okFor G b v = true

/-- The property for every enumerated valuation that stays outside `knownBad`.  Executed exhaustively
    by the check on every run, not proved (see the header). -/
def C20_guarded : Prop :=
  ∀ b ∈ Gen.Wrappers.builders, ∀ v ∈ enumerate b, usesBad b v = false → okFor G b v = true

/-- one row of the decision table: outside the guard the command line works, inside it does not -/
def rowOk (b : Builder) (v : Valuation) : Bool := usesBad b v != okFor G b v

set_option maxRecDepth 1000000 in
theorem table : Gen.Wrappers.builders.all (fun b => (core b).all (rowOk b)) = true := by decide +kernel

/-- C20 on the kernel-evaluated part of the space: whatever stays outside `knownBad` is accepted by the
    CLI's parser with the intended meaning. -/
theorem C20_partial :
    ∀ b ∈ Gen.Wrappers.builders, ∀ v ∈ core b, usesBad b v = false → okFor G b v = true := by
  intro b hb v hv hbad
  have h := List.all_eq_true.mp (List.all_eq_true.mp table b hb) v hv
  simp [rowOk, hbad] at h
  exact h

/-- The guard is exact there: every excluded valuation really fails (rejected, or accepted with another
    meaning), so `knownBad` hides nothing that works. -/
theorem C20_knownBad_exact :
    ∀ b ∈ Gen.Wrappers.builders, ∀ v ∈ core b, usesBad b v = true → okFor G b v = false := by
  intro b hb v hv hbad
  have h := List.all_eq_true.mp (List.all_eq_true.mp table b hb) v hv
  simp [rowOk, hbad] at h
  exact h

-- witnesses: one per `knownBad` entry ----------------------------------------------------------
-- Each states (1) some valuation of the evaluated space makes the builder produce exactly this argv and
-- (2) what clap's parser (the model, compared with the real one on every run) answers.

/-- values an accepted command line gives to argument `id` of its subcommand -/
def parsedVals (argv : List Str) (id : Str) : Option Val :=
  match accepts G argv with
  | .ok p => lookup p.args id
  | .error _ => none

/-- `mcp-search-styles`: `renamify search old_name --styles snake` -/
theorem C20_witness_mcp_search_styles :
    (∃ v ∈ core Gen.Wrappers.mcp_buildSearchArgs, build Gen.Wrappers.mcp_buildSearchArgs v = [t!"search", t!"old_name", t!"--styles", t!"snake"]) ∧
    accepts G [t!"search", t!"old_name", t!"--styles", t!"snake"] = .error .unknownArgument := by decide +kernel

/-- `mcp-search-dry-run`: `renamify search old_name --dry-run` -/
theorem C20_witness_mcp_search_dry_run :
    (∃ v ∈ core Gen.Wrappers.mcp_buildSearchArgs, build Gen.Wrappers.mcp_buildSearchArgs v = [t!"search", t!"old_name", t!"--dry-run"]) ∧
    accepts G [t!"search", t!"old_name", t!"--dry-run"] = .error .unknownArgument := by decide +kernel

/-- `mcp-search-no-rename-files`: `renamify search old_name --no-rename-files` -/
theorem C20_witness_mcp_search_no_rename_files :
    (∃ v ∈ core Gen.Wrappers.mcp_buildSearchArgs, build Gen.Wrappers.mcp_buildSearchArgs v = [t!"search", t!"old_name", t!"--no-rename-files"]) ∧
    accepts G [t!"search", t!"old_name", t!"--no-rename-files"] = .error .unknownArgument := by decide +kernel

/-- `mcp-search-no-rename-dirs`: `renamify search old_name --no-rename-dirs` -/
theorem C20_witness_mcp_search_no_rename_dirs :
    (∃ v ∈ core Gen.Wrappers.mcp_buildSearchArgs, build Gen.Wrappers.mcp_buildSearchArgs v = [t!"search", t!"old_name", t!"--no-rename-dirs"]) ∧
    accepts G [t!"search", t!"old_name", t!"--no-rename-dirs"] = .error .unknownArgument := by decide +kernel

/-- `mcp-search-atomic-search`: `renamify search old_name --atomic-search` -/
theorem C20_witness_mcp_search_atomic_search :
    (∃ v ∈ core Gen.Wrappers.mcp_buildSearchArgs, build Gen.Wrappers.mcp_buildSearchArgs v = [t!"search", t!"old_name", t!"--atomic-search"]) ∧
    accepts G [t!"search", t!"old_name", t!"--atomic-search"] = .error .unknownArgument := by decide +kernel

/-- `mcp-leading-hyphen`: `renamify search -x` -/
theorem C20_witness_mcp_leading_hyphen :
    (∃ v ∈ core Gen.Wrappers.mcp_buildSearchArgs, build Gen.Wrappers.mcp_buildSearchArgs v = [t!"search", t!"-x"]) ∧
    accepts G [t!"search", t!"-x"] = .error .unknownArgument := by decide +kernel

/-- `mcp-search-includes-comma`: `renamify search old_name --include a,b` is accepted, but the single pattern arrives as two -/
theorem C20_witness_mcp_search_includes_comma :
    (∃ v ∈ core Gen.Wrappers.mcp_buildSearchArgs, build Gen.Wrappers.mcp_buildSearchArgs v = [t!"search", t!"old_name", t!"--include", t!"a,b"] ∧ okFor G Gen.Wrappers.mcp_buildSearchArgs v = false) ∧
    parsedVals [t!"search", t!"old_name", t!"--include", t!"a,b"] t!"include" = some (.vals [t!"a", t!"b"]) := by decide +kernel

/-- `mcp-search-excludes-comma`: `renamify search old_name --exclude a,b` is accepted, but the single pattern arrives as two -/
theorem C20_witness_mcp_search_excludes_comma :
    (∃ v ∈ core Gen.Wrappers.mcp_buildSearchArgs, build Gen.Wrappers.mcp_buildSearchArgs v = [t!"search", t!"old_name", t!"--exclude", t!"a,b"] ∧ okFor G Gen.Wrappers.mcp_buildSearchArgs v = false) ∧
    parsedVals [t!"search", t!"old_name", t!"--exclude", t!"a,b"] t!"exclude" = some (.vals [t!"a", t!"b"]) := by decide +kernel

/-- `mcp-plan-styles`: `renamify plan old_name new_name --styles snake` -/
theorem C20_witness_mcp_plan_styles :
    (∃ v ∈ core Gen.Wrappers.mcp_buildPlanArgs, build Gen.Wrappers.mcp_buildPlanArgs v = [t!"plan", t!"old_name", t!"new_name", t!"--styles", t!"snake"]) ∧
    accepts G [t!"plan", t!"old_name", t!"new_name", t!"--styles", t!"snake"] = .error .unknownArgument := by decide +kernel

/-- `mcp-plan-includes-comma`: `renamify plan old_name new_name --include a,b` is accepted, but the single pattern arrives as two -/
theorem C20_witness_mcp_plan_includes_comma :
    (∃ v ∈ core Gen.Wrappers.mcp_buildPlanArgs, build Gen.Wrappers.mcp_buildPlanArgs v = [t!"plan", t!"old_name", t!"new_name", t!"--include", t!"a,b"] ∧ okFor G Gen.Wrappers.mcp_buildPlanArgs v = false) ∧
    parsedVals [t!"plan", t!"old_name", t!"new_name", t!"--include", t!"a,b"] t!"include" = some (.vals [t!"a", t!"b"]) := by decide +kernel

/-- `mcp-plan-excludes-comma`: `renamify plan old_name new_name --exclude a,b` is accepted, but the single pattern arrives as two -/
theorem C20_witness_mcp_plan_excludes_comma :
    (∃ v ∈ core Gen.Wrappers.mcp_buildPlanArgs, build Gen.Wrappers.mcp_buildPlanArgs v = [t!"plan", t!"old_name", t!"new_name", t!"--exclude", t!"a,b"] ∧ okFor G Gen.Wrappers.mcp_buildPlanArgs v = false) ∧
    parsedVals [t!"plan", t!"old_name", t!"new_name", t!"--exclude", t!"a,b"] t!"exclude" = some (.vals [t!"a", t!"b"]) := by decide +kernel

/-- `mcp-apply-plan`: `renamify apply --plan plans/p.json` -/
theorem C20_witness_mcp_apply_plan :
    (∃ v ∈ core Gen.Wrappers.mcp_buildApplyArgs, build Gen.Wrappers.mcp_buildApplyArgs v = [t!"apply", t!"--plan", t!"plans/p.json"]) ∧
    accepts G [t!"apply", t!"--plan", t!"plans/p.json"] = .error .unknownArgument := by decide +kernel

/-- `mcp-preview-preview-only`: `renamify plan --preview-only` -/
theorem C20_witness_mcp_preview_preview_only :
    (∃ v ∈ core Gen.Wrappers.mcp_buildPreviewArgs, build Gen.Wrappers.mcp_buildPreviewArgs v = [t!"plan", t!"--preview-only"]) ∧
    accepts G [t!"plan", t!"--preview-only"] = .error .unknownArgument := by decide +kernel

/-- `mcp-rename-preview-json`: `renamify rename old_name new_name --preview json --yes` -/
theorem C20_witness_mcp_rename_preview_json :
    (∃ v ∈ core Gen.Wrappers.mcp_rename, build Gen.Wrappers.mcp_rename v = [t!"rename", t!"old_name", t!"new_name", t!"--preview", t!"json", t!"--yes"]) ∧
    accepts G [t!"rename", t!"old_name", t!"new_name", t!"--preview", t!"json", t!"--yes"] = .error .invalidValue := by decide +kernel

/-- `mcp-rename-only-with-exclude-styles`: `renamify rename old_name new_name --exclude-styles snake --only-styles snake --yes` -/
theorem C20_witness_mcp_rename_only_with_exclude_styles :
    (∃ v ∈ core Gen.Wrappers.mcp_rename, build Gen.Wrappers.mcp_rename v = [t!"rename", t!"old_name", t!"new_name", t!"--exclude-styles", t!"snake", t!"--only-styles", t!"snake", t!"--yes"]) ∧
    accepts G [t!"rename", t!"old_name", t!"new_name", t!"--exclude-styles", t!"snake", t!"--only-styles", t!"snake", t!"--yes"] = .error .argumentConflict := by decide +kernel

/-- `mcp-rename-only-with-include-styles`: `renamify rename old_name new_name --include-styles snake --only-styles snake --yes` -/
theorem C20_witness_mcp_rename_only_with_include_styles :
    (∃ v ∈ core Gen.Wrappers.mcp_rename, build Gen.Wrappers.mcp_rename v = [t!"rename", t!"old_name", t!"new_name", t!"--include-styles", t!"snake", t!"--only-styles", t!"snake", t!"--yes"]) ∧
    accepts G [t!"rename", t!"old_name", t!"new_name", t!"--include-styles", t!"snake", t!"--only-styles", t!"snake", t!"--yes"] = .error .argumentConflict := by decide +kernel

/-- `mcp-replace-preview-json`: `renamify replace old_name new_name --preview json --yes` -/
theorem C20_witness_mcp_replace_preview_json :
    (∃ v ∈ core Gen.Wrappers.mcp_replace, build Gen.Wrappers.mcp_replace v = [t!"replace", t!"old_name", t!"new_name", t!"--preview", t!"json", t!"--yes"]) ∧
    accepts G [t!"replace", t!"old_name", t!"new_name", t!"--preview", t!"json", t!"--yes"] = .error .invalidValue := by decide +kernel

/-- `vscode-search-no-rename-paths`: `renamify search old_name --output json --no-rename-paths -u` -/
theorem C20_witness_vscode_search_no_rename_paths :
    (∃ v ∈ core Gen.Wrappers.vscode_search, build Gen.Wrappers.vscode_search v = [t!"search", t!"old_name", t!"--output", t!"json", t!"--no-rename-paths", t!"-u"]) ∧
    accepts G [t!"search", t!"old_name", t!"--output", t!"json", t!"--no-rename-paths", t!"-u"] = .error .unknownArgument := by decide +kernel

/-- `vscode-search-atomic-search`: `renamify search old_name --output json --atomic-search -u` -/
theorem C20_witness_vscode_search_atomic_search :
    (∃ v ∈ core Gen.Wrappers.vscode_search, build Gen.Wrappers.vscode_search v = [t!"search", t!"old_name", t!"--output", t!"json", t!"--atomic-search", t!"-u"]) ∧
    accepts G [t!"search", t!"old_name", t!"--output", t!"json", t!"--atomic-search", t!"-u"] = .error .unknownArgument := by decide +kernel

/-- `vscode-leading-hyphen`: `renamify search -x --output json -u` -/
theorem C20_witness_vscode_leading_hyphen :
    (∃ v ∈ core Gen.Wrappers.vscode_search, build Gen.Wrappers.vscode_search v = [t!"search", t!"-x", t!"--output", t!"json", t!"-u"]) ∧
    accepts G [t!"search", t!"-x", t!"--output", t!"json", t!"-u"] = .error .unknownArgument := by decide +kernel

/-- `vscode-apply-id`: `renamify apply --output json --id abc123` -/
theorem C20_witness_vscode_apply_id :
    (∃ v ∈ core Gen.Wrappers.vscode_apply, build Gen.Wrappers.vscode_apply v = [t!"apply", t!"--output", t!"json", t!"--id", t!"abc123"]) ∧
    accepts G [t!"apply", t!"--output", t!"json", t!"--id", t!"abc123"] = .error .unknownArgument := by decide +kernel

/-- hence the full-strength property does not hold today -/
theorem C20_full_false : ¬ C20_full := by
  intro h
  have h1 := h Gen.Wrappers.vscode_apply (by decide) [.str t!"abc123"] (by decide +kernel)
  revert h1
  decide +kernel

-- non-vacuity ------------------------------------------------------------------------------------

/-- the guard is satisfiable by a non-trivial valuation: VS Code `rename` with every option that pushes
    something set at once (at least 14 tokens) stays outside `knownBad`, and that command line is
    accepted with the intended meaning -/
example :
    let b := Gen.Wrappers.vscode_rename
    let v := greedy b 0 (List.range b.fields.length)
    usesBad b v = false ∧ okFor G b v = true ∧ 14 ≤ (build b v).length := by decide +kernel

/-- the same for the MCP `plan` builder, where one field (`styles`) has to stay out -/
example :
    let b := Gen.Wrappers.mcp_buildPlanArgs
    let v := greedy b 0 (List.range b.fields.length)
    usesBad b v = false ∧ okFor G b v = true ∧ 14 ≤ (build b v).length := by decide +kernel

/-- the model is not vacuous about rejection either: `--` makes a leading-hyphen term acceptable -/
example : accepted G [t!"search", t!"--", t!"-x"] = true ∧ accepted G [t!"search", t!"-x"] = false := by decide +kernel

/-- every builder has cases in the evaluated space, 377 in total -/
example : (Gen.Wrappers.builders.map (fun b => (core b).length)).foldl (· + ·) 0 = 377 := by decide +kernel

end C20
