import RModel.Model.Signals
import RModel.Lemmas.Signals
/-
  C13 — Interrupts never leave a half-applied rename.

  The model (`Model/Signals.lean`): a run is the command's program with signal events inserted anywhere; what
  an event does is the *generated* description of the handler bodies (`Gen/SignalHandlers.lean`).

  * `handlers_only_set_flag`, `flag_checked_after_command`, `prompt_guard_facts`: the facts extracted from
    main.rs / interrupt.rs on every run (a `process::exit` added to a handler, a dropped flag check, a changed
    exit code or a second user of the prompt guard breaks one of them by name).
  * `signals_do_not_change_effects`: for ANY list of delivery points, any repetition, either signal, the final
    world of a program without confirmation prompt equals the signal-free run's, no exit happens inside a handler,
    and the flag is set iff some event occurred; `status_130_iff_signalled`: the exit status is 130 iff an event
    occurred — *whatever* the command's own result (`main` checks the flag before it looks at the result).
  * `prompt_exit_no_change`: a run of `pre ; prompt ; post` that exits inside a handler has performed exactly
    `pre` (so a user tree that `pre` does not touch is unchanged) — and nothing of `post`, in particular not the
    lock release.
  * `C13_partial`: the property for every command that succeeds by itself and does not prompt (`-y`, apply, undo,
    redo, replace -y).  `C13_full` is false today: `C13_witness_prompt_lock_left`, `C13_witness_failed_reports_130`.
-/

namespace C13
open Signals

-- generated facts ----------------------------------------------------------------------------------

/-- Neither handler exits unconditionally, both store the flag, neither calls anything else; only SIGINT has an
    exit under the prompt guard, with the interrupt code. -/
theorem handlers_only_set_flag :
    (∀ s, (genHandlers s).exitAlways = none ∧ (genHandlers s).setsFlag = true ∧ (genHandlers s).otherCalls = 0) ∧
    (genHandlers .int).exitUnderPrompt = some 130 ∧ (genHandlers .term).exitUnderPrompt = none ∧
    Gen.SignalHandlers.extraHandlers = 0 := by
  refine ⟨?_, by decide, by decide, by decide⟩
  intro s; cases s <;> decide

/-- The flag is examined after the command returned and before its result is, and the code is 130;
    the command's own failure codes are 1, 2, 3. -/
theorem flag_checked_after_command :
    Gen.SignalHandlers.flagCheckAfterCommand = true ∧ Gen.SignalHandlers.flagCheckBeforeResultMatch = true ∧
    Gen.SignalHandlers.interruptExitCode = 130 ∧ Gen.SignalHandlers.errorExitCodes = [1, 2, 3] := by decide

/-- No command but the hidden `test-lock` receives the flag; the prompt guard is well formed and is activated
    only by `rename`'s confirmation prompt. -/
theorem prompt_guard_facts :
    Gen.SignalHandlers.flagPassedOnlyToTestLock = true ∧ Gen.SignalHandlers.promptGuardWellFormed = true ∧
    Gen.SignalHandlers.promptGuardOnlyInRenameConfirmation = true := by decide

variable {ε ω : Type}

-- the property theorems --------------------------------------------------------------------------

/-- **Signals do not change effects.**  For every handler table in which no handler exits unconditionally, every
    world, every meaning of effects, and every run `items` of a program without confirmation prompt — signal
    events at ANY positions, any number of them, either signal — the final world is the signal-free run's, no
    exit happened inside a handler, and the flag is set iff a flag-storing event occurred. -/
theorem signals_do_not_change_effects (H : Handlers) (hH : NoExitAlways H) (ap : ε → ω → ω) (w : ω)
    (items : List (Item ε)) (hnp : ∀ i ∈ items, isPrompt i = false) :
    (run H ap w items).world = (run H ap w (erase items)).world ∧
    (run H ap w items).exited = none ∧
    (run H ap w items).flag = flagged H items := by
  have h1 := runFrom_safe H ap items { world := w } rfl (safe_noPrompt H hH items hnp)
  have h2 := runFrom_safe H ap (erase items) { world := w } rfl (safe_erase H false items)
  refine ⟨?_, h1.2.1, by simpa [run] using h1.2.2⟩
  simp only [run]
  rw [h1.1, h2.1, effects_erase]

example : (run genHandlers apEff {} [.sig .int, .eff (.user 0), .sig .term, .sig .term, .eff .history]).world
    = (run genHandlers apEff {} [.eff (.user 0), .eff .history]).world := by decide

/-- With the generated handlers and the generated tail of `main`: the exit status of a run without prompt is 130
    iff at least one signal event occurred, and the command's own code `res` (0, or 1–3 for a failure) otherwise.
    A failing command that was signalled reports 130. -/
theorem status_130_iff_signalled (ap : ε → ω → ω) (w : ω) (res : Nat) (items : List (Item ε))
    (hnp : ∀ i ∈ items, isPrompt i = false) :
    genStatus res (run genHandlers ap w items) = (if items.any isSig then 130 else res) := by
  have hH : NoExitAlways genHandlers := fun s => (handlers_only_set_flag.1 s).1
  obtain ⟨_, he, hf⟩ := signals_do_not_change_effects genHandlers hH ap w items hnp
  have hfl : flagged genHandlers items = items.any isSig := by
    unfold flagged
    congr 1
    funext i
    cases i with
    | sig s => simp [isSig, (handlers_only_set_flag.1 s).2.1]
    | _ => simp [isSig]
  unfold genStatus status
  rw [he, hf, hfl]
  have := flag_checked_after_command
  simp [this.1, this.2.1, this.2.2.1]

example : genStatus 3 (run genHandlers apEff {} [.eff (.user 0), .sig .term]) = 130 := by decide
example : genStatus 3 (run genHandlers apEff {} [.eff (.user 0)]) = 3 := by decide

/-- Any postcondition of the signal-free run (tree complete, history entry written, lock released, no temp file
    left …) holds of every signalled run of the same program. -/
theorem signals_preserve_postconditions (ap : ε → ω → ω) (w : ω) (items : List (Item ε))
    (hnp : ∀ i ∈ items, isPrompt i = false) (Q : ω → Prop) (hq : Q (run genHandlers ap w (erase items)).world) :
    Q (run genHandlers ap w items).world := by
  have hH : NoExitAlways genHandlers := fun s => (handlers_only_set_flag.1 s).1
  rw [(signals_do_not_change_effects genHandlers hH ap w items hnp).1]; exact hq

/-- SIGTERM events never exit inside the handler, prompt or not: a program *with* a prompt that only ever receives
    SIGTERM performs all its effects (the process keeps waiting for the answer). -/
theorem sigterm_never_exits (ap : ε → ω → ω) (w : ω) (items : List (Item ε))
    (hterm : ∀ i ∈ items, ∀ s, i = .sig s → s = .term) :
    (run genHandlers ap w items).world = (run genHandlers ap w (erase items)).world ∧
    (run genHandlers ap w items).exited = none := by
  have hs : ∀ (p : Bool) (l : List (Item ε)), (∀ i ∈ l, ∀ s, i = .sig s → s = .term) → safe genHandlers p l = true := by
    intro p l
    induction l generalizing p with
    | nil => intro _; rfl
    | cons i r ih =>
      intro h
      have hr := fun p => ih p (fun j hj => h j (List.mem_cons_of_mem _ hj))
      cases i with
      | eff e => simpa [safe] using hr p
      | promptOn => simpa [safe] using hr true
      | promptOff => simpa [safe] using hr false
      | sig s =>
        have : s = .term := h _ List.mem_cons_self s rfl
        subst this
        have h3 := handlers_only_set_flag
        simp [safe, hr p, (h3.1 .term).1, h3.2.2.1]
  have h1 := runFrom_safe genHandlers ap items { world := w } rfl (hs false items hterm)
  have h2 := runFrom_safe genHandlers ap (erase items) { world := w } rfl (safe_erase genHandlers false items)
  refine ⟨?_, h1.2.1⟩
  simp only [run]
  rw [h1.1, h2.1, effects_erase]

-- the confirmation prompt ------------------------------------------------------------------------

/-- **Exit during the prompt changes nothing but `pre`.**  For every run of `pre ; prompt ; post` (signal events
    anywhere): if the process exited inside a handler, the world is exactly `pre` applied — no effect of `post`
    happened, in particular no lock release — and the code is one a handler has under the prompt guard;
    if it did not, the world is the complete `pre ++ post`. -/
theorem prompt_exit_no_change (H : Handlers) (hH : NoExitAlways H) (ap : ε → ω → ω) (pre post : List ε)
    (items : List (Item ε)) :
    ∀ st : St ω, st.exited = none → st.prompt = false → erase items = withPrompt pre post →
      ((runFrom H ap st items).exited = none →
        (runFrom H ap st items).world = applyAll ap st.world (pre ++ post)) ∧
      (∀ c, (runFrom H ap st items).exited = some c →
        (runFrom H ap st items).world = applyAll ap st.world pre ∧ ∃ s, (H s).exitUnderPrompt = some c) := by
  induction items generalizing pre with
  | nil => intro st _ _ h; cases pre <;> simp [erase, withPrompt] at h
  | cons i r ih =>
    intro st he hp herase
    have hstep : ∀ st' : St ω, step H ap st i = st' → runFrom H ap st (i :: r) = runFrom H ap st' r := by
      intro st' h; simp [runFrom, List.foldl_cons, h]
    cases i with
    | sig s =>
      have ht : erase r = withPrompt pre post := by simpa [erase, isSig] using herase
      have h1 : step H ap st (.sig s) = (if (H s).setsFlag then { st with flag := true } else st) := by
        simp [step, he, handle_safe (H s) st (hH s) (Or.inl hp)]
      rw [hstep _ h1]
      cases hf : (H s).setsFlag with
      | true => simpa [hf] using ih pre { st with flag := true } he hp ht
      | false => simpa [hf] using ih pre st he hp ht
    | eff e =>
      cases pre with
      | nil => simp [erase, isSig, withPrompt] at herase
      | cons e' pre' =>
        have hh : e = e' ∧ erase r = withPrompt pre' post := by
          simpa [erase, isSig, withPrompt] using herase
        obtain ⟨rfl, ht⟩ := hh
        have h1 : step H ap st (.eff e) = { st with world := ap e st.world } := by simp [step, he]
        rw [hstep _ h1]
        have := ih pre' { st with world := ap e st.world } he hp ht
        simpa [applyAll] using this
    | promptOn =>
      cases pre with
      | cons e' pre' => simp [erase, isSig, withPrompt] at herase
      | nil =>
        have ht : erase r = .promptOff :: post.map .eff := by
          simpa [erase, isSig, withPrompt] using herase
        have h1 : step H ap st .promptOn = { st with prompt := true } := by simp [step, he]
        rw [hstep _ h1]
        have := in_prompt H hH ap post r { st with prompt := true } he rfl ht
        simpa [applyAll] using this
    | promptOff =>
      cases pre <;> simp [erase, isSig, withPrompt] at herase

/-- Corollary for the generated handlers: an exit inside the prompt has status 130 and leaves every observation
    `user` of the world that the pre-prompt effects do not change (the user tree: before the prompt only the lock
    and the probe directory are touched) exactly as it was. -/
theorem prompt_exit_user_tree_unchanged {τ : Type} (ap : ε → ω → ω) (user : ω → τ) (pre post : List ε)
    (hpre : ∀ e ∈ pre, ∀ w, user (ap e w) = user w) (w : ω) (items : List (Item ε))
    (herase : erase items = withPrompt pre post) (c : Nat)
    (hex : (run genHandlers ap w items).exited = some c) :
    user (run genHandlers ap w items).world = user w ∧ c = 130 := by
  have hH : NoExitAlways genHandlers := fun s => (handlers_only_set_flag.1 s).1
  have h := (prompt_exit_no_change genHandlers hH ap pre post items { world := w } rfl rfl herase).2 c hex
  obtain ⟨hw, s, hs⟩ := h
  constructor
  · simp only [run]; rw [hw]
    clear hw hex herase
    induction pre generalizing w with
    | nil => rfl
    | cons e r ih =>
      simp only [applyAll, List.foldl_cons]
      have h1 := ih (fun e' he' => hpre e' (List.mem_cons_of_mem _ he')) (ap e w)
      simp only [applyAll] at h1
      rw [h1, hpre e List.mem_cons_self]
  · have h3 := handlers_only_set_flag
    cases s with
    | int => rw [h3.2.1] at hs; cases hs; rfl
    | term => rw [h3.2.2.1] at hs; cases hs

-- the concrete command family, the full statement, the guard and the witnesses -----------------------------

/-- a command as the check sees it: its program over the concrete effects, the status it ends with by itself,
    and the user-tree calls of the complete operation -/
structure Cmd where
  prog : List (Item Eff)
  res : Nat
  deriving Repr

def final (c : Cmd) (w0 : World) : World := (run genHandlers apEff w0 c.prog).world

/-- the description is sane: run alone, the command releases the lock; if it reports success it has written its
    history entry -/
def Sane (c : Cmd) (w0 : World) : Prop :=
  (final c w0).lock = false ∧ (c.res = 0 → (final c w0).history = w0.history + 1)

/-- what the property demands of a signalled run -/
def Good (c : Cmd) (w0 : World) (r : St World) : Prop :=
  ((r.world.user = w0.user ∧ r.world.history = w0.history) ∨
   (r.world.user = (final c w0).user ∧ r.world.history = w0.history + 1)) ∧
  r.world.lock = false ∧ genStatus c.res r = 130

/-- C13 at full strength: every sane command, every run with at least one signal event.  False today. -/
def C13_full : Prop :=
  ∀ (c : Cmd) (w0 : World) (items : List (Item Eff)), Sane c w0 → erase items = c.prog → items.any isSig = true →
    Good c w0 (run genHandlers apEff w0 items)

/-- the guard: the command succeeds by itself and has no confirmation prompt -/
def G13 (c : Cmd) : Prop := c.res = 0 ∧ ∀ i ∈ c.prog, isPrompt i = false

theorem C13_partial (c : Cmd) (w0 : World) (items : List (Item Eff)) (hg : G13 c) (hs : Sane c w0)
    (he : erase items = c.prog) (hsig : items.any isSig = true) :
    Good c w0 (run genHandlers apEff w0 items) := by
  have hnp : ∀ i ∈ items, isPrompt i = false := by
    intro i hi
    cases i with
    | eff e => rfl
    | sig s => rfl
    | promptOn => exact hg.2 _ (by rw [← he]; simp [erase, isSig, hi])
    | promptOff => exact hg.2 _ (by rw [← he]; simp [erase, isSig, hi])
  have hH : NoExitAlways genHandlers := fun s => (handlers_only_set_flag.1 s).1
  have hw : (run genHandlers apEff w0 items).world = final c w0 := by
    rw [(signals_do_not_change_effects genHandlers hH apEff w0 items hnp).1, he]; rfl
  refine ⟨Or.inr ⟨by rw [hw], by rw [hw]; exact hs.2 hg.1⟩, by rw [hw]; exact hs.1, ?_⟩
  rw [status_130_iff_signalled apEff w0 c.res items hnp, hsig]; rfl

/-- `rename -y` on one edited file and one rename, as traced: lock, probe, edits, history, unlock -/
def renameYes : Cmd :=
  { prog := [.eff .other, .eff .lockCreate, .eff .other, .eff (.user 0), .eff (.user 1), .eff .other, .eff .history,
             .eff .other, .eff .lockRemove],
    res := 0 }

example : G13 renameYes ∧ Sane renameYes {} := by
  refine ⟨⟨rfl, by decide⟩, by unfold Sane final; decide⟩

example : Good renameYes {} (run genHandlers apEff {} (deliverAt renameYes.prog 4 .int 3)) := by
  refine ⟨Or.inr (by decide), by decide, by decide⟩

/-- `rename` without `-y`: the same with the confirmation prompt after lock and probe -/
def renameAsk : Cmd :=
  { prog := withPrompt [.other, .lockCreate, .other] [.user 0, .user 1, .other, .history, .other, .lockRemove],
    res := 0 }

/-- **Witness (finding prompt_exit_leaves_lock).**  SIGINT while the confirmation prompt is active: the handler
    calls `process::exit(130)`; the user tree is untouched, the status is 130, but `LockFile::drop` never runs and
    the lock file stays. -/
def promptIntRun : St World := run genHandlers apEff {} (deliverAt renameAsk.prog 4 .int 1)

theorem C13_witness_prompt_lock_left :
    erase (deliverAt renameAsk.prog 4 .int 1) = renameAsk.prog ∧ Sane renameAsk {} ∧
    promptIntRun.exited = some 130 ∧ promptIntRun.world.user = [] ∧ promptIntRun.world.history = 0 ∧
    promptIntRun.world.lock = true ∧ ¬ Good renameAsk {} promptIntRun := by
  refine ⟨by decide, by unfold Sane final; decide, by decide, by decide, by decide, by decide, ?_⟩
  intro h
  exact absurd h.2.1 (by decide)

/-- SIGTERM at the same point only stores the flag; once the prompt is answered the operation completes, the lock
    is released and the status is 130. -/
theorem sigterm_at_prompt_completes :
    Good renameAsk {} (run genHandlers apEff {} (deliverAt renameAsk.prog 4 .term 1)) := by
  refine ⟨Or.inr (by decide), by decide, by decide⟩

/-- `apply` of a stale plan: the first file is edited, the second does not match, the command stops with status 3
    (C04: the content edit is not rolled back) -/
def staleApply : Cmd := { prog := [.eff .other, .eff (.user 0), .eff .other], res := 3 }

/-- what the complete operation would have been -/
def staleApplyComplete : List Nat := [0, 1]

/-- **Witness (finding failed_command_reports_130).**  A command that fails by itself over a partially changed
    tree and received a signal reports 130 ("interrupted"), not its failure status: the tree is neither the one
    before nor the complete one, there is no history entry. -/
def staleTermRun : St World := run genHandlers apEff {} (deliverAt staleApply.prog 1 .term 1)

theorem C13_witness_failed_reports_130 :
    Sane staleApply {} ∧ genStatus staleApply.res staleTermRun = 130 ∧
    genStatus staleApply.res (run genHandlers apEff {} staleApply.prog) = 3 ∧
    staleTermRun.world.user ≠ [] ∧ staleTermRun.world.user ≠ staleApplyComplete ∧
    staleTermRun.world.history = 0 ∧ ¬ Good staleApply {} staleTermRun := by
  refine ⟨by unfold Sane final; decide, by decide, by decide, by decide, by decide, by decide, ?_⟩
  intro h
  rcases h.1 with h1 | h1
  · exact absurd h1.1 (by decide)
  · exact absurd h1.2 (by decide)

/-- the full statement is false in the model of today's code -/
theorem C13_full_is_false : ¬ C13_full := by
  intro h
  have := h renameAsk {} (deliverAt renameAsk.prog 4 .int 1) C13_witness_prompt_lock_left.2.1
    C13_witness_prompt_lock_left.1 (by decide)
  exact C13_witness_prompt_lock_left.2.2.2.2.2.2 this

end C13
