import RModel.Model.Signals
import RModel.Lemmas.Signals
/-
  C13 — Interrupts never leave a half-applied rename.

  The model (`Model/Signals.lean`): a run is the command's program with signal events inserted anywhere; what
  an event does is the *generated* description of the handler bodies (`Gen/SignalHandlers.lean`).

  * `handlers_only_set_flag`, `signal_context_handlers_async_signal_safe`, `flag_checked_after_command`, `prompt_guard_facts`: the facts extracted from
    main.rs / interrupt.rs / lock.rs on every run (a `process::exit` added to a handler, a dropped flag check, a flag
    test moved back in front of the result, a changed exit code, a prompt exit that no longer releases the held
    locks, or a second user of the prompt guard breaks one of them by name).
  * `signals_do_not_change_effects`: for ANY list of delivery points, any repetition, either signal, the final
    world of a program without confirmation-prompt guard equals the signal-free run's, no exit happens inside a
    handler, and the flag is set iff some event occurred.
  * `status_130_iff_signalled`: the exit status is 130 iff an event occurred AND the command succeeded; a command
    that fails reports its own status 1–3, signalled or not (`failed_command_keeps_its_status`).
  * `prompt_exit_no_change` / `prompt_exit_releases_held_locks`: a run of `pre ; prompt ; post` that exits inside a
    handler has performed exactly `pre`, then released the held locks; nothing of `post` happened.
  * `unguarded_prompt_never_exits`, `sigterm_never_exits`, `sigterm_at_prompt_completes`: what holds at `replace`'s own
    prompt (no guard: SIGINT and SIGTERM only store the flag, the process keeps waiting for the answer, then ends
    with 130) and for SIGTERM at `rename`'s prompt (same).
  * `C13_full_holds`: the property for every command of the shapes that exist (no guarded prompt, or lock/probe ;
    prompt ; rest), succeeding or failing by itself.
  * `before_fix_prompt_lock_left`, `before_fix_failed_reports_130`: the two defects repaired by d01db83 / 279b830,
    as facts about the model instantiated with the old handler table / the old place of the flag test.
-/

namespace C13
open Signals

-- generated facts ----------------------------------------------------------------------------------

/-- Neither handler exits unconditionally, both store the flag, neither calls anything else; only SIGINT has an
    exit under the prompt guard, with the interrupt code, and it releases the held locks first — each only if the file
    still carries this process's `pid:timestamp` (as does `LockFile::drop`). -/
theorem handlers_only_set_flag :
    (∀ s, (genHandlers s).exitAlways = none ∧ (genHandlers s).setsFlag = true ∧ (genHandlers s).otherCalls = 0) ∧
    (genHandlers .int).exitUnderPrompt = some 130 ∧ (genHandlers .int).releasesLocks = true ∧
    (genHandlers .term).exitUnderPrompt = none ∧
    Gen.SignalHandlers.extraHandlers = 0 ∧ Gen.SignalHandlers.heldLocksReleasable = true ∧
    Gen.SignalHandlers.releaseChecksOwnership = true := by
  refine ⟨?_, by decide, by decide, by decide, by decide, by decide, by decide⟩
  intro s; cases s <;> decide

/-- The SIGTERM handler is registered with `signal_hook::low_level::register` and therefore runs in real signal context,
    possibly inside the interrupted thread's own `eprintln!`: its body consists of async-signal-safe operations only
    (an atomic store).  Printing there panicked on the borrowed stderr handle and aborted the process (status -6,
    lock left behind) until 4ef3457.  The SIGINT handler runs on ctrlc's own thread and may print and exit. -/
theorem signal_context_handlers_async_signal_safe :
    Gen.SignalHandlers.signalContextHandlers = 1 ∧ Gen.SignalHandlers.signalContextUnsafeCalls = 0 ∧
    Gen.SignalHandlers.signalContextHandlersStoreFlag = true := by decide

/-- The flag is read after the command returned and tested only in the `Ok` arm of the result match; the code is
    130; the command's own failure codes are 1, 2, 3. -/
theorem flag_checked_after_command :
    Gen.SignalHandlers.flagScope = .okOnly ∧
    Gen.SignalHandlers.interruptExitCode = 130 ∧ Gen.SignalHandlers.errorExitCodes = [1, 2, 3] := by decide

/-- No command but the hidden `test-lock` receives the flag; the prompt guard is well formed and is activated
    only by `rename`'s confirmation prompt. -/
theorem prompt_guard_facts :
    Gen.SignalHandlers.flagPassedOnlyToTestLock = true ∧ Gen.SignalHandlers.promptGuardWellFormed = true ∧
    Gen.SignalHandlers.promptGuardOnlyInRenameConfirmation = true := by decide

variable {ε ω : Type}

theorem gen_noExitAlways : NoExitAlways genHandlers := fun s => (handlers_only_set_flag.1 s).1

-- the property theorems --------------------------------------------------------------------------

/-- **Signals do not change effects.**  For every handler table in which no handler exits unconditionally, every
    world, every meaning of effects, and every run `items` of a program without confirmation-prompt guard — signal
    events at ANY positions, any number of them, either signal — the final world is the signal-free run's, no
    exit happened inside a handler, and the flag is set iff a flag-storing event occurred. -/
theorem signals_do_not_change_effects (H : Handlers) (hH : NoExitAlways H) (ap : ε → ω → ω) (rel : ω → ω) (w : ω)
    (items : List (Item ε)) (hnp : ∀ i ∈ items, isPrompt i = false) :
    (run H ap rel w items).world = (run H ap rel w (erase items)).world ∧
    (run H ap rel w items).exited = none ∧
    (run H ap rel w items).flag = flagged H items := by
  have h1 := runFrom_safe H ap rel items { world := w } rfl (safe_noPrompt H hH items hnp)
  have h2 := runFrom_safe H ap rel (erase items) { world := w } rfl (safe_erase H false items)
  refine ⟨?_, h1.2.1, by simpa [run] using h1.2.2⟩
  simp only [run]
  rw [h1.1, h2.1, effects_erase]

example : (run genHandlers apEff relWorld {} [.sig .int, .eff (.user 0), .sig .term, .sig .term, .eff .history]).world
    = (run genHandlers apEff relWorld {} [.eff (.user 0), .eff .history]).world := by decide

theorem gen_flagged (items : List (Item ε)) : flagged genHandlers items = items.any isSig := by
  unfold flagged
  congr 1
  funext i
  cases i with
  | sig s => simp [isSig, (handlers_only_set_flag.1 s).2.1]
  | _ => simp [isSig]

/-- With the generated handlers and the generated tail of `main`: the exit status of a run without prompt guard is
    130 iff at least one signal event occurred and the command succeeded (`res = 0`); otherwise it is the command's
    own status. -/
theorem status_130_iff_signalled (ap : ε → ω → ω) (rel : ω → ω) (w : ω) (res : Nat) (items : List (Item ε))
    (hnp : ∀ i ∈ items, isPrompt i = false) :
    genStatus res (run genHandlers ap rel w items) = (if items.any isSig && res == 0 then 130 else res) := by
  obtain ⟨_, he, hf⟩ := signals_do_not_change_effects genHandlers gen_noExitAlways ap rel w items hnp
  unfold genStatus status
  rw [he, hf, gen_flagged]
  have := flag_checked_after_command
  simp [this.1, this.2.1]

/-- A command that fails by itself (status 1–3) reports that status, signalled or not. -/
theorem failed_command_keeps_its_status (ap : ε → ω → ω) (rel : ω → ω) (w : ω) (res : Nat) (hres : res ≠ 0)
    (items : List (Item ε)) (hnp : ∀ i ∈ items, isPrompt i = false) :
    genStatus res (run genHandlers ap rel w items) = res := by
  rw [status_130_iff_signalled ap rel w res items hnp]
  have : (res == 0) = false := by simp [hres]
  simp [this]

example : genStatus 3 (run genHandlers apEff relWorld {} [.eff (.user 0), .sig .term]) = 3 := by decide
example : genStatus 0 (run genHandlers apEff relWorld {} [.eff (.user 0), .sig .term]) = 130 := by decide
example : genStatus 0 (run genHandlers apEff relWorld {} [.eff (.user 0)]) = 0 := by decide

/-- Any postcondition of the signal-free run (tree complete, history entry written, lock released, no temp file
    left …) holds of every signalled run of the same program. -/
theorem signals_preserve_postconditions (ap : ε → ω → ω) (rel : ω → ω) (w : ω) (items : List (Item ε))
    (hnp : ∀ i ∈ items, isPrompt i = false) (Q : ω → Prop)
    (hq : Q (run genHandlers ap rel w (erase items)).world) :
    Q (run genHandlers ap rel w items).world := by
  rw [(signals_do_not_change_effects genHandlers gen_noExitAlways ap rel w items hnp).1]; exact hq

/-- `replace` asks "Apply these changes? [y/N]" without activating the prompt guard: in the model its program has no
    guard steps, so neither signal ever exits inside the handler there — the flag is stored, the process keeps
    waiting for the answer, performs (or declines) the operation and then ends with 130. -/
theorem unguarded_prompt_never_exits (ap : ε → ω → ω) (rel : ω → ω) (w : ω) (items : List (Item ε))
    (hnp : ∀ i ∈ items, isPrompt i = false) :
    (run genHandlers ap rel w items).exited = none ∧
    (run genHandlers ap rel w items).world = (run genHandlers ap rel w (erase items)).world :=
  ⟨(signals_do_not_change_effects genHandlers gen_noExitAlways ap rel w items hnp).2.1,
   (signals_do_not_change_effects genHandlers gen_noExitAlways ap rel w items hnp).1⟩

/-- SIGTERM events never exit inside the handler, prompt guard or not: a program *with* a guarded prompt that only
    ever receives SIGTERM performs all its effects (the process keeps waiting for the answer). -/
theorem sigterm_never_exits (ap : ε → ω → ω) (rel : ω → ω) (w : ω) (items : List (Item ε))
    (hterm : ∀ i ∈ items, ∀ s, i = .sig s → s = .term) :
    (run genHandlers ap rel w items).world = (run genHandlers ap rel w (erase items)).world ∧
    (run genHandlers ap rel w items).exited = none := by
  have hs : ∀ (p : Bool) (l : List (Item ε)), (∀ i ∈ l, ∀ s, i = .sig s → s = .term) → safe genHandlers p l = true := by
    intro p l
    induction l generalizing p with
    | nil => intro _; rfl
    | cons i r ih =>
      intro h
      have hr := fun p => ih p (fun j hj => h j (List.mem_cons_of_mem _ hj))
      cases i with
      | eff e => simpa [safe] using hr p
      | promptOn => simpa [safe] using hr true
      | promptOff => simpa [safe] using hr false
      | sig s =>
        have : s = .term := h _ List.mem_cons_self s rfl
        subst this
        have h3 := handlers_only_set_flag
        simp [safe, hr p, (h3.1 .term).1, h3.2.2.2.1]
  have h1 := runFrom_safe genHandlers ap rel items { world := w } rfl (hs false items hterm)
  have h2 := runFrom_safe genHandlers ap rel (erase items) { world := w } rfl (safe_erase genHandlers false items)
  refine ⟨?_, h1.2.1⟩
  simp only [run]
  rw [h1.1, h2.1, effects_erase]

-- the confirmation prompt ------------------------------------------------------------------------

/-- **Exit during the prompt performs `pre` and the lock release, nothing else.**  For every run of
    `pre ; prompt ; post` (signal events anywhere): if the process exited inside a handler, the world is `pre`
    applied, followed by what that handler does before it exits (release of the held locks, if it does that) — no
    effect of `post` happened — and the code is the one that handler has under the prompt guard; if it did not
    exit there, the world is the complete `pre ++ post`. -/
theorem prompt_exit_no_change (H : Handlers) (hH : NoExitAlways H) (ap : ε → ω → ω) (rel : ω → ω) (pre post : List ε)
    (items : List (Item ε)) :
    ∀ st : St ω, st.exited = none → st.prompt = false → erase items = withPrompt pre post →
      ((runFrom H ap rel st items).exited = none →
        (runFrom H ap rel st items).world = applyAll ap st.world (pre ++ post)) ∧
      (∀ c, (runFrom H ap rel st items).exited = some c →
        ∃ s, (H s).exitUnderPrompt = some c ∧
          (runFrom H ap rel st items).world = exitWorld rel (H s) (applyAll ap st.world pre)) := by
  induction items generalizing pre with
  | nil => intro st _ _ h; cases pre <;> simp [erase, withPrompt] at h
  | cons i r ih =>
    intro st he hp herase
    have hstep : ∀ st' : St ω, step H ap rel st i = st' → runFrom H ap rel st (i :: r) = runFrom H ap rel st' r := by
      intro st' h; simp [runFrom, List.foldl_cons, h]
    cases i with
    | sig s =>
      have ht : erase r = withPrompt pre post := by simpa [erase, isSig] using herase
      have h1 : step H ap rel st (.sig s) = (if (H s).setsFlag then { st with flag := true } else st) := by
        simp [step, he, handle_safe rel (H s) st (hH s) (Or.inl hp)]
      rw [hstep _ h1]
      cases hf : (H s).setsFlag with
      | true => simpa [hf] using ih pre { st with flag := true } he hp ht
      | false => simpa [hf] using ih pre st he hp ht
    | eff e =>
      cases pre with
      | nil => simp [erase, isSig, withPrompt] at herase
      | cons e' pre' =>
        have hh : e = e' ∧ erase r = withPrompt pre' post := by
          simpa [erase, isSig, withPrompt] using herase
        obtain ⟨rfl, ht⟩ := hh
        have h1 : step H ap rel st (.eff e) = { st with world := ap e st.world } := by simp [step, he]
        rw [hstep _ h1]
        have := ih pre' { st with world := ap e st.world } he hp ht
        simpa [applyAll] using this
    | promptOn =>
      cases pre with
      | cons e' pre' => simp [erase, isSig, withPrompt] at herase
      | nil =>
        have ht : erase r = .promptOff :: post.map .eff := by
          simpa [erase, isSig, withPrompt] using herase
        have h1 : step H ap rel st .promptOn = { st with prompt := true } := by simp [step, he]
        rw [hstep _ h1]
        have := in_prompt H hH ap rel post r { st with prompt := true } he rfl ht
        simpa [applyAll] using this
    | promptOff =>
      cases pre <;> simp [erase, isSig, withPrompt] at herase

/-- **The prompt exit releases the held locks** (generated handlers): an exit inside a handler during
    `pre ; prompt ; post` has status 130 and leaves the world at `rel (pre applied)` — `rel` being what
    `lock::release_held_locks()` does. -/
theorem prompt_exit_releases_held_locks (ap : ε → ω → ω) (rel : ω → ω) (pre post : List ε) (w : ω)
    (items : List (Item ε)) (herase : erase items = withPrompt pre post) (c : Nat)
    (hex : (run genHandlers ap rel w items).exited = some c) :
    c = 130 ∧ (run genHandlers ap rel w items).world = rel (applyAll ap w pre) := by
  obtain ⟨s, hs, hw⟩ :=
    (prompt_exit_no_change genHandlers gen_noExitAlways ap rel pre post items { world := w } rfl rfl herase).2 c hex
  have h3 := handlers_only_set_flag
  cases s with
  | int =>
    rw [h3.2.1] at hs
    refine ⟨by cases hs; rfl, ?_⟩
    simp only [run]; rw [hw]; simp [exitWorld, h3.2.2.1]
  | term => rw [h3.2.2.2.1] at hs; cases hs

/-- Corollary: every observation `user` of the world that neither the pre-prompt effects nor the lock release change
    (the user tree: before the prompt only the lock and the probe directory are touched) is exactly as it was. -/
theorem prompt_exit_user_tree_unchanged {τ : Type} (ap : ε → ω → ω) (rel : ω → ω) (user : ω → τ) (pre post : List ε)
    (hpre : ∀ e ∈ pre, ∀ w, user (ap e w) = user w) (hrel : ∀ w, user (rel w) = user w) (w : ω)
    (items : List (Item ε)) (herase : erase items = withPrompt pre post) (c : Nat)
    (hex : (run genHandlers ap rel w items).exited = some c) :
    user (run genHandlers ap rel w items).world = user w ∧ c = 130 := by
  obtain ⟨hc, hw⟩ := prompt_exit_releases_held_locks ap rel pre post w items herase c hex
  refine ⟨?_, hc⟩
  rw [hw, hrel]
  clear hw hex herase
  induction pre generalizing w with
  | nil => rfl
  | cons e r ih =>
    simp only [applyAll, List.foldl_cons]
    have h1 := ih (fun e' he' => hpre e' (List.mem_cons_of_mem _ he')) (ap e w)
    simp only [applyAll] at h1
    rw [h1, hpre e List.mem_cons_self]

-- the concrete command family and the full statement ----------------------------------------------------

/-- a command as the check sees it: its program over the concrete effects (one per traced call) and the status it
    ends with by itself -/
structure Cmd where
  prog : List (Item Eff)
  res : Nat
  deriving Repr

def final (c : Cmd) (w0 : World) : World := (run genHandlers apEff relWorld w0 c.prog).world

/-- the description is sane: run alone, the command releases the lock; if it reports success it has written its
    history entry -/
def Sane (c : Cmd) (w0 : World) : Prop :=
  (final c w0).lock = false ∧ (c.res = 0 → (final c w0).history = w0.history + 1)

/-- the shapes that exist: no guarded prompt at all (rename -y, apply, undo, redo, replace with or without -y), or
    `rename` without -y: lock acquisition and probe (no user-tree or history call), the guarded prompt, the rest -/
def Shape13 (c : Cmd) : Prop :=
  (∀ i ∈ c.prog, isPrompt i = false) ∨
  ∃ pre post, c.prog = withPrompt pre post ∧ ∀ e ∈ pre, e = .lockCreate ∨ e = .other

/-- what the property demands of a signalled run:
    exit inside the handler — status 130, no change at all, lock released;
    a command that succeeds by itself — the complete operation with its history entry, lock released, status 130;
    a command that fails by itself — exactly what it does and reports without the signal (whether *that* leaves a
    partial tree is C04's subject, not the signal's doing). -/
def Good (c : Cmd) (w0 : World) (r : St World) : Prop :=
  match r.exited with
  | some code => code = 130 ∧ r.world.user = w0.user ∧ r.world.history = w0.history ∧ r.world.lock = false
  | none =>
    if c.res = 0 then
      r.world.user = (final c w0).user ∧ r.world.history = w0.history + 1 ∧ r.world.lock = false ∧ genStatus c.res r = 130
    else r.world = final c w0 ∧ genStatus c.res r = c.res

instance (c : Cmd) (w0 : World) (r : St World) : Decidable (Good c w0 r) := by
  unfold Good
  split <;> infer_instance

/-- C13 at full strength: every sane command of an existing shape, every run with at least one signal event. -/
def C13_full : Prop :=
  ∀ (c : Cmd) (w0 : World) (items : List (Item Eff)), Shape13 c → Sane c w0 → erase items = c.prog →
    items.any isSig = true → Good c w0 (run genHandlers apEff relWorld w0 items)

theorem C13_full_holds : C13_full := by
  intro c w0 items hshape hsane herase hsig
  rcases hshape with hnp0 | ⟨pre, post, hprog, hpre⟩
  · -- no guarded prompt
    have hnp : ∀ i ∈ items, isPrompt i = false := by
      intro i hi
      cases i with
      | eff e => rfl
      | sig s => rfl
      | promptOn => exact hnp0 _ (by rw [← herase]; simp [erase, isSig, hi])
      | promptOff => exact hnp0 _ (by rw [← herase]; simp [erase, isSig, hi])
    obtain ⟨hw0, hex, _⟩ := signals_do_not_change_effects genHandlers gen_noExitAlways apEff relWorld w0 items hnp
    have hw : (run genHandlers apEff relWorld w0 items).world = final c w0 := by rw [hw0, herase]; rfl
    have hst := status_130_iff_signalled apEff relWorld w0 c.res items hnp
    unfold Good
    rw [hex]
    by_cases hr : c.res = 0
    · simp only [hr, if_true]
      refine ⟨by rw [hw], by rw [hw]; exact hsane.2 hr, by rw [hw]; exact hsane.1, ?_⟩
      rw [hr] at hst; rw [hst, hsig]; rfl
    · simp only [hr, if_false]
      refine ⟨hw, ?_⟩
      rw [hst]
      have : (c.res == 0) = false := by simp [hr]
      simp [this]
  · -- lock/probe ; guarded prompt ; rest
    have herase' : erase items = withPrompt pre post := by rw [herase, hprog]
    have hmain := prompt_exit_no_change genHandlers gen_noExitAlways apEff relWorld pre post items
      { world := w0 } rfl rfl herase'
    -- the signal-free run performs pre ++ post
    have hfin : final c w0 = applyAll apEff w0 (pre ++ post) := by
      have hs := runFrom_safe genHandlers apEff relWorld (withPrompt pre post) { world := w0 } rfl
        (safe_noSig genHandlers _ (by
          intro i hi
          simp only [withPrompt, List.mem_append, List.mem_map, List.mem_cons, List.not_mem_nil, or_false] at hi
          rcases hi with (⟨e, _, rfl⟩ | rfl | rfl) | ⟨e, _, rfl⟩ <;> rfl) false)
      unfold final run
      rw [hprog, hs.1, effects_withPrompt]
    unfold Good
    cases hex : (run genHandlers apEff relWorld w0 items).exited with
    | some code =>
      obtain ⟨hc, hw⟩ := prompt_exit_releases_held_locks apEff relWorld pre post w0 items herase' code hex
      have hk := pre_keeps_user pre hpre w0
      have hrl := relWorld_facts (applyAll apEff w0 pre)
      simp only
      rw [hw]
      exact ⟨hc, by rw [hrl.2.1, hk.1], by rw [hrl.2.2, hk.2], hrl.1⟩
    | none =>
      have hw : (run genHandlers apEff relWorld w0 items).world = final c w0 := by
        rw [hfin]; exact hmain.1 hex
      have hflag := runFrom_flag genHandlers gen_noExitAlways (fun s => (handlers_only_set_flag.1 s).2.1)
        apEff relWorld items { world := w0 } rfl hex
      have hflag' : (run genHandlers apEff relWorld w0 items).flag = true := by
        simp only [run]; rw [hflag, hsig]; rfl
      have hst : genStatus c.res (run genHandlers apEff relWorld w0 items) = (if c.res = 0 then 130 else c.res) := by
        unfold genStatus status
        rw [hex, hflag']
        have := flag_checked_after_command
        rw [this.1, this.2.1]
        by_cases hr : c.res = 0 <;> simp [hr]
      simp only
      by_cases hr : c.res = 0
      · rw [hr] at hst
        simp only [hr, if_true]
        refine ⟨by rw [hw], by rw [hw]; exact hsane.2 hr, by rw [hw]; exact hsane.1, ?_⟩
        rw [hst]; rfl
      · simp only [hr, if_false]
        refine ⟨hw, ?_⟩
        rw [hst]; simp [hr]

-- concrete instances (non-vacuity) and the repaired defects --------------------------------------------------

/-- `rename -y` on one edited file and one rename, as traced: lock, probe, edits, history, unlock -/
def renameYes : Cmd :=
  { prog := [.eff .other, .eff .lockCreate, .eff .other, .eff (.user 0), .eff (.user 1), .eff .other, .eff .history,
             .eff .other, .eff .lockRemove],
    res := 0 }

example : Shape13 renameYes ∧ Sane renameYes {} := by
  refine ⟨Or.inl (by decide), by unfold Sane final; decide⟩

example : Good renameYes {} (run genHandlers apEff relWorld {} (deliverAt renameYes.prog 4 .int 3)) := by
  decide

/-- `rename` without `-y`: the same with the confirmation prompt after lock and probe -/
def renameAsk : Cmd :=
  { prog := withPrompt [.other, .lockCreate, .other] [.user 0, .user 1, .other, .history, .other, .lockRemove],
    res := 0 }

example : Shape13 renameAsk ∧ Sane renameAsk {} := by
  refine ⟨Or.inr ⟨_, _, rfl, by decide⟩, by unfold Sane final; decide⟩

def promptIntRun : St World := run genHandlers apEff relWorld {} (deliverAt renameAsk.prog 4 .int 1)

/-- SIGINT while the confirmation prompt is active: exit 130 inside the handler, nothing changed, and the lock file
    is removed by `release_held_locks` (one more traced call after the three pre-prompt ones). -/
theorem prompt_exit_releases_lock :
    erase (deliverAt renameAsk.prog 4 .int 1) = renameAsk.prog ∧
    promptIntRun.exited = some 130 ∧ promptIntRun.world.user = [] ∧ promptIntRun.world.history = 0 ∧
    promptIntRun.world.lock = false ∧ promptIntRun.world.calls = 4 ∧ Good renameAsk {} promptIntRun := by
  refine ⟨by decide, by decide, by decide, by decide, by decide, by decide, ?_⟩
  decide

/-- SIGTERM at the same point only stores the flag; once the prompt is answered the operation completes, the lock
    is released and the status is 130. -/
theorem sigterm_at_prompt_completes :
    Good renameAsk {} (run genHandlers apEff relWorld {} (deliverAt renameAsk.prog 4 .term 1)) := by
  decide

/-- **Before d01db83.**  With the handler table as it was (exit under the prompt without releasing the held locks)
    the same run leaves the lock file behind. -/
theorem before_fix_prompt_lock_left :
    (run oldHandlers apEff relWorld {} (deliverAt renameAsk.prog 4 .int 1)).exited = some 130 ∧
    (run oldHandlers apEff relWorld {} (deliverAt renameAsk.prog 4 .int 1)).world.lock = true ∧
    (run oldHandlers apEff relWorld {} (deliverAt renameAsk.prog 4 .int 1)).world.user = [] := by decide

/-- `apply` of a stale plan: the first file is edited, the second does not match, the command stops with status 3
    (C04: the content edit is not rolled back) -/
def staleApply : Cmd := { prog := [.eff .other, .eff (.user 0), .eff .other], res := 3 }

def staleTermRun : St World := run genHandlers apEff relWorld {} (deliverAt staleApply.prog 1 .term 1)

/-- A command that fails by itself and received a signal: same world, same status 3 as without the signal. -/
theorem failed_command_reports_failure :
    Shape13 staleApply ∧ Sane staleApply {} ∧ genStatus staleApply.res staleTermRun = 3 ∧
    staleTermRun.world = final staleApply {} ∧ Good staleApply {} staleTermRun := by
  refine ⟨Or.inl (by decide), by unfold Sane final; decide, by decide, by decide, ?_⟩
  decide

/-- **Before 279b830.**  With the flag tested before the result (`FlagScope.all`) the same run reports 130 over the
    partially changed tree. -/
theorem before_fix_failed_reports_130 :
    status .all 130 staleApply.res staleTermRun = 130 ∧ staleTermRun.world.user = [0] ∧
    staleTermRun.world.history = 0 := by decide

end C13
