import RModel.Props.C19a
/- C19, part f (kernel evaluation of one slice of the table; statements restated in Props/C19.lean) -/
namespace C19.Part
open Output C19

theorem status_zero_iff_success :
    (rows.all fun r => check r fun o => o.exitZero == succeeded r o) = true := by decide +kernel

end C19.Part
