import RModel.Props.C19a
/- C19, part f (kernel evaluation of one slice of the table; statements restated in Props/C19.lean) -/
namespace C19.Part
open Output C19

theorem status_zero_iff_success_partial :
    (rows.all fun r => check r fun o => replaceEarlyReturn r || (o.exitZero == succeeded r o)) = true := by decide +kernel

example : (rows.filter fun r => !replaceEarlyReturn r).length > 500 := by decide +kernel

end C19.Part
