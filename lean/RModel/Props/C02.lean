import RModel.Base.Lit
import RModel.Model.Edits
import RModel.Model.Apply
import RModel.Lemmas.Edits
/-
  C02 — Apply does exactly what the plan says and nothing else.   (property theorems only)

  Full statement (kept visible):  for every plan the planner produces and the tree it was
  produced from, `applyPlan` succeeds and yields `moveAll (spliceAll tree)`.
  Proved here:
   * content: for every file and every consistent edit list the back-to-front loop of
     `apply_content_edits_with_content` equals the left-to-right specification (all sizes);
   * the guard is necessary (kernel-evaluated witness) and satisfiable (non-vacuity);
   * editing one file leaves every other node alone.
-/
namespace C02
open Edits

/-- Content phase, one file: any number of matches, any lengths, multi-byte text. -/
theorem applyEdits_eq_spec (c : Bytes) (es : List Edit) (h : Consistent c 0 es) :
    applyEdits c es = .ok (spec c 0 es) :=
  Edits.applyEdits_eq_spec c es h

/-- the result never depends on anything but the plan: positions before the first edit are copied -/
theorem applyEdits_prefix (c : Bytes) (off : Nat) (es : List Edit) (h : Consistent c off es) :
    applyEdits c es = .ok (c.take off ++ spec c off es) :=
  Edits.applyEdits_prefix c off es h

/-- no edits: the file is unchanged -/
theorem applyEdits_nil (c : Bytes) : applyEdits c [] = .ok c := by
  simp [applyEdits, applyEditsG, runG]

/-- Non-vacuity: a two-edit plan over multi-byte text satisfies the guard … -/
example : Consistent b!"é foo_bar; fooBar" 0
    [{ before := b!"foo_bar", after := b!"baz_qux_x", start := 3, stop := 10 },
     { before := b!"fooBar", after := b!"b", start := 12, stop := 18 }] := by decide

/-- … and evaluates as the specification says. -/
example : applyEdits b!"é foo_bar; fooBar"
    [{ before := b!"foo_bar", after := b!"baz_qux_x", start := 3, stop := 10 },
     { before := b!"fooBar", after := b!"b", start := 12, stop := 18 }] = .ok b!"é baz_qux_x; b" := by decide

/-- The guard is needed: with the edits in descending order the loop corrupts the file
    (it validates against the original, so it does not notice), while the ascending order is right. -/
theorem applyEdits_unsorted_witness :
    applyEdits b!"aa bb" [{ before := b!"bb", after := b!"X", start := 3, stop := 5 },
                          { before := b!"aa", after := b!"YYYY", start := 0, stop := 2 }]
      = .ok b!"YYYXbb" ∧
    applyEdits b!"aa bb" [{ before := b!"aa", after := b!"YYYY", start := 0, stop := 2 },
                          { before := b!"bb", after := b!"X", start := 3, stop := 5 }]
      = .ok b!"YYYY X" := by decide

/-- an offset inside a character (or past the end) is reported as a stale plan: a clean failure, nothing written
    (repo commit 29e3f64; before it the unchecked slice panicked) -/
theorem applyEdits_midchar_mismatch :
    applyEdits b!"é" [{ before := b!"", after := b!"x", start := 1, stop := 1 }] = .error .mismatch ∧
    applyEditsOld b!"é" [{ before := b!"", after := b!"x", start := 1, stop := 1 }] = .error .panic := by decide

/-- the loop as it is never panics: every failure is a reported mismatch — for all contents and edit lists -/
theorem applyEdits_never_panics (c : Bytes) (es : List Edit) : applyEdits c es ≠ .error .panic := by
  suffices h : ∀ (l : List Edit) (m : Bytes), runG true c m l ≠ .error .panic from h _ _
  intro l
  induction l with
  | nil => intro m h; simp [runG] at h
  | cons e l ih =>
    intro m h
    simp only [runG] at h
    cases hs : stepG true c m e with
    | error x =>
      rw [hs] at h
      simp only [Except.error.injEq] at h
      subst h
      unfold stepG at hs
      split at hs
      · simp at hs
      · split at hs
        · simp at hs
        · split at hs <;> simp at hs
    | ok m' =>
      rw [hs] at h
      exact ih m' h

/-- stale text is reported as a mismatch and nothing is written -/
theorem applyEdits_stale_mismatch :
    applyEdits b!"foo" [{ before := b!"bar", after := b!"x", start := 0, stop := 3 }] = .error .mismatch := by decide

open Fs in
theorem find_map_key (f : Path × Node → Path × Node) (hf : ∀ e, (f e).1 = e.1) (t : Tree) (q : Path) :
    (t.map f).find? (fun e => e.1 == q) = (t.find? (fun e => e.1 == q)).map f := by
  induction t with
  | nil => rfl
  | cons e t ih =>
    simp only [List.map_cons, List.find?_cons, hf]
    cases (e.1 == q) with
    | true => rfl
    | false => exact ih

open Fs in
/-- Editing one file leaves every other path of the tree exactly as it was. -/
theorem setContent_other (t : Tree) (p q : Path) (c : Bytes) (h : q ≠ p) :
    lookup (setContent t p c) q = lookup t q := by
  unfold lookup setContent
  rw [find_map_key]
  · cases hf : List.find? (fun e => e.1 == q) t with
    | none => rfl
    | some e =>
      have hq : e.1 = q := by
        have := List.find?_some hf
        simpa using this
      have hp : ¬ (e.1 = p) := by rw [hq]; exact h
      simp [hp]
  · intro e
    by_cases hp : (e.1 == p) = true
    · rw [if_pos hp]; cases e.2 <;> rfl
    · rw [if_neg hp]

end C02
