import RModel.Lemmas.RenamePhase
import RModel.Model.Undo
/-
  Lemmas for C01 `undo_paths`: one `rename(to, from)` of undo STEP 1 removes exactly one rename from the
  reference map (`moveAll (x :: R) t  ↦  moveAll R t`), provided no remaining rename has a source that is a proper
  prefix of `x`'s source; the loops of STEP 1 process the plan in such an order.
-/
namespace UndoLemmas
open Fs Apply RenamePhase Undo

def mp (r : Ren) : Mapping := (r.path, r.newPath)

/-- no member of `R` has a source that is a proper prefix of `p` -/
def NoProperPrefix (R : List Ren) (p : Path) : Prop := ∀ y ∈ R, pre y.path p = true → y.path = p

structure Guards (t : Tree) (R : List Ren) : Prop where
  lo : LastOnly R
  ds : Distinct R
  wf : GTreeWF t
  ko : GKindsOk t R
  df : GDestFree t R

theorem Guards.of_mem {t : Tree} {R R' : List Ren} (g : Guards t R) (hd : Distinct R')
    (hs : ∀ r ∈ R', r ∈ R) : Guards t R' where
  lo := fun r hr => g.lo r (hs r hr)
  ds := hd
  wf := g.wf
  ko := fun r hr => g.ko r (hs r hr)
  df := fun r hr => ⟨(g.df r (hs r hr)).1, fun r' hr' => (g.df r (hs r hr)).2 r' (hs r' hr')⟩

theorem Guards.tail {t : Tree} {x : Ren} {R : List Ren} (g : Guards t (x :: R)) : Guards t R :=
  g.of_mem (List.pairwise_cons.1 g.ds).2 (fun _ h => List.mem_cons_of_mem _ h)

theorem newName_cons_ne (x : Ren) (R : List Ren) {u : Path} (h : x.path ≠ u) :
    newName (x :: R) u = newName R u := by
  unfold newName
  rw [List.find?_cons]
  have : (x.path == u) = false := by simpa using h
  rw [this]

theorem key_of_source {t : Tree} {R : List Ren} (g : Guards t R) {r : Ren} (hr : r ∈ R) :
    ∃ e ∈ t, e.1 = r.path := by
  have := (g.ko r hr).1
  cases hl : lookup t r.path with
  | none => rw [hl] at this; cases this
  | some n => exact mem_of_lookup_some hl

/-- one step of undo STEP 1 -/
theorem undo_step (t : Tree) (x : Ren) (R' : List Ren) (g : Guards t (x :: R'))
    (hnp : NoProperPrefix R' x.path) :
    rename (moveAll (x :: R') t) x.newPath x.path = .ok (moveAll R' t) ∧
    lookup (moveAll (x :: R') t) x.newPath = lookup t x.path := by
  have hxR : x ∈ x :: R' := List.mem_cons_self
  obtain ⟨par, a, c, hp, hn⟩ := lastOnly_shape g.lo hxR
  have hdd := g.df.distinctDests g.lo
  have hfk := fresh_keys g.wf g.lo g.df
  obtain ⟨ex, hex, hexp⟩ := key_of_source g hxR
  have hfx : Fresh (x :: R') x.path := by rw [← hexp]; exact hfk ex hex
  have hfpar : Fresh (x :: R') par := hfx.prefix (by rw [hp]; exact pre_append par [a])
  have hnotx : ∀ r ∈ R', r.path ≠ x.path := fun r hr => ((List.pairwise_cons.1 g.ds).1 r hr).symm
  -- no source is a prefix of the parent
  have hparfree : ∀ r ∈ x :: R', pre r.path par = false := by
    intro r hr
    cases h : pre r.path par with
    | false => rfl
    | true =>
      exfalso
      have hlen := pre_length h
      rcases List.mem_cons.1 hr with h1 | h1
      · subst h1; rw [hp] at hlen; simp at hlen; omega
      · have h2 : pre r.path x.path = true := pre_trans h (by rw [hp]; exact pre_append par [a])
        have := hnp r h1 h2
        rw [this, hp] at hlen; simp at hlen; omega
  have F1 : finalPath (x :: R') par = par := finalPath_eq_self _ _ hparfree
  have F1' : finalPath R' par = par :=
    finalPath_eq_self _ _ (fun r hr => hparfree r (List.mem_cons_of_mem _ hr))
  have hnn : newName (x :: R') (par ++ [a]) = some c := by
    rw [← hp, newName_of_mem g.ds hxR, hn, List.getLast?_concat]
  have F2 : finalPath (x :: R') x.path = x.newPath := by
    rw [hp, finalPath_snoc, F1, hnn, hn]; rfl
  -- source
  have F3 : lookup (moveAll (x :: R') t) x.newPath = lookup t x.path := by
    rw [← F2, ← hexp]; exact lookup_moveAll g.lo g.wf g.df hex
  obtain ⟨na, hna⟩ := lookup_some_of_mem t x.path ⟨ex, hex, hexp⟩
  refine ⟨?_, F3⟩
  -- parent of the destination
  have F4 : parentOk (moveAll (x :: R') t) x.path = .ok () := by
    unfold parentOk
    have hdl : x.path.dropLast = par := by rw [hp]; simp
    rw [hdl]
    by_cases hpar : par = []
    · subst hpar; rfl
    · have hne : par.isEmpty = false := by
        cases h : par.isEmpty with
        | false => rfl
        | true => exact absurd (List.isEmpty_iff.1 h) hpar
      have hd := g.wf.2.2 ex hex (by rw [hexp, hdl]; exact hpar)
      rw [hexp, hdl] at hd
      obtain ⟨m, hm⟩ := isDirNode_iff.1 hd
      obtain ⟨ep, hep, hepp⟩ := mem_of_lookup_some hm
      have : lookup (moveAll (x :: R') t) par = some (.dir m) := by
        rw [← hm]
        have := lookup_moveAll g.lo g.wf g.df hep
        rw [hepp, F1] at this
        exact this
      simp [hne, this]
  -- destination free
  have F6 : x.newPath ≠ x.path → lookup (moveAll (x :: R') t) x.path = none := by
    intro hne
    apply lookup_map_none
    intro e he heq
    have hlen : e.1.length = par.length + 1 := by
      have := congrArg List.length heq
      rw [finalPath_length, hp] at this
      simpa using this
    have hne0 : e.1 ≠ [] := by intro h0; rw [h0] at hlen; simp at hlen
    obtain ⟨y, hy⟩ := eq_dropLast_snoc e.1 hne0
    rw [hy, finalPath_snoc, hp] at heq
    have hinj := List.append_inj' heq (by simp)
    have hq' : e.1.dropLast = par := by
      apply finalPath_inj g.lo hdd _ hfpar
      · rw [F1]; exact hinj.1
      · exact (hfk e he).prefix (pre_iff.2 ⟨[y], hy⟩)
    rw [hq'] at hinj
    have hca : c ≠ a := by
      intro h; apply hne; rw [hn, hp, h]
    cases hnm : newName (x :: R') (par ++ [y]) with
    | none =>
      rw [hnm] at hinj
      have hya : y = a := by simpa using hinj.2
      rw [hya, hnn] at hnm; cases hnm
    | some c' =>
      rw [hnm] at hinj
      have hca' : c' = a := by simpa using hinj.2
      obtain ⟨d, hd, hdp, hdn⟩ := newName_lastOnly g.lo hnm
      have hdx : d.newPath = x.path := by rw [hdn, hca', hp]
      have := hfx d hd (by rw [hdx]; exact pre_refl _)
      rw [hdx] at this
      rw [← this, hp] at hdp
      have hya : a = y := by simpa using (List.append_inj' hdp (by simp)).2
      rw [← hya, hnn] at hnm
      have : c = c' := by simpa using hnm
      exact hca (this.trans hca')
  have hlen5 : x.newPath.length = x.path.length := by rw [hn, hp]; simp
  rw [rename_move _ _ _ na (F3.trans hna) F4 hlen5 F6]
  congr 1
  simp only [moveAll, List.map_map]
  apply List.map_congr_left
  intro e he
  simp only [Function.comp, Prod.mk.injEq, and_true]
  -- the key algebra
  cases hpre : pre x.path e.1 with
  | true =>
    obtain ⟨s, hs⟩ := pre_iff.1 hpre
    have hgo : go (x :: R') x.path s = go R' x.path s := by
      apply go_congr
      intro s1 s2 _ hne1
      apply newName_cons_ne
      exact (length_ne_of_append_ne_nil hne1).symm
    have hnR' : newName R' (par ++ [a]) = none := by
      apply newName_none
      intro r hr; rw [← hp]; exact hnotx r hr
    rw [hs, finalPath_append, finalPath_append, F2, hgo]
    conv => rhs; rw [hp, finalPath_snoc, F1', hnR']
    rw [subst_append, hp]; rfl
  | false =>
    have hcongr : finalPath (x :: R') e.1 = finalPath R' e.1 := by
      apply finalPath_congr
      intro u hu
      apply newName_cons_ne
      intro h; subst h; rw [hu] at hpre; cases hpre
    rw [← hcongr]
    apply subst_of_not_pre
    cases h : pre x.newPath (finalPath (x :: R') e.1) with
    | false => rfl
    | true =>
      rw [← F2] at h
      have := pre_of_pre_finalPath g.lo hdd hfx (hfk e he) h
      rw [this] at hpre; cases hpre

/-- a loop of undo STEP 1 over `S`, the renames `K` staying in force -/
theorem renameBack_loop (t : Tree) (K : List Ren) : ∀ (S : List Ren), Guards t (S ++ K) →
    S.Pairwise (fun x y => pre y.path x.path = true → y.path = x.path) →
    (∀ x ∈ S, NoProperPrefix K x.path) →
    renameBack (moveAll (S ++ K) t) (S.map mp) = (moveAll K t, none) := by
  intro S
  induction S with
  | nil => intro _ _ _; rfl
  | cons x S ih =>
    intro g hord hK
    have hc := List.pairwise_cons.1 hord
    have hnp : NoProperPrefix (S ++ K) x.path := by
      intro y hy hpre
      rcases List.mem_append.1 hy with h | h
      · exact hc.1 y h hpre
      · exact hK x List.mem_cons_self y h hpre
    obtain ⟨h1, h2⟩ := undo_step t x (S ++ K) g hnp
    obtain ⟨ex, hex, hexp⟩ := key_of_source g (List.mem_cons_self (a := x) (l := S ++ K))
    obtain ⟨na, hna⟩ := lookup_some_of_mem t x.path ⟨ex, hex, hexp⟩
    have hex2 : guardExists (moveAll (x :: (S ++ K)) t) x.newPath = true := by
      unfold guardExists exists_
      rw [h2.trans hna]; simp
    have := ih g.tail hc.2 (fun y hy => hK y (List.mem_cons_of_mem _ hy))
    unfold renameBack at this ⊢
    simp only [List.map_cons, List.cons_append, mp, renameBackWith, hex2, if_true, h1]
    exact this

-- sorting: `sortM` on mappings is `sortBy` on the renames ----------------------------------------------

theorem insertM_map (le : Mapping → Mapping → Bool) (x : Ren) (l : List Ren) :
    insertM le (mp x) (l.map mp) = (insertBy (fun a b => le (mp a) (mp b)) x l).map mp := by
  induction l with
  | nil => rfl
  | cons y ys ih =>
    simp only [List.map_cons, insertM, insertBy]
    split
    · rfl
    · rw [ih]; rfl

theorem sortM_map (le : Mapping → Mapping → Bool) (l : List Ren) :
    sortM le (l.map mp) = (sortBy (fun a b => le (mp a) (mp b)) l).map mp := by
  induction l with
  | nil => rfl
  | cons x xs ih => simp only [List.map_cons, sortM, sortBy, ih, insertM_map]

theorem pairwise_of_forall {α : Type _} {R : α → α → Prop} (l : List α) (h : ∀ a ∈ l, ∀ b ∈ l, R a b) :
    l.Pairwise R := by
  induction l with
  | nil => exact List.Pairwise.nil
  | cons x xs ih =>
    refine List.pairwise_cons.2 ⟨fun y hy => h x List.mem_cons_self y (List.mem_cons_of_mem _ hy), ?_⟩
    exact ih (fun a ha b hb => h a (List.mem_cons_of_mem _ ha) b (List.mem_cons_of_mem _ hb))

theorem finalPath_perm {l1 l2 : List Ren} (hd : Distinct l1) (p : List.Perm l1 l2) (q : Path) :
    finalPath l2 q = finalPath l1 q :=
  finalPath_done_eq l1 l2 hd (Distinct.perm p hd) (fun _ h => p.mem_iff.2 h) q (fun _ h _ => p.mem_iff.1 h)

theorem moveAll_perm {l1 l2 : List Ren} (hd : Distinct l1) (p : List.Perm l1 l2) (t : Tree) :
    moveAll l2 t = moveAll l1 t := by
  simp only [moveAll, finalPath_perm hd p]

theorem lastOnly_length {R : List Ren} (h : LastOnly R) {r : Ren} (hr : r ∈ R) :
    r.newPath.length = r.path.length := by
  obtain ⟨par, a, c, hp, hn⟩ := lastOnly_shape h hr
  rw [hp, hn]; simp

/-- the adjustment loop changes nothing under the guards -/
theorem adjust_noop {t : Tree} {rs : List Ren} (g : Guards t rs) (dm : List Mapping)
    (hdm : ∀ d ∈ dm, ∃ x ∈ rs, x.kind = .dir ∧ d = mp x) {r : Ren} (hr : r ∈ rs) (hk : r.kind = .file) :
    adjust dm r = mp r := by
  unfold adjust
  have key : ∀ (l : List Mapping), (∀ d ∈ l, ∃ x ∈ rs, x.kind = .dir ∧ d = mp x) →
      l.foldl (fun (acc : Mapping) d =>
        let acc1 : Mapping := if pre d.2 r.newPath then (acc.1, d.1 ++ r.newPath.drop d.2.length) else acc
        if pre d.1 r.path then (r.path, acc1.2) else acc1) (r.path, r.newPath) = (r.path, r.newPath) := by
    intro l
    induction l with
    | nil => intro _; rfl
    | cons d l ih =>
      intro hl
      obtain ⟨x, hx, hxk, hdx⟩ := hl d List.mem_cons_self
      simp only [List.foldl_cons]
      have hd1 : d.1 = x.path := by rw [hdx]; rfl
      have hd2 : d.2 = x.newPath := by rw [hdx]; rfl
      -- a directory destination that is a prefix of a file destination is an identity rename
      have h2 : pre d.2 r.newPath = true → d.1 ++ r.newPath.drop d.2.length = r.newPath := by
        rw [hd1, hd2]
        intro hpre
        have hid : x.newPath = x.path := by
          obtain ⟨er, her, herp⟩ := key_of_source g hr
          have hfr : Fresh rs r.path := by rw [← herp]; exact fresh_keys g.wf g.lo g.df er her
          obtain ⟨par, a, c, hp, hn⟩ := lastOnly_shape g.lo hr
          by_cases hlen : x.newPath.length ≤ par.length
          · apply hfr x hx
            obtain ⟨s, hs⟩ := pre_iff.1 hpre
            rw [hn] at hs
            have : pre x.newPath par = true := by
              have h1 : par.take x.newPath.length = x.newPath := by
                have h0 := congrArg (List.take x.newPath.length) hs
                rw [List.take_append_of_le_length hlen, List.take_left' rfl] at h0
                exact h0
              have h3 := (List.take_append_drop x.newPath.length par).symm
              rw [h1] at h3
              exact pre_iff.2 ⟨_, h3⟩
            exact pre_trans this (by rw [hp]; exact pre_append par [a])
          · exfalso
            have hl2 := pre_length hpre
            rw [hn] at hl2
            have heq : x.newPath = r.newPath := by
              apply pre_eq_of_length hpre
              rw [hn]; simp at hl2 ⊢; omega
            have hpp := (g.df.distinctDests g.lo) x hx r hr heq
            have hkx := ((g.ko x hx).2).1 hxk
            have hkr := (g.ko r hr).2
            rw [hpp] at hkx
            have := hkr.2 hkx
            rw [hk] at this; cases this
        obtain ⟨s, hs⟩ := pre_iff.1 hpre
        rw [← hid]
        conv => lhs; rw [hs]
        simp
        exact hs.symm
      have hstep : (let acc1 : Mapping := if pre d.2 r.newPath then ((r.path, r.newPath).1, d.1 ++ r.newPath.drop d.2.length)
              else (r.path, r.newPath)
            if pre d.1 r.path then (r.path, acc1.2) else acc1) = (r.path, r.newPath) := by
        by_cases c1 : pre d.2 r.newPath = true <;> by_cases c2 : pre d.1 r.path = true <;> simp [c1, c2]
        · exact h2 c1
        · exact h2 c1
      rw [hstep]
      exact ih (fun d' hd' => hl d' (List.mem_cons_of_mem _ hd'))
  exact key dm hdm

end UndoLemmas
