import RModel.Model.Lock
import RModel.Lemmas.Lock
/-
  C12 helper lemmas for the GUARDED shape of `lock.rs` (`Lock.gstep`): acquire's and release's
  inspect-then-change sequences run under an exclusive `flock` on `.renamify`, the lock file is published
  complete, and a lock is removed as stale/orphaned only if its pid is dead.

  `GInv` is an inductive invariant that needs NO hypothesis about the lock file that is present initially, about
  the clock, about the number of processes or about processes leaving: it holds in every state of every
  schedule from every initial lock-file state, and it implies mutual exclusion.
-/
namespace Lock

/-- content that is not the lock of a live process -/
def Removable (s : State) (c : Content) : Prop :=
  c = .empty ∨ c = .garbage ∨ c = .invalid ∨ ∃ pid ts, c = .pidts pid ts ∧ s.alive pid = false

structure GInv (s : State) : Prop where
  guarded : s.guarded = true
  needsDead : s.staleNeedsDead = true
  idle : ∀ p, s.n ≤ p → s.pc p = .start
  liveness : ∀ p, p < s.n → (s.pc p).terminal = false → s.alive (pidOf p) = true
  /-- whoever is inside a guarded sequence holds the guard … -/
  inSect : ∀ p, (s.pc p).sect = true → s.guard = some p
  /-- … and the guard is held only from inside one (or by a Drop that has just taken it) -/
  guardBy : ∀ p, s.guard = some p → p < s.n ∧ ((s.pc p).sect = true ∨ s.pc p = .dropCheck)
  noCreated : ∀ p ts, s.pc p ≠ .created ts
  /-- what the process inside the sequence has seen is still true: nobody else can touch the lock file -/
  opened : ∀ p i, s.pc p = .opened i → s.cell = some i
  read : ∀ p c, s.pc p = .readDone c → ∃ i, s.cell = some i ∧ (s.files i = c ∨ (s.files i = .invalid ∧ c = .garbage))
  pending : ∀ p w, s.pc p = .unlinkPending w → ∃ i, s.cell = some i ∧ Removable s (s.files i)
  /-- an owner's lock file is the one at the lock path and names the owner -/
  owners : ∀ o, (s.pc o).owns = true → s.cell = some (inoOf o) ∧ ∃ ts, s.files (inoOf o) = .pidts (pidOf o) ts
  /-- a lock file other than the one present initially belongs to a current owner: when nobody owns the lock,
      the path is empty (or still holds the initial file) -/
  linked : ∀ i, s.cell = some i → i ≠ 0 → ∃ o, i = inoOf o ∧ (s.pc o).owns = true
  notStolen : s.stolen = false

theorem Removable.of_alive_eq {s s' : State} {c : Content} (h : Removable s c)
    (ha : ∀ pid, s.alive pid = false → s'.alive pid = false) : Removable s' c := by
  rcases h with h | h | h | ⟨pid, ts, hc, hd⟩
  · exact Or.inl h
  · exact Or.inr (Or.inl h)
  · exact Or.inr (Or.inr (Or.inl h))
  · exact Or.inr (Or.inr (Or.inr ⟨pid, ts, hc, ha pid hd⟩))

/-- with "stale needs dead", the decision asks for an unlink only of content that no live process owns -/
theorem decide_pending_removable {d sat : Bool} {ab : Abandon} {now : Nat} {alive : Nat → Bool} {c : Content}
    {w : Why} (h : decide' d sat true ab now alive c = .unlinkPending w) :
    c = .empty ∨ c = .garbage ∨ c = .invalid ∨ ∃ pid ts, c = .pidts pid ts ∧ alive pid = false := by
  cases c with
  | empty => exact Or.inl rfl
  | garbage => exact Or.inr (Or.inl rfl)
  | invalid => exact Or.inr (Or.inr (Or.inl rfl))
  | pidts pid ts =>
    refine Or.inr (Or.inr (Or.inr ⟨pid, ts, rfl, ?_⟩))
    cases hal : alive pid with
    | false => rfl
    | true => simp [decide', hal] at h

/-- an owner is a scheduled, live process -/
theorem GInv.owner_alive {s : State} (h : GInv s) {o : Nat} (ho : (s.pc o).owns = true) :
    o < s.n ∧ s.alive (pidOf o) = true := by
  have hn : o < s.n := by
    apply Nat.lt_of_not_le
    intro hle
    rw [h.idle o hle] at ho; cases ho
  exact ⟨hn, h.liveness o hn (owns_not_terminal ho)⟩

/-- removable content is not an owner's -/
theorem GInv.removable_not_owned {s : State} (h : GInv s) {i : Nat} (hcell : s.cell = some i)
    (hr : Removable s (s.files i)) : ∀ o, (s.pc o).owns = false := by
  intro o
  cases ho : (s.pc o).owns with
  | false => rfl
  | true =>
    obtain ⟨hc, ts, hf⟩ := h.owners o ho
    rw [hcell] at hc
    cases hc
    rw [hf] at hr
    rcases hr with hr | hr | hr | ⟨pid, ts', hc', hd⟩
    · cases hr
    · cases hr
    · cases hr
    · cases hc'
      rw [(h.owner_alive ho).2] at hd; cases hd

/-- move of the guard holder `p` inside its acquire sequence (not an owner before or after) -/
theorem GInv.sectUpdate {s : State} (h : GInv s) (p : Nat) (v : Pc) (hp : p < s.n)
    (hg : s.guard = some p) (hold : (s.pc p).owns = false) (hpt : (s.pc p).terminal = false)
    (hvs : v.sect = true) (hvo : v.owns = false) (hvt : v.terminal = false)
    (hvc : ∀ ts, v ≠ .created ts)
    (hop : ∀ i, v = .opened i → s.cell = some i)
    (hrd : ∀ c, v = .readDone c → ∃ i, s.cell = some i ∧ (s.files i = c ∨ (s.files i = .invalid ∧ c = .garbage)))
    (hpe : ∀ w, v = .unlinkPending w → ∃ i, s.cell = some i ∧ Removable s (s.files i)) :
    GInv { s with pc := upd s.pc p v } := by
  constructor
  · exact h.guarded
  · exact h.needsDead
  · intro q hq
    have hqp : q ≠ p := by intro e; subst e; exact absurd hp (Nat.not_lt.mpr hq)
    show upd s.pc p v q = .start
    rw [upd_other _ _ _ _ hqp]; exact h.idle q hq
  · intro q hq hqt
    by_cases hqp : q = p
    · subst hqp; exact h.liveness q hq hpt
    · have hqt' : (upd s.pc p v q).terminal = false := hqt
      rw [upd_other _ _ _ _ hqp] at hqt'
      exact h.liveness q hq hqt'
  · intro q hqs
    by_cases hqp : q = p
    · subst hqp; exact hg
    · have hqs' : (upd s.pc p v q).sect = true := hqs
      rw [upd_other _ _ _ _ hqp] at hqs'
      exact h.inSect q hqs'
  · intro q hq
    have hq' : s.guard = some q := hq
    rw [hg] at hq'
    cases hq'
    refine ⟨hp, Or.inl ?_⟩
    show (upd s.pc p v p).sect = true
    rw [upd_same]; exact hvs
  · intro q ts hc
    by_cases hqp : q = p
    · subst hqp
      have hc' : upd s.pc q v q = .created ts := hc
      rw [upd_same] at hc'; exact hvc ts hc'
    · have hc' : upd s.pc p v q = .created ts := hc
      rw [upd_other _ _ _ _ hqp] at hc'
      exact h.noCreated q ts hc'
  · intro q i hc
    by_cases hqp : q = p
    · subst hqp
      have hc' : upd s.pc q v q = .opened i := hc
      rw [upd_same] at hc'; exact hop i hc'
    · have hc' : upd s.pc p v q = .opened i := hc
      rw [upd_other _ _ _ _ hqp] at hc'
      exact h.opened q i hc'
  · intro q c hc
    by_cases hqp : q = p
    · subst hqp
      have hc' : upd s.pc q v q = .readDone c := hc
      rw [upd_same] at hc'; exact hrd c hc'
    · have hc' : upd s.pc p v q = .readDone c := hc
      rw [upd_other _ _ _ _ hqp] at hc'
      exact h.read q c hc'
  · intro q w hc
    by_cases hqp : q = p
    · subst hqp
      have hc' : upd s.pc q v q = .unlinkPending w := hc
      rw [upd_same] at hc'; exact hpe w hc'
    · have hc' : upd s.pc p v q = .unlinkPending w := hc
      rw [upd_other _ _ _ _ hqp] at hc'
      exact h.pending q w hc'
  · intro o ho
    by_cases hop' : o = p
    · subst hop'
      have ho' : (upd s.pc o v o).owns = true := ho
      rw [upd_same, hvo] at ho'; cases ho'
    · have ho' : (upd s.pc p v o).owns = true := ho
      rw [upd_other _ _ _ _ hop'] at ho'
      exact h.owners o ho'
  · intro i hi hi0
    obtain ⟨o, hio, hoo⟩ := h.linked i hi hi0
    have hop' : o ≠ p := by intro e; subst e; rw [hold] at hoo; cases hoo
    refine ⟨o, hio, ?_⟩
    show (upd s.pc p v o).owns = true
    rw [upd_other _ _ _ _ hop']; exact hoo
  · exact h.notStolen

/-- the guard holder `p` gives up (error return / panic): guard released, `p` terminal -/
theorem GInv.failUpdate {s : State} (h : GInv s) (p : Nat) (v : Pc) (hp : p < s.n)
    (hg : s.guard = some p) (hold : (s.pc p).owns = false) (hal : s.alive (pidOf p) = true)
    (hvt : v.terminal = true) :
    GInv { s with guard := none, pc := upd s.pc p v } := by
  have hvs : v.sect = false := by cases v <;> first | rfl | cases hvt
  have hvo : v.owns = false := by cases v <;> first | rfl | cases hvt
  constructor
  · exact h.guarded
  · exact h.needsDead
  · intro q hq
    have hqp : q ≠ p := by intro e; subst e; exact absurd hp (Nat.not_lt.mpr hq)
    show upd s.pc p v q = .start
    rw [upd_other _ _ _ _ hqp]; exact h.idle q hq
  · intro q hq hqt
    by_cases hqp : q = p
    · subst hqp; exact hal
    · have hqt' : (upd s.pc p v q).terminal = false := hqt
      rw [upd_other _ _ _ _ hqp] at hqt'
      exact h.liveness q hq hqt'
  · intro q hqs
    by_cases hqp : q = p
    · subst hqp
      have hqs' : (upd s.pc q v q).sect = true := hqs
      rw [upd_same, hvs] at hqs'; cases hqs'
    · have hqs' : (upd s.pc p v q).sect = true := hqs
      rw [upd_other _ _ _ _ hqp] at hqs'
      have := h.inSect q hqs'
      rw [hg] at this; cases this; exact absurd rfl hqp
  · intro q hq; cases hq
  · intro q ts hc
    by_cases hqp : q = p
    · subst hqp
      have hc' : upd s.pc q v q = .created ts := hc
      rw [upd_same] at hc'; rw [hc'] at hvt; cases hvt
    · have hc' : upd s.pc p v q = .created ts := hc
      rw [upd_other _ _ _ _ hqp] at hc'
      exact h.noCreated q ts hc'
  · intro q i hc
    by_cases hqp : q = p
    · subst hqp
      have hc' : upd s.pc q v q = .opened i := hc
      rw [upd_same] at hc'; rw [hc'] at hvt; cases hvt
    · have hc' : upd s.pc p v q = .opened i := hc
      rw [upd_other _ _ _ _ hqp] at hc'
      exact h.opened q i hc'
  · intro q c hc
    by_cases hqp : q = p
    · subst hqp
      have hc' : upd s.pc q v q = .readDone c := hc
      rw [upd_same] at hc'; rw [hc'] at hvt; cases hvt
    · have hc' : upd s.pc p v q = .readDone c := hc
      rw [upd_other _ _ _ _ hqp] at hc'
      exact h.read q c hc'
  · intro q w hc
    by_cases hqp : q = p
    · subst hqp
      have hc' : upd s.pc q v q = .unlinkPending w := hc
      rw [upd_same] at hc'; rw [hc'] at hvt; cases hvt
    · have hc' : upd s.pc p v q = .unlinkPending w := hc
      rw [upd_other _ _ _ _ hqp] at hc'
      exact h.pending q w hc'
  · intro o ho
    by_cases hop' : o = p
    · subst hop'
      have ho' : (upd s.pc o v o).owns = true := ho
      rw [upd_same, hvo] at ho'; cases ho'
    · have ho' : (upd s.pc p v o).owns = true := ho
      rw [upd_other _ _ _ _ hop'] at ho'
      exact h.owners o ho'
  · intro i hi hi0
    obtain ⟨o, hio, hoo⟩ := h.linked i hi hi0
    have hop' : o ≠ p := by intro e; subst e; rw [hold] at hoo; cases hoo
    refine ⟨o, hio, ?_⟩
    show (upd s.pc p v o).owns = true
    rw [upd_other _ _ _ _ hop']; exact hoo
  · exact h.notStolen

/-- nobody but the guard holder is inside a sequence -/
theorem GInv.others_outside {s : State} (h : GInv s) {p q : Nat} (hg : s.guard = some p) (hqp : q ≠ p) :
    (s.pc q).sect = false := by
  cases hs : (s.pc q).sect with
  | false => rfl
  | true =>
    have := h.inSect q hs
    rw [hg] at this; cases this; exact absurd rfl hqp

/-- general update in which only `p` moves and the cell / files / guard change as given; the obligations about
    other processes are discharged from "they are outside every sequence" -/
theorem GInv.ownerUpdate {s : State} (h : GInv s) (p : Nat) (v : Pc) (hp : p < s.n) (g' : Option Nat)
    (cell' : Option Nat) (files' : Nat → Content) (st' : Bool)
    (hal : s.alive (pidOf p) = true)
    (hothers : ∀ q, q ≠ p → (s.pc q).sect = false)
    (hvc : ∀ ts, v ≠ .created ts)
    (hvview : (∀ i, v ≠ .opened i) ∧ (∀ c, v ≠ .readDone c) ∧ (∀ w, v ≠ .unlinkPending w))
    (hg1 : v.sect = true → g' = some p)
    (hg2 : ∀ q, g' = some q → q = p ∧ (v.sect = true ∨ v = .dropCheck))
    (hown : ∀ o, (if o = p then v.owns else (s.pc o).owns) = true →
        cell' = some (inoOf o) ∧ ∃ ts, files' (inoOf o) = .pidts (pidOf o) ts)
    (hlink : ∀ i, cell' = some i → i ≠ 0 → ∃ o, i = inoOf o ∧ (if o = p then v.owns else (s.pc o).owns) = true)
    (hst : st' = false) :
    GInv { s with guard := g', cell := cell', files := files', stolen := st', pc := upd s.pc p v } := by
  constructor
  · exact h.guarded
  · exact h.needsDead
  · intro q hq
    have hqp : q ≠ p := by intro e; subst e; exact absurd hp (Nat.not_lt.mpr hq)
    show upd s.pc p v q = .start
    rw [upd_other _ _ _ _ hqp]; exact h.idle q hq
  · intro q hq hqt
    by_cases hqp : q = p
    · subst hqp; exact hal
    · have hqt' : (upd s.pc p v q).terminal = false := hqt
      rw [upd_other _ _ _ _ hqp] at hqt'
      exact h.liveness q hq hqt'
  · intro q hqs
    by_cases hqp : q = p
    · subst hqp
      have hqs' : (upd s.pc q v q).sect = true := hqs
      rw [upd_same] at hqs'; exact hg1 hqs'
    · have hqs' : (upd s.pc p v q).sect = true := hqs
      rw [upd_other _ _ _ _ hqp, hothers q hqp] at hqs'; cases hqs'
  · intro q hq
    obtain ⟨hqp, hv⟩ := hg2 q hq
    subst hqp
    refine ⟨hp, ?_⟩
    show (upd s.pc q v q).sect = true ∨ upd s.pc q v q = .dropCheck
    rw [upd_same]; exact hv
  · intro q ts hc
    by_cases hqp : q = p
    · subst hqp
      have hc' : upd s.pc q v q = .created ts := hc
      rw [upd_same] at hc'; exact hvc ts hc'
    · have hc' : upd s.pc p v q = .created ts := hc
      rw [upd_other _ _ _ _ hqp] at hc'
      exact h.noCreated q ts hc'
  · intro q i hc
    by_cases hqp : q = p
    · subst hqp
      have hc' : upd s.pc q v q = .opened i := hc
      rw [upd_same] at hc'; exact absurd hc' (hvview.1 i)
    · have hc' : upd s.pc p v q = .opened i := hc
      rw [upd_other _ _ _ _ hqp] at hc'
      have := hothers q hqp; rw [hc'] at this; cases this
  · intro q c hc
    by_cases hqp : q = p
    · subst hqp
      have hc' : upd s.pc q v q = .readDone c := hc
      rw [upd_same] at hc'; exact absurd hc' (hvview.2.1 c)
    · have hc' : upd s.pc p v q = .readDone c := hc
      rw [upd_other _ _ _ _ hqp] at hc'
      have := hothers q hqp; rw [hc'] at this; cases this
  · intro q w hc
    by_cases hqp : q = p
    · subst hqp
      have hc' : upd s.pc q v q = .unlinkPending w := hc
      rw [upd_same] at hc'; exact absurd hc' (hvview.2.2 w)
    · have hc' : upd s.pc p v q = .unlinkPending w := hc
      rw [upd_other _ _ _ _ hqp] at hc'
      have := hothers q hqp; rw [hc'] at this; cases this
  · intro o ho
    apply hown o
    by_cases hop' : o = p
    · subst hop'
      have ho' : (upd s.pc o v o).owns = true := ho
      rw [upd_same] at ho'; rw [if_pos rfl]; exact ho'
    · have ho' : (upd s.pc p v o).owns = true := ho
      rw [upd_other _ _ _ _ hop'] at ho'; rw [if_neg hop']; exact ho'
  · intro i hi hi0
    obtain ⟨o, hio, hoo⟩ := hlink i hi hi0
    refine ⟨o, hio, ?_⟩
    show (upd s.pc p v o).owns = true
    by_cases hop' : o = p
    · subst hop'; rw [upd_same]; rw [if_pos rfl] at hoo; exact hoo
    · rw [upd_other _ _ _ _ hop']; rw [if_neg hop'] at hoo; exact hoo
  · exact hst


/-- a process outside every sequence and not holding the guard moves to another such point with the same role -/
theorem GInv.plainUpdate {s : State} (h : GInv s) (p : Nat) (v : Pc) (hp : p < s.n)
    (hgp : s.guard ≠ some p) (hvs : v.sect = false) (hvo : v.owns = (s.pc p).owns)
    (hvt : v.terminal = (s.pc p).terminal) (hvc : ∀ ts, v ≠ .created ts) :
    GInv { s with pc := upd s.pc p v } := by
  have hview : (∀ i, v ≠ .opened i) ∧ (∀ c, v ≠ .readDone c) ∧ (∀ w, v ≠ .unlinkPending w) := by
    refine ⟨?_, ?_, ?_⟩ <;> (intro x e; rw [e] at hvs; cases hvs)
  constructor
  · exact h.guarded
  · exact h.needsDead
  · intro q hq
    have hqp : q ≠ p := by intro e; subst e; exact absurd hp (Nat.not_lt.mpr hq)
    show upd s.pc p v q = .start
    rw [upd_other _ _ _ _ hqp]; exact h.idle q hq
  · intro q hq hqt
    by_cases hqp : q = p
    · subst hqp
      have hqt' : (upd s.pc q v q).terminal = false := hqt
      rw [upd_same, hvt] at hqt'
      exact h.liveness q hq hqt'
    · have hqt' : (upd s.pc p v q).terminal = false := hqt
      rw [upd_other _ _ _ _ hqp] at hqt'
      exact h.liveness q hq hqt'
  · intro q hqs
    by_cases hqp : q = p
    · subst hqp
      have hqs' : (upd s.pc q v q).sect = true := hqs
      rw [upd_same, hvs] at hqs'; cases hqs'
    · have hqs' : (upd s.pc p v q).sect = true := hqs
      rw [upd_other _ _ _ _ hqp] at hqs'
      exact h.inSect q hqs'
  · intro q hq
    have hqp : q ≠ p := by intro e; subst e; exact hgp hq
    obtain ⟨hqn, hv⟩ := h.guardBy q hq
    refine ⟨hqn, ?_⟩
    show (upd s.pc p v q).sect = true ∨ upd s.pc p v q = .dropCheck
    rw [upd_other _ _ _ _ hqp]; exact hv
  · intro q ts hc
    by_cases hqp : q = p
    · subst hqp
      have hc' : upd s.pc q v q = .created ts := hc
      rw [upd_same] at hc'; exact hvc ts hc'
    · have hc' : upd s.pc p v q = .created ts := hc
      rw [upd_other _ _ _ _ hqp] at hc'
      exact h.noCreated q ts hc'
  · intro q i hc
    by_cases hqp : q = p
    · subst hqp
      have hc' : upd s.pc q v q = .opened i := hc
      rw [upd_same] at hc'; exact absurd hc' (hview.1 i)
    · have hc' : upd s.pc p v q = .opened i := hc
      rw [upd_other _ _ _ _ hqp] at hc'
      exact h.opened q i hc'
  · intro q c hc
    by_cases hqp : q = p
    · subst hqp
      have hc' : upd s.pc q v q = .readDone c := hc
      rw [upd_same] at hc'; exact absurd hc' (hview.2.1 c)
    · have hc' : upd s.pc p v q = .readDone c := hc
      rw [upd_other _ _ _ _ hqp] at hc'
      exact h.read q c hc'
  · intro q w hc
    by_cases hqp : q = p
    · subst hqp
      have hc' : upd s.pc q v q = .unlinkPending w := hc
      rw [upd_same] at hc'; exact absurd hc' (hview.2.2 w)
    · have hc' : upd s.pc p v q = .unlinkPending w := hc
      rw [upd_other _ _ _ _ hqp] at hc'
      exact h.pending q w hc'
  · intro o ho
    by_cases hop' : o = p
    · subst hop'
      have ho' : (upd s.pc o v o).owns = true := ho
      rw [upd_same, hvo] at ho'
      exact h.owners o ho'
    · have ho' : (upd s.pc p v o).owns = true := ho
      rw [upd_other _ _ _ _ hop'] at ho'
      exact h.owners o ho'
  · intro i hi hi0
    obtain ⟨o, hio, hoo⟩ := h.linked i hi hi0
    refine ⟨o, hio, ?_⟩
    show (upd s.pc p v o).owns = true
    by_cases hop' : o = p
    · subst hop'; rw [upd_same, hvo]; exact hoo
    · rw [upd_other _ _ _ _ hop']; exact hoo
  · exact h.notStolen

/-- a Drop takes the free guard -/
theorem GInv.takeGuard {s : State} (h : GInv s) (p : Nat) (hp : p < s.n) (hg : s.guard = none)
    (hpc : s.pc p = .dropCheck) : GInv { s with guard := some p } := by
  constructor
  · exact h.guarded
  · exact h.needsDead
  · exact h.idle
  · exact h.liveness
  · intro q hqs
    have := h.inSect q hqs
    rw [hg] at this; cases this
  · intro q hq
    have hq' : some p = some q := hq
    cases hq'
    exact ⟨hp, Or.inr hpc⟩
  · exact h.noCreated
  · exact h.opened
  · exact h.read
  · exact h.pending
  · exact h.owners
  · exact h.linked
  · exact h.notStolen

/-- a terminated process leaves -/
theorem GInv.exit {s : State} (h : GInv s) (p : Nat) (hterm : (s.pc p).terminal = true) :
    GInv { s with alive := upd s.alive (pidOf p) false } := by
  have hdead : ∀ pid, s.alive pid = false → upd s.alive (pidOf p) false pid = false := by
    intro pid hd
    by_cases hpp : pid = pidOf p
    · subst hpp; exact upd_same _ _ _
    · rw [upd_other _ _ _ _ hpp]; exact hd
  constructor
  · exact h.guarded
  · exact h.needsDead
  · exact h.idle
  · intro q hq hqt
    have hqp : q ≠ p := by intro e; subst e; rw [hterm] at hqt; cases hqt
    have hne : pidOf q ≠ pidOf p := fun e => hqp (pidOf_inj e)
    show upd s.alive (pidOf p) false (pidOf q) = true
    rw [upd_other _ _ _ _ hne]; exact h.liveness q hq hqt
  · exact h.inSect
  · exact h.guardBy
  · exact h.noCreated
  · exact h.opened
  · exact h.read
  · intro q w hc
    obtain ⟨i, hci, hr⟩ := h.pending q w hc
    exact ⟨i, hci, hr.of_alive_eq hdead⟩
  · exact h.owners
  · exact h.linked
  · exact h.notStolen

/-- what the decision can return -/
theorem decide_range (d sat nd : Bool) (ab : Abandon) (now : Nat) (alive : Nat → Bool) (c : Content) :
    (∃ ts, decide' d sat nd ab now alive c = .mkdir ts) ∨ (∃ w, decide' d sat nd ab now alive c = .unlinkPending w) ∨
    (decide' d sat nd ab now alive c).terminal = true := by
  cases c with
  | empty => cases ab <;> simp [decide']
  | garbage => cases ab <;> simp [decide']
  | invalid => simp [decide']
  | pidts pid ts =>
    simp only [decide']
    repeat' split
    all_goals first
      | exact Or.inr (Or.inr rfl)
      | exact Or.inr (Or.inl ⟨_, rfl⟩)
      | exact Or.inl ⟨_, rfl⟩

theorem steals_false_of_unowned {s : State} {p i : Nat} (h : ∀ o, o ≠ p → (s.pc o).owns = false) :
    steals s p i = false := by
  cases i with
  | zero => rfl
  | succ q =>
    by_cases hq : q = p
    · subst hq; simp [steals]
    · simp [steals, h q hq]


/-- a process that can make a call is a scheduled, live one -/
theorem GInv.gstepper {s s' : State} (h : GInv s) {p : Nat} (hs : gstep s p = some s') :
    p < s.n ∧ s.alive (pidOf p) = true := by
  unfold gstep at hs
  by_cases hp : p < s.n
  · refine ⟨hp, ?_⟩
    cases ht : (s.pc p).terminal with
    | false => exact h.liveness p hp ht
    | true =>
      rw [if_pos hp] at hs
      cases hal : s.alive (pidOf p) with
      | true => rfl
      | false =>
        exfalso
        cases hpc : s.pc p <;> rw [hpc] at ht <;> (try (cases ht; done)) <;>
          (rw [hpc] at hs; simp [hal] at hs)
  · rw [if_neg hp] at hs; cases hs

/-- **Every call of every process preserves the guarded invariant** — no hypothesis on clock, number of
    processes, exits or the initial lock file. -/
theorem GInv.gstepP {s s' : State} (h : GInv s) (p : Nat) (hs : gstep s p = some s') : GInv s' := by
  have ⟨hp, hal⟩ := h.gstepper hs
  unfold gstep at hs
  rw [if_pos hp] at hs
  cases hpc : s.pc p with
  | start =>
    rw [hpc] at hs; simp only at hs
    by_cases hg : s.guard = none
    · rw [if_pos hg] at hs; simp only [Option.some.injEq] at hs; subst hs
      have hothers : ∀ q, q ≠ p → (s.pc q).sect = false := by
        intro q _
        cases hq : (s.pc q).sect with
        | false => rfl
        | true => have := h.inSect q hq; rw [hg] at this; cases this
      exact h.ownerUpdate p .locked hp (some p) s.cell s.files s.stolen hal hothers
        (by intro ts e; cases e) ⟨(by intro i e; cases e), (by intro c e; cases e), (by intro w e; cases e)⟩
        (fun _ => rfl) (by intro q hq; cases hq; exact ⟨rfl, Or.inl rfl⟩)
        (by
          intro o ho
          by_cases hop : o = p
          · rw [if_pos hop] at ho; cases ho
          · rw [if_neg hop] at ho; exact h.owners o ho)
        (by
          intro i hi hi0
          obtain ⟨o, hio, hoo⟩ := h.linked i hi hi0
          refine ⟨o, hio, ?_⟩
          by_cases hop : o = p
          · subst hop; rw [hpc] at hoo; cases hoo
          · rw [if_neg hop]; exact hoo)
        h.notStolen
    · rw [if_neg hg] at hs; cases hs
  | locked =>
    have hg := h.inSect p (by rw [hpc]; rfl)
    rw [hpc] at hs; simp only at hs
    cases hcell : s.cell with
    | some i =>
      rw [hcell] at hs; simp only [Option.some.injEq] at hs; subst hs
      have key := h.sectUpdate p .sawPresent hp hg (by rw [hpc]; rfl) (by rw [hpc]; rfl) rfl rfl rfl
        (by intro ts e; cases e) (by intro i e; cases e) (by intro c e; cases e) (by intro w e; cases e)
      rw [hcell] at key; exact key
    | none =>
      rw [hcell] at hs; simp only [Option.some.injEq] at hs; subst hs
      have key := h.sectUpdate p (.mkdir s.now) hp hg (by rw [hpc]; rfl) (by rw [hpc]; rfl) rfl rfl rfl
        (by intro ts e; cases e) (by intro i e; cases e) (by intro c e; cases e) (by intro w e; cases e)
      rw [hcell] at key; exact key
  | sawPresent =>
    have hg := h.inSect p (by rw [hpc]; rfl)
    rw [hpc] at hs; simp only at hs
    cases hcell : s.cell with
    | some i =>
      rw [hcell] at hs; simp only [Option.some.injEq] at hs; subst hs
      have key := h.sectUpdate p (.opened i) hp hg (by rw [hpc]; rfl) (by rw [hpc]; rfl) rfl rfl rfl
        (by intro ts e; cases e) (by intro j e; cases e; exact hcell) (by intro c e; cases e) (by intro w e; cases e)
      rw [hcell] at key; exact key
    | none =>
      rw [hcell] at hs; simp only [Option.some.injEq] at hs; subst hs
      have key := h.failUpdate p (.failed .readFailed) hp hg (by rw [hpc]; rfl) hal rfl
      rw [hcell] at key; exact key
  | opened i =>
    have hg := h.inSect p (by rw [hpc]; rfl)
    have hci := h.opened p i hpc
    rw [hpc] at hs; simp only at hs
    by_cases hinv : s.files i = .invalid
    · rw [if_pos hinv] at hs
      by_cases hl : s.lossyRead = true
      · rw [if_pos hl] at hs; simp only [Option.some.injEq] at hs; subst hs
        exact h.sectUpdate p (.readDone .garbage) hp hg (by rw [hpc]; rfl) (by rw [hpc]; rfl) rfl rfl rfl
          (by intro ts e; cases e) (by intro j e; cases e)
          (by intro c e; cases e; exact ⟨i, hci, Or.inr ⟨hinv, rfl⟩⟩) (by intro w e; cases e)
      · rw [if_neg hl] at hs; simp only [Option.some.injEq] at hs; subst hs
        exact h.failUpdate p (.failed .readInvalid) hp hg (by rw [hpc]; rfl) hal rfl
    · rw [if_neg hinv] at hs; simp only [Option.some.injEq] at hs; subst hs
      exact h.sectUpdate p (.readDone (s.files i)) hp hg (by rw [hpc]; rfl) (by rw [hpc]; rfl) rfl rfl rfl
        (by intro ts e; cases e) (by intro j e; cases e)
        (by intro c e; cases e; exact ⟨i, hci, Or.inl rfl⟩) (by intro w e; cases e)
  | readDone c =>
    have hg := h.inSect p (by rw [hpc]; rfl)
    obtain ⟨i, hci, hfc⟩ := h.read p c hpc
    rw [hpc] at hs; simp only [Option.some.injEq] at hs; subst hs
    rcases decide_range s.debug s.saturating s.staleNeedsDead s.abandon s.now s.alive c with ⟨ts, hd⟩ | ⟨w, hd⟩ | hd
    · rw [hd]
      exact h.sectUpdate p (.mkdir ts) hp hg (by rw [hpc]; rfl) (by rw [hpc]; rfl) rfl rfl rfl
        (by intro ts e; cases e) (by intro j e; cases e) (by intro c e; cases e) (by intro w e; cases e)
    · rw [hd]
      have hrem : Removable s (s.files i) := by
        have hd' := hd
        rw [h.needsDead] at hd'
        have hc := decide_pending_removable hd'
        rcases hfc with hfc | ⟨hfi, _⟩
        · rw [hfc]; exact hc
        · rw [hfi]; exact Or.inr (Or.inr (Or.inl rfl))
      exact h.sectUpdate p (.unlinkPending w) hp hg (by rw [hpc]; rfl) (by rw [hpc]; rfl) rfl rfl rfl
        (by intro ts e; cases e) (by intro j e; cases e) (by intro c e; cases e)
        (by intro w' e; exact ⟨i, hci, hrem⟩)
    · have key := h.failUpdate p _ hp hg (by rw [hpc]; rfl) hal hd
      simp only [hd, if_true]
      exact key
  | unlinkPending w =>
    have hg := h.inSect p (by rw [hpc]; rfl)
    obtain ⟨i, hci, hrem⟩ := h.pending p w hpc
    have hunowned := h.removable_not_owned hci hrem
    rw [hpc] at hs; simp only at hs
    rw [hci] at hs; simp only [Option.some.injEq] at hs; subst hs
    have key := h.ownerUpdate p (.mkdir s.now) hp s.guard none s.files (s.stolen || steals s p i) hal
      (fun q hq => h.others_outside hg hq)
      (by intro ts e; cases e) ⟨(by intro j e; cases e), (by intro c e; cases e), (by intro w e; cases e)⟩
      (fun _ => hg) (by intro q hq; rw [hg] at hq; cases hq; exact ⟨rfl, Or.inl rfl⟩)
      (by
        intro o ho
        by_cases hop : o = p
        · rw [if_pos hop] at ho; cases ho
        · rw [if_neg hop, hunowned o] at ho; cases ho)
      (by intro i hi; cases hi)
      (by rw [h.notStolen, steals_false_of_unowned (fun o _ => hunowned o)]; rfl)
    exact key
  | mkdir ts =>
    have hg := h.inSect p (by rw [hpc]; rfl)
    rw [hpc] at hs; simp only [Option.some.injEq] at hs; subst hs
    exact h.sectUpdate p (.create ts) hp hg (by rw [hpc]; rfl) (by rw [hpc]; rfl) rfl rfl rfl
      (by intro ts e; cases e) (by intro j e; cases e) (by intro c e; cases e) (by intro w e; cases e)
  | create ts =>
    have hg := h.inSect p (by rw [hpc]; rfl)
    rw [hpc] at hs; simp only at hs
    cases hcell : s.cell with
    | none =>
      rw [hcell] at hs; simp only [Option.some.injEq] at hs; subst hs
      exact h.ownerUpdate p .holding hp none (some (inoOf p)) (upd s.files (inoOf p) (.pidts (pidOf p) ts)) s.stolen hal
        (fun q hq => h.others_outside hg hq)
        (by intro ts e; cases e) ⟨(by intro j e; cases e), (by intro c e; cases e), (by intro w e; cases e)⟩
        (by intro e; cases e) (by intro q hq; cases hq)
        (by
          intro o ho
          by_cases hop : o = p
          · subst hop; exact ⟨rfl, ts, upd_same _ _ _⟩
          · rw [if_neg hop] at ho
            have := (h.owners o ho).1
            rw [hcell] at this; cases this)
        (by intro i hi _; cases hi; exact ⟨p, rfl, by rw [if_pos rfl]; rfl⟩)
        h.notStolen
    | some i =>
      rw [hcell] at hs; simp only [Option.some.injEq] at hs; subst hs
      have key := h.failUpdate p (.failed .createExists) hp hg (by rw [hpc]; rfl) hal rfl
      rw [hcell] at key; exact key
  | created ts => exact absurd hpc (h.noCreated p ts)
  | holding =>
    rw [hpc] at hs; simp only [Option.some.injEq] at hs; subst hs
    have hgp : s.guard ≠ some p := by
      intro hg
      rcases (h.guardBy p hg).2 with hsct | hdc
      · rw [hpc] at hsct; cases hsct
      · rw [hpc] at hdc; cases hdc
    exact h.plainUpdate p .dropCheck hp hgp rfl (by rw [hpc]; rfl) (by rw [hpc]; rfl) (by intro ts e; cases e)
  | dropCheck =>
    have hown := h.owners p (by rw [hpc]; rfl)
    rw [hpc] at hs; simp only at hs
    by_cases hg : s.guard = some p
    · rw [if_pos hg, hown.1] at hs; simp only at hs
      rw [if_neg (by intro hne; exact hne.2 rfl)] at hs
      simp only [Option.some.injEq] at hs; subst hs
      have key := h.ownerUpdate p .dropUnlink hp s.guard s.cell s.files s.stolen hal
        (fun q hq => h.others_outside hg hq)
        (by intro ts e; cases e) ⟨(by intro j e; cases e), (by intro c e; cases e), (by intro w e; cases e)⟩
        (fun _ => hg) (by intro q hq; rw [hg] at hq; cases hq; exact ⟨rfl, Or.inl rfl⟩)
        (by
          intro o ho
          by_cases hop : o = p
          · subst hop; exact hown
          · rw [if_neg hop] at ho; exact h.owners o ho)
        (by
          intro i hi hi0
          obtain ⟨o, hio, hoo⟩ := h.linked i hi hi0
          refine ⟨o, hio, ?_⟩
          by_cases hop : o = p
          · subst hop; rw [if_pos rfl]; rfl
          · rw [if_neg hop]; exact hoo)
        h.notStolen
      rw [hown.1] at key; exact key
    · rw [if_neg hg] at hs
      by_cases hgn : s.guard = none
      · rw [if_pos hgn] at hs; simp only [Option.some.injEq] at hs; subst hs
        exact h.takeGuard p hp hgn hpc
      · rw [if_neg hgn] at hs; cases hs
  | dropUnlink =>
    have hg := h.inSect p (by rw [hpc]; rfl)
    have hown := h.owners p (by rw [hpc]; rfl)
    rw [hpc] at hs; simp only at hs
    rw [hown.1] at hs; simp only [Option.some.injEq] at hs; subst hs
    have hnoother : ∀ o, o ≠ p → (s.pc o).owns = false := by
      intro o hop
      cases ho : (s.pc o).owns with
      | false => rfl
      | true =>
        have := (h.owners o ho).1
        rw [hown.1] at this
        cases this
        exact absurd rfl hop
    exact h.ownerUpdate p .done hp none none s.files (s.stolen || steals s p (inoOf p)) hal
      (fun q hq => h.others_outside hg hq)
      (by intro ts e; cases e) ⟨(by intro j e; cases e), (by intro c e; cases e), (by intro w e; cases e)⟩
      (by intro e; cases e) (by intro q hq; cases hq)
      (by
        intro o ho
        by_cases hop : o = p
        · rw [if_pos hop] at ho; cases ho
        · rw [if_neg hop, hnoother o hop] at ho; cases ho)
      (by intro i hi; cases hi)
      (by rw [h.notStolen, steals_false_of_unowned hnoother]; rfl)
  | done =>
    rw [hpc] at hs
    by_cases hc : s.exits = true ∧ s.alive (pidOf p) = true
    · rw [if_pos hc] at hs; simp only [Option.some.injEq] at hs; subst hs
      exact h.exit p (by rw [hpc]; rfl)
    · rw [if_neg hc] at hs; cases hs
  | failed e =>
    rw [hpc] at hs
    by_cases hc : s.exits = true ∧ s.alive (pidOf p) = true
    · rw [if_pos hc] at hs; simp only [Option.some.injEq] at hs; subst hs
      exact h.exit p (by rw [hpc]; rfl)
    · rw [if_neg hc] at hs; cases hs
  | panicked =>
    rw [hpc] at hs
    by_cases hc : s.exits = true ∧ s.alive (pidOf p) = true
    · rw [if_pos hc] at hs; simp only [Option.some.injEq] at hs; subst hs
      exact h.exit p (by rw [hpc]; rfl)
    · rw [if_neg hc] at hs; cases hs

/-- Ctrl-C at the confirmation prompt (`release_held_locks` under the guard, then exit) -/
theorem GInv.promptExit {s : State} (h : GInv s) (p : Nat) : GInv (Lock.promptExit s p) := by
  unfold Lock.promptExit
  by_cases hc : p < s.n ∧ s.pc p = .holding ∧ (s.guarded = true → s.guard = none)
  · rw [if_pos hc]
    have hg : s.guard = none := hc.2.2 h.guarded
    have hown := h.owners p (by rw [hc.2.1]; rfl)
    have hal := h.liveness p hc.1 (by rw [hc.2.1]; rfl)
    have hothers : ∀ q, q ≠ p → (s.pc q).sect = false := by
      intro q _
      cases hq : (s.pc q).sect with
      | false => rfl
      | true => have := h.inSect q hq; rw [hg] at this; cases this
    have hnoother : ∀ o, o ≠ p → (s.pc o).owns = false := by
      intro o hop
      cases ho : (s.pc o).owns with
      | false => rfl
      | true =>
        have := (h.owners o ho).1
        rw [hown.1] at this
        cases this
        exact absurd rfl hop
    rw [hown.1]
    simp only
    rw [if_neg (by intro hne; exact hne.2 rfl)]
    have key := h.ownerUpdate p .done hc.1 s.guard none s.files (s.stolen || steals s p (inoOf p)) hal hothers
      (by intro ts e; cases e) ⟨(by intro j e; cases e), (by intro c e; cases e), (by intro w e; cases e)⟩
      (by intro e; cases e) (by intro q hq; rw [hg] at hq; cases hq)
      (by
        intro o ho
        by_cases hop : o = p
        · rw [if_pos hop] at ho; cases ho
        · rw [if_neg hop, hnoother o hop] at ho; cases ho)
      (by intro i hi; cases hi)
      (by rw [h.notStolen, steals_false_of_unowned hnoother]; rfl)
    exact key
  · rw [if_neg hc]; exact h

theorem GInv.stepEv {s : State} (h : GInv s) (e : Ev) : GInv (Lock.stepEv s e) := by
  cases e with
  | tick d =>
    exact ⟨h.guarded, h.needsDead, h.idle, h.liveness, h.inSect, h.guardBy, h.noCreated, h.opened, h.read,
      h.pending, h.owners, h.linked, h.notStolen⟩
  | proc p =>
    show GInv (if s.guarded = true then (gstep s p).getD s else (step s p).getD s)
    rw [if_pos h.guarded]
    cases hs : gstep s p with
    | none => exact h
    | some s' => exact h.gstepP p hs
  | promptInt p => exact h.promptExit p

/-- The guarded invariant holds along every schedule. -/
theorem GInv.run (es : List Ev) : ∀ {s : State}, GInv s → GInv (Lock.run s es) := by
  induction es with
  | nil => intro s h; exact h
  | cons e es ih => intro s h; exact ih (h.stepEv e)

theorem GInv.owners_unique {s : State} (h : GInv s) (p q : Nat)
    (hp : (s.pc p).owns = true) (hq : (s.pc q).owns = true) : p = q := by
  have h1 := (h.owners p hp).1
  have h2 := (h.owners q hq).1
  rw [h1] at h2
  cases h2; rfl


/-! ### facts about single events that hold in both shapes -/

theorem gstep_pc_other {s s' : State} {q r : Nat} (hs : gstep s q = some s') (h : r ≠ q) : s'.pc r = s.pc r := by
  unfold gstep at hs
  split at hs
  · split at hs <;> (try split at hs) <;> (try split at hs) <;> (try split at hs) <;> first
      | (cases hs; exact upd_other _ _ _ _ h)
      | (cases hs; rfl)
      | cases hs
  · cases hs

theorem stepEv_proc_now (s : State) (p : Nat) : (stepEv s (.proc p)).now = s.now := by
  show (if s.guarded = true then (gstep s p).getD s else (step s p).getD s).now = s.now
  split
  · cases hs : gstep s p with
    | none => rfl
    | some s' => exact gstep_now hs
  · cases hs : step s p with
    | none => rfl
    | some s' => exact step_now hs

/-- a failed acquire is final: no event of any process changes it (both shapes) -/
theorem stepEv_failed (s : State) (p : Nat) (e : Err) (h : s.pc p = .failed e) (ev : Ev) :
    (stepEv s ev).pc p = .failed e := by
  cases ev with
  | tick d => exact h
  | promptInt q =>
    show (promptExit s q).pc p = .failed e
    unfold promptExit
    by_cases hc : q < s.n ∧ s.pc q = .holding ∧ (s.guarded = true → s.guard = none)
    · have hqp : p ≠ q := by intro e'; subst e'; rw [h] at hc; cases hc.2.1
      rw [if_pos hc]
      cases s.cell with
      | none => show upd s.pc q .done p = _; rw [upd_other _ _ _ _ hqp]; exact h
      | some i =>
        show (if s.dropChecks = true ∧ i ≠ inoOf q then _ else _ : State).pc p = _
        split <;> (show upd s.pc q .done p = _; rw [upd_other _ _ _ _ hqp]; exact h)
    · rw [if_neg hc]; exact h
  | proc q =>
    show (if s.guarded = true then (gstep s q).getD s else (step s q).getD s).pc p = .failed e
    split
    · cases hs : gstep s q with
      | none => exact h
      | some s' =>
        by_cases hq : p = q
        · subst hq
          unfold gstep at hs
          split at hs
          · rw [h] at hs; simp only at hs
            split at hs
            · cases hs; exact h
            · cases hs
          · cases hs
        · show s'.pc p = _
          rw [gstep_pc_other hs hq]; exact h
    · cases hs : step s q with
      | none => exact h
      | some s' =>
        by_cases hq : p = q
        · subst hq
          unfold step at hs
          split at hs
          · rw [h] at hs; simp only at hs
            split at hs
            · cases hs; exact h
            · cases hs
          · cases hs
        · show s'.pc p = _
          rw [step_pc_other hs hq]; exact h

end Lock
