import RModel.Model.Panics
/- helper lemmas for Props/C16.lean -/
open B Edits

namespace Panics

theorem idx_some_iff (bytes : Bytes) (i : Nat) : (idx bytes i).isSome = true ↔ i < bytes.length := by
  simp [idx]

theorem idx_none_iff (bytes : Bytes) (i : Nat) : idx bytes i = none ↔ bytes.length ≤ i := by
  simp [idx]

/-- the right side never panics when `stop ≤ len` -/
theorem rightBoundary_some (bytes : Bytes) (stop : Nat) (sp : Bool) :
    ∃ r, rightBoundary bytes stop sp = some r := by
  unfold rightBoundary
  by_cases h : stop ≥ bytes.length
  · simp [h]
  · have hlt : stop < bytes.length := by omega
    have h1 : idx bytes stop = some bytes[stop] := by simp [idx, hlt]
    simp only [h, if_false, h1]
    by_cases hs : sp = true
    · simp [hs]
    · simp only [hs, Bool.false_eq_true, if_false]
      by_cases ha : (!isAlnum bytes[stop]) = true
      · simp [ha]
      · simp only [ha, Bool.false_eq_true, if_false]
        by_cases hu : (!isUpper bytes[stop]) = true
        · simp [hu]
        · simp only [hu, Bool.false_eq_true, if_false]
          by_cases h0 : stop = 0
          · simp [h0]
          · have hlt2 : stop - 1 < bytes.length := by omega
            have h2 : idx bytes (stop - 1) = some bytes[stop - 1] := by simp [idx, hlt2]
            simp [h0, h2]

theorem leftBoundary_none_iff (bytes : Bytes) (start : Nat) (sp : Bool) (hs : start ≤ bytes.length) :
    leftBoundary bytes start sp = none ↔
      (0 < start ∧ sp = false ∧ start = bytes.length ∧ ∃ p, bytes[start - 1]? = some p ∧ isAlnum p = true) := by
  unfold leftBoundary
  by_cases h0 : start = 0
  · simp [h0]
  · have hlt : start - 1 < bytes.length := by omega
    have h1 : idx bytes (start - 1) = some bytes[start - 1] := by simp [idx, hlt]
    have hg : bytes[start - 1]? = some bytes[start - 1] := by simp [hlt]
    simp only [h0, if_false, h1]
    cases sp with
    | true => simp
    | false =>
      simp only [Bool.false_eq_true, if_false]
      by_cases ha : isAlnum bytes[start - 1] = true
      · simp only [ha, Bool.not_true, Bool.false_eq_true, if_false]
        by_cases hl : start < bytes.length
        · have h2 : idx bytes start = some bytes[start] := by simp [idx, hl]
          simp [h2]; omega
        · have h2 : idx bytes start = none := by simp [idx]; omega
          simp only [h2, true_iff]
          exact ⟨by omega, by trivial, by omega, bytes[start - 1], hg, ha⟩
      · have ha' : isAlnum bytes[start - 1] = false := by simpa using ha
        simp only [ha', Bool.not_false, if_true]
        constructor
        · intro h; cases h
        · intro ⟨_, _, _, p, hp, hpa⟩
          rw [hg] at hp; cases hp; rw [ha'] at hpa; cases hpa

theorem isBoundary_none_iff (bytes : Bytes) (s e : Nat) :
    isBoundary bytes s e = none ↔ ¬ boundarySafe bytes s e := by
  by_cases h : s ≤ e ∧ e ≤ bytes.length
  · have hs : s ≤ bytes.length := by omega
    obtain ⟨r, hr⟩ := rightBoundary_some bytes e (((bytes.take e).drop s).any (fun c => c.toNat = 32))
    have hunf : isBoundary bytes s e =
        match leftBoundary bytes s (((bytes.take e).drop s).any (fun c => c.toNat = 32)) with
        | none => none
        | some l => some (l && r) := by
      unfold isBoundary
      rw [if_pos h]
      simp only [hr]
      cases leftBoundary bytes s (((bytes.take e).drop s).any (fun c => c.toNat = 32)) <;> rfl
    rw [hunf]
    cases hl : leftBoundary bytes s (((bytes.take e).drop s).any (fun c => c.toNat = 32)) with
    | some l =>
      constructor
      · intro hh; cases hh
      · intro hn
        exfalso
        apply hn
        refine ⟨h.1, h.2, ?_⟩
        intro ⟨h0, hlen, p, hp, hpa⟩
        have hsp : ((bytes.take e).drop s).any (fun c => c.toNat = 32) = false := by
          have : (bytes.take e).drop s = [] := by
            apply List.drop_eq_nil_of_le; simp; omega
          simp [this]
        have := (leftBoundary_none_iff bytes s _ hs).mpr ⟨h0, hsp, hlen, p, hp, hpa⟩
        rw [this] at hl; cases hl
    | none =>
      have := (leftBoundary_none_iff bytes s _ hs).mp hl
      constructor
      · intro _ hsafe
        exact hsafe.2.2 ⟨this.1, this.2.2.1, this.2.2.2⟩
      · intro _; rfl
  · have : isBoundary bytes s e = none := by
      unfold isBoundary; rw [if_neg h]
    rw [this]
    constructor
    · intro _ hsafe; exact h ⟨hsafe.1, hsafe.2.1⟩
    · intro _; rfl

/-! scans -/

theorem scanWhile_bounds (pred : UInt8 → Bool) (bytes : Bytes) :
    ∀ fuel j, j ≤ bytes.length → j ≤ scanWhile pred bytes fuel j ∧ scanWhile pred bytes fuel j ≤ bytes.length := by
  intro fuel
  induction fuel with
  | zero => intro j hj; simp [scanWhile, hj]
  | succ n ih =>
    intro j hj
    unfold scanWhile
    cases h : bytes[j]? with
    | none => simp [hj]
    | some c =>
      have hlt : j < bytes.length := by
        have := (List.getElem?_eq_some_iff.mp h).1
        exact this
      by_cases hp : pred c = true
      · simp only [hp, if_true]
        have := ih (j + 1) (by omega)
        omega
      · simp [hp, hj]

theorem scanUpper_bounds (bytes : Bytes) (i : Nat) (hi : i ≤ bytes.length) :
    i ≤ scanUpper bytes i ∧ scanUpper bytes i ≤ bytes.length :=
  scanWhile_bounds isUpper bytes _ i hi

theorem digitStart_le (current : Bytes) : ∀ d, digitStart current d ≤ d := by
  intro d
  induction d with
  | zero => simp [digitStart]
  | succ n ih =>
    unfold digitStart
    cases current[n]? with
    | none => simp
    | some c =>
      by_cases h : isDigit c = true
      · simp only [h, if_true]; omega
      · simp [h]

/-! lossy decoding -/

theorem lossyAux_of_validAux : ∀ fuel (s : Bytes), Utf8.validAux fuel s = true → Utf8.lossyAux fuel s = s := by
  intro fuel
  induction fuel with
  | zero =>
    intro s h
    cases s with
    | nil => rfl
    | cons a t => simp [Utf8.validAux] at h
  | succ n ih =>
    intro s h
    cases s with
    | nil => simp [Utf8.lossyAux]
    | cons a t =>
      simp only [Utf8.validAux] at h
      simp only [Utf8.lossyAux]
      cases hs : Utf8.stepLen (a :: t) with
      | error k => rw [hs] at h; simp at h
      | ok k =>
        rw [hs] at h
        simp only at h ⊢
        rw [ih _ h]
        exact List.take_append_drop k (a :: t)

theorem lossy_of_valid (raw : Bytes) (h : Utf8.valid raw = true) : Utf8.lossy raw = raw :=
  lossyAux_of_validAux raw.length raw h

/-! line_after -/

theorem boundary_zero (s : Bytes) : isCharBoundary s 0 = true := by simp [isCharBoundary]

theorem boundary_len (s : Bytes) : isCharBoundary s s.length = true := by
  unfold isCharBoundary
  by_cases h : s.length = 0
  · simp [h]
  · simp [h]

theorem isPrefixOf_length {p s : Bytes} (h : p.isPrefixOf s = true) : p.length ≤ s.length := by
  have := List.isPrefixOf_iff_prefix.mp h
  exact this.length_le

theorem lineAfter_some (line content repl : Bytes) (col : Nat)
    (hc : isCharBoundary line col = true)
    (he : col + content.length ≤ line.length → isCharBoundary line (col + content.length) = true) :
    (lineAfterOld line col content repl).isSome = true := by
  unfold lineAfterOld
  by_cases hlt : col < line.length
  · rw [if_pos hlt]
    have h1 : sliceStr line col line.length = some (line.drop col) := by
      simp [sliceStr, hc, boundary_len, Nat.le_of_lt hlt]
    rw [h1]
    by_cases hp : content.isPrefixOf (line.drop col) = true
    · have hl := isPrefixOf_length hp
      simp at hl
      have hle : col + content.length ≤ line.length := by omega
      have h2 : sliceStr line 0 col = some (line.take col) := by
        simp [sliceStr, hc, boundary_zero, Nat.le_of_lt hlt]
      have h3 : sliceStr line (col + content.length) line.length = some (line.drop (col + content.length)) := by
        simp [sliceStr, he hle, boundary_len, hle]
      simp only [hp, if_true, h2, h3]; rfl
    · simp only [hp]; rfl
  · rw [if_neg hlt]; rfl

/-! replace_case_insensitive on ASCII -/

theorem ascii_boundary (s : Bytes) (h : ∀ c ∈ s, c.toNat < 128) (i : Nat) (hi : i ≤ s.length) :
    isCharBoundary s i = true := by
  unfold isCharBoundary
  by_cases h0 : i = 0
  · simp [h0]
  · simp only [h0, if_false]
    cases hg : s[i]? with
    | none =>
      have := List.getElem?_eq_none_iff.mp hg
      simp; omega
    | some b =>
      have hm : b ∈ s := List.mem_of_getElem? hg
      have := h b hm
      simp [isCont]; omega

theorem ascii_slice (s : Bytes) (h : ∀ c ∈ s, c.toNat < 128) (a b : Nat) (hab : a ≤ b) (hb : b ≤ s.length) :
    sliceStr s a b = some ((s.take b).drop a) := by
  simp [sliceStr, hab, hb, ascii_boundary s h a (by omega), ascii_boundary s h b hb]

theorem lower_length (s : Bytes) : (B.lower s).length = s.length := by simp [B.lower]

theorem lower_ascii (s : Bytes) (h : ∀ c ∈ s, c.toNat < 128) : ∀ c ∈ B.lower s, c.toNat < 128 := by
  intro c hc
  simp only [B.lower, List.mem_map] at hc
  obtain ⟨a, ha, rfl⟩ := hc
  have := h a ha
  unfold B.toLower
  split
  · rename_i hu
    simp [B.isUpper] at hu
    have h1 : (a + 32).toNat = a.toNat + 32 := by
      have : a.toNat + 32 < 256 := by omega
      simp [UInt8.toNat_add, Nat.mod_eq_of_lt this]
    omega
  · exact this

theorem find_go_bound (p : Bytes) : ∀ (s : Bytes) (i k : Nat), B.find.go p s i = some k → i ≤ k ∧ k - i + p.length ≤ s.length := by
  intro s
  induction s with
  | nil =>
    intro i k h
    simp only [B.find.go] at h
    split at h
    · rename_i hp; cases h; simp at hp; simp [hp]
    · cases h
  | cons c cs ih =>
    intro i k h
    simp only [B.find.go] at h
    split at h
    · rename_i hp
      cases h
      have := isPrefixOf_length hp
      simp at this ⊢; omega
    · have := ih (i + 1) k h
      simp; omega

theorem find_bound (s p : Bytes) (k : Nat) (h : B.find s p = some k) : k + p.length ≤ s.length := by
  have := find_go_bound p s 0 k h
  omega

theorem ciLoop_ascii (text pattern repl : Bytes) (ht : ∀ c ∈ text, c.toNat < 128) (hp : pattern ≠ []) :
    ∀ fuel lastEnd acc, lastEnd ≤ text.length → text.length + 1 ≤ fuel + lastEnd →
      ∃ r, ciLoop text (B.lower text) pattern (B.lower pattern) repl fuel lastEnd acc = .done r := by
  have hl := lower_length text
  have hpl := lower_length pattern
  have hla := lower_ascii text ht
  have hpos : 0 < pattern.length := by
    cases pattern with
    | nil => exact absurd rfl hp
    | cons _ _ => simp
  intro fuel
  induction fuel with
  | zero => intro lastEnd acc h1 h2; omega
  | succ n ih =>
    intro lastEnd acc h1 h2
    unfold ciLoop
    rw [ascii_slice (B.lower text) hla lastEnd (B.lower text).length (by omega) (Nat.le_refl _)]
    simp only
    cases hf : B.find (((B.lower text).take (B.lower text).length).drop lastEnd) (B.lower pattern) with
    | none =>
      rw [ascii_slice text ht lastEnd text.length h1 (Nat.le_refl _)]
      exact ⟨_, rfl⟩
    | some start =>
      have hb := find_bound _ _ _ hf
      simp at hb
      have hb' : lastEnd + start + pattern.length ≤ text.length := by omega
      simp only
      rw [ascii_slice text ht lastEnd (lastEnd + start) (by omega) (by omega)]
      simp only
      exact ih (lastEnd + start + pattern.length) _ hb' (by omega)

theorem replaceCI_ascii (text pattern repl : Bytes) (ht : ∀ c ∈ text, c.toNat < 128) (hp : pattern ≠ []) :
    ∃ r, replaceCIOld B.lower text pattern repl = .done r := by
  unfold replaceCIOld
  exact ciLoop_ascii text pattern repl ht hp (text.length + 2) 0 [] (by omega) (by omega)

/-! ## the repaired shapes -/

theorem sliceStr_some {s : Bytes} {a b : Nat} {r : Bytes} (h : sliceStr s a b = some r) :
    r = (s.take b).drop a ∧ a ≤ b ∧ b ≤ s.length ∧ isCharBoundary s a = true ∧ isCharBoundary s b = true := by
  unfold sliceStr at h
  split at h
  · rename_i hc; cases h; exact ⟨rfl, hc.1, hc.2.1, hc.2.2.1, hc.2.2.2⟩
  · cases h

/-- the checked `replace_case_insensitive` loop always finishes: every slice miss returns, every round advances -/
theorem ciLoopChecked_done (text tl pattern pl repl : Bytes) (hl : tl.length = text.length)
    (hpl : pl.length = pattern.length) (hpos : 0 < pattern.length) :
    ∀ fuel lastEnd acc, lastEnd ≤ text.length → text.length + 1 ≤ fuel + lastEnd →
      ∃ r, ciLoopChecked text tl pattern pl repl fuel lastEnd acc = .done r := by
  intro fuel
  induction fuel with
  | zero => intro lastEnd acc h1 h2; omega
  | succ n ih =>
    intro lastEnd acc h1 h2
    unfold ciLoopChecked
    cases hb : (sliceStr tl lastEnd tl.length).bind (fun rest => B.find rest pl) with
    | none =>
      simp only
      cases sliceStr text lastEnd text.length <;> exact ⟨_, rfl⟩
    | some start =>
      simp only
      obtain ⟨rest, hrest, hfind⟩ := Option.bind_eq_some_iff.mp hb
      have hr := (sliceStr_some hrest).1
      have hbound := find_bound _ _ _ hfind
      rw [hr] at hbound
      simp at hbound
      cases hs : sliceStr text lastEnd (lastEnd + start) with
      | none => exact ⟨_, rfl⟩
      | some before =>
        simp only
        exact ih (lastEnd + start + pattern.length) _ (by omega) (by omega)

theorem replaceCIChecked_done (lower : Bytes → Bytes) (text pattern repl : Bytes) :
    ∃ r, replaceCIChecked lower text pattern repl = .done r := by
  unfold replaceCIChecked
  simp only
  split
  · exact ⟨_, rfl⟩
  · rename_i h
    simp only [Bool.or_eq_true, List.isEmpty_iff, decide_eq_true_eq, not_or] at h
    obtain ⟨⟨h1, h2⟩, h3⟩ := h
    have h2' : (lower text).length = text.length := by simpa using h2
    have h3' : (lower pattern).length = pattern.length := by simpa using h3
    have hpos : 0 < pattern.length := by
      rw [← h3']
      cases hq : lower pattern with
      | nil => exact absurd hq h1
      | cons _ _ => simp
    exact ciLoopChecked_done text (lower text) pattern (lower pattern) repl h2' h3' hpos _ 0 [] (by omega) (by omega)

/-- the literal search loop of `replace --no-regex` finishes for every non-empty pattern -/
theorem litLoop_done (line pattern : Bytes) (hpos : 0 < pattern.length) :
    ∀ fuel ss n, ss ≤ line.length → line.length + 1 ≤ fuel + ss → ∃ k, litLoop line pattern fuel ss n = .done k := by
  intro fuel
  induction fuel with
  | zero => intro ss n h1 h2; omega
  | succ m ih =>
    intro ss n h1 h2
    unfold litLoop
    cases hf : B.find (line.drop ss) pattern with
    | none => exact ⟨_, rfl⟩
    | some pos =>
      simp only
      have hb := find_bound _ _ _ hf
      simp at hb
      exact ih (ss + pos + pattern.length) (n + 1) (by omega) (by omega)

theorem literalChecked_terminates (line pattern : Bytes) : literalChecked line pattern ≠ .diverges := by
  unfold literalChecked
  split
  · intro h; cases h
  · rename_i hp
    have hpos : 0 < pattern.length := by
      cases pattern with
      | nil => simp at hp
      | cons _ _ => simp
    obtain ⟨k, hk⟩ := litLoop_done line pattern hpos (line.length + 2) 0 0 (by omega) (by omega)
    rw [hk]; intro h; cases h

theorem upperRunChecked_ok (n start i bl : Nat) (h1 : start ≤ i) (h2 : i ≤ n) : upperRunChecked n start i bl = true := by
  unfold upperRunChecked upperRunOk
  rw [List.all_eq_true]
  intro len hlen
  have := List.mem_range.mp hlen
  simp only [decide_eq_true_eq]
  omega

theorem variantKeysChecked_nonempty (rendered : List Bytes) (search : Bytes) (exact : Bool) :
    [] ∉ variantKeysChecked rendered search exact := by
  unfold variantKeysChecked
  intro h
  rcases List.mem_append.mp h with h | h
  · have := (List.mem_filter.mp h).2
    simp at this
  · split at h
    · rename_i hc
      simp only [List.mem_singleton] at h
      subst h
      simp at hc
    · cases h

theorem match_nonempty (variants : List Bytes) (bytes : Bytes) (m : Nat × Nat) (hne : [] ∉ variants)
    (hm : IsMatchOf variants bytes m) : m.1 < m.2 := by
  obtain ⟨h1, h2, h3⟩ := hm
  by_cases h : m.1 < m.2
  · exact h
  · have : (bytes.take m.2).drop m.1 = [] := by
      apply List.drop_eq_nil_of_le; simp; omega
    rw [this] at h3
    exact absurd h3 hne

theorem diffStepChecked_some (afterLine content repl : Bytes) (col : Nat)
    (he : col + content.length ≤ afterLine.length → isCharBoundary afterLine (col + content.length) = true) :
    (diffStepChecked afterLine col content repl).isSome = true := by
  unfold diffStepChecked
  cases hs : sliceStr afterLine col afterLine.length with
  | none => rfl
  | some tail =>
    simp only
    split
    · rename_i hc
      simp only [Bool.and_eq_true] at hc
      obtain ⟨hr, _, _, hb, _⟩ := sliceStr_some hs
      have hl := isPrefixOf_length hc.2
      rw [hr] at hl
      simp at hl
      have hle : col + content.length ≤ afterLine.length := by omega
      simp [replaceRange, hle, hb, he hle]
    · rfl

/-- the repaired apply loop never panics (same proof as C02.applyEdits_never_panics, kept here so that C16 can
    state it about `applyEditsCur`) -/
theorem runG_true_no_panic (c : Bytes) : ∀ (l : List Edit) (m : Bytes), runG true c m l ≠ .error .panic := by
  intro l
  induction l with
  | nil => intro m h; simp [runG] at h
  | cons e l ih =>
    intro m h
    simp only [runG] at h
    cases hs : stepG true c m e with
    | error x =>
      rw [hs] at h
      simp only [Except.error.injEq] at h
      subst h
      unfold stepG at hs
      split at hs
      · simp at hs
      · split at hs
        · simp at hs
        · split at hs <;> simp at hs
    | ok m' =>
      rw [hs] at h
      exact ih m' h

/-! acronym trie walk -/

def AcrInv (text : Bytes) (start : Nat) (last : Option Nat) : Prop :=
  ∀ e, last = some e → start < e ∧ e ≤ text.length ∧ ∃ b, text[e - 1]? = some b ∧ b.toNat < 128

theorem acrLoop_inv {σ} (next : σ → UInt8 → Option σ) (isEnd : σ → Bool) (text : Bytes) (start : Nat) :
    ∀ fuel i node last, start ≤ i → AcrInv text start last →
      AcrInv text start (acrLoop true next isEnd text fuel i node last) := by
  intro fuel
  induction fuel with
  | zero => intro i node last _ h; simpa [acrLoop] using h
  | succ n ih =>
    intro i node last hi h
    unfold acrLoop
    cases hb : text[i]? with
    | none => simpa using h
    | some b =>
      simp only
      split
      · exact h
      · rename_i hg
        cases hn : next node b with
        | none => simpa using h
        | some node' =>
          simp only
          apply ih (i + 1) node' _ (by omega)
          split
          · intro e he
            cases he
            have hlt : i < text.length := (List.getElem?_eq_some_iff.mp hb).1
            refine ⟨by omega, by omega, b, by simpa using hb, ?_⟩
            simp at hg
            omega
          · exact h

theorem findLongest_guarded_some {σ} (next : σ → UInt8 → Option σ) (isEnd : σ → Bool) (root : σ) (text : Bytes) (start : Nat)
    (hs : isCharBoundary text start = true) (hc : ContAfterNonAscii text) :
    (findLongestG true next isEnd root text start).isSome = true := by
  unfold findLongestG
  have inv := acrLoop_inv next isEnd text start (text.length - start) start root none (Nat.le_refl _)
    (by intro e he; cases he)
  cases hr : acrLoop true next isEnd text (text.length - start) start root none with
  | none => rfl
  | some e =>
    simp only
    obtain ⟨h1, h2, b, hb, hb128⟩ := inv e hr
    have hbe : isCharBoundary text e = true := by
      unfold isCharBoundary
      have h0 : e ≠ 0 := by omega
      simp only [h0, if_false]
      cases hg : text[e]? with
      | none =>
        have := List.getElem?_eq_none_iff.mp hg
        simp; omega
      | some c =>
        simp only
        cases hcc : isCont c with
        | false => rfl
        | true =>
          have he1 : e - 1 + 1 = e := by omega
          have := hc (e - 1) b c hb (by rw [he1]; exact hg) hcc
          omega
    simp [sliceStr, Nat.le_of_lt h1, h2, hs, hbe]

end Panics
