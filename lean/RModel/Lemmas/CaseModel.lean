import RModel.Model.CaseModel
/-
  Lemmas about the tokenizer `CaseModel.tok` (C18): one lemma per kind of step (end, skip, delimiter, append,
  split, start of a token), then runs (lower-case run, upper-case run, skipped bytes), then whole words
  (lower-case word, upper-case word, capitalised word) and finally the generic "words joined by a delimiter" theorem.
-/
open B

namespace CaseModel

/-- character-class goals: unfold to `toNat` comparisons and call `omega` -/
macro "cc" : tactic => `(tactic| (
  simp only [isLower, isUpper, isDigit, isAlpha, isAlnum, isDelim, Bool.and_eq_true, Bool.or_eq_true,
    decide_eq_true_eq, Bool.and_eq_false_iff, Bool.or_eq_false_iff, decide_eq_false_iff_not,
    Bool.not_eq_true', Bool.not_eq_false'] at *
  <;> omega))

theorem lower_not_upper {c : UInt8} (h : isLower c = true) : isUpper c = false := by cc
theorem lower_not_digit {c : UInt8} (h : isLower c = true) : isDigit c = false := by cc
theorem lower_not_delim {c : UInt8} (h : isLower c = true) : isDelim c = false := by cc
theorem lower_alnum {c : UInt8} (h : isLower c = true) : isAlnum c = true := by cc
theorem lower_alpha {c : UInt8} (h : isLower c = true) : isAlpha c = true := by cc
theorem upper_not_lower {c : UInt8} (h : isUpper c = true) : isLower c = false := by cc
theorem upper_not_digit {c : UInt8} (h : isUpper c = true) : isDigit c = false := by cc
theorem upper_not_delim {c : UInt8} (h : isUpper c = true) : isDelim c = false := by cc
theorem upper_alnum {c : UInt8} (h : isUpper c = true) : isAlnum c = true := by cc
theorem upper_alpha {c : UInt8} (h : isUpper c = true) : isAlpha c = true := by cc
theorem delim_not_alnum {c : UInt8} (h : isDelim c = true) : isAlnum c = false := by cc
theorem not_alnum_not_upper {c : UInt8} (h : isAlnum c = false) : isUpper c = false := by cc
theorem not_alnum_not_lower {c : UInt8} (h : isAlnum c = false) : isLower c = false := by cc
theorem not_alnum_not_digit {c : UInt8} (h : isAlnum c = false) : isDigit c = false := by cc
theorem alnum_cases {c : UInt8} (h : isAlnum c = true) : isUpper c = true ∨ isLower c = true ∨ isDigit c = true := by
  cc

/-- the predicate applied to the first byte (false on the empty string) -/
def headIs (p : UInt8 → Bool) : Bytes → Bool
  | [] => false
  | c :: _ => p c

@[simp] theorem headIs_nil (p : UInt8 → Bool) : headIs p [] = false := rfl
@[simp] theorem headIs_cons (p : UInt8 → Bool) (c : UInt8) (t : Bytes) : headIs p (c :: t) = p c := rfl

theorem headIs_append_of_ne_nil (p : UInt8 → Bool) {w : Bytes} (t : Bytes) (h : w ≠ []) :
    headIs p (w ++ t) = headIs p w := by
  cases w with
  | nil => exact absurd rfl h
  | cons c w => rfl

/-- `prev` after consuming the bytes `w` -/
def prevAfter (prev : Option UInt8) (w : Bytes) : Option UInt8 := w.foldl (fun _ c => some c) prev

@[simp] theorem prevAfter_nil (prev : Option UInt8) : prevAfter prev [] = prev := rfl
@[simp] theorem prevAfter_cons (prev : Option UInt8) (c : UInt8) (w : Bytes) :
    prevAfter prev (c :: w) = prevAfter (some c) w := rfl

theorem prevAfter_append (prev : Option UInt8) (x y : Bytes) :
    prevAfter prev (x ++ y) = prevAfter (prevAfter prev x) y := by
  simp only [prevAfter, List.foldl_append]

theorem prevAfter_all (p : UInt8 → Bool) : ∀ (w : Bytes) (prev : Option UInt8), w ≠ [] → (∀ c ∈ w, p c = true) →
    ∃ q, prevAfter prev w = some q ∧ p q = true
  | [], _, h, _ => absurd rfl h
  | [c], _, _, hw => ⟨c, rfl, hw c (List.mem_singleton.mpr rfl)⟩
  | c :: d :: w, _, _, hw => by
    have := prevAfter_all p (d :: w) (some c) (by simp) (fun x hx => hw x (List.mem_cons_of_mem _ hx))
    simpa only [prevAfter_cons] using this

-- flush ----------------------------------------------------------------------------------------------

@[simp] theorem flush_nil (acc : List Bytes) : flush [] acc = acc := rfl
theorem flush_ne_nil {cur : Bytes} (h : cur ≠ []) (acc : List Bytes) : flush cur acc = acc ++ [cur] := by
  cases cur with
  | nil => exact absurd rfl h
  | cons c w => rfl

-- single steps of `tok` -------------------------------------------------------------------------------

variable {A : Acr}

@[simp] theorem tok_nil (prev : Option UInt8) (cur : Bytes) (skip : Nat) (acc : List Bytes) :
    tok A prev cur skip [] acc = flush cur acc := by
  simp only [tok]

theorem tok_skip (prev : Option UInt8) (cur : Bytes) (k : Nat) (b : UInt8) (rest : Bytes) (acc : List Bytes) :
    tok A prev cur (k + 1) (b :: rest) acc = tok A (some b) cur k rest acc := by
  simp only [tok]

theorem tok_delim {b : UInt8} (h : isDelim b = true) (prev : Option UInt8) (cur rest : Bytes) (acc : List Bytes) :
    tok A prev cur 0 (b :: rest) acc = tok A (some b) [] 0 rest (flush cur acc) := by
  simp only [tok, h, ↓reduceIte]

/-- a non-delimiter, non-alphanumeric byte is ignored -/
theorem tok_other {b : UInt8} (hd : isDelim b = false) (ha : isAlnum b = false) (prev : Option UInt8)
    (cur rest : Bytes) (acc : List Bytes) :
    tok A prev cur 0 (b :: rest) acc = tok A (some b) cur 0 rest acc := by
  simp only [tok, hd, ha, ↓reduceIte, Bool.false_eq_true]

theorem tok_append {b p : UInt8} {cur : Bytes} (hcur : cur ≠ []) (hd : isDelim b = false) (ha : isAlnum b = true)
    (rest : Bytes) (acc : List Bytes) (hs : shouldSplit A p cur b rest = false) :
    tok A (some p) cur 0 (b :: rest) acc = tok A (some b) (cur ++ [b]) 0 rest acc := by
  have hne : cur.isEmpty = false := by cases cur with | nil => exact absurd rfl hcur | cons _ _ => rfl
  simp only [tok, hd, ha, hne, hs, ↓reduceIte, Bool.false_eq_true, Bool.not_false, Bool.and_false]

theorem tok_split {b p : UInt8} {cur : Bytes} (hcur : cur ≠ []) (hd : isDelim b = false) (ha : isAlnum b = true)
    (rest : Bytes) (acc : List Bytes) (hs : shouldSplit A p cur b rest = true) :
    tok A (some p) cur 0 (b :: rest) acc = tok A (some b) [b] 0 rest (acc ++ [cur]) := by
  have hne : cur.isEmpty = false := by cases cur with | nil => exact absurd rfl hcur | cons _ _ => rfl
  simp only [tok, hd, ha, hne, hs, ↓reduceIte, Bool.false_eq_true, Bool.not_false, Bool.and_true]

/-- start of a token, neither look-ahead branch fires: the byte opens the buffer -/
theorem tok_start_plain {b : UInt8} (hd : isDelim b = false) (ha : isAlnum b = true) (prev : Option UInt8)
    (rest : Bytes) (acc : List Bytes) (hacc : acrAccept A (b :: rest) = none)
    (hup : isUpper b = true → upperSplit A (b :: rest) = none) :
    tok A prev [] 0 (b :: rest) acc = tok A (some b) [b] 0 rest acc := by
  have hj : (if isUpper b = true then upperSplit A (b :: rest) else none) = none := by
    split
    · next h => exact hup h
    · rfl
  cases prev <;>
    simp only [tok, hd, ha, hacc, hj, ↓reduceIte, Bool.false_eq_true, List.isEmpty_nil, Bool.not_true,
      Bool.false_and, List.nil_append]

/-- start of a token, the trie branch fires -/
theorem tok_start_acr {b : UInt8} (hd : isDelim b = false) (ha : isAlnum b = true) (prev : Option UInt8)
    (rest : Bytes) (acc : List Bytes) {n : Nat} (hacc : acrAccept A (b :: rest) = some n) :
    tok A prev [] 0 (b :: rest) acc = tok A (some b) [] (n - 1) rest (acc ++ [(b :: rest).take n]) := by
  simp only [tok, hd, ha, hacc, ↓reduceIte, Bool.false_eq_true, List.isEmpty_nil]

-- runs ------------------------------------------------------------------------------------------------

theorem tok_skip_all (cur : Bytes) (acc : List Bytes) : ∀ (x t : Bytes) (prev : Option UInt8),
    tok A prev cur x.length (x ++ t) acc = tok A (prevAfter prev x) cur 0 t acc
  | [], _, _ => rfl
  | c :: x, t, prev => by
    simp only [List.length_cons, List.cons_append, tok_skip, prevAfter_cons]
    exact tok_skip_all cur acc x t (some c)

theorem shouldSplit_lower {b : UInt8} (hb : isLower b = true) (p : UInt8) (cur tail : Bytes) :
    shouldSplit A p cur b tail = false := by
  simp only [shouldSplit, lower_not_upper hb, lower_not_digit hb, Bool.false_and, Bool.and_false,
    Bool.false_eq_true, ↓reduceIte]

/-- inside a token a lower-case letter is always appended -/
theorem tok_lower_run (acc : List Bytes) (t : Bytes) : ∀ (w cur : Bytes) (p : UInt8), cur ≠ [] →
    (∀ c ∈ w, isLower c = true) →
    tok A (some p) cur 0 (w ++ t) acc = tok A (prevAfter (some p) w) (cur ++ w) 0 t acc
  | [], cur, p, _, _ => by simp only [List.nil_append, prevAfter_nil, List.append_nil]
  | c :: w, cur, p, hcur, hw => by
    have hc : isLower c = true := hw c (List.mem_cons_self ..)
    rw [List.cons_append, tok_append hcur (lower_not_delim hc) (lower_alnum hc) _ _ (shouldSplit_lower hc ..)]
    rw [tok_lower_run acc t w (cur ++ [c]) c (by simp) (fun x hx => hw x (List.mem_cons_of_mem _ hx))]
    simp only [prevAfter_cons, List.append_assoc, List.singleton_append]

theorem shouldSplit_upper_upper {b p : UInt8} (hb : isUpper b = true) (hp : isUpper p = true) (cur : Bytes)
    {tail : Bytes} (ht : headIs isLower tail = false) : shouldSplit A p cur b tail = false := by
  cases tail with
  | nil =>
    simp only [shouldSplit, upper_not_lower hp, upper_not_digit hp, upper_not_digit hb, Bool.and_false,
      Bool.false_and, Bool.false_eq_true, ↓reduceIte]
  | cons c t =>
    have h1 : isLower c = false := ht
    simp only [shouldSplit, h1, upper_not_lower hp, upper_not_digit hp, upper_not_digit hb, Bool.and_false,
      Bool.false_and, Bool.false_eq_true, ↓reduceIte]

theorem headIs_lower_upper_append : ∀ (w : Bytes) {t : Bytes}, (∀ c ∈ w, isUpper c = true) →
    headIs isLower t = false → headIs isLower (w ++ t) = false
  | [], _, _, ht => ht
  | c :: _, _, hw, _ => upper_not_lower (hw c (List.mem_cons_self ..))

/-- inside an upper-case token an upper-case letter is appended as long as no lower-case letter follows -/
theorem tok_upper_run (acc : List Bytes) {t : Bytes} (ht : headIs isLower t = false) :
    ∀ (w cur : Bytes) (p : UInt8), cur ≠ [] → isUpper p = true → (∀ c ∈ w, isUpper c = true) →
    tok A (some p) cur 0 (w ++ t) acc = tok A (prevAfter (some p) w) (cur ++ w) 0 t acc
  | [], cur, p, _, _, _ => by simp only [List.nil_append, prevAfter_nil, List.append_nil]
  | c :: w, cur, p, hcur, hp, hw => by
    have hc : isUpper c = true := hw c (List.mem_cons_self ..)
    have hw' : ∀ x ∈ w, isUpper x = true := fun x hx => hw x (List.mem_cons_of_mem _ hx)
    rw [List.cons_append, tok_append hcur (upper_not_delim hc) (upper_alnum hc) _ _
      (shouldSplit_upper_upper hc hp cur (headIs_lower_upper_append w hw' ht))]
    rw [tok_upper_run acc ht w (cur ++ [c]) c (by simp) hc hw']
    simp only [prevAfter_cons, List.append_assoc, List.singleton_append]

-- the acronym branch on whole words ------------------------------------------------------------------------

/-- contract of `find_longest_match`: a match is a non-empty alphanumeric prefix -/
def AcrOk (A : Acr) : Prop :=
  ∀ rest n, A.flm rest = some n → 1 ≤ n ∧ n ≤ rest.length ∧ ∀ c ∈ rest.take n, isAlnum c = true

/-- contract of `find_longest_match`: the longest match does not depend on what follows it
    (cutting the input after the match, or anywhere later, gives the same match) -/
def AcrStable (A : Acr) : Prop :=
  ∀ x t n, A.flm (x ++ t) = some n → n ≤ x.length → A.flm x = some n

theorem all_false_of_mem {p : UInt8 → Bool} {l : Bytes} {x : UInt8} (hx : x ∈ l) (hp : p x = false) :
    l.all p = false := by
  cases h : l.all p with
  | false => rfl
  | true => rw [List.all_eq_true] at h; rw [h x hx] at hp; exact absurd hp (by decide)

theorem drop_cons_of_lt {l : Bytes} {n : Nat} (h : n < l.length) : ∃ nb r, l.drop n = nb :: r := by
  cases hd : l.drop n with
  | nil => rw [List.drop_eq_nil_iff] at hd; omega
  | cons nb r => exact ⟨nb, r, rfl⟩

/-- a trie match that starts at a lower-case word which is not followed by a lower-case letter or digit is
    either rejected or is exactly the word -/
theorem acrAccept_lower (hA : AcrOk A) {w t : Bytes} (hne : w ≠ []) (hw : ∀ c ∈ w, isLower c = true)
    (ht : headIs (fun c => isLower c || isDigit c) t = false) :
    acrAccept A (w ++ t) = none ∨ acrAccept A (w ++ t) = some w.length := by
  unfold acrAccept
  cases hf : A.flm (w ++ t) with
  | none => left; rfl
  | some n =>
    obtain ⟨_, h2, h3⟩ := hA _ _ hf
    obtain ⟨c0, w', rfl⟩ := List.exists_cons_of_ne_nil hne
    have hc0 : isLower c0 = true := hw c0 (List.mem_cons_self ..)
    rcases Nat.lt_trichotomy n (c0 :: w').length with hlt | heq | hgt
    · left
      have hs : acrSkip A (c0 :: w' ++ t) n = true := by
        unfold acrSkip
        rw [List.drop_append_of_le_length (Nat.le_of_lt hlt)]
        obtain ⟨nb, r, hdrop⟩ := drop_cons_of_lt hlt
        have hnb : isLower nb = true := hw nb (List.mem_of_mem_drop (hdrop ▸ List.mem_cons_self ..))
        simp only [hdrop, List.cons_append, List.headD_cons, lower_not_upper hc0, hc0, hnb, Bool.false_and,
          Bool.and_self, Bool.false_eq_true, ↓reduceIte]
      simp only [hs, ↓reduceIte, ite_self]
    · right
      subst heq
      have htake : (c0 :: w' ++ t).take (c0 :: w').length = c0 :: w' := by
        rw [List.take_append_of_le_length (Nat.le_refl _), List.take_length]
      have hcons : (c0 :: w').all (fun c => isLower c || isDigit c) = true := by
        rw [List.all_eq_true]; intro x hx; rw [hw x hx]; rfl
      have hs : acrSkip A (c0 :: w' ++ t) (c0 :: w').length = false := by
        unfold acrSkip
        rw [List.drop_append_of_le_length (Nat.le_refl _), List.drop_length, List.nil_append]
        cases t with
        | nil => rfl
        | cons c t' =>
          have hc : (isLower c || isDigit c) = false := ht
          rw [Bool.or_eq_false_iff] at hc
          simp only [List.cons_append, List.headD_cons, lower_not_upper hc0, hc.1, hc.2, Bool.false_and,
            Bool.and_false, Bool.false_eq_true, ↓reduceIte]
      simp only [htake, hcons, hs, Bool.or_true, Bool.not_true, Bool.false_eq_true, ↓reduceIte]
    · left
      cases t with
      | nil => simp only [List.append_nil] at h2; omega
      | cons c t' =>
        have hc : (isLower c || isDigit c) = false := ht
        rw [Bool.or_eq_false_iff] at hc
        obtain ⟨k, hk⟩ : ∃ k, n - (c0 :: w').length = k + 1 := ⟨n - (c0 :: w').length - 1, by omega⟩
        have htake : (c0 :: w' ++ c :: t').take n = c0 :: (w' ++ c :: t'.take k) := by
          rw [List.take_append, List.take_of_length_le (Nat.le_of_lt hgt), hk, List.take_succ_cons]
          rfl
        have hcu : isUpper c = true := by
          have := h3 c (by rw [htake]; simp)
          rcases alnum_cases this with h | h | h
          · exact h
          · rw [h] at hc; exact absurd hc.1 (by decide)
          · rw [h] at hc; exact absurd hc.2 (by decide)
        have h1 : (c0 :: (w' ++ c :: t'.take k)).all isUpper = false :=
          all_false_of_mem (List.mem_cons_self ..) (lower_not_upper hc0)
        have h2' : (c0 :: (w' ++ c :: t'.take k)).all (fun c => isLower c || isDigit c) = false :=
          all_false_of_mem (x := c) (by simp) (by rw [hc.1, hc.2]; rfl)
        simp only [htake, h1, h2', Bool.or_false, Bool.not_false, ↓reduceIte]

/-- a lower-case word at the start of a token: either it is collected byte by byte, or the trie pushes it whole -/
theorem tok_lower_start (hA : AcrOk A) {w t : Bytes} (hne : w ≠ []) (hw : ∀ c ∈ w, isLower c = true)
    (ht : headIs (fun c => isLower c || isDigit c) t = false) (prev : Option UInt8) (acc : List Bytes) :
    tok A prev [] 0 (w ++ t) acc = tok A (prevAfter prev w) w 0 t acc ∨
    tok A prev [] 0 (w ++ t) acc = tok A (prevAfter prev w) [] 0 t (acc ++ [w]) := by
  have hacc := acrAccept_lower hA hne hw ht
  obtain ⟨c0, w', rfl⟩ := List.exists_cons_of_ne_nil hne
  have hc0 : isLower c0 = true := hw c0 (List.mem_cons_self ..)
  have hw' : ∀ x ∈ w', isLower x = true := fun x hx => hw x (List.mem_cons_of_mem _ hx)
  rcases hacc with hacc | hacc
  · left
    rw [List.cons_append] at hacc ⊢
    rw [tok_start_plain (lower_not_delim hc0) (lower_alnum hc0) prev _ acc hacc
      (fun h => by rw [lower_not_upper hc0] at h; exact absurd h (by decide))]
    rw [tok_lower_run acc t w' [c0] c0 (by simp) hw']
    rfl
  · right
    rw [List.cons_append] at hacc ⊢
    rw [tok_start_acr (lower_not_delim hc0) (lower_alnum hc0) prev _ acc hacc]
    have htake : (c0 :: (w' ++ t)).take (c0 :: w').length = c0 :: w' := by
      rw [← List.cons_append, List.take_append_of_le_length (Nat.le_refl _), List.take_length]
    rw [htake]
    simp only [List.length_cons, Nat.add_sub_cancel]
    rw [tok_skip_all]
    rfl

-- upper-case words ------------------------------------------------------------------------------------------

theorem upperRun_append_upper : ∀ (w t : Bytes), (∀ c ∈ w, isUpper c = true) →
    upperRun (w ++ t) = w.length + upperRun t
  | [], t, _ => by simp only [List.nil_append, List.length_nil, Nat.zero_add]
  | c :: w, t, hw => by
    have hc : isUpper c = true := hw c (List.mem_cons_self ..)
    simp only [List.cons_append, upperRun, hc, ↓reduceIte, List.length_cons,
      upperRun_append_upper w t (fun x hx => hw x (List.mem_cons_of_mem _ hx))]
    omega

theorem upperRun_of_head_not_upper {t : Bytes} (h : headIs isUpper t = false) : upperRun t = 0 := by
  cases t with
  | nil => rfl
  | cons c t =>
    have hc : isUpper c = false := h
    simp only [upperRun, hc, Bool.false_eq_true, ↓reduceIte]

/-- the upper-run branch does not fire on an upper-case word that is not followed by a letter -/
theorem upperSplit_upper_word {w t : Bytes} (hw : ∀ c ∈ w, isUpper c = true) (ht : headIs isAlnum t = false) :
    upperSplit A (w ++ t) = none := by
  have htu : headIs isUpper t = false := by
    cases t with
    | nil => rfl
    | cons c t => exact not_alnum_not_upper ht
  have hj : upperRun (w ++ t) = w.length := by
    rw [upperRun_append_upper w t hw, upperRun_of_head_not_upper htu, Nat.add_zero]
  have hd : (w ++ t).drop w.length = t := by
    rw [List.drop_append_of_le_length (Nat.le_refl _), List.drop_length, List.nil_append]
  simp only [upperSplit, hj, hd]
  cases t with
  | nil => rfl
  | cons c t =>
    have hc : isLower c = false := not_alnum_not_lower ht
    simp only [hc, Bool.and_false, Bool.false_eq_true, ↓reduceIte]

/-- clause N1 of neutrality, on an upper-case word `W`: a trie match on a proper prefix of `W` is not followed by
    a second trie match -/
def NoAcrPair (A : Acr) (W : Bytes) : Prop :=
  ∀ n, A.flm W = some n → n = W.length ∨ A.flm (W.drop n) = none

theorem flm_bound (hA : AcrOk A) {x t : Bytes} {n : Nat} (ht : headIs isAlnum t = false)
    (hf : A.flm (x ++ t) = some n) : n ≤ x.length := by
  obtain ⟨_, h2, h3⟩ := hA _ _ hf
  cases t with
  | nil => simpa only [List.append_nil] using h2
  | cons c t' =>
    have hc : isAlnum c = false := ht
    cases Nat.lt_or_ge x.length n with
    | inr h => exact h
    | inl h =>
      obtain ⟨k, hk⟩ : ∃ k, n - x.length = k + 1 := ⟨n - x.length - 1, by omega⟩
      have : c ∈ (x ++ c :: t').take n := by
        rw [List.take_append, List.take_of_length_le (Nat.le_of_lt h), hk, List.take_succ_cons]; simp
      rw [h3 c this] at hc
      exact absurd hc (by decide)

theorem acrAccept_upper (hA : AcrOk A) (hS : AcrStable A) {w t : Bytes} (hne : w ≠ [])
    (hw : ∀ c ∈ w, isUpper c = true) (hN : NoAcrPair A w) (ht : headIs isAlnum t = false) :
    acrAccept A (w ++ t) = none ∨ acrAccept A (w ++ t) = some w.length := by
  unfold acrAccept
  cases hf : A.flm (w ++ t) with
  | none => left; rfl
  | some n =>
    have hle : n ≤ w.length := flm_bound hA ht hf
    have hfw : A.flm w = some n := hS _ _ _ hf hle
    obtain ⟨c0, w', rfl⟩ := List.exists_cons_of_ne_nil hne
    have hc0 : isUpper c0 = true := hw c0 (List.mem_cons_self ..)
    by_cases heq : n = (c0 :: w').length
    · right
      subst heq
      have htake : (c0 :: w' ++ t).take (c0 :: w').length = c0 :: w' := by
        rw [List.take_append_of_le_length (Nat.le_refl _), List.take_length]
      have hcons : (c0 :: w').all isUpper = true := by
        rw [List.all_eq_true]; exact hw
      have hs : acrSkip A (c0 :: w' ++ t) (c0 :: w').length = false := by
        unfold acrSkip
        rw [List.drop_append_of_le_length (Nat.le_refl _), List.drop_length, List.nil_append]
        cases t with
        | nil => rfl
        | cons c t' =>
          have hc : isAlnum c = false := ht
          simp only [List.cons_append, List.headD_cons, not_alnum_not_upper hc, not_alnum_not_lower hc,
            not_alnum_not_digit hc, Bool.false_and, Bool.and_false, Bool.false_eq_true, ↓reduceIte]
      simp only [htake, hcons, hs, Bool.true_or, Bool.not_true, Bool.false_eq_true, ↓reduceIte]
    · left
      have hlt : n < (c0 :: w').length := by omega
      have hnone : A.flm ((c0 :: w').drop n) = none := by
        rcases hN n hfw with h | h
        · exact absurd h heq
        · exact h
      have hs : acrSkip A (c0 :: w' ++ t) n = true := by
        unfold acrSkip
        rw [List.drop_append_of_le_length hle]
        obtain ⟨nb, r, hdrop⟩ := drop_cons_of_lt hlt
        have hnb : isUpper nb = true := hw nb (List.mem_of_mem_drop (hdrop ▸ List.mem_cons_self ..))
        have hnone' : A.flm (nb :: (r ++ t)) = none := by
          cases hf2 : A.flm (nb :: (r ++ t)) with
          | none => rfl
          | some m =>
            have hm : m ≤ (nb :: r).length := flm_bound hA ht (by rw [List.cons_append]; exact hf2)
            have := hS (nb :: r) t m (by rw [List.cons_append]; exact hf2) hm
            rw [← hdrop, hnone] at this
            exact absurd this (by simp)
        simp only [hdrop, List.cons_append, List.headD_cons, hc0, hnb, Bool.and_self, ↓reduceIte, hnone',
          upperRun, gt_iff_lt, Nat.zero_lt_succ, decide_true]
      simp only [hs, ↓reduceIte, ite_self]

theorem headIs_lower_of_not_alnum {t : Bytes} (ht : headIs isAlnum t = false) : headIs isLower t = false := by
  cases t with
  | nil => rfl
  | cons c t => exact not_alnum_not_lower ht

theorem headIs_lowdig_of_not_alnum {t : Bytes} (ht : headIs isAlnum t = false) :
    headIs (fun c => isLower c || isDigit c) t = false := by
  cases t with
  | nil => rfl
  | cons c t =>
    have h : isAlnum c = false := ht
    show (isLower c || isDigit c) = false
    rw [not_alnum_not_lower h, not_alnum_not_digit h]; rfl

/-- an upper-case word at the start of a token, followed by a non-alphanumeric byte or the end -/
theorem tok_upper_start (hA : AcrOk A) (hS : AcrStable A) {w t : Bytes} (hne : w ≠ [])
    (hw : ∀ c ∈ w, isUpper c = true) (hN : NoAcrPair A w) (ht : headIs isAlnum t = false)
    (prev : Option UInt8) (acc : List Bytes) :
    tok A prev [] 0 (w ++ t) acc = tok A (prevAfter prev w) w 0 t acc ∨
    tok A prev [] 0 (w ++ t) acc = tok A (prevAfter prev w) [] 0 t (acc ++ [w]) := by
  have hacc := acrAccept_upper hA hS hne hw hN ht
  have hus : upperSplit A (w ++ t) = none := upperSplit_upper_word hw ht
  obtain ⟨c0, w', rfl⟩ := List.exists_cons_of_ne_nil hne
  have hc0 : isUpper c0 = true := hw c0 (List.mem_cons_self ..)
  have hw' : ∀ x ∈ w', isUpper x = true := fun x hx => hw x (List.mem_cons_of_mem _ hx)
  rcases hacc with hacc | hacc
  · left
    rw [List.cons_append] at hacc hus ⊢
    rw [tok_start_plain (upper_not_delim hc0) (upper_alnum hc0) prev _ acc hacc (fun _ => hus)]
    rw [tok_upper_run acc (headIs_lower_of_not_alnum ht) w' [c0] c0 (by simp) hc0 hw']
    rfl
  · right
    rw [List.cons_append] at hacc ⊢
    rw [tok_start_acr (upper_not_delim hc0) (upper_alnum hc0) prev _ acc hacc]
    have htake : (c0 :: (w' ++ t)).take (c0 :: w').length = c0 :: w' := by
      rw [← List.cons_append, List.take_append_of_le_length (Nat.le_refl _), List.take_length]
    rw [htake]
    simp only [List.length_cons, Nat.add_sub_cancel]
    rw [tok_skip_all]
    rfl

-- capitalised words ------------------------------------------------------------------------------------------

/-- one upper-case letter followed by at least one lower-case letter -/
def IsCap (r : Bytes) : Prop :=
  ∃ u l0 l', r = u :: l0 :: l' ∧ isUpper u = true ∧ ∀ c ∈ l0 :: l', isLower c = true

theorem acrAccept_cap (hA : AcrOk A) (hS : AcrStable A) {u l0 : UInt8} {l' : Bytes} (hu : isUpper u = true)
    (hl0 : isLower l0 = true) (hN : A.flm (u :: l0 :: l') ≠ some 1) (t : Bytes) :
    acrAccept A (u :: l0 :: l' ++ t) = none := by
  unfold acrAccept
  cases hf : A.flm (u :: l0 :: l' ++ t) with
  | none => rfl
  | some n =>
    obtain ⟨h1, _, _⟩ := hA _ _ hf
    by_cases hn1 : n = 1
    · subst hn1
      exact absurd (hS _ _ _ hf (by simp)) hN
    · obtain ⟨k, rfl⟩ : ∃ k, n = k + 2 := ⟨n - 2, by omega⟩
      have htake : (u :: l0 :: l' ++ t).take (k + 2) = u :: l0 :: (l' ++ t).take k := rfl
      have h1 : (u :: l0 :: (l' ++ t).take k).all isUpper = false :=
        all_false_of_mem (x := l0) (by simp) (lower_not_upper hl0)
      have h2 : (u :: l0 :: (l' ++ t).take k).all (fun c => isLower c || isDigit c) = false :=
        all_false_of_mem (List.mem_cons_self ..) (by rw [upper_not_lower hu, upper_not_digit hu]; rfl)
      simp only [htake, h1, h2, Bool.or_false, Bool.not_false, ↓reduceIte]

theorem upperSplit_cap {u l0 : UInt8} (hu : isUpper u = true) (hl0 : isLower l0 = true) (r : Bytes) :
    upperSplit A (u :: l0 :: r) = none := by
  simp only [upperSplit, upperRun, hu, lower_not_upper hl0, ↓reduceIte, Bool.false_eq_true, Nat.zero_add,
    List.drop_succ_cons, List.drop_zero, gt_iff_lt, Nat.lt_irrefl, decide_false, Bool.false_and]

/-- a capitalised word at the start of a token is collected whole, whatever follows -/
theorem tok_cap_start (hA : AcrOk A) (hS : AcrStable A) {r : Bytes} (hr : IsCap r) (hN : A.flm r ≠ some 1)
    (t : Bytes) (prev : Option UInt8) (acc : List Bytes) :
    tok A prev [] 0 (r ++ t) acc = tok A (prevAfter prev r) r 0 t acc := by
  obtain ⟨u, l0, l', rfl, hu, hl⟩ := hr
  have hl0 : isLower l0 = true := hl l0 (List.mem_cons_self ..)
  have hacc := acrAccept_cap hA hS hu hl0 hN t
  rw [List.cons_append] at hacc ⊢
  rw [tok_start_plain (upper_not_delim hu) (upper_alnum hu) prev _ acc hacc
    (fun _ => by rw [List.cons_append]; exact upperSplit_cap hu hl0 _)]
  rw [tok_lower_run acc t (l0 :: l') [u] u (by simp) hl]
  rfl

-- words separated by a delimiter -----------------------------------------------------------------------------

/-- `r` behaves as one token when it starts a token and is followed by `t` -/
def StartOK (A : Acr) (r t : Bytes) : Prop :=
  ∀ prev acc, tok A prev [] 0 (r ++ t) acc = tok A (prevAfter prev r) r 0 t acc ∨
              tok A prev [] 0 (r ++ t) acc = tok A (prevAfter prev r) [] 0 t (acc ++ [r])

/-- `r` is tokenised as the single token `r` whenever it is followed by a non-alphanumeric byte or the end -/
def Good (A : Acr) (r : Bytes) : Prop :=
  r ≠ [] ∧ ∀ t, headIs isAlnum t = false → StartOK A r t

theorem good_lower (hA : AcrOk A) {w : Bytes} (hne : w ≠ []) (hw : ∀ c ∈ w, isLower c = true) : Good A w :=
  ⟨hne, fun _ ht prev acc => tok_lower_start hA hne hw (headIs_lowdig_of_not_alnum ht) prev acc⟩

theorem good_upper (hA : AcrOk A) (hS : AcrStable A) {w : Bytes} (hne : w ≠ [])
    (hw : ∀ c ∈ w, isUpper c = true) (hN : NoAcrPair A w) : Good A w :=
  ⟨hne, fun _ ht prev acc => tok_upper_start hA hS hne hw hN ht prev acc⟩

theorem isCap_ne_nil {r : Bytes} (h : IsCap r) : r ≠ [] := by
  obtain ⟨u, l0, l', rfl, _⟩ := h; simp

theorem good_cap (hA : AcrOk A) (hS : AcrStable A) {r : Bytes} (hr : IsCap r) (hN : A.flm r ≠ some 1) :
    Good A r :=
  ⟨isCap_ne_nil hr, fun t _ prev acc => Or.inl (tok_cap_start hA hS hr hN t prev acc)⟩

theorem tok_good_end {r : Bytes} (h : Good A r) (prev : Option UInt8) (acc : List Bytes) :
    tok A prev [] 0 r acc = acc ++ [r] := by
  have := h.2 [] rfl prev acc
  simp only [List.append_nil, tok_nil, flush_nil, flush_ne_nil h.1] at this
  rcases this with h | h <;> exact h

theorem tok_good_delim {r : Bytes} (h : Good A r) {d : UInt8} (hd : isDelim d = true) (rest : Bytes)
    (prev : Option UInt8) (acc : List Bytes) :
    tok A prev [] 0 (r ++ d :: rest) acc = tok A (some d) [] 0 rest (acc ++ [r]) := by
  have := h.2 (d :: rest) (delim_not_alnum hd) prev acc
  simp only [tok_delim hd, flush_nil, flush_ne_nil h.1] at this
  rcases this with h | h <;> exact h

theorem joinWith_cons_cons (sep a b : Bytes) (l : List Bytes) :
    joinWith sep (a :: b :: l) = a ++ sep ++ joinWith sep (b :: l) := rfl

/-- good words joined by a delimiter are tokenised into exactly those words -/
theorem tok_join {d : UInt8} (hd : isDelim d = true) : ∀ (rs : List Bytes) (prev : Option UInt8)
    (acc : List Bytes), (∀ r ∈ rs, Good A r) → tok A prev [] 0 (joinWith [d] rs) acc = acc ++ rs
  | [], _, _, _ => by simp only [joinWith, tok_nil, flush_nil, List.append_nil]
  | [r], prev, acc, h => by
    simp only [joinWith]
    exact tok_good_end (h r (List.mem_singleton.mpr rfl)) prev acc
  | a :: b :: l, prev, acc, h => by
    rw [joinWith_cons_cons, List.append_assoc, List.singleton_append,
      tok_good_delim (h a (List.mem_cons_self ..)) hd,
      tok_join hd (b :: l) (some d) (acc ++ [a]) (fun r hr => h r (List.mem_cons_of_mem _ hr))]
    simp only [List.append_assoc, List.singleton_append]

theorem parse_join {d : UInt8} (hd : isDelim d = true) (rs : List Bytes) (h : ∀ r ∈ rs, Good A r) :
    parse A (joinWith [d] rs) = rs := by
  simp only [parse, tok_join hd rs none [] h, List.nil_append]

end CaseModel
