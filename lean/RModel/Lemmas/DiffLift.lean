import RModel.Lemmas.Hunks
import RModel.Lemmas.Lines
/- from the line to the file: the `+` text of a diff block is the line with the same NUMBER in the applied file -/
namespace Hunks
open Edits Matcher

theorem trailingRun_snoc_nl (x : Bytes) : trailingRun (x ++ [10]) = 0 := by
  have := trailingRun_after_nl x []
  simpa [trailingRun] using this

theorem takeLine_line (P R : Bytes)
    (h : (∃ P0, P = P0 ++ [10] ∧ nlCount P0 = 0) ∨ (R = [] ∧ nlCount P = 0)) : takeLine (P ++ R) = P := by
  rcases h with ⟨P0, rfl, h0⟩ | ⟨rfl, h0⟩
  · rw [List.append_assoc, takeLine_append_noNl _ _ (noNl_of_count_zero h0)]
    simp [takeLine]
  · rw [takeLine_append_noNl _ _ (noNl_of_count_zero h0)]
    simp [takeLine]

/-- a complete-lines prefix `A`, then one line `P`, then the rest: `P` is line number (newlines of A) + 1 -/
theorem lineOf_middle (A P R : Bytes) (hA : trailingRun A = 0) (hP : P ≠ [])
    (hline : (∃ P0, P = P0 ++ [10] ∧ nlCount P0 = 0) ∨ (R = [] ∧ nlCount P = 0)) :
    lineOf (A ++ (P ++ R)) (nlCount A + 1) = some P := by
  unfold lineOf
  have hlen : A.length < (A ++ (P ++ R)).length := by
    have : 0 < P.length := List.length_pos_iff.mpr hP
    simp; omega
  have h := lineOf_at (A ++ (P ++ R)).length (A ++ (P ++ R)) A.length (Nat.le_refl _) hlen
  have htake : (A ++ (P ++ R)).take A.length = A := List.take_left' rfl
  have hls : lineStart (A ++ (P ++ R)) A.length = A.length := by
    unfold lineStart
    rw [htake, hA]
    simp
  rw [htake, hls] at h
  simp only [Nat.add_sub_cancel]
  rw [h, List.drop_left' rfl, takeLine_line P R hline]

-- newline counts through the splice ----------------------------------------------------------------

theorem drop_decomp (c : Bytes) (off a b : Nat) (h1 : off ≤ a) (h2 : a ≤ b) (h3 : b ≤ c.length) :
    c.drop off = (c.drop off).take (a - off) ++ ((c.take b).drop a ++ c.drop b) := by
  have e1 : (c.take b).drop a ++ c.drop b = c.drop a := by
    conv => rhs; rw [← List.take_append_drop b c]
    rw [List.drop_append_of_le_length (by simp; omega)]
  rw [e1]
  have e2 : c.drop a = (c.drop off).drop (a - off) := by
    rw [List.drop_drop]; congr 1; omega
  rw [e2, List.take_append_drop]

theorem nlCount_spec (c : Bytes) (off : Nat) (es : List Edit) (h : Consistent c off es)
    (hnl : ∀ e ∈ es, nlCount e.before = 0 ∧ nlCount e.after = 0) :
    nlCount (spec c off es) = nlCount (c.drop off) := by
  induction es generalizing off with
  | nil => rfl
  | cons e es ih =>
    obtain ⟨h1, h2, h3, _, _, hb, _, hrest⟩ := h
    obtain ⟨n1, n2⟩ := hnl e List.mem_cons_self
    simp only [spec]
    rw [nlCount_append, nlCount_append, ih e.stop hrest (fun x hx => hnl x (List.mem_cons_of_mem _ hx)), n2]
    conv => rhs; rw [drop_decomp c off e.start e.stop h1 h2 h3]
    rw [nlCount_append, nlCount_append, hb, n1]
    omega

-- cutting off a final newline that no edit touches ---------------------------------------------------

theorem boundary_of_snoc (A0 : Bytes) (x : UInt8) (i : Nat) (hi : i ≤ A0.length)
    (h : isCharBoundary (A0 ++ [x]) i = true) : isCharBoundary A0 i = true := by
  unfold isCharBoundary at h ⊢
  by_cases h0 : i = 0
  · simp [h0]
  · simp only [h0, if_false] at h ⊢
    by_cases hlt : i < A0.length
    · rw [List.getElem?_append_left hlt] at h
      have hs : A0[i]? = some A0[i] := by simp [hlt]
      rw [hs] at h ⊢
      exact h
    · have : i = A0.length := by omega
      subst this
      simp

theorem consistent_of_snoc_nl (A0 : Bytes) (off : Nat) (es : List Edit) (hoff : off ≤ A0.length)
    (h : Consistent (A0 ++ [10]) off es)
    (hnl : ∀ e ∈ es, nlCount e.before = 0 ∧ e.start < e.stop) : Consistent A0 off es := by
  induction es generalizing off with
  | nil => simpa [Consistent] using hoff
  | cons e es ih =>
    obtain ⟨h1, h2, h3, b1, b2, hb, ha, hrest⟩ := h
    obtain ⟨n1, n2⟩ := hnl e List.mem_cons_self
    have hstop : e.stop ≤ A0.length := by
      simp only [List.length_append, List.length_cons, List.length_nil] at h3
      by_cases hle : e.stop ≤ A0.length
      · exact hle
      · have hs : e.stop = A0.length + 1 := by omega
        have : e.before = A0.drop e.start ++ [10] := by
          rw [← hb, hs, List.take_of_length_le (by simp), List.drop_append_of_le_length (by omega)]
        rw [this, nlCount_append] at n1
        simp [nlCount] at n1
    refine ⟨h1, h2, hstop, boundary_of_snoc A0 10 e.start (by omega) b1, boundary_of_snoc A0 10 e.stop hstop b2, ?_, ha, ?_⟩
    · rw [← hb, List.take_append_of_le_length hstop]
    · exact ih e.stop hstop hrest (fun x hx => hnl x (List.mem_cons_of_mem _ hx))

theorem spec_snoc_nl (A0 : Bytes) (es : List Edit) (h : Consistent (A0 ++ [10]) 0 es)
    (hnl : ∀ e ∈ es, nlCount e.before = 0 ∧ e.start < e.stop) :
    spec (A0 ++ [10]) 0 es = spec A0 0 es ++ [10] := by
  have hc := consistent_of_snoc_nl A0 0 es (Nat.zero_le _) h hnl
  have := spec_append A0 [10] 0 es [] hc
  simpa [shift, spec] using this

/-- the spliced image of a block of complete lines is again a block of complete lines with as many newlines -/
theorem spec_complete_lines (A : Bytes) (EA : List Edit) (hA : A = [] ∨ ∃ A0, A = A0 ++ [10])
    (h : Consistent A 0 EA)
    (hnl : ∀ e ∈ EA, nlCount e.before = 0 ∧ nlCount e.after = 0 ∧ e.start < e.stop) :
    trailingRun (spec A 0 EA) = 0 ∧ nlCount (spec A 0 EA) = nlCount A := by
  have hcount := nlCount_spec A 0 EA h (fun e he => ⟨(hnl e he).1, (hnl e he).2.1⟩)
  simp only [List.drop_zero] at hcount
  refine ⟨?_, hcount⟩
  rcases hA with rfl | ⟨A0, rfl⟩
  · cases EA with
    | nil => simp [spec, trailingRun]
    | cons e es =>
      obtain ⟨_, _, h3, _⟩ := h
      have := (hnl e List.mem_cons_self).2.2
      simp at h3
      omega
  · rw [spec_snoc_nl A0 EA h (fun e he => ⟨(hnl e he).1, (hnl e he).2.2⟩)]
    exact trailingRun_snoc_nl _

/-- the spliced image of one line is one line -/
theorem spec_one_line (L : Bytes) (EL : List Edit) (h : Consistent L 0 EL)
    (hnl : ∀ e ∈ EL, nlCount e.before = 0 ∧ nlCount e.after = 0 ∧ e.start < e.stop)
    (hL : ∃ L0, L = L0 ++ [10] ∧ nlCount L0 = 0) :
    ∃ P0, spec L 0 EL = P0 ++ [10] ∧ nlCount P0 = 0 := by
  obtain ⟨L0, rfl, h0⟩ := hL
  have hnl' : ∀ e ∈ EL, nlCount e.before = 0 ∧ e.start < e.stop := fun e he => ⟨(hnl e he).1, (hnl e he).2.2⟩
  refine ⟨spec L0 0 EL, spec_snoc_nl L0 EL h hnl', ?_⟩
  have hc := consistent_of_snoc_nl L0 0 EL (Nat.zero_le _) h hnl'
  have := nlCount_spec L0 0 EL hc (fun e he => ⟨(hnl e he).1, (hnl e he).2.1⟩)
  simpa [h0] using this

end Hunks
