import RModel.Model.VariantMap
import RModel.Lemmas.CaseModelStyles
/-
  C18 lemmas, part 6: the variant table — association-list facts (`or_insert`, `insert`), re-rendering the tokens of
  a name typed in one style in another style, and distinctness of the renderings of one word list.
-/
open B
set_option linter.unusedSimpArgs false

namespace CaseModel

-- association lists -----------------------------------------------------------------------------------------------------------

theorem lookup_singleton (k' k v : Bytes) :
    List.lookup k' [(k, v)] = if k' == k then some v else none := by
  rw [List.lookup_cons]
  cases k' == k <;> rfl

theorem lookup_insertIfAbsent (m : List (Bytes × Bytes)) (k v k' : Bytes) :
    (insertIfAbsent m k v).lookup k' = (m.lookup k').or (if k' == k then some v else none) := by
  unfold insertIfAbsent
  cases hk : m.lookup k with
  | none =>
    simp only [Option.isSome_none, Bool.false_eq_true, ↓reduceIte, List.lookup_append, lookup_singleton]
  | some x =>
    simp only [Option.isSome_some, ↓reduceIte]
    cases hkk : k' == k with
    | false => simp only [Bool.false_eq_true, ↓reduceIte, Option.or_none]
    | true =>
      rw [beq_iff_eq] at hkk
      rw [hkk, hk]; rfl

theorem lookup_foldl_insert (k' : Bytes) : ∀ (rows m : List (Bytes × Bytes)),
    (rows.foldl (fun m e => insertIfAbsent m e.1 e.2) m).lookup k' = (m.lookup k').or (rows.lookup k')
  | [], m => by simp only [List.foldl_nil, List.lookup_nil, Option.or_none]
  | e :: rows, m => by
    obtain ⟨ek, ev⟩ := e
    rw [List.foldl_cons, lookup_foldl_insert k' rows, lookup_insertIfAbsent, Option.or_assoc, List.lookup_cons]
    cases k' == ek <;> simp only [Bool.false_eq_true, ↓reduceIte, Option.none_or, Option.some_or]

theorem lookup_buildMap (rows : List (Bytes × Bytes)) (k : Bytes) : (buildMap rows).lookup k = rows.lookup k := by
  rw [buildMap, lookup_foldl_insert]; rfl

/-- the first row with key `k` decides; if all rows with key `k` agree, that is the value -/
theorem lookup_of_all {k v : Bytes} : ∀ {rows : List (Bytes × Bytes)}, (∃ e ∈ rows, e.1 = k) →
    (∀ e ∈ rows, e.1 = k → e.2 = v) → rows.lookup k = some v
  | [], h, _ => by obtain ⟨e, he, _⟩ := h; exact absurd he (by simp)
  | (ek, ev) :: rows, hex, hall => by
    rw [List.lookup_cons]
    cases hk : k == ek with
    | true =>
      rw [beq_iff_eq] at hk
      exact congrArg some (hall (ek, ev) (List.mem_cons_self ..) hk.symm)
    | false =>
      simp only
      apply lookup_of_all
      · obtain ⟨e, he, hek⟩ := hex
        rcases List.mem_cons.mp he with rfl | he
        · simp only at hek; rw [hek] at hk; simp at hk
        · exact ⟨e, he, hek⟩
      · exact fun e he => hall e (List.mem_cons_of_mem _ he)

/-- the first row with key `k` decides (collision form): rows before it do not have the key -/
theorem lookup_first {k : Bytes} : ∀ (pre : List (Bytes × Bytes)) (e : Bytes × Bytes) (post : List (Bytes × Bytes)),
    (∀ x ∈ pre, x.1 ≠ k) → e.1 = k → (pre ++ e :: post).lookup k = some e.2
  | [], (ek, ev), post, _, he => by
    simp only at he
    rw [List.nil_append, List.lookup_cons, he, beq_self_eq_true]
  | (xk, xv) :: pre, e, post, hpre, he => by
    have hx : (k == xk) = false := by
      cases h : k == xk with
      | false => rfl
      | true => rw [beq_iff_eq] at h; exact absurd h.symm (hpre (xk, xv) (List.mem_cons_self ..))
    rw [List.cons_append, List.lookup_cons, hx]
    exact lookup_first pre e post (fun x hx => hpre x (List.mem_cons_of_mem _ hx)) he

theorem lookup_filter_ne {k k' : Bytes} (h : (k' == k) = false) : ∀ (m : List (Bytes × Bytes)),
    (m.filter (fun e => !(e.1 == k))).lookup k' = m.lookup k'
  | [] => rfl
  | (ek, ev) :: m => by
    cases hek : ek == k with
    | true =>
      rw [beq_iff_eq] at hek
      rw [List.filter_cons]
      simp only [hek, beq_self_eq_true, Bool.not_true, Bool.false_eq_true, ↓reduceIte, List.lookup_cons, h]
      exact lookup_filter_ne h m
    | false =>
      rw [List.filter_cons]
      simp only [hek, Bool.not_false, ↓reduceIte, List.lookup_cons]
      rw [lookup_filter_ne h m]

theorem lookup_insertOverride (m : List (Bytes × Bytes)) (k v k' : Bytes) :
    (insertOverride m k v).lookup k' = if k' == k then some v else m.lookup k' := by
  rw [insertOverride, List.lookup_cons]
  cases h : k' == k with
  | true => rfl
  | false => simp only [Bool.false_eq_true, ↓reduceIte]; exact lookup_filter_ne h m

theorem mem_variantRows {A : Acr} {styles : List Style} {models : List (List Bytes × List Bytes)}
    {e : Bytes × Bytes} : e ∈ variantRows A styles models ↔
      ∃ st ∈ styles, ∃ m ∈ models, e = (toStyle A m.1 st, toStyle A m.2 st) := by
  simp only [variantRows, List.mem_flatMap, List.mem_map]
  constructor
  · rintro ⟨st, hst, m, hm, rfl⟩; exact ⟨st, hst, m, hm, rfl⟩
  · rintro ⟨st, hst, m, hm, rfl⟩; exact ⟨st, hst, m, hm, rfl⟩

-- re-rendering tokens that were typed in another style ---------------------------------------------------------------

/-- `r` renders like `w` in every style -/
def Rend (A : Acr) (r w : Bytes) : Prop :=
  lower r = lower w ∧ upper r = upper w ∧ capitalizeFirst r = capitalizeFirst w ∧ capOrKeep A r = capOrKeep A w

def Rel2 (R : Bytes → Bytes → Prop) : List Bytes → List Bytes → Prop
  | [], [] => True
  | a :: as, b :: bs => R a b ∧ Rel2 R as bs
  | _, _ => False

theorem Rel2.map_eq {R : Bytes → Bytes → Prop} {f : Bytes → Bytes} (hf : ∀ a b, R a b → f a = f b) :
    ∀ {as bs : List Bytes}, Rel2 R as bs → as.map f = bs.map f
  | [], [], _ => rfl
  | a :: _, b :: _, h => by
    rw [List.map_cons, List.map_cons, hf a b h.1, Rel2.map_eq hf h.2]
  | [], _ :: _, h => absurd h (by simp [Rel2])
  | _ :: _, [], h => absurd h (by simp [Rel2])

theorem Rel2.refl {R : Bytes → Bytes → Prop} (hR : ∀ a, R a a) : ∀ (as : List Bytes), Rel2 R as as
  | [] => trivial
  | a :: as => ⟨hR a, Rel2.refl hR as⟩

theorem Rel2.map_left {R : Bytes → Bytes → Prop} {f : Bytes → Bytes} :
    ∀ {bs : List Bytes}, (∀ b ∈ bs, R (f b) b) → Rel2 R (bs.map f) bs
  | [], _ => trivial
  | b :: _, h => ⟨h b (List.mem_cons_self ..), Rel2.map_left (fun x hx => h x (List.mem_cons_of_mem _ hx))⟩

variable {A : Acr}

theorem toStyle_congr {rs ws : List Bytes} (h : Rel2 (Rend A) rs ws) (st : Style) :
    toStyle A rs st = toStyle A ws st := by
  have h1 : rs.map lower = ws.map lower := Rel2.map_eq (fun _ _ h => h.1) h
  have h2 : rs.map upper = ws.map upper := Rel2.map_eq (fun _ _ h => h.2.1) h
  have h3 : rs.map capitalizeFirst = ws.map capitalizeFirst := Rel2.map_eq (fun _ _ h => h.2.2.1) h
  have h4 : rs.map (capOrKeep A) = ws.map (capOrKeep A) := Rel2.map_eq (fun _ _ h => h.2.2.2) h
  cases st <;> simp only [toStyle, h1, h2, h3, h4]
  · match rs, ws, h with
    | [], [], _ => rfl
    | r :: rs, w :: ws, h =>
      have h4' : rs.map (capOrKeep A) = ws.map (capOrKeep A) := Rel2.map_eq (fun _ _ h => h.2.2.2) h.2
      simp only [h.1.1, h4']
  · match rs, ws, h with
    | [], [], _ => rfl
    | r :: rs, w :: ws, h =>
      have h1' : rs.map lower = ws.map lower := Rel2.map_eq (fun _ _ h => h.1) h.2
      simp only [h.1.2.2.1, h1']

theorem rend_refl (w : Bytes) : Rend A w w := ⟨rfl, rfl, rfl, rfl⟩

theorem rend_cap {w : Bytes} (h : Word w) : Rend A (capitalizeFirst w) w := by
  have hc := isCap_capitalizeFirst h
  refine ⟨?_, upper_capitalizeFirst h.2, capitalizeFirst_cap hc, ?_⟩
  · rw [lower_capitalizeFirst h.2, lower_of_lower h.2]
  · rw [capOrKeep_cap hc, capOrKeep_lower h.lowerWord]

/-- an upper-case rendering re-renders like the word if it is longer than two letters (`capitalize_first` keeps
    all-upper strings of length ≤ 2) and is not a known acronym (Camel/Pascal/Train keep those verbatim) -/
theorem rend_upper {w : Bytes} (hlen : 3 ≤ w.length) (hw : ∀ c ∈ w, isLower c = true)
    (hacr : A.isAcr (upper w) = false) : Rend A (upper w) w := by
  have hcap : capitalizeFirst (upper w) = capitalizeFirst w := by
    match w, hlen, hw with
    | c :: cs, hlen, hw =>
      have hcs : ∀ x ∈ cs, isLower x = true := fun x hx => hw x (List.mem_cons_of_mem _ hx)
      rw [capitalizeFirst_lower_cons hw]
      have hl : decide ((toUpper c :: upper cs).length ≤ 2) = false := by
        rw [decide_eq_false_iff_not, List.length_cons, upper_length]
        simp only [List.length_cons] at hlen; omega
      have : upper (c :: cs) = toUpper c :: upper cs := rfl
      simp only [capitalizeFirst, this, hl, Bool.and_false, Bool.false_eq_true, ↓reduceIte,
        toUpper_toUpper_of_lower (hw c (List.mem_cons_self ..)), lower_upper_of_lower hcs]
  refine ⟨?_, upper_upper_of_lower hw, hcap, ?_⟩
  · rw [lower_upper_of_lower hw, lower_of_lower hw]
  · have hne : w ≠ [] := by intro h; rw [h] at hlen; exact absurd hlen (by decide)
    rw [capOrKeep_lower ⟨hne, hw⟩, capOrKeep, keepAcr, hacr, Bool.and_false]
    simp only [Bool.false_eq_true, ↓reduceIte, hcap]

/-- the words survive an upper-case rendering: longer than two letters and not a known acronym -/
def UpperSafe (A : Acr) (ws : List Bytes) : Prop := ∀ w ∈ ws, 3 ≤ w.length ∧ A.isAcr (upper w) = false
instance (A : Acr) (ws : List Bytes) : Decidable (UpperSafe A ws) := by unfold UpperSafe; infer_instance

def upperStyles : List Style := [.screamingSnake, .screamingTrain, .upperSentence]

theorem rel_rendWords {ws : List Bytes} (hw : Words ws) {sst : Style}
    (hU : sst ∈ upperStyles → UpperSafe A ws) : Rel2 (Rend A) (rendWords ws sst) ws := by
  have hup : sst ∈ upperStyles → Rel2 (Rend A) (ws.map upper) ws := fun h =>
    Rel2.map_left (fun w hx => rend_upper (hU h w hx).1 (hw w hx).2 (hU h w hx).2)
  have hcap : ∀ {xs : List Bytes}, Words xs → Rel2 (Rend A) (xs.map capitalizeFirst) xs := fun h =>
    Rel2.map_left (fun w hx => rend_cap (h w hx))
  cases sst <;> simp only [rendWords]
  · exact Rel2.refl rend_refl ws
  · exact Rel2.refl rend_refl ws
  · cases ws with
    | nil => trivial
    | cons w r => exact ⟨rend_refl w, hcap hw.tail⟩
  · exact hcap hw
  · exact hup (by decide)
  · exact hcap hw
  · exact hcap hw
  · exact hup (by decide)
  · exact Rel2.refl rend_refl ws
  · exact Rel2.refl rend_refl ws
  · exact Rel2.refl rend_refl ws
  · cases ws with
    | nil => trivial
    | cons w r => exact ⟨rend_cap (hw w (List.mem_cons_self ..)), Rel2.refl rend_refl r⟩
  · exact Rel2.refl rend_refl ws
  · exact hup (by decide)

/-- the tokens of a name typed in style `sst` render in every style like the words themselves -/
theorem toStyle_parse_toStyle (hA : AcrOk A) (hS : AcrStable A) {ws : List Bytes} (hw : Words ws)
    (hN : Neutral A ws) {sst : Style} (hsst : sst ∈ V12) (hU : sst ∈ upperStyles → UpperSafe A ws) (st : Style) :
    toStyle A (parse A (toStyle A ws sst)) st = toStyle A ws st := by
  rw [parse_rendWords hA hS hw hN hsst]
  exact toStyle_congr (rel_rendWords hw hU) st

-- distinct styles give distinct renderings ------------------------------------------------------------------------------

theorem toStyle_inj (A : Acr) {ws : List Bytes} (h2 : 2 ≤ ws.length) (hw : Words ws) {st st' : Style}
    (hst : st ∈ V12) (h : toStyle A ws st' = toStyle A ws st) : st' = st := by
  have hd := detect_toStyle A h2 hw hst
  rw [← h] at hd
  by_cases hst' : st' ∈ V12
  · rw [detect_toStyle A h2 hw hst'] at hd
    exact Option.some.inj hd
  · have hl := hw.lowerWords
    cases st' <;> first
      | exact absurd (by decide) hst'
      | (rw [toStyle_words A hl] at hd; simp only [] at hd
         first
           | (rw [detect_upperFlat A hl] at hd; exact absurd hd (by simp))
           | (rw [detect_lowerFlat A hl] at hd; exact absurd hd (by simp)))

-- the table ------------------------------------------------------------------------------------------------------------------------

/-- the search term rendered in an enabled boundary-visible style is mapped to the replacement in that style -/
theorem variant_lookup (hA : AcrOk A) (hS : AcrStable A) {ws_s ws_r : List Bytes} {sst rst st : Style}
    {styles : Option (List Style)} {plurals : Bool} {sing plur : Bytes → Option Bytes} {isAmb : Bool}
    (h2 : 2 ≤ ws_s.length) (hws : Words ws_s) (hwr : Words ws_r) (hNs : Neutral A ws_s) (hNr : Neutral A ws_r)
    (hsst : sst ∈ V12) (hrst : rst ∈ V12)
    (hUs : sst ∈ upperStyles → UpperSafe A ws_s) (hUr : rst ∈ upperStyles → UpperSafe A ws_r)
    (hst : st ∈ styles.getD Gen.variantMapDefaultStyles) (hst12 : st ∈ V12)
    (hcol : ∀ st' ∈ styles.getD Gen.variantMapDefaultStyles,
      ∀ m ∈ (variantModels plurals sing plur (parse A (toStyle A ws_s sst)) (parse A (toStyle A ws_r rst))).tail,
        toStyle A m.1 st' ≠ toStyle A ws_s st)
    (hov : ¬ (styles = none ∧ isAmb = false ∧ st = sst ∧ sst ≠ rst)) :
    (variantMap A styles plurals sing plur isAmb (toStyle A ws_s sst) (toStyle A ws_r rst)).lookup
      (toStyle A ws_s st) = some (toStyle A ws_r st) := by
  have hS' : ∀ st', toStyle A (parse A (toStyle A ws_s sst)) st' = toStyle A ws_s st' :=
    toStyle_parse_toStyle hA hS hws hNs hsst hUs
  have hR' : ∀ st', toStyle A (parse A (toStyle A ws_r rst)) st' = toStyle A ws_r st' :=
    toStyle_parse_toStyle hA hS hwr hNr hrst hUr
  have hrows : (variantRows A (styles.getD Gen.variantMapDefaultStyles)
      (variantModels plurals sing plur (parse A (toStyle A ws_s sst)) (parse A (toStyle A ws_r rst)))).lookup
      (toStyle A ws_s st) = some (toStyle A ws_r st) := by
    apply lookup_of_all
    · refine ⟨(toStyle A (parse A (toStyle A ws_s sst)) st, toStyle A (parse A (toStyle A ws_r rst)) st), ?_, hS' st⟩
      rw [mem_variantRows]
      exact ⟨st, hst, (_, _), by rw [variantModels]; exact List.mem_cons_self .., rfl⟩
    · intro e he hek
      rw [mem_variantRows] at he
      obtain ⟨st', hst', m, hm, rfl⟩ := he
      rw [variantModels] at hm
      rcases List.mem_cons.mp hm with rfl | hm
      · simp only [hS', hR'] at hek ⊢
        rw [toStyle_inj A h2 hws hst12 hek]
      · exact absurd hek (hcol st' hst' m hm)
  simp only [variantMap]
  split
  · next hc =>
    simp only [Bool.and_eq_true, Option.isNone_iff_eq_none, Bool.not_eq_true'] at hc
    rw [lookup_insertOverride]
    split
    · next hk =>
      rw [beq_iff_eq] at hk
      have hst_eq : st = sst := toStyle_inj A h2 hws hsst hk
      have hsr : sst = rst := by
        by_cases h : sst = rst
        · exact h
        · exact absurd ⟨hc.1, hc.2, hst_eq, h⟩ hov
      rw [hst_eq, hsr]
    · rw [lookup_buildMap]; exact hrows
  · rw [lookup_buildMap]; exact hrows

/-- the collision case: an earlier row with the same key (for instance a singular/plural row generated for an
    earlier style) wins over the base row -/
theorem variant_lookup_collision {k : Bytes} (pre : List (Bytes × Bytes)) (e : Bytes × Bytes)
    (post : List (Bytes × Bytes)) (hpre : ∀ x ∈ pre, x.1 ≠ k) (he : e.1 = k) :
    (buildMap (pre ++ e :: post)).lookup k = some e.2 := by
  rw [lookup_buildMap]; exact lookup_first pre e post hpre he

end CaseModel
