import RModel.Lemmas.LineMap
import RModel.Lemmas.CaseModelVariant
/-
  C06 lemmas, part 6: every rendering of a non-empty list of lower-case words starts and ends with a letter; consequences
  for the alternation on a line with neutral delimiters.
-/
open B CaseModel

namespace LinePipeline

def Ends (x : Bytes) : Prop :=
  (∃ c cs, x = c :: cs ∧ isAlpha c = true) ∧ ∃ z, x.getLast? = some z ∧ isAlpha z = true

theorem getLast?_mem_alpha {r : Bytes} (hr : r ≠ []) (ha : ∀ x ∈ r, isAlpha x = true) :
    ∃ z, r.getLast? = some z ∧ isAlpha z = true := by
  have := List.getLast?_eq_some_getLast hr
  exact ⟨_, this, ha _ (List.getLast_mem hr)⟩

theorem last_join (sep : Bytes) : ∀ {rs : List Bytes}, rs ≠ [] → (∀ r ∈ rs, r ≠ []) →
    ∃ r ∈ rs, (joinWith sep rs).getLast? = r.getLast?
  | [], h, _ => absurd rfl h
  | [r], _, _ => ⟨r, List.mem_singleton.mpr rfl, rfl⟩
  | a :: b :: l, _, hne => by
    obtain ⟨r, hr, h⟩ := last_join sep (rs := b :: l) (by simp) (fun r hr => hne r (List.mem_cons_of_mem _ hr))
    refine ⟨r, List.mem_cons_of_mem _ hr, ?_⟩
    rw [joinWith_cons_cons, List.getLast?_append, h]
    have : r.getLast?.isSome = true := by
      rw [List.getLast?_isSome]; exact hne r (List.mem_cons_of_mem _ hr)
    obtain ⟨z, hz⟩ := Option.isSome_iff_exists.mp this
    simp [hz]

theorem last_concat : ∀ {rs : List Bytes}, rs ≠ [] → (∀ r ∈ rs, r ≠ []) →
    ∃ r ∈ rs, (concat rs).getLast? = r.getLast?
  | [], h, _ => absurd rfl h
  | [r], _, _ => ⟨r, List.mem_singleton.mpr rfl, by simp [concat]⟩
  | a :: b :: l, _, hne => by
    obtain ⟨r, hr, h⟩ := last_concat (rs := b :: l) (by simp) (fun r hr => hne r (List.mem_cons_of_mem _ hr))
    refine ⟨r, List.mem_cons_of_mem _ hr, ?_⟩
    rw [concat_cons, List.getLast?_append, h]
    have : r.getLast?.isSome = true := by
      rw [List.getLast?_isSome]; exact hne r (List.mem_cons_of_mem _ hr)
    obtain ⟨z, hz⟩ := Option.isSome_iff_exists.mp this
    simp [hz]

theorem ends_join (sep : Bytes) {rs : List Bytes} (hne : rs ≠ []) (hr : ∀ r ∈ rs, r ≠ []) (ha : AlphaWords rs) :
    Ends (joinWith sep rs) := by
  constructor
  · obtain ⟨a, l, rfl⟩ := List.exists_cons_of_ne_nil hne
    obtain ⟨c, a', rfl⟩ := List.exists_cons_of_ne_nil (hr a (List.mem_cons_self ..))
    obtain ⟨r', h⟩ := joinWith_head sep c a' l
    exact ⟨c, r', h, ha _ (List.mem_cons_self ..) c (List.mem_cons_self ..)⟩
  · obtain ⟨r, hrm, h⟩ := last_join sep hne hr
    rw [h]
    exact getLast?_mem_alpha (hr r hrm) (ha r hrm)

theorem ends_concat {rs : List Bytes} (hne : rs ≠ []) (hr : ∀ r ∈ rs, r ≠ []) (ha : AlphaWords rs) :
    Ends (concat rs) := by
  constructor
  · obtain ⟨a, l, rfl⟩ := List.exists_cons_of_ne_nil hne
    obtain ⟨c, a', rfl⟩ := List.exists_cons_of_ne_nil (hr a (List.mem_cons_self ..))
    exact ⟨c, a' ++ concat l, rfl, ha _ (List.mem_cons_self ..) c (List.mem_cons_self ..)⟩
  · obtain ⟨r, hrm, h⟩ := last_concat hne hr
    rw [h]
    exact getLast?_mem_alpha (hr r hrm) (ha r hrm)

theorem upper_words_ne {ws : List Bytes} (h : LowerWords ws) : ∀ r ∈ ws.map upper, r ≠ [] := by
  intro r hr
  rw [List.mem_map] at hr
  obtain ⟨w, hw, rfl⟩ := hr
  exact upper_ne_nil (h w hw).1

/-- every rendering of a non-empty list of words starts and ends with a letter -/
theorem render_ends (A : Acr) {ws : List Bytes} (hne : ws ≠ []) (hw : Words ws) (st : Style) :
    Ends (toStyle A ws st) := by
  have hl := hw.lowerWords
  have hcap := caps_of_words hw
  have hcne : ∀ r ∈ ws.map capitalizeFirst, r ≠ [] := fun r hr => isCap_ne_nil (hcap r hr)
  have hmne : ws.map capitalizeFirst ≠ [] := by simpa using hne
  have hune : ws.map upper ≠ [] := by simpa using hne
  have hlne : ∀ r ∈ ws, r ≠ [] := fun r hr => (hl r hr).1
  rw [toStyle_words A hl]
  cases st <;> simp only []
  · exact ends_join _ hne hlne (alpha_lowerWords hl)
  · exact ends_join _ hne hlne (alpha_lowerWords hl)
  · obtain ⟨w, r, rfl⟩ := List.exists_cons_of_ne_nil hne
    simp only []
    rw [← concat_cons]
    refine ends_concat (by simp) ?_ ?_
    · intro x hx
      rcases List.mem_cons.mp hx with rfl | hx
      · exact (hl _ (List.mem_cons_self ..)).1
      · exact isCap_ne_nil (caps_of_words hw.tail x hx)
    · intro x hx
      rcases List.mem_cons.mp hx with rfl | hx
      · exact alpha_lowerWords hl _ (List.mem_cons_self ..)
      · exact alpha_cap (caps_of_words hw.tail x hx)
  · exact ends_concat hmne hcne (alpha_capWords hcap)
  · exact ends_join _ hune (upper_words_ne hl) (alpha_upperWords hl)
  · exact ends_join _ hmne hcne (alpha_capWords hcap)
  · exact ends_join _ hmne hcne (alpha_capWords hcap)
  · exact ends_join _ hune (upper_words_ne hl) (alpha_upperWords hl)
  · exact ends_join _ hne hlne (alpha_lowerWords hl)
  · exact ends_concat hne hlne (alpha_lowerWords hl)
  · exact ends_concat hune (upper_words_ne hl) (alpha_upperWords hl)
  · obtain ⟨w, r, rfl⟩ := List.exists_cons_of_ne_nil hne
    simp only []
    refine ends_join _ (by simp) ?_ ?_
    · intro x hx
      rcases List.mem_cons.mp hx with rfl | hx
      · exact isCap_ne_nil (isCap_capitalizeFirst (hw _ (List.mem_cons_self ..)))
      · exact (hl x (List.mem_cons_of_mem _ hx)).1
    · intro x hx
      rcases List.mem_cons.mp hx with rfl | hx
      · exact alpha_cap (isCap_capitalizeFirst (hw _ (List.mem_cons_self ..)))
      · exact alpha_lowerWords hl x (List.mem_cons_of_mem _ hx)
  · exact ends_join _ hne hlne (alpha_lowerWords hl)
  · exact ends_join _ hune (upper_words_ne hl) (alpha_upperWords hl)

-- consequences for the alternation ---------------------------------------------------------------------------------------------

theorem alpha_not_neutral {c : UInt8} (ha : isAlpha c = true) : neutralByte c = false := by
  simp only [neutralByte, isAlnum, ha, Bool.true_or, Bool.not_true, Bool.and_false, Bool.false_and]

/-- keys that start with a letter cannot start inside a neutral delimiter -/
theorem noStart_neutral {ks : List Bytes} {d : Bytes} (hk : ∀ k ∈ ks, Ends k) (hd : NeutralDelim d) :
    NoStart (sortKeys ks) d := by
  intro c hc k hkm hh
  obtain ⟨⟨a, r, rfl, ha⟩, _⟩ := hk k (mem_sortKeys.mp hkm)
  simp only [List.head?_cons, Option.some.injEq] at hh
  subst hh
  have := hd _ hc
  rw [alpha_not_neutral ha] at this
  exact absurd this (by decide)

/-- a key cannot reach beyond the occurrence into the delimiter: it would end with a delimiter byte -/
theorem no_extension {x d₂ k : Bytes} (hk : Ends k) (hd : NeutralDelim d₂) (hp : k <+: x ++ d₂)
    (hlt : x.length < k.length) : False := by
  obtain ⟨t, ht⟩ := hp
  obtain ⟨_, z, hz, hza⟩ := hk
  -- k = x ++ p with p a non-empty prefix of d₂
  have hxk : x <+: k := List.prefix_of_prefix_length_le (List.prefix_append x d₂) ⟨t, ht⟩ (Nat.le_of_lt hlt)
  obtain ⟨p, hp⟩ := hxk
  have hpne : p ≠ [] := by
    intro h0; rw [h0, List.append_nil] at hp; rw [hp] at hlt; exact absurd hlt (Nat.lt_irrefl _)
  have hd2 : d₂ = p ++ t := by
    rw [← hp, List.append_assoc] at ht
    exact (List.append_cancel_left ht).symm
  have hzl : p.getLast? = some z := by
    rw [← hp, List.getLast?_append] at hz
    obtain ⟨q, hq⟩ := Option.isSome_iff_exists.mp (List.getLast?_isSome.mpr hpne)
    rw [hq] at hz ⊢
    simpa using hz
  have hzm : z ∈ d₂ := by
    rw [hd2]
    exact List.mem_append_left _ (List.mem_of_getLast? hzl)
  have := hd z hzm
  rw [alpha_not_neutral hza] at this
  exact absurd this (by decide)

end LinePipeline
