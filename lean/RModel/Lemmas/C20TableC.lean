import RModel.Lemmas.C20Base
/- C20: part C of the decision table, kernel-evaluated (`decide +kernel`, no `native_decide`). -/
namespace C20
open Wrap Cli

set_option maxRecDepth 1000000 in
theorem tableC : tableOn ((Gen.Wrappers.builders.drop cutA).drop cutB) = true := by decide +kernel

end C20
