import RModel.Model.Edits

namespace Edits

theorem run_append (orig : Bytes) (m : Bytes) (xs ys : List Edit) :
    run orig m (xs ++ ys) =
      match run orig m xs with
      | .error x => .error x
      | .ok m' => run orig m' ys := by
  induction xs generalizing m with
  | nil => simp [run, runG]
  | cons x xs ih =>
    simp only [List.cons_append, run, runG]
    cases stepG true orig m x with
    | error e => simp
    | ok m' => simpa [run] using ih m'

theorem applyEdits_cons (c : Bytes) (e : Edit) (es : List Edit) :
    applyEdits c (e :: es) =
      match applyEdits c es with
      | .error x => .error x
      | .ok m => step c m e := by
  have h := run_append c c es.reverse [e]
  have h1 : applyEdits c (e :: es) = run c c (es.reverse ++ [e]) := by
    simp [applyEdits, applyEditsG, run, List.reverse_cons]
  have h2 : applyEdits c es = run c c es.reverse := rfl
  rw [h1, h, h2]
  cases run c c es.reverse with
  | error x => rfl
  | ok m =>
    simp only [run, runG, step]
    cases stepG true c m e <;> rfl

theorem boundary_getElem {c : Bytes} {i : Nat} (h0 : i ≠ 0) (hb : isCharBoundary c i = true)
    {b : UInt8} (hc : c[i]? = some b) : isCont b = false := by
  unfold isCharBoundary at hb
  simp only [h0, if_false, hc] at hb
  simpa using hb

theorem consistent_le {c : Bytes} {off : Nat} {es : List Edit} (h : Consistent c off es) :
    off ≤ c.length := by
  induction es generalizing off with
  | nil => simpa [Consistent] using h
  | cons e es ih =>
    obtain ⟨h1, h2, h3, _⟩ := h
    omega

/-- the text following position `off` in the result never starts with a continuation byte -/
theorem spec_head (c : Bytes) (off : Nat) (es : List Edit) (h0 : off ≠ 0)
    (hb : isCharBoundary c off = true) (h : Consistent c off es) :
    ∀ b, (spec c off es).head? = some b → isCont b = false := by
  induction es generalizing off with
  | nil =>
    intro b hh
    simp only [spec] at hh
    have : c[off]? = some b := by
      rw [List.head?_drop] at hh; exact hh
    exact boundary_getElem h0 hb this
  | cons e es ih =>
    obtain ⟨h1, h2, h3, hbs, hbe, _, hafter, hrest⟩ := h
    intro b hh
    simp only [spec] at hh
    by_cases hlt : off < e.start
    · -- the copied segment is non-empty, its head is c[off]
      have hlen : off < c.length := by omega
      have : (List.take (e.start - off) (List.drop off c) ++ e.after ++ spec c e.stop es).head?
          = c[off]? := by
        have hne : List.take (e.start - off) (List.drop off c) ≠ [] := by
          intro hnil
          have := congrArg List.length hnil
          simp at this
          omega
        have hk : e.start - off ≠ 0 := by omega
        have hd : (List.drop off c).head? = c[off]? := List.head?_drop
        have hsome : c[off]? = some c[off] := by simp [hlen]
        rw [List.append_assoc, List.head?_append, List.head?_take, if_neg hk, hd, hsome]
        rfl
      rw [this] at hh
      exact boundary_getElem h0 hb hh
    · have hz : e.start - off = 0 := by omega
      rw [hz] at hh
      simp only [List.take_zero, List.nil_append] at hh
      cases ha : e.after with
      | nil =>
        rw [ha] at hh
        simp only [List.nil_append] at hh
        exact ih e.stop (by omega) hbe hrest b hh
      | cons a as =>
        rw [ha] at hh
        simp only [List.cons_append, List.head?_cons, Option.some.injEq] at hh
        exact hafter b (by rw [ha]; simp [hh])

theorem take_add' (c : Bytes) (a b : Nat) (h : a ≤ b) :
    c.take b = c.take a ++ (c.drop a).take (b - a) := by
  have : b = a + (b - a) := by omega
  conv => lhs; rw [this]
  rw [List.take_add]

/-- Main lemma: applying consistent edits back to front yields the left-to-right specification. -/
theorem applyEdits_prefix (c : Bytes) (off : Nat) (es : List Edit) (h : Consistent c off es) :
    applyEdits c es = .ok (c.take off ++ spec c off es) := by
  induction es generalizing off with
  | nil => simp [applyEdits, applyEditsG, runG, spec]
  | cons e es ih =>
    obtain ⟨h1, h2, h3, hbs, hbe, hbefore, hafter, hrest⟩ := h
    rw [applyEdits_cons, ih e.stop hrest]
    simp only [step, stepG]
    have hslice : sliceStr c e.start e.stop = some e.before := by
      unfold sliceStr
      rw [if_pos ⟨h2, h3, hbs, hbe⟩, hbefore]
    rw [hslice]
    simp only [ne_eq, not_true_eq_false, if_false]
    -- the working copy
    have hlen : (c.take e.stop).length = e.stop := by simp; omega
    have hmlen : e.stop ≤ (c.take e.stop ++ spec c e.stop es).length := by
      rw [List.length_append, hlen]; omega
    -- boundary at stop in the working copy
    have hb2 : isCharBoundary (c.take e.stop ++ spec c e.stop es) e.stop = true := by
      unfold isCharBoundary
      by_cases hz : e.stop = 0
      · simp [hz]
      · simp only [hz, if_false]
        have hidx : (c.take e.stop ++ spec c e.stop es)[e.stop]? = (spec c e.stop es)[0]? := by
          rw [List.getElem?_append_right (by omega)]; simp [hlen]
        rw [hidx]
        cases hs : (spec c e.stop es)[0]? with
        | none =>
          have : (spec c e.stop es) = [] := by
            cases hsp : spec c e.stop es with
            | nil => rfl
            | cons x xs => rw [hsp] at hs; simp at hs
          simp [this, hlen]
        | some b =>
          have hh : (spec c e.stop es).head? = some b := by
            rw [List.head?_eq_getElem?]; exact hs
          have := spec_head c e.stop es hz hbe hrest b hh
          simp [this]
    have hb1 : isCharBoundary (c.take e.stop ++ spec c e.stop es) e.start = true := by
      by_cases heq : e.start = e.stop
      · rw [heq]; exact hb2
      · unfold isCharBoundary
        by_cases hz : e.start = 0
        · simp [hz]
        · simp only [hz, if_false]
          have hlt : e.start < e.stop := by omega
          have hidx : (c.take e.stop ++ spec c e.stop es)[e.start]? = c[e.start]? := by
            rw [List.getElem?_append_left (by omega), List.getElem?_take]
            simp [hlt]
          rw [hidx]
          have hin : e.start < c.length := by omega
          have hsome : c[e.start]? = some c[e.start] := by simp [hin]
          rw [hsome]
          have := boundary_getElem hz hbs hsome
          simp [this]
    have hrr : replaceRange (c.take e.stop ++ spec c e.stop es) e.start e.stop e.after
        = some (c.take off ++ spec c off (e :: es)) := by
      unfold replaceRange
      rw [if_pos ⟨h2, hmlen, hb1, hb2⟩]
      congr 1
      rw [List.take_append_of_le_length (by omega), List.drop_append_of_le_length (by omega)]
      have h5 : List.drop e.stop (List.take e.stop c) = [] := by simp
      have h6 : List.take e.start (List.take e.stop c) = List.take e.start c := by
        rw [List.take_take]; congr 1; omega
      rw [h5, h6, take_add' c off e.start h1]
      simp [spec]
    rw [hrr]

theorem applyEdits_eq_spec (c : Bytes) (es : List Edit) (h : Consistent c 0 es) :
    applyEdits c es = .ok (spec c 0 es) := by
  simpa using applyEdits_prefix c 0 es h

end Edits
